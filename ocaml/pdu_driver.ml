(* Driver around the extracted PDU codec model (coq/Extract/PduExtract.v).
   One op per line on stdin, one canonical observation per line on stdout:

     readmany  <hex|-> <sched a,b,c|->   successive ReadPDU calls: observations joined by " | "
     readone   <hex|-> <sched a,b,c|->   one ReadPDU call
     marshal   <id> <fields>              Marshal of the value: ok <hex> | err | panic
     remarshal <hex>                      ReadPDU on the frame, then Marshal of the decoded value: ok <hex> | err | panic | not-decoded

   Observation of one call:  ok <id> <consumed> <fields> | decode-err <id> <seq> <consumed> | unknown-id <c> | bad-len <c>
                             | eof <c> | truncated <c> | panic <c> | fuel <c>
   Fields are joined by ';':  H:len,id,status,seq  S:hex  B:n  b:0|1  E:mode,type,udhi,reply  R:mc,sme,inter,rsv
                              A:ton,npi,hex  D:<A+A..>|<hex+hex..>  U:<A,code>+..  M:dflt,dc,<udh>,hex  T:tag=hex+..  X:n
   (<udh> is "-" for none, "~" for an empty header, else id=hex+id=hex).  Empty octet strings print as "-".
   Only conversions between OCaml int / string and the extracted Coq numerals live here. *)
open Pdu_model

let rec pos_of_int i : positive =
  if i = 1 then XH else if i land 1 = 0 then XO (pos_of_int (i lsr 1)) else XI (pos_of_int (i lsr 1))
let n_of_int i : n = if i = 0 then N0 else Npos (pos_of_int i)
let rec nat_of_int i : nat = if i <= 0 then O else S (nat_of_int (i - 1))
let rec int_of_pos = function XH -> 1 | XO p -> 2 * int_of_pos p | XI p -> 2 * int_of_pos p + 1
let int_of_n = function N0 -> 0 | Npos p -> int_of_pos p
let int_of_z = function Z0 -> 0 | Zpos p -> int_of_pos p | Zneg p -> - (int_of_pos p)

let bytes_of_hex h : n list =
  if h = "-" then []
  else List.init (String.length h / 2) (fun i -> n_of_int (int_of_string ("0x" ^ String.sub h (2 * i) 2)))
let hex (l : n list) =
  if l = [] then "-" else String.concat "" (List.map (fun b -> Printf.sprintf "%02x" (int_of_n b)) l)
let sched_of s : nat list =
  if s = "-" then [] else List.map (fun x -> nat_of_int (int_of_string x)) (String.split_on_char ',' s)

let b2 b = if b then "1" else "0"
let show_addr a = Printf.sprintf "%d,%d,%s" (int_of_n a.a_ton) (int_of_n a.a_npi) (hex a.a_no)
let show_kvs l = String.concat "+" (List.map (fun (k, v) -> Printf.sprintf "%d=%s" (int_of_n k) (hex v)) l)
let show_field = function
  | VHeader h -> Printf.sprintf "H:%d,%d,%d,%d" (int_of_n h.h_len) (int_of_n h.h_id) (int_of_n h.h_status) (int_of_z h.h_seq)
  | VStr s -> "S:" ^ hex s
  | VU8 b -> Printf.sprintf "B:%d" (int_of_n b)
  | VBool b -> "b:" ^ b2 b
  | VEsm e -> Printf.sprintf "E:%d,%d,%s,%s" (int_of_n e.e_mode) (int_of_n e.e_type) (b2 e.e_udhi) (b2 e.e_reply)
  | VRegDel r -> Printf.sprintf "R:%d,%d,%s,%d" (int_of_n r.r_mc) (int_of_n r.r_sme) (b2 r.r_inter) (int_of_n r.r_rsv)
  | VAddr a -> "A:" ^ show_addr a
  | VDests (sme, dl) -> "D:" ^ String.concat "+" (List.map show_addr sme) ^ "|" ^ String.concat "+" (List.map hex dl)
  | VUnsucc l -> "U:" ^ String.concat "+" (List.map (fun (a, c) -> show_addr a ^ "," ^ string_of_int (int_of_n c)) l)
  | VShort m ->
    let u = match m.sm_udh with None -> "-" | Some [] -> "~" | Some l -> show_kvs l in
    Printf.sprintf "M:%d,%d,%s,%s" (int_of_n m.sm_dflt) (int_of_n m.sm_dc) u (hex m.sm_msg)
  | VTags t -> "T:" ^ (if t = [] then "-" else show_kvs t)
  | VSkipped v -> Printf.sprintf "X:%d" (int_of_n v)
let show_fields vs = String.concat ";" (List.map show_field vs)

let show_obs (o, c) =
  let c = int_of_n c in
  match o with
  | OOk (id, vs) -> Printf.sprintf "ok %d %d %s" (int_of_n id) c (show_fields vs)
  | ODecodeErr (id, seq) -> Printf.sprintf "decode-err %d %d %d" (int_of_n id) (int_of_z seq) c
  | OUnknownId -> Printf.sprintf "unknown-id %d" c
  | OBadLen -> Printf.sprintf "bad-len %d" c
  | OEOF -> Printf.sprintf "eof %d" c
  | OTruncated -> Printf.sprintf "truncated %d" c
  | OPanic -> Printf.sprintf "panic %d" c
  | OFuel -> Printf.sprintf "fuel %d" c

(* ---- parsing the canonical field text back into a value (op marshal) *)
let z_of_int i : z = if i = 0 then Z0 else if i > 0 then Zpos (pos_of_int i) else Zneg (pos_of_int (- i))
let ni s = n_of_int (int_of_string s)
let split c s = if s = "" then [] else String.split_on_char c s
let parse_addr s = match String.split_on_char ',' s with
  | [t; n; h] -> { a_ton = ni t; a_npi = ni n; a_no = bytes_of_hex h }
  | _ -> failwith "addr"
let parse_kvs s = List.map (fun e -> match String.split_on_char '=' e with [k; v] -> (ni k, bytes_of_hex v) | _ -> failwith "kv") (split '+' s)
let parse_field f =
  let k = String.sub f 0 1 and v = String.sub f 2 (String.length f - 2) in
  match k with
  | "H" -> (match String.split_on_char ',' v with
            | [l; i; st; sq] -> VHeader { h_len = ni l; h_id = ni i; h_status = ni st; h_seq = z_of_int (int_of_string sq) }
            | _ -> failwith "H")
  | "S" -> VStr (bytes_of_hex v)
  | "B" -> VU8 (ni v)
  | "b" -> VBool (v = "1")
  | "E" -> (match String.split_on_char ',' v with
            | [m; t; u; r] -> VEsm { e_mode = ni m; e_type = ni t; e_udhi = (u = "1"); e_reply = (r = "1") } | _ -> failwith "E")
  | "R" -> (match String.split_on_char ',' v with
            | [m; sm; i; r] -> VRegDel { r_mc = ni m; r_sme = ni sm; r_inter = (i = "1"); r_rsv = ni r } | _ -> failwith "R")
  | "A" -> VAddr (parse_addr v)
  | "D" -> (match String.split_on_char '|' v with
            | [a; d] -> VDests (List.map parse_addr (split '+' a), List.map bytes_of_hex (split '+' d)) | _ -> failwith "D")
  | "U" -> VUnsucc (List.map (fun e -> match String.split_on_char ',' e with
                                       | [t; n; h; c] -> ({ a_ton = ni t; a_npi = ni n; a_no = bytes_of_hex h }, ni c) | _ -> failwith "U") (split '+' v))
  | "M" -> (match String.split_on_char ',' v with
            | [df; dc; u; m] ->
              let udh = if u = "-" then None else if u = "~" then Some [] else Some (parse_kvs u) in
              VShort { sm_dflt = ni df; sm_dc = ni dc; sm_udh = udh; sm_msg = bytes_of_hex m }
            | _ -> failwith "M")
  | "T" -> VTags (if v = "-" then [] else parse_kvs v)
  | "X" -> VSkipped (ni v)
  | _ -> failwith "field"

let run line =
  match String.split_on_char ' ' (String.trim line) with
  | ["readmany"; h; s] -> String.concat " | " (List.map show_obs (run_many (bytes_of_hex h) (sched_of s)))
  | ["readone"; h; s] -> show_obs (run_read (bytes_of_hex h) (sched_of s))
  | ["marshal"; id; fs] ->
    (match marshal (lay (ni id)) (List.map parse_field (String.split_on_char ';' fs)) with
     | Ok f -> "ok " ^ hex f
     | Err _ -> "err"
     | Panic -> "panic")
  | ["remarshal"; h] ->
    let data = bytes_of_hex h in
    (match run_read data [nat_of_int (List.length data + 1)] with
     | (OOk (id, vs), _) ->
       (match marshal (lay id) vs with
        | Ok f -> "ok " ^ hex f
        | Err _ -> "err"
        | Panic -> "panic")
     | _ -> "not-decoded")
  | _ -> "bad-op"

let () =
  try
    while true do
      print_endline (run (input_line stdin))
    done
  with End_of_file -> ()
