(* Driver around the extracted C20 time models (coq/Extract/C20Extract.v).
   Reads one op line per line on stdin (DESIGN.md Appendix B; strings as
   lower-case hex, "-" for the empty string, integers in decimal) and prints
   one canonical observation per line on stdout:

     timeparse <hex>         -> ok <tenths> <q> | err | panic
     timefmt   <tenths> <q>  -> ok <hex>        | err | panic
     durparse  <hex>         -> ok <tenths>     | err | panic
     durfmt    <tenths>      -> ok <hex>        | err | panic

   Only conversions between OCaml int / string and the extracted Coq
   numerals live here; no arithmetic of the model is re-implemented. *)
open C20_model

let rec pos_of_int i : positive =
  if i = 1 then XH else if i land 1 = 0 then XO (pos_of_int (i lsr 1)) else XI (pos_of_int (i lsr 1))
let n_of_int i : n = if i = 0 then N0 else Npos (pos_of_int i)
let z_of_int i : z = if i = 0 then Z0 else if i > 0 then Zpos (pos_of_int i) else Zneg (pos_of_int (- i))
let rec int_of_pos = function XH -> 1 | XO p -> 2 * int_of_pos p | XI p -> 2 * int_of_pos p + 1
let int_of_n = function N0 -> 0 | Npos p -> int_of_pos p
let int_of_z = function Z0 -> 0 | Zpos p -> int_of_pos p | Zneg p -> - (int_of_pos p)

let bytes_of_hex h : n list =
  if h = "-" then []
  else List.init (String.length h / 2) (fun i -> n_of_int (int_of_string ("0x" ^ String.sub h (2 * i) 2)))
let hex_of_bytes (l : n list) : string =
  if l = [] then "-" else String.concat "" (List.map (fun b -> Printf.sprintf "%02x" (int_of_n b)) l)

let show_str = function
  | Ok s -> "ok " ^ hex_of_bytes s
  | Err _ -> "err"
  | Panic -> "panic"

let run line =
  match String.split_on_char ' ' (String.trim line) with
  | ["timeparse"; h] ->
    (match time_parse (bytes_of_hex h) with
     | Ok (t, q) -> Printf.sprintf "ok %d %d" (int_of_z t) (int_of_z q)
     | Err _ -> "err"
     | Panic -> "panic")
  | ["timefmt"; t; q] -> show_str (time_format (z_of_int (int_of_string t), z_of_int (int_of_string q)))
  | ["durparse"; h] ->
    (match dur_parse (bytes_of_hex h) with
     | Ok d -> Printf.sprintf "ok %d" (int_of_z d)
     | Err _ -> "err"
     | Panic -> "panic")
  | ["durfmt"; d] -> show_str (dur_format (z_of_int (int_of_string d)))
  | _ -> "bad-op"

let () =
  try
    while true do
      print_endline (run (input_line stdin))
    done
  with End_of_file -> ()
