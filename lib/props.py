"""Per-property configuration, assembled from lib/props.d/<PID>.py.

Each props.d file defines:
  PROP      dict for the driver (lib/vf.py):
              gen          tables regenerated from the running code before the proofs are re-checked
              proof_files  Coq files whose statements are this property's obligations
                           (Properties/<PID>.v first; its make target pulls in everything it depends on)
              model_files  executable models the generated cases evaluate (built even if a proof broke)
              trusted, assumptions   strings copied into the evidence file
              race         True if the check also needs the -race harness binary
  GEN       dict table-name -> Gen/*.v path (tables this property introduced)
  MANIFEST  dict(engine, design_ref, technique, text, note)
  ENGINE    optional dict(name, path, serves_properties, kind_free_text)
  SETUP     optional list of commands (argv lists, relative to the tree root) that `./check setup` runs
            after the Coq build, e.g. building an extracted OCaml model into .work/
"""
import glob
import importlib.util
import os

PROPS, GEN_FILES, MANIFEST_TEXT, ENGINES, SETUP_CMDS = {}, {}, {}, [], []
_d = os.path.join(os.path.dirname(os.path.abspath(__file__)), "props.d")
for _f in sorted(glob.glob(os.path.join(_d, "C*.py"))):
    _pid = os.path.basename(_f)[:-3]
    _spec = importlib.util.spec_from_file_location("props_" + _pid, _f)
    _m = importlib.util.module_from_spec(_spec)
    _spec.loader.exec_module(_m)
    PROPS[_pid] = _m.PROP
    GEN_FILES.update(getattr(_m, "GEN", {}))
    MANIFEST_TEXT[_pid] = _m.MANIFEST
    for _c in getattr(_m, "SETUP", []):
        if _c not in SETUP_CMDS:
            SETUP_CMDS.append(_c)
    _e = getattr(_m, "ENGINE", None)
    if _e:
        for _x in ENGINES:
            if _x["name"] == _e["name"]:
                _x["serves_properties"] = sorted(set(_x["serves_properties"]) | set(_e["serves_properties"]))
                break
        else:
            ENGINES.append(dict(_e))

_PENDING = "check not built yet (work in progress; the property is in scope of the technique, see DESIGN.md §5)"
NOT_APPLICABLE = [{"property_id": "C%02d" % i, "reason": _PENDING} for i in range(1, 21) if "C%02d" % i not in PROPS]
