# Per-property configuration of the driver (lib/vf.py).
#   gen          tables regenerated from the running code before the proofs are re-checked
#   proof_files  Coq files whose statements are this property's obligations
#                (Properties/Cxx.v first; its `make` target pulls in everything it depends on)
#   model_files  executable models the generated cases evaluate (built even if a proof broke)
GEN_FILES = {
    "octets": "Gen/Octets.v",
}

PROPS = {
    "C20": dict(
        gen=["octets"],
        proof_files=["Properties/C20.v", "Proofs/FlagsProofs.v", "Proofs/OctetTables.v"],
        model_files=["Model/Flags.v"],
        trusted=["Gen/Octets.v is the complete 256-row tabulation of the running octet codecs (dumper: harness/gen_octets.go)"],
        assumptions=["encoding/json, fmt.Sscanf, time.Date and time.Time accessors are Go library code, tied by the exhaustive table / the generated cases only"],
    ),
}

ENGINES = [
    {"name": "scalar", "path": "coq/Model/Flags.v coq/Model/SmppTime.v harness/c20.go", "serves_properties": ["C20"],
     "kind_free_text": "Coq model + exhaustive octet tables regenerated from the code + kernel-evaluated correspondence cases"},
]

_PENDING = "check not built yet (work in progress in this session; the property is in scope of the technique, see DESIGN.md §5)"
NOT_APPLICABLE = [{"property_id": "C%02d" % i, "reason": _PENDING} for i in range(1, 21) if "C%02d" % i not in PROPS]

MANIFEST_TEXT = {
    "C20": dict(
        engine="scalar",
        design_ref="DESIGN.md §5 C20",
        technique="Coq proof (kernel sweeps over all 256 octets lifted to forall; table regenerated from code) + vm_compute correspondence",
        text="Theorems in coq/Properties/C20.v: decode/encode identity and SMPP bit positions for esm_class and registered_delivery, "
             "JSON round trip of interface_version, for all 256 octets, proved of the model AND of the complete table dumped from the "
             "running code on this run (so the theorem speaks about the code, not a sample).",
        note="Trusted: Coq kernel + vm_compute; the Go table dumper; Go's encoding/json, fmt and time packages (library code, tied by the tables / cases). "
             "No axioms (Print Assumptions: closed under the global context).",
    ),
}
