PROP = dict(
    cover_pkgs=["pdu"],
    gen=["layouts"],
    proof_files=["Properties/C12.v", "Proofs/PduMarshalProofs.v", "Proofs/PduHazardProofs.v"],
    model_files=["Model/Pdu.v", "Model/PduRun.v", "Model/PduHazards.v"],
    trusted=["Gen/PduLayouts.v: reflect walk of the command_id registry (hook pdu.VerifTypes, build tag verif), classifying each field as Marshal/unmarshal dispatch it",
             "Go value -> Gallina term printer harness/pdu_common.go"],
    assumptions=["bytes.Buffer, encoding/binary, reflect, sort are Go library code (modelled, tied by the generated cases)",
                 "the destination io.Writer is modelled as a state (octets held, Write calls, remaining capacity: Model/PduHazards.v wstate); "
                 "destinations tried: recording writer, *bytes.Buffer and a wrapper already holding octets, a writer that gives up after k octets"],
)
GEN = {"layouts": "Gen/PduLayouts.v"}
ENGINE = {"name": "pdu", "path": "coq/Model/Pdu.v coq/Proofs/Pdu*.v harness/pdu_common.go harness/c01.go harness/c12.go",
          "serves_properties": ["C12"], "kind_free_text": "Coq model of the reflection-driven PDU codec over layouts regenerated from the code + kernel-evaluated correspondence"}
MANIFEST = dict(
    engine="pdu",
    design_ref="DESIGN.md §5 C12",
    technique="Coq proof over all layouts and all value lists (case analysis + induction) + vm_compute correspondence on generated unconstrained values",
    text="Theorems in coq/Properties/C12.v about marshal_io, the Marshal model written with a private buffer, bounds-checked in-place patches that can "
         "yield Panic and an explicit destination state: for every layout, value list and destination it never panics; on an encoding error the "
         "destination is unchanged; on success the destination holds what it held followed by exactly one frame whose first four octets state the "
         "octets written (= returned count); a destination that gives up has a prefix of the frame; a second Marshal of the same pointer has the same outcome. "
         "marshal_io refines the functional model marshal used by C01 C02 C13. The model is tied to the code by "
         "layouts regenerated from the registry and by evaluating the model inside coqc on every value the implementation marshalled in this run.",
    note="Trusted: Coq kernel + vm_compute; layout dumper and Go->Gallina value printer; Go library code (bytes, binary, reflect, sort). No axioms.",
)
