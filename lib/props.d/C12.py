PROP = dict(
    cover_pkgs=["pdu"],
    gen=["layouts"],
    proof_files=["Properties/C12.v", "Proofs/PduMarshalProofs.v", "Proofs/PduHazardProofs.v"],
    model_files=["Model/Pdu.v", "Model/PduRun.v", "Model/PduHazards.v"],
    trusted=["Gen/PduLayouts.v: reflect walk of the command_id registry (hook pdu.VerifTypes, build tag verif), classifying each field as Marshal/unmarshal dispatch it",
             "Go value -> Gallina term printer harness/pdu_common.go"],
    assumptions=["bytes.Buffer, encoding/binary, reflect, sort are Go library code (modelled, tied by the generated cases)",
                 "the destination io.Writer is only called through bytes.Buffer.WriteTo (one Write call)"],
)
GEN = {"layouts": "Gen/PduLayouts.v"}
ENGINE = {"name": "pdu", "path": "coq/Model/Pdu.v coq/Proofs/Pdu*.v harness/pdu_common.go harness/c01.go harness/c12.go",
          "serves_properties": ["C12"], "kind_free_text": "Coq model of the reflection-driven PDU codec over layouts regenerated from the code + kernel-evaluated correspondence"}
MANIFEST = dict(
    engine="pdu",
    design_ref="DESIGN.md §5 C12",
    technique="Coq proof over all layouts and all value lists (case analysis + induction) + vm_compute correspondence on generated unconstrained values",
    text="Theorems in coq/Properties/C12.v: for every layout and every value list, the Marshal model never panics; on success the destination "
         "received exactly one frame whose first four octets state its length; on error it received nothing. The model is tied to the code by "
         "layouts regenerated from the registry and by evaluating the model inside coqc on every value the implementation marshalled in this run.",
    note="Trusted: Coq kernel + vm_compute; layout dumper and Go->Gallina value printer; Go library code (bytes, binary, reflect, sort). No axioms.",
)
