PROP = dict(
    cover_pkgs=["pdu"],
    gen=["layouts"],
    proof_files=["Properties/C02.v", "Proofs/PduSpecProofs.v", "Proofs/PduConverseProofs.v", "Spec/Smpp5.v", "Proofs/PduRoundtripProofs.v"],
    model_files=["Model/Pdu.v", "Model/PduRun.v", "Spec/Smpp5.v", "Proofs/PduSpecProofs.v"],
    trusted=["coq/Spec/Smpp5.v: hand transcription of the SMPP v5.0 syntax tables 4-1..4-41 (each entry cites its table) and of the parameter encodings of section 3.1",
             "Gen/PduLayouts.v: registry dump incl. field_names (Go field name -> specification parameter name dictionary in harness/gen_names.go; unknown names are wildcards)",
             "harness/c02.go goldens: 21 frames written parameter by parameter from the cited tables"],
    assumptions=["parameter maximum lengths of the tables (e.g. system_id max 16) are not enforced by the library and not claimed by the property",
                 "flag structs (esm_class, registered_delivery) are within their bit widths; UDH present exactly when the UDH indicator is set"],
)
MANIFEST = dict(
    engine="pdu",
    design_ref="DESIGN.md §5 C02",
    technique="Coq proof: generated layouts = independent SMPP v5 table (kernel computation), encoder model = specification encoder for all well-formed values (induction over fields), TLV / destination order irrelevance, expressibility; vm_compute of the specification encoder against the implementation's frames",
    text="Theorems in coq/Properties/C02.v: every registered layout (regenerated from the code) has the parameter list and names of its SMPP v5 table (exceptions computed: query_sm_resp lacks error_code = known finding D5); "
         "for every well-formed value the Marshal model's frame equals the frame laid out by an independent specification encoder, and that frame decodes back to the value, with TLVs and destination entries in any order; "
         "whatever Marshal accepts is well formed (no misstatement). Tied by evaluating the specification encoder inside coqc against the octets the implementation wrote, and by by-name golden frames.",
    note="Trusted: Coq kernel + vm_compute; the hand transcription of the specification tables; registry/name dumper; Go library code. No axioms.",
)
ENGINE = {"name": "pdu", "path": "", "serves_properties": ["C02"], "kind_free_text": ""}
