PROP = dict(
    gen=["tpdulayouts", "smsoctets"],
    proof_files=["Properties/C18.v", "Proofs/TpduTotal.v", "Proofs/TpduReader.v", "Proofs/TpduReaderCompose.v"],
    model_files=["Model/SemiOctet.v", "Model/Tpdu.v", "Model/TpduRun.v", "Model/TpduReader.v", "Model/TpduReaderRun.v", "Proofs/TpduMarshalEffect.v", "Model/TpduFieldRun.v"],
    trusted=["Gen/TpduLayouts.v: reflection over the structs sms.Unmarshal returns (dumper harness/gen_sms.go), classifying each field as the two walks dispatch it; GSM 7-bit tables read through the public decoder",
             "Go value -> Gallina observable printer harness/sms_common.go"],
    assumptions=["bufio.Reader over bytes.Reader, bytes.Buffer, reflect, time.Date/time.Time accessors, strconv.Itoa, x/text transform.Writer/Bytes are Go library code (modelled, tied by the generated cases)",
                 "the io.Reader handed to sms.Unmarshal delivers the octets in pieces of any positive sizes and then io.EOF (with the last piece or on the next call); "
                 "readers that fail with another error or return (0, nil) are outside the quantifier. Reader independence is proved for the whole decoder (C18_reader_independence: any layouts, "
                 "any octet string, any two schedules of read sizes, io.EOF with or after the last piece; equal to the list decoder) and tested on the implementation for every input (four chunking readers)"],
)
GEN = {"tpdulayouts": "Gen/TpduLayouts.v", "smsoctets": "Gen/SmsOctets.v"}
ENGINE = {"name": "sms", "path": "coq/Model/SemiOctet.v coq/Model/Tpdu.v coq/Model/TpduReader.v coq/Model/TpduReaderRun.v coq/Spec/Gsm0340.v harness/gen_sms.go harness/sms_common.go harness/c18.go harness/c19.go",
          "serves_properties": ["C18"], "kind_free_text": "Coq model of the reflection-driven GSM 03.40 TPDU codec over struct layouts regenerated from the code + kernel-evaluated correspondence"}
MANIFEST = dict(
    engine="sms",
    design_ref="DESIGN.md §5 C18",
    technique="Coq proof by induction over arbitrary octet lists and field lists (no size bound) + vm_compute correspondence on random, structured and truncated TPDUs",
    text="Theorems in coq/Properties/C18.v: for every octet list the model of sms.Unmarshal returns Ok (one of the eight structs, values shaped like its layout) or Err, never Panic; "
         "every value it returns is re-encoded by the model of sms.Marshal with Ok; the pre-fix decoder is refuted by a concrete time stamp with a filler nibble (D18); "
         "reader independence: on a bufio.Reader over a reader that hands out the octets in pieces of any sizes, each primitive the decoder uses (ReadByte, readFull, Peek, Discard) "
         "returns what the list primitive returns on the octets still to come (C18_reader_primitives_independent), and the whole decoder written over that reader returns, for every environment, every octet string and every two schedules of read sizes, the same outcome, equal to the list decoder's (C18_reader_independence, proved by simulation + induction over the field walk; C18_unmarshal_total_any_reader transfers C18 to every reader); the single-Read decoder before fix 0373e10 is refuted.",
    note="Trusted: Coq kernel + vm_compute; layout dumper and Go->Gallina printer; Go library code (bufio, bytes, reflect, time, strconv, x/text/transform). No axioms.",
)
