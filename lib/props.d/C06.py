PROP = dict(
    gen=["connlocks"],
    race=True,
    proof_files=["Properties/C06.v", "Proofs/ConnC06.v"],
    model_files=["Model/LockTable.v"],
    trusted=["go/ast extraction of lock and map actions (harness/gen_connlocks.go)", "the Go race detector"],
    assumptions=["context, channels, net.Conn and rand.Int31 are safe for concurrent use as documented", "absence of race reports on finitely many executions is evidence, not proof"],
)
GEN = {"connlocks": "Gen/ConnLocks.v"}
ENGINE = {"name": "conn", "path": "coq/Model/LockProto.v coq/Proofs/ConnC06.v harness/c06.go harness/gen_connlocks.go", "serves_properties": ["C06"],
          "kind_free_text": "Coq lock-protocol model over routines extracted from conn.go + race-detector run of the README workload and the forced schedules"}
MANIFEST = dict(
    engine="conn",
    design_ref="DESIGN.md §5 C06; notes/design_C06.md; notes/design_conn_engine.md",
    technique='Coq proof of the lock protocol over routines extracted from conn.go (go/ast, regenerated each run) for any number of threads and schedules + race-detector run (go build -race) of the README workload and forced schedules',
    text='Theorems in coq/Properties/C06.v: every function touching Conn.pending is well locked (kernel evaluation of the regenerated table); for threads running any sequences of these routines a map access happens only while holding the mutex, and any two map accesses of different threads are separated by Unlock of the first then Lock of the second (C06_race_free); the pre-repair routines race. Dynamically the -race build runs the README workload (Watch, EnquireLink, 1..16 submitting goroutines, consumer, asynchronous peer, Close) and forced schedules; a report whose racing access is library code, or a runtime concurrent-map abort, is the failing input.',
    note="PARTIAL by nature: the extraction is syntactic; state other than the pending table relies on Go's documented guarantees and the race detector on the executions that ran; the Go memory model is outside the model. Trusted: Coq kernel; go/ast extraction; the race detector. No axioms.",
)
