PROP = dict(
    gen=["connlocks"],
    race=True,
    proof_files=["Properties/C06.v", "Proofs/ConnC06.v"],
    model_files=["Model/LockTable.v"],
    trusted=["translation of the Go source into the lock/access control-flow graph (harness/c06_extract.go, go/ast + go/types; the held-set certificate it emits is re-checked in Coq)",
             "the Go race detector"],
    assumptions=["the referents of context, channel, net.Conn, sync and sync/atomic typed state are safe for concurrent use as documented",
                 "happens-before through channels/contexts is not modelled (a plain field ordered only that way would be reported)",
                 "absence of race reports on finitely many executions is evidence, not proof"],
)
GEN = {"connlocks": "Gen/ConnLocks.v"}
ENGINE = {"name": "conn", "path": "coq/Model/LockTable.v coq/Proofs/ConnC06.v harness/c06.go harness/c06_extract.go harness/c06_dyn.go harness/c06_tie.go harness/gen_connlocks.go", "serves_properties": ["C06"],
          "kind_free_text": "Coq lock-set checker proved sound for any table (any number of threads, any schedule) + table of lock operations and accesses to every location of Conn extracted per README role from the current source + race-detector runs of the README roles, one child process per configuration"}
MANIFEST = dict(
    engine="conn",
    design_ref="DESIGN.md §5 C06; notes/design_C06.md; notes/design_conn_engine.md",
    technique='Coq proof, for any table, that a checked lock/access control-flow graph has no reachable race state (any number of threads, any interleaving, any branches); the table of the code is regenerated each run from the source (go/ast + go/types: every location of Conn, per README role, callees/closures/defers inlined, path-sensitive in held mutexes and defers) and the checker is evaluated on it by the kernel in generated cases; plus race-detector runs (go build -race) of the README roles, one child process per configuration; plus confirmation of the predicted lock events on the running code (mutex-contention profile)',
    text='Theorems in coq/Properties/C06.v (no field, function or mutex name occurs; nothing is proved by evaluating the code\'s table at compile time): C06_invariant (a thread at a node holds what the node\'s certificate claims; a mutex has one writer or readers only), C06_mutual_exclusion, C06_race_free (for a table passing table_wf and every location passing loc_ok, no reachable state has two threads about to perform conflicting accesses), C06_no_adjacent_race (trace form), C06_code (instance for the regenerated table; its boolean hypotheses are the generated cases of the run, one per location), C06_unguarded_refuted (an unguarded flag: the checker refuses exactly it and a race state is reachable). Direct failures: two README roles access the same non-synchronisation state, one writing, with no common mutex (static, names both sites); a race report with a frame inside go-smpp under one of the configurations (README workload, long-running senders with 2 ms..default deadlines, keep-alive failure with the application\'s Close from a timer, teardown, forced schedules); a runtime concurrent-map abort.',
    note="PARTIAL by nature: the translation source -> graph is trusted; state that is not a location of Conn (captured variables) and roles the extraction cannot interpret rest on the race detector; happens-before through channels is not modelled; the Go memory model is outside the model. Trusted: Coq kernel; c06_extract.go; the race detector. No axioms.",
)
