PROP = dict(
    gen=["connlocks"],
    race=True,
    proof_files=["Properties/C06.v", "Proofs/ConnC06.v"],
    model_files=["Model/LockProto.v"],
    trusted=[],
    assumptions=[],
)
GEN = {"connlocks": "Gen/ConnLocks.v"}
ENGINE = {"name": "conn", "path": "coq/Model/LockProto.v coq/Proofs/ConnC06.v harness/c06.go harness/gen_connlocks.go", "serves_properties": ["C06"],
          "kind_free_text": "Coq lock-protocol model over routines extracted from conn.go + race-detector run of the README workload and the forced schedules"}
MANIFEST = dict(engine="conn", design_ref="DESIGN.md §5 C06", technique="TODO", text="TODO", note="TODO")
