PROP = dict(
    rerun_mismatch=True,  # a mismatching model case is generated and evaluated again (and a third time with relaxed wall-clock bounds) before it is reported
    gen=["layouts"],
    proof_files=["Properties/C05.v", "Proofs/ConnBase.v", "Proofs/ConnSched.v", "Proofs/ConnC14.v", "Proofs/ConnC16.v", "Proofs/ConnC05.v", "Proofs/ConnC15.v", "Proofs/ConnLive.v"],
    model_files=["Model/ConnLTS.v", "Model/ConnRun.v"],
    trusted=["scripted net.Conn + goroutine-dump quiescence detection (harness/transport.go, harness/conn_world.go)", "Model/Pdu.v as the meaning of frames and ReadPDU items (compared with the implementation on every frame)"],
    assumptions=["a single net.Conn.Write call is atomic and completes", "Go scheduler fairness, timers and the Go memory model are runtime facts (liveness stated as enabledness)"],
)
GEN = {"layouts": "Gen/PduLayouts.v"}
ENGINE = {"name": "conn", "path": "coq/Model/ConnLTS.v coq/Model/ConnRun.v coq/Model/LockProto.v coq/Proofs/Conn*.v harness/transport.go harness/conn_*.go harness/c05.go harness/c06.go harness/c14.go harness/c15.go harness/c16.go",
          "serves_properties": ["C05"], "kind_free_text": "Coq labelled transition system of smpp.Conn (any number of callers, inductive invariants over arbitrary traces) + forced schedules on the real Conn through a scripted net.Conn, each replayed through the LTS inside coqc"}
MANIFEST = dict(
    engine="conn",
    design_ref="DESIGN.md §5 C05; notes/design_C05.md; notes/design_conn_engine.md",
    technique="Coq proof: invariants over all traces whose events satisfy the property's hypotheses (env_ok; its executable form is evaluated on every generated schedule) + kernel sweep of the regenerated Resp() table + vm_compute correspondence of forced schedules",
    text="Theorems in coq/Properties/C05.v: whatever reaches a Submit carries its own sequence number (no hypothesis needed); a returned Submit returned its own response or an error caused by its context, Done() or a failed Send; no response to an outstanding request reaches PDU() (C05_no_leak); the response is never lost and exists once; with registration before the transport Write the waiter is in the table until its response arrives (C05_inv); the caller can then return it (enabledness); Resp() pairs for all 15 request types from the table regenerated from the code; the pre-repair order is refuted (D25 trace). Forced schedules (response readable while the request's Write is still open, any order, unsolicited PDUs in between) run on the real Conn; each is replayed through the model and checked to lie within the hypotheses.",
    note="Trusted: Coq kernel + vm_compute; harness; Gen/PduLayouts.v resp_pairs dumper. Partial: 'returns' is enabledness (Go scheduler is runtime). Matching is by sequence number only, as the property defines. No axioms.",
)
