PROP = dict(
    cover_pkgs=["pdu"],
    gen=["layouts"],
    proof_files=["Properties/C03.v", "Proofs/PduStreamProofs.v"],
    model_files=["Model/Pdu.v", "Model/PduRun.v"],
    trusted=["Gen/PduLayouts.v: reflect walk of the command_id registry (hook pdu.VerifTypes, build tag verif)",
             "chunking io.Reader of the harness (replays the schedule; zero-length Read returns 0,nil like a net.Conn)"],
    assumptions=["io.ReadFull, io.TeeReader, encoding/binary, bufio are Go library code (modelled; tied by the generated cases)",
                 "a transport Read returns between 1 and len(p) octets or an error (io.Reader contract)"],
)
MANIFEST = dict(
    engine="pdu",
    design_ref="DESIGN.md §5 C03",
    technique="Coq proof by induction over the frame list and over arbitrary read schedules + vm_compute correspondence on generated streams x schedules",
    text="Theorems in coq/Properties/C03.v: for every list of frames with acceptable headers and EVERY read schedule, successive ReadPDU calls of the model "
         "return the per-frame results in order and then EOF, each consuming exactly command_length octets (also for unknown ids and undecodable bodies); "
         "every proper prefix of a frame yields an error. The model is tied to the code by running the same streams and schedules through pdu.ReadPDU "
         "and through the model inside coqc.",
    note="Trusted: Coq kernel + vm_compute; layout dumper, Go->Gallina printer, chunking reader; Go library code (io, bufio, binary). No axioms.",
)
ENGINE = {"name": "pdu", "path": "", "serves_properties": ["C03"], "kind_free_text": ""}
