PROP = dict(
    rerun_mismatch=True,  # a mismatching model case is generated and evaluated again (and a third time with relaxed wall-clock bounds) before it is reported
    gen=["layouts"],
    proof_files=["Properties/C14.v", "Proofs/ConnBase.v", "Proofs/ConnSched.v", "Proofs/ConnC14.v"],
    model_files=["Model/ConnLTS.v", "Model/ConnRun.v"],
    trusted=["scripted net.Conn + goroutine-dump quiescence detection (harness/transport.go, harness/conn_world.go)", "Model/Pdu.v as the meaning of frames and ReadPDU items (compared with the implementation on every frame)"],
    assumptions=["a single net.Conn.Write call is atomic and completes", "Go scheduler fairness, timers and the Go memory model are runtime facts (liveness stated as enabledness)"],
)
GEN = {"layouts": "Gen/PduLayouts.v"}
ENGINE = {"name": "conn", "path": "coq/Model/ConnLTS.v coq/Model/ConnRun.v coq/Model/LockProto.v coq/Proofs/Conn*.v harness/transport.go harness/conn_*.go harness/c05.go harness/c06.go harness/c14.go harness/c15.go harness/c16.go",
          "serves_properties": ["C14"], "kind_free_text": "Coq labelled transition system of smpp.Conn (any number of callers, inductive invariants over arbitrary traces) + forced schedules on the real Conn through a scripted net.Conn, each replayed through the LTS inside coqc"}
MANIFEST = dict(
    engine="conn",
    design_ref="DESIGN.md §5 C14; notes/design_C14.md; notes/design_conn_engine.md",
    technique='Coq proof: inductive invariants over arbitrary traces of an executable LTS of smpp.Conn (any number of goroutines and calls) + vm_compute correspondence of forced and free-running schedules, frame octets included',
    text="Theorems in coq/Properties/C14.v, for every variant of the model: a frame reaches the transport in ONE Write carrying the whole Marshal encoding (C14_single_write); no other event touches the callers' octet stream; in every reachable state the Writes of callers are at most one per call, each the encoding of an issued call's packet with positive sequence number, and every call past Send has its frame on the wire (C14_stream); per goroutine, wire order = call order (C14_order, list equality); non-positive sequence numbers and packets Marshal refuses write nothing and return an error. The implementation is driven through forced schedules (every transport Write held and released in random order) and free-running rounds on the writer-holding transport; write count per frame, re-framed stream, per-goroutine order are asserted directly and every schedule is replayed through the model inside coqc (snapshots after every forced event, every frame's octets).",
    note="Trusted: Coq kernel + vm_compute; scripted net.Conn and goroutine-dump quiescence detection of the harness; Go->Gallina value printer; Model/Pdu.v (pdu engine) as the meaning of 'Marshal encoding'. Assumption of the property: a single net.Conn.Write call is atomic and completes. Partial: Go scheduler. No axioms.",
)
