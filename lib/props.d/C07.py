PROP = dict(
    gen=["gsm7", "widths"],
    proof_files=["Properties/C07.v", "Proofs/ComposeInst.v", "Proofs/ComposeProofs.v", "Proofs/SplitterProofs.v"],
    model_files=["Model/Gsm7.v", "Model/Splitter.v", "Model/Compose.v"],
    trusted=[],
    assumptions=[],
)
GEN = {"widths": "Gen/Widths.v"}
ENGINE = {"name": "compose", "path": "coq/Model/Splitter.v coq/Model/Compose.v harness/c07.go harness/gen_widths.go", "serves_properties": ["C07"],
          "kind_free_text": "Coq model of the greedy splitter and of multipart composition + per-coding width tables regenerated from the code + kernel-evaluated correspondence cases"}
MANIFEST = dict(engine="compose", design_ref="DESIGN.md §5 C07", technique="", text="", note="")
