PROP = dict(
    gen=["gsm7", "widths", "charsets"],
    proof_files=["Properties/C07.v", "Proofs/ComposeInst.v", "Proofs/ComposeProofs.v", "Proofs/SplitterProofs.v", "Proofs/ComposeText.v", "Proofs/TablesAgree.v", "Proofs/CharsetRoundtrip.v"],
    model_files=["Model/Gsm7.v", "Model/Splitter.v", "Model/Compose.v", "Model/IntervalMap.v", "Model/Charset.v", "Model/ComposeText.v"],
    trusted=["Gen/Widths.v: for each of the ten codings every one of the 1,112,064 Unicode scalar values as a one-character text through "
             "DataCoding.Encoding().NewEncoder().Bytes (accepted? octets returned) and through DataCoding.Splitter() (bits charged), as maximal "
             "runs of accepted values; ConcatenatedHeader.Len()/Set() for all 65536 references (dumper: harness/gen_widths.go)",
             "rune-wise independence of the stateless x/text encoders and the three-state shape of its ISO-2022-JP encoder are assumptions of the "
             "length model (Model/Compose.v enc_len_stateless / enc_len_2022), tied by the generated cases: payload lengths of every composed part"],
    assumptions=["rune-wise independence of the stateless x/text encoders and the three-state shape of its ISO-2022-JP encoder are assumptions of the "
                 "payload model (Model/Charset.v encode, used by compose_cs), tied by the generated cases: header entries and payload OCTETS of every composed part",
                 "message-waiting / message-class data_coding values: the model resolves them through the regenerated dc_table / dc_closure (behaviour classes)",
                 "UTF-8 <-> rune conversion is Go's; a text is a list of scalar values"],
)
GEN = {"widths": "Gen/Widths.v"}
ENGINE = {"name": "compose", "path": "coq/Model/Splitter.v coq/Model/Compose.v harness/c07.go harness/gen_widths.go", "serves_properties": ["C07"],
          "kind_free_text": "Coq model of the greedy splitter and of multipart composition + per-coding width tables regenerated from the code + kernel-evaluated correspondence cases"}
MANIFEST = dict(
    engine="compose",
    design_ref="DESIGN.md §5 C07, notes/design_C07.md",
    technique="Coq proof by induction over arbitrary texts, generic in the width function and the encoder (so it covers every coding at once); "
              "per-coding width soundness by kernel sweep over run tables covering all scalar values, regenerated from the code; vm_compute correspondence",
    text="Theorems in coq/Properties/C07.v. For every positive width function and every encoder: Split loses/duplicates/reorders nothing, "
         "every segment within the limit, none empty, every one but the last maximal (C07_split_*); a successful Compose returns parts of at most "
         "140 octets header+payload (C07_fits), one part without header or 2..254 parts each with exactly one concatenation element decoding to "
         "(ref, N, i), 8-bit form iff ref<=255 (C07_labels), payload i = encoding of segment i and the segments join to the text (C07_segments), "
         "no part but the last could take the next character (C07_maximal), more than 254 segments are refused (C07_too_many, C07_at_most_254). "
         "Payload level for the nine table codings (compose_cs): decoding the parts' payloads with the same coding and joining reproduces the text "
         "(C07_cs_lossless, C07_cs_reassembles; ISO-2022-JP without ESC), no panic / no divergence (C07_cs_total); Set() data octets for every reference and "
         "every (total, sequence) pair (C07_header_data, C07_header_total_seq); exact widths (C07_width_exact). "
         "Per coding on regenerated tables: the splitter never under-charges an accepted character (C07_width_sound: 8 codings + GSM), hence the "
         "size check never refuses (C07_no_size_refusal); false for ISO-2022-JP (C07_width_sound_iso2022jp_refuted), where the size check keeps "
         "C07_fits true. GSM 7-bit: payloads decode to the segments modulo the C08 trailing-CR rule (C07_gsm7_lossless).",
    note="Trusted: Coq kernel + vm_compute; table dumper and generators; x/text encoders (rune-wise independence; ISO-2022-JP state machine shape). "
         "Fixed in the repo: D11, D12 (three commits). Gen/Widths.v vs Gen/Charsets.v: C07_tables_agree, run-wise kernel check for all eight stateless table codings "
         "(ISO-2022-JP is stateful and outside by nature). No axioms.",
)
