PROP = dict(
    gen=["accessors", "layouts"],
    proof_files=["Properties/C11.v", "Proofs/AccessorsProofs.v", "Proofs/AccessorTables.v", "Proofs/CombinerProofs.v", "Proofs/CombinerRound5.v", "Spec/CombinerSpec.v"],
    model_files=["Model/Accessors.v", "Model/AccessorsRun.v", "Model/Combiner.v", "Model/CombinerRun.v"],
    trusted=["Gen/AccessorTables.v: complete 256-row tabulation of MessageState.String and of DataCoding.Encoding() != nil from the running code (dumper: harness/gen_accessors.go)",
             "Gen/PduLayouts.v: layouts and request->response pairs (dumper: harness/pdu_common.go)",
             "Go value -> Gallina term printers harness/pdu_common.go (coqValue) and harness/c10.go, harness/c11.go"],
    assumptions=["fmt's %v/%+v formatting, hex.EncodeToString and the golang.org/x/text decoders are Go library code: exercised under recover() by the direct test, not modelled; reflect is modelled where the library calls it itself (getHeader: NumField / Addr / Interface, Model/Accessors.v get_header_reflect, field kinds dumped from the running code)",
                 "C11 demands that the operations return, not what they print: texts (state names, '+' rule, hex case, status names) are compared by outcome class only",
                 "ShortMessage.Parse with a decoder: only the outcome class is observed; for the data_codings routed to gsm7bit.Packed the decoder model of C08 (Model/Gsm7.v decode, theorem decode_total) is plugged in (C11_parse_gsm7), the x/text decoders stay a parameter",
                 "a partially filled PDU returned together with a decode error is exercised by the direct test only (the decoder model returns no value for it)"],
)
GEN = {"accessors": "Gen/AccessorTables.v"}
ENGINE = {"name": "combiner", "path": "coq/Model/Combiner.v coq/Model/Accessors.v coq/Proofs/CombinerProofs.v coq/Proofs/AccessorsProofs.v harness/c10.go harness/c11.go harness/gen_accessors.go",
          "serves_properties": ["C11"],
          "kind_free_text": "Coq models of the multipart combiner and of the read-only PDU accessors with explicit Panic outcomes; totality theorems; exhaustive tables and kernel-evaluated correspondence"}
MANIFEST = dict(
    engine="combiner",
    design_ref="DESIGN.md §5 C11",
    technique="Coq totality proofs over all inputs / all histories for accessor models with explicit Panic outcomes + complete 256-row tables regenerated from the code + vm_compute correspondence on every PDU a malformed-frame stream yields and on exhaustive edge grids",
    text="Theorems in coq/Properties/C11.v: on every value the decoder model returns, every modelled accessor (ReadSequence, ReadCommandStatus, Resp, MessageState/Address text, "
         "ConcatenatedHeader, Parse's hex branch) returns Ok; ConcatenatedHeader is total for elements of any length; the combiner step and run never panic for any registry and any history "
         "of arbitrary deliver_sm values; MessageState.String is total and equals the complete table dumped from the running code; one ..._legacy_refuted witness per repaired defect (D6, D7, D8). "
         "Round 5: a segment numbered 0 or above its total leaves any registry unchanged, so does a run of any length of them (C11_ignored_run, tied by chk_ignored on runs of 17..5000 such segments on one combiner); "
         "getHeader's reflect loop returns on every registered PDU type as ReadPDU returns it and panics exactly when an unexported field precedes every Header (C11_get_header_pointer, C11_read_sequence_code); "
         "Parse with the GSM 7-bit decoder model plugged in never panics (C11_parse_gsm7); the text methods of the octet-valued field types return on every octet (C11_enum_strings_code, table dumped from the running code).",
    note="Trusted: Coq kernel + vm_compute; table dumpers and Go->Gallina printers; Go library code (fmt, reflect, x/text decoders) exercised under recover() only. No axioms.",
)
