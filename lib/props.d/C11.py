PROP = dict(
    gen=["accessors", "layouts"],
    proof_files=["Properties/C11.v", "Proofs/AccessorsProofs.v", "Proofs/AccessorTables.v", "Proofs/CombinerProofs.v", "Proofs/CombinerRound5.v", "Spec/CombinerSpec.v"],
    model_files=["Model/Accessors.v", "Model/AccessorsRun.v", "Model/Combiner.v", "Model/CombinerRun.v"],
    trusted=["Gen/AccessorTables.v: complete 256-row tabulation of MessageState.String and of DataCoding.Encoding() != nil from the running code (dumper: harness/gen_accessors.go)",
             "Gen/PduLayouts.v: layouts and request->response pairs (dumper: harness/pdu_common.go)",
             "Go value -> Gallina term printers harness/pdu_common.go (coqValue) and harness/c10.go, harness/c11.go"],
    assumptions=["fmt's %v/%+v formatting, reflect, hex.EncodeToString and the golang.org/x/text decoders are Go library code: exercised under recover() by the direct test, not modelled",
                 "ShortMessage.Parse with a decoder: only the outcome class is observed; the GSM 7-bit decoder is C08's subject",
                 "a partially filled PDU returned together with a decode error is exercised by the direct test only (the decoder model returns no value for it)"],
)
GEN = {"accessors": "Gen/AccessorTables.v"}
ENGINE = {"name": "combiner", "path": "coq/Model/Combiner.v coq/Model/Accessors.v coq/Proofs/CombinerProofs.v coq/Proofs/AccessorsProofs.v harness/c10.go harness/c11.go harness/gen_accessors.go",
          "serves_properties": ["C11"],
          "kind_free_text": "Coq models of the multipart combiner and of the read-only PDU accessors with explicit Panic outcomes; totality theorems; exhaustive tables and kernel-evaluated correspondence"}
MANIFEST = dict(
    engine="combiner",
    design_ref="DESIGN.md §5 C11",
    technique="Coq totality proofs over all inputs / all histories for accessor models with explicit Panic outcomes + complete 256-row tables regenerated from the code + vm_compute correspondence on every PDU a malformed-frame stream yields and on exhaustive edge grids",
    text="Theorems in coq/Properties/C11.v: on every value the decoder model returns, every modelled accessor (ReadSequence, ReadCommandStatus, Resp, MessageState/Address text, "
         "ConcatenatedHeader, Parse's hex branch) returns Ok; ConcatenatedHeader is total for elements of any length; the combiner step and run never panic for any registry and any history "
         "of arbitrary deliver_sm values; MessageState.String is total and equals the complete table dumped from the running code; one ..._legacy_refuted witness per repaired defect (D6, D7, D8).",
    note="Trusted: Coq kernel + vm_compute; table dumpers and Go->Gallina printers; Go library code (fmt, reflect, x/text decoders) exercised under recover() only. No axioms.",
)
