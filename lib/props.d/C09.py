PROP = dict(
    gen=["charsets", "detect", "knownbad"],
    proof_files=["Properties/C09.v", "Proofs/DetectProofs.v", "Proofs/DetectBits.v", "Proofs/CharsetProofs.v", "Proofs/CharsetRoundtrip.v", "Proofs/ComposePipeline.v", "Proofs/DetectGsm7Agree.v", "Proofs/PipelineFull.v", "Model/IntervalMap.v"],
    model_files=["Model/Detect.v", "Model/Charset.v", "Model/Splitter.v", "Model/Compose.v", "Model/ComposePipeline.v"],
    trusted=["Gen/Detect.v is the complete per-rune tabulation of DataCoding.Validate (7 codings), BestCoding, BestSafeCoding, the GSM 7-bit "
             "encoder and the splitter widths over all 1,112,064 scalar values (dumper: harness/gen_detect.go); Gen/Charsets.v as for C17",
             "Gen/KnownBad.v is generated from the committed known/C09-D17-<coding>.ranges files (the harness matcher reads the same bytes)"],
    assumptions=["Validate, BestCoding and the x/text and GSM 7-bit codecs work rune by rune as the model composes them; "
                 "validated on every run by string-level best/encode/decode/compose/parse cases on random mixed-script strings, not proved",
                 "UTF-8 <-> rune conversion is Go's"],
)
GEN = {"detect": "Gen/Detect.v", "knownbad": "Gen/KnownBad.v"}
ENGINE = {"name": "text", "path": "coq/Model/IntervalMap.v coq/Model/Charset.v coq/Model/Detect.v harness/gen_detect.go harness/c09.go",
          "serves_properties": ["C09"],
          "kind_free_text": "Coq model over exhaustive per-rune detector/charset tables regenerated from the code + kernel-evaluated string-level correspondence cases"}
MANIFEST = dict(
    engine="text",
    design_ref="DESIGN.md §5 C09",
    technique="Coq proof (interval inclusion of the detector's alphabet tables in the encoders' accepted sets checked in the kernel, "
              "known-bad set read from committed range files; lifting to texts by induction) + vm_compute correspondence",
    text="Theorems in coq/Properties/C09.v: for every scalar value r outside the committed known-bad set of the coding that BestCoding / BestSafeCoding "
         "returns, that coding's encoder accepts r and decode(encode r) = r; for every text the same (plus the GSM 03.38 trailing-CR exclusion); "
         "Compose/Parse of a text that fits; the pipeline BestCoding -> ComposeMultipartShortMessage never fails for lack of an encoding and its parts decode back to "
         "pieces that join to the text, and it is refused ONLY for more than 254 parts - never for size, never by divergence of Split (C09_pipeline, C09_pipeline_safe; from C09_width_tables: per detectable label every accepted character is charged at least the bits it occupies; the detectors never return ISO-2022-JP / EUC-JP: C09_detector_never_stateful); a successful single-message Compose stores at most 140 octets (C09_compose_fits); the known-bad sets are tight (C09_known_bad_tight: subset of validate minus accept); refutation witnesses for the unrestricted statement (U+0100, a mixed text, GSM text ending in CR at 8k septets).",
    note="Known findings: D17 (alphabet tables admit unencodable runes, 5 codings, pinned by TestBestCoding) and the GSM 7-bit 8k-septet trailing CR ambiguity. "
         "Trusted: Coq kernel + vm_compute; the Go table dumper; rune-wise independence of the codecs (validated by cases). No axioms.",
)
