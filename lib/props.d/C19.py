PROP = dict(
    gen=["tpdulayouts", "smsoctets"],
    proof_files=["Properties/C19.v", "Proofs/TpduRoundtrip.v", "Proofs/TpduAlnum.v", "Proofs/SmsOctetTables.v", "Proofs/TpduFlags.v", "Proofs/TpduUserData.v", "Proofs/TpduMarshalEffect.v", "Proofs/TpduReader.v", "Proofs/TpduReaderCompose.v", "Proofs/TpduReaderSpec.v"],
    model_files=["Model/SemiOctet.v", "Model/Tpdu.v", "Model/TpduRun.v", "Model/TpduReader.v", "Model/TpduReaderRun.v", "Spec/Gsm0340.v"],
    extra_files=["Proofs/TpduExt.v", "Properties/Ext_Sms.v"],   # the other TPDU types: outside C19, a failure is a note in the evidence, not a violation
    trusted=["Spec/Gsm0340.v: hand transcription of GSM 03.40 9.2.2.1/9.2.2.2/9.1.2.5/9.2.3.x and GSM 03.38 4, 6.1.2.1.1 (each definition cites its clause)",
             "harness/sms_spec.go: Go transliteration of the spec layout (compared with the Coq text in the kernel on every generated TPDU)",
             "Gen/TpduLayouts.v, Gen/SmsOctets.v: struct layouts by reflection and complete 256-row octet tables dumped from the running code (harness/gen_sms.go)"],
    assumptions=["bufio.Reader over bytes.Reader, bytes.Buffer, reflect, time.Date/time.Time accessors, strconv.Itoa, x/text transform are Go library code (modelled, tied by the generated cases)",
                 "the io.Reader handed to sms.Unmarshal delivers the octets in pieces of any positive sizes and then io.EOF (with the last piece or on the next call): "
                 "C19_deliver_any_reader / C19_submit_any_reader / C19_*_roundtrip_any_reader state the property behind every such reader (decoder written over the bufio model, Model/TpduReader.v)"],
)
GEN = {"tpdulayouts": "Gen/TpduLayouts.v", "smsoctets": "Gen/SmsOctets.v"}
ENGINE = {"name": "sms", "path": "coq/Model/SemiOctet.v coq/Model/Tpdu.v coq/Spec/Gsm0340.v harness/gen_sms.go harness/sms_common.go harness/sms_spec.go harness/c18.go harness/c19.go",
          "serves_properties": ["C19"], "kind_free_text": "Coq model of the reflection-driven GSM 03.40 TPDU codec over struct layouts regenerated from the code + independent spec layout + kernel-evaluated correspondence"}
MANIFEST = dict(
    engine="sms",
    design_ref="DESIGN.md §5 C19",
    technique="Coq proof: symbolic evaluation of the codec model on the spec layout of an arbitrary well-formed TPDU (lists of any admissible length by induction, calendar and octet domains by kernel sweep) + complete 256-row tables from the code + vm_compute correspondence",
    text="Theorems in coq/Properties/C19.v: for every well-formed SMS-DELIVER / SMS-SUBMIT value of the GSM 03.40 layout model outside the listed known classes, "
         "Unmarshal then Marshal reproduces the octets and the decoded structure carries the standard's values, the first-octet parameters under their Go field names included (C19_deliver_flags, C19_submit_flags); complete tables for relative validity periods and first octets; "
         "refutation witnesses for the known classes that remain (alphanumeric address of 7 septets, of 8 septets ending in CR, D16, DeliverFlags.ReplyPath/UDHIndicator on unused bits) and for the pre-fix code (D19, D20, D21 length, D22, D23, D24).",
    note="Trusted: Coq kernel + vm_compute; the hand-transcribed spec; dumper and printers; Go library code. No axioms.",
)
