PROP = dict(
    gen=["charsets"],
    proof_files=["Properties/C17.v", "Proofs/CharsetProofs.v", "Model/IntervalMap.v"],
    model_files=["Model/Charset.v"],
    trusted=["Gen/Charsets.v is the complete per-rune tabulation (all 1,112,064 scalar values x 9 codings, every 1- and 2-octet "
             "code of the multi-octet decoders, all 256 data_coding values) of the running code (dumper: harness/gen_charsets.go)",
             "Spec/Iso8859.v and Spec/Utf16.v are hand transcriptions of ISO/IEC 8859-1/5/8, ISO/IEC 646 and Unicode 3.9 (UTF-16)"],
    assumptions=["golang.org/x/text encoders/decoders work rune by rune (ISO-2022-JP: as the three-state machine of the model); "
                 "validated on every run by string-level encode/decode cases on random mixed strings, not proved",
                 "UTF-8 <-> rune conversion is Go's"],
)
GEN = {"charsets": "Gen/Charsets.v"}
ENGINE = {"name": "text", "path": "coq/Model/IntervalMap.v coq/Model/Charset.v coq/Spec/Iso8859.v coq/Spec/Utf16.v harness/gen_charsets.go harness/c17.go",
          "serves_properties": ["C17"],
          "kind_free_text": "Coq model over exhaustive per-rune charset tables regenerated from the code + spec tables written from the standards + kernel-evaluated string-level correspondence cases"}
MANIFEST = dict(
    engine="text",
    design_ref="DESIGN.md §5 C17",
    technique="Coq proof (run-wise kernel checks over the complete per-rune tables lifted to every scalar value and by induction to every text) + vm_compute correspondence",
    text="Theorems in coq/Properties/C17.v: for ISO-8859-1/5/8 the encoder table dumped from the running code equals the standard's code table "
         "for every scalar value (C1 controls: rejected or identical octet), UCS-2 equals UTF-16BE, ASCII is the identity on U+0000..U+007F; "
         "lifted to all texts; decode(encode t) = t for every accepted text of Shift-JIS, EUC-JP, EUC-KR and (ESC-free) ISO-2022-JP; "
         "every data_coding value with an encoder has a decoder and a splitter (all 256), and they are those of the same coding "
         "(C17_dc_closed: encoder, decoder, splitter classified by behaviour).",
    note="Trusted: Coq kernel + vm_compute; the Go table dumper; rune-wise independence of the x/text codecs (validated by string-level cases each run, not proved); "
         "the hand-transcribed standards in coq/Spec. No axioms.",
)
