PROP = dict(
    cover_pkgs=["pdu"],
    gen=["layouts"],
    proof_files=["Properties/C13.v", "Proofs/PduStableProofs.v", "Proofs/PduRoundtripProofs.v", "Proofs/PduHazardProofs.v"],
    model_files=["Model/Pdu.v", "Model/PduRun.v"],
    trusted=["Gen/PduLayouts.v (registry dump)", "Go value -> Gallina term printer (maps printed key-sorted)"],
    assumptions=["Go map iteration order is arbitrary: modelled as 'any permutation of the entries reaches the encoder'",
                 "reflect, bufio, bytes, encoding/binary, sort are Go library code (modelled; tied by the generated cases)"],
)
MANIFEST = dict(
    engine="pdu",
    design_ref="DESIGN.md §5 C13",
    technique="Coq proof: decoders return well-formed values (induction over the field walk) + round-trip theorem + canonical-form uniqueness under permutation; vm_compute correspondence on non-canonical frames",
    text="Theorems in coq/Properties/C13.v: for every octet string the decoder model accepts (reserved data_coding excluded), if the Marshal model accepts the decoded value then "
         "decoding its output gives that value with empty TLVs absent and length/id filled in, and encoding again gives identical octets; the encoders of TLV and UDH maps "
         "yield the same octets for every permutation of the entries. Tied by evaluating unmarshal and marshal inside coqc on the non-canonical frames the implementation accepted.",
    note="Trusted: Coq kernel + vm_compute; registry dumper; value printer; Go library code. No axioms.",
)
ENGINE = {"name": "pdu", "path": "", "serves_properties": ["C13"], "kind_free_text": ""}
