PROP = dict(
    gen=["gsm7"],
    proof_files=["Properties/C08.v", "Proofs/Gsm7Code.v", "Proofs/Gsm7Proofs.v", "Proofs/Gsm7Bits.v", "Proofs/Gsm7Xf.v"],
    model_files=["Model/Gsm7.v"],
    trusted=["Gen/Gsm7Tables.v is the complete tabulation of the running code: every one of the 1,112,064 Unicode scalar values as a "
             "one-character text through gsm7bit.Packed.NewEncoder().Bytes and coding.GSM7BitCoding.Validate, every septet and ESC+septet "
             "through NewDecoder().Bytes (dumper: harness/gen_gsm7.go; the kernel re-checks that the rows tile the scalar values and that "
             "the septets listed pack to the octets listed)",
             "coq/Spec/Gsm0338.v and the table in harness/c08.go are two independent transcriptions of GSM 03.38 6.2.1"],
    assumptions=["golang.org/x/text/transform.Bytes / String / Reader / Writer are library code: they call Transform and follow its contract "
                 "(the theorems hold for every prior content and size of the destination, for atEOF true and false and for every chunking of "
                 "the source by a caller that presents unconsumed source again: C08_encoder_contract, C08_encoder_any_chunking); the harness "
                 "runs every one of these entry points under a watchdog",
                 "Go's UTF-8 decoding of the source (range over string) is modelled (utf8_dec, C08_utf8_faithful) and compared on ill-formed "
                 "and well-formed source octets; string(rune) / WriteRune is modelled by utf8_enc"],
)
GEN = {"gsm7": "Gen/Gsm7Tables.v"}
ENGINE = {"name": "gsm7", "path": "coq/Model/Gsm7.v coq/Spec/Gsm0338.v harness/c08.go harness/gen_gsm7.go", "serves_properties": ["C08"],
          "kind_free_text": "Coq model of the packed 7-bit codec + exhaustive per-scalar-value tables regenerated from the code + kernel-evaluated correspondence cases"}
MANIFEST = dict(
    engine="gsm7",
    design_ref="DESIGN.md §5 C08, notes/design_C08.md",
    technique="Coq proof by induction over arbitrary texts / octet strings (operational model of packSeptets with explicit index panics); "
              "alphabet clauses by kernel sweep over run lists covering all 1,112,064 scalar values, regenerated from the code; vm_compute correspondence",
    text="Theorems in coq/Properties/C08.v: the running code equals the model on every Unicode scalar value (C08_code_is_model) and equals "
         "GSM 03.38 on all but U+00C7/U+00E7 (C08_alphabet; D16 is a known finding with a refutation witness); ceil(7n/8) octets (C08_len), "
         "septet i LSB-first at bit 7i (C08_bit_layout), CR filler iff seven spare bits and zero spare bits otherwise (C08_filler), "
         "decode(encode t) = t except n%8=0 and t ends in CR, where exactly one trailing CR is lost (C08_roundtrip, C08_roundtrip_exact), "
         "encoder and decoder never panic for any text / any octets / any destination capacity (C08_encode_total, C08_decode_total); "
         "the transform.Transformer contract for every prior destination content, size, atEOF and chunking: nSrc = len(src) and nDst octets = encode t on "
         "success, nothing claimed and the destination untouched otherwise (C08_encoder_contract, C08_encoder_any_destination, C08_decoder_success, "
         "C08_encoder_any_chunking); a source the encoder accepts is the UTF-8 form of a GSM text (C08_encoder_source_is_utf8); "
         "detector true iff encoder accepts (C08_detector, C08_detector_code).",
    note="Trusted: Coq kernel + vm_compute; the Go table dumper and generators; x/text transform.Bytes; Go's UTF-8 conversion. "
         "Known finding D16 (septet 0x09 is U+00E7, the standard has U+00C7). Fixed in the repo: D13, D14, D15, and (round 5) nSrc never "
         "reported (String hangs), packer OR-ing into a dirty destination, chunks packed as whole messages. No axioms.",
)
