PROP = dict(
    gen=["gsm7"],
    proof_files=["Properties/C08.v", "Proofs/Gsm7Code.v", "Proofs/Gsm7Proofs.v", "Proofs/Gsm7Bits.v"],
    model_files=["Model/Gsm7.v"],
    trusted=[],
    assumptions=[],
)
GEN = {"gsm7": "Gen/Gsm7Tables.v"}
ENGINE = {"name": "gsm7", "path": "coq/Model/Gsm7.v coq/Spec/Gsm0338.v harness/c08.go harness/gen_gsm7.go", "serves_properties": ["C08"],
          "kind_free_text": "Coq model of the packed 7-bit codec + exhaustive per-scalar-value tables regenerated from the code + kernel-evaluated correspondence cases"}
MANIFEST = dict(engine="gsm7", design_ref="DESIGN.md §5 C08", technique="", text="", note="")
