PROP = dict(
    gen=["octets"],
    proof_files=["Properties/C20.v", "Proofs/FlagsProofs.v", "Proofs/OctetTables.v", "Proofs/CivilProofs.v", "Proofs/SmppTimeProofs.v", "Proofs/SmppTimeEdge.v"],
    model_files=["Model/Flags.v", "Model/Civil.v", "Model/SmppTime.v", "Spec/SmppTimeSpec.v"],
    extra_files=["Properties/Ext_Scalar.v"],   # outside C20 (text form of interface_version): a failure is a note, not a violation
    trusted=["Gen/Octets.v is the complete 256-row tabulation of the running octet codecs (dumper: harness/gen_octets.go)",
             "Model/SmppTime.v + Model/Civil.v are hand-written models of pdu/time.go and of the parts of Go's time, strconv and fmt "
             "packages it calls; tied by the generated cases (every op line the harness executes inside the property's quantifier is "
             "evaluated on the model by coqc and must reproduce the implementation's result)",
             "Spec/SmppTimeSpec.v is a hand transcription of SMPP v5 4.7.23.4/5; harness/c20_time.go contains an independent Go "
             "transcription (validAbs, daysSince2000) used by the direct tests",
             "thorough tier only: the OCaml model extracted with ExtrOcamlBasic (coq/Extract/C20Extract.v, ocaml/c20_driver.ml) must agree "
             "with the implementation on >= 100k op lines and with the kernel on the vm_compute slice"],
    assumptions=["encoding/json, fmt.Sprintf, strconv.ParseInt, time.Date, time.FixedZone and the time.Time accessors are Go library code, "
                 "tied by the exhaustive table / the generated cases only",
                 "pdu.Time values are considered at tenth-of-second resolution in zones that are a whole number of quarter hours "
                 "(what Time.From produces); pdu.Duration values are multiples of 0.1 s"],
)
GEN = {"octets": "Gen/Octets.v"}
SETUP = [["tools/build_extract.sh"]]   # extracted OCaml models -> .work/ocaml/ (used by the thorough tier)
ENGINE = {"name": "scalar", "path": "coq/Model/Flags.v coq/Model/SmppTime.v coq/Model/Civil.v coq/Spec/SmppTimeSpec.v harness/c20.go harness/c20_time.go harness/c20_extract.go coq/Extract/C20Extract.v ocaml/c20_driver.ml",
          "serves_properties": ["C20"],
          "kind_free_text": "Coq model + exhaustive octet tables regenerated from the code + kernel sweep over the 36,525 days of 2000-2099 + "
                            "kernel-evaluated correspondence cases + extracted OCaml model diffed against the implementation (thorough)"}
MANIFEST = dict(
    engine="scalar",
    design_ref="DESIGN.md §5 C20, notes/design_C20.md",
    technique="Coq proof (kernel sweeps over all 256 octets / all 36,525 days of 2000-2099 lifted to forall; mixed-radix arithmetic by lia; "
              "octet tables regenerated from code) + vm_compute correspondence + extracted-model diff (thorough)",
    text="Theorems in coq/Properties/C20.v. Octets: decode/encode identity and SMPP bit positions for esm_class and registered_delivery, "
         "JSON round trip of interface_version, for all 256 octets, proved of the model AND of the complete table dumped from the "
         "running code on this run; the other inverse (encode then decode over every field value) and receiver independence (decoding into a variable "
         "that already holds a value, any history of calls on one variable) of the model and, by complete tables, of the running code. Time: C20_time_fmt_parse (every instant at 0.1 s and every offset in [-48,48] quarter hours whose local "
         "civil time lies in 2000-01-01..2099-12-31: Time.String gives a valid 16-character string that denotes the value and Time.From "
         "returns it), C20_time_parse_fmt (every valid absolute string except nn=00 with '-' re-formats to itself and parses to what the "
         "standard says it denotes), C20_time_neg_zero_refuted / C20_time_neg_zero_class (D29: exactly that class comes back with '+'), "
         "C20_duration (every multiple of 0.1 s in [1 s, 100*8760 h)), C20_time_parse_total (no panic, acceptance shape).",
    note="Trusted: Coq kernel + vm_compute; the Go table dumper and harness; the hand-written model of pdu/time.go and of the Go library "
         "functions it calls (time.Date, accessors, strconv.ParseInt, fmt verbs), tied by ~25k kernel-evaluated cases per quick run (~174k thorough, plus ~660k lines through the extracted model) over the "
         "full boundary product + random points. Known finding D29 (KNOWN_FINDINGS.txt). No axioms (Print Assumptions: closed under the global context).",
)
