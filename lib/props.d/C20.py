PROP = dict(
    gen=["octets"],
    proof_files=["Properties/C20.v", "Proofs/FlagsProofs.v", "Proofs/OctetTables.v", "Proofs/CivilProofs.v", "Proofs/SmppTimeProofs.v"],
    model_files=["Model/Flags.v", "Model/Civil.v", "Model/SmppTime.v", "Spec/SmppTimeSpec.v"],
    trusted=["Gen/Octets.v is the complete 256-row tabulation of the running octet codecs (dumper: harness/gen_octets.go)"],
    assumptions=["encoding/json, fmt.Sscanf, time.Date and time.Time accessors are Go library code, tied by the exhaustive table / the generated cases only"],
)
GEN = {"octets": "Gen/Octets.v"}
ENGINE = {"name": "scalar", "path": "coq/Model/Flags.v coq/Model/SmppTime.v harness/c20.go", "serves_properties": ["C20"],
          "kind_free_text": "Coq model + exhaustive octet tables regenerated from the code + kernel-evaluated correspondence cases"}
MANIFEST = dict(
    engine="scalar",
    design_ref="DESIGN.md §5 C20",
    technique="Coq proof (kernel sweeps over all 256 octets lifted to forall; table regenerated from code) + vm_compute correspondence",
    text="Theorems in coq/Properties/C20.v: decode/encode identity and SMPP bit positions for esm_class and registered_delivery, "
         "JSON round trip of interface_version, for all 256 octets, proved of the model AND of the complete table dumped from the "
         "running code on this run (so the theorem speaks about the code, not a sample).",
    note="Trusted: Coq kernel + vm_compute; the Go table dumper; Go's encoding/json, fmt and time packages (library code, tied by the tables / cases). "
         "No axioms (Print Assumptions: closed under the global context).",
)
