PROP = dict(
    cover_pkgs=["pdu"],
    gen=["layouts"],
    proof_files=["Properties/C01.v", "Proofs/PduRoundtripProofs.v", "Proofs/PduStreamProofs.v", "Proofs/PduMarshalProofs.v"],
    model_files=["Model/Pdu.v", "Model/PduRun.v"],
    trusted=["Gen/PduLayouts.v: reflect walk of the command_id registry (hook pdu.VerifTypes, build tag verif), classifying each field as Marshal/unmarshal dispatch it",
             "Go value -> Gallina term printer harness/pdu_common.go (maps printed key-sorted: the canonical form the theorems assume)"],
    assumptions=["reflect, bufio, bytes, encoding/binary, io are Go library code (modelled; tied by the generated cases)",
                 "ShortMessage.Prepare looks the UDH indicator up by field name; the model uses the (single) esm_class field of the layout — checked on the generated table (lay_ok)"],
)
MANIFEST = dict(
    engine="pdu",
    design_ref="DESIGN.md §5 C01",
    technique="Coq proof: per-kind decode(encode) lemmas composed by induction over the field list of every layout regenerated from the code, lifted to ReadPDU under any read schedule; vm_compute correspondence on generated values",
    text="Theorems in coq/Properties/C01.v: for each of the 33 layouts regenerated from the code on this run and EVERY value list of the representable domain, if the Marshal model "
         "succeeds with a frame of at most 64 KiB then the ReadPDU model, under any read schedule and whatever follows on the stream, returns the same type and the same values with "
         "command_id and command_length filled in, consuming exactly the frame; header-only variant for non-zero status. The model is tied to the code by evaluating marshal and "
         "read_pdu inside coqc on the values the implementation marshalled and re-read in this run.",
    note="Trusted: Coq kernel + vm_compute; layout dumper and Go->Gallina value printer; Go library code. Known finding D5 (QuerySMResp.ErrorCode not on the wire) is an explicit conjunct of the domain and has a refutation lemma. No axioms.",
)
ENGINE = {"name": "pdu", "path": "", "serves_properties": ["C01"], "kind_free_text": ""}
