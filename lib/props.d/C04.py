PROP = dict(
    cover_pkgs=["pdu"],
    gen=["layouts"],
    proof_files=["Properties/C04.v", "Proofs/PduStreamProofs.v", "Proofs/PduAllocProofs.v", "Proofs/PduReadHazardProofs.v"],
    model_files=["Model/Pdu.v", "Model/PduRun.v", "Model/PduAlloc.v", "Model/PduAllocRun.v", "Model/PduReadHazards.v", "Model/PduReadHazardsRun.v"],
    trusted=["Gen/PduLayouts.v (registry dump)", "runtime.MemStats.TotalAlloc deltas for the observed allocation; 10 s watchdog for 'returns'"],
    assumptions=["Go allocator / GC behaviour is runtime (not modelled): the memory clause is tied by measurement against 64*65536 octets per call (a 64 KiB frame of 16380 empty TLVs measures 2.3 MB: one map entry and binary.Read temporaries per 4-octet TLV), hence partial",
                 "io.ReadFull, io.TeeReader, bufio, encoding/binary are Go library code (modelled; tied by the generated cases)"],
)
MANIFEST = dict(
    engine="pdu",
    design_ref="DESIGN.md §5 C04",
    technique="Coq proof of totality over all byte strings and all read schedules (structural induction, fuel shown unreachable) + vm_compute correspondence on malformed streams",
    text="Theorems in coq/Properties/C04.v: for EVERY byte string and EVERY read schedule the ReadPDU model neither panics nor exhausts fuel, takes at most 65536 octets (exactly those "
         "leave the transport), and returns an error or a PDU of a registered layout decoded from exactly the consumed octets; a header announcing <16 or >65536 is rejected after "
         "exactly 16 octets. Memory clause: the octets requested with make() (body buffer, TLV values, UDH elements, message) are bounded by 5 x 65536 for all inputs, and are 0 for a rejected header (theorems); what the Go allocator adds on top (maps, bufio, tee-buffer growth) is measured per call (TotalAlloc) against 64 x 65536 — that part is partial.",
    note="Trusted: Coq kernel + vm_compute; registry dumper; chunking reader; Go runtime for the measured allocation. No axioms.",
)
ENGINE = {"name": "pdu", "path": "", "serves_properties": ["C04"], "kind_free_text": ""}
