PROP = dict(
    gen=[],
    proof_files=["Properties/C10.v", "Proofs/CombinerProofs.v", "Proofs/CombinerRound5.v", "Spec/CombinerSpec.v", "Proofs/CombinerSetProofs.v", "Spec/CombinerSetSpec.v", "Proofs/CombinerOnce.v", "Proofs/ComposeCombine.v"],
    model_files=["Model/Combiner.v", "Model/CombinerRun.v", "Model/ComposeBridge.v", "Model/ComposeCombineRun.v"],
    trusted=["Go value -> Gallina term printers harness/pdu_common.go (coqAddr, coqKVs8) and harness/c10.go (coqSeg, coqTrace)",
             "the oracle in harness/c10.go (judge) is the direct statement of C10 on an observed callback trace"],
    assumptions=["Go map semantics (one entry per key, struct keys compared field by field, strings octet by octet) are modelled as an association list with boolean key equality",
                 "identity of a PDU = its pointer; the harness feeds a fresh pointer per arrival and numbers arrivals 1, 2, 3, ...",
                 "on histories that hold malformed numbering, a malformed or over-long element or both elements in one PDU the property leaves the outcome open: the model case compares 'returns normally' and the callbacks of the keys whose segments are all well formed (chk_history_lenient)",
                 "slice aliasing (the Go slice handed to the callback is the registry's backing array) is not in the model; it is the direct test combine/delivered-slice-changed-after-callback"],
)
GEN = {}
ENGINE = {"name": "combiner", "path": "coq/Model/Combiner.v coq/Proofs/CombinerProofs.v harness/c10.go harness/c11.go",
          "serves_properties": ["C10"],
          "kind_free_text": "Coq model of the multipart combiner (keyed registry + single-message reference), proofs by induction over arbitrary arrival histories, kernel-evaluated correspondence on exhaustive small interleavings and random histories"}
MANIFEST = dict(
    engine="combiner",
    design_ref="DESIGN.md §5 C10",
    technique="Coq proof by induction over arbitrary arrival histories (projection onto a single-message reference combiner, registry invariant, step characterisation) + vm_compute correspondence on exhaustive orderings of small message sets and random histories",
    text="Theorems in coq/Properties/C10.v about Model/Combiner.v (cstep/crun mirror pdu/message_multipart.go after the D8/D9 repairs, every index expression explicit): "
         "a PDU without concatenation element is delivered at once and alone; for every key the callbacks and stored state on any interleaved history are those of the "
         "single-message reference combiner on the sub-history of that key (traffic for other keys cannot add, remove, reorder or delay a delivery); every concatenated delivery "
         "holds all N segments in sequence order with one key; a delivery fires exactly when the arriving segment fills the last empty slot; key equality is equality of "
         "(source, destination, reference); the legacy fmt.Sprint key is refuted by a collision witness. "
         "Round 5: the 8-bit reference r and the 16-bit reference 0x00rr are one reference number under one key (C10_reference_forms_one_key, stated as intended behaviour); what is handed to the callback has no empty slot and "
         "nothing still stored is such an array (C10_delivered_full, C10_delivered_not_stored); hdr is exactly what ConcatenatedHeader returns (C10_hdr_faithful). Tie extended to every class of reference value "
         "(all 65,536 open at once), letter case / '+' / leading zeros / NUL in numbers, up to 5,000 (thorough 60,000) messages open at once (chk_open), two combiner instances, the delivered slice re-inspected after the run, "
         "compose -> Marshal -> ReadPDU -> combine.",
    note="Trusted: Coq kernel + vm_compute; Go->Gallina printers; the harness oracle. Go maps modelled as association lists. No axioms.",
)
