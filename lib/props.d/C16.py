PROP = dict(
    rerun_mismatch=True,  # a mismatching model case is generated and evaluated again (and a third time with relaxed wall-clock bounds) before it is reported
    gen=["layouts"],
    proof_files=["Properties/C16.v", "Proofs/ConnBase.v", "Proofs/ConnSched.v", "Proofs/ConnC16.v", "Proofs/ConnFrag.v"],
    model_files=["Model/ConnLTS.v", "Model/ConnRun.v"],
    trusted=["scripted net.Conn + goroutine-dump quiescence detection (harness/transport.go, harness/conn_world.go)", "Model/Pdu.v as the meaning of frames and ReadPDU items (compared with the implementation on every frame)"],
    assumptions=["a single net.Conn.Write call is atomic and completes", "Go scheduler fairness, timers and the Go memory model are runtime facts (liveness stated as enabledness)"],
)
GEN = {"layouts": "Gen/PduLayouts.v"}
ENGINE = {"name": "conn", "path": "coq/Model/ConnLTS.v coq/Model/ConnRun.v coq/Model/LockProto.v coq/Proofs/Conn*.v harness/transport.go harness/conn_*.go harness/c05.go harness/c06.go harness/c14.go harness/c15.go harness/c16.go",
          "serves_properties": ["C16"], "kind_free_text": "Coq labelled transition system of smpp.Conn (any number of callers, inductive invariants over arbitrary traces) + forced schedules on the real Conn through a scripted net.Conn, each replayed through the LTS inside coqc"}
MANIFEST = dict(
    engine="conn",
    design_ref="DESIGN.md §5 C16; notes/design_C16.md; notes/design_conn_engine.md",
    technique='Coq proof: invariants over arbitrary traces (conservation and order of the inbound stream, deliveries, nacks), step lemmas, non-interference under every continuation, fragmentation independence of the frame reader + vm_compute correspondence of scripted inbound histories',
    text='Theorems in coq/Properties/C16.v: in every reachable state the inbound stream is consumed in order, the application received exactly the consumed well-formed PDUs no waiter took, in order, once, and the generic_nacks written are exactly the consumed undecodable frames with positive sequence number (C16_dispatch); an undecodable frame changes nothing but the Write log and every continuation runs as if it had been absent (C16_nack, C16_continue); Watch never blocks in a callback or panics; the item obtained for a frame is the same under every fragmentation (C16_fragmentation). Histories mixing unsolicited PDUs of every type, responses, repeated responses and undecodable frames, six fragmentation classes, fast and slow consumer, are run on the real Conn and replayed through the model.',
    note="Trusted: Coq kernel + vm_compute; harness transport/quiescence; Model/Pdu.v for classification of frames (compared with the implementation's ReadPDU on every frame). Unknown command_id / impossible command_length end Watch (outside the property). Partial: scheduler. No axioms.",
)
