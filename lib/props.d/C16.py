PROP = dict(
    gen=["layouts"],
    proof_files=["Properties/C16.v", "Proofs/ConnBase.v", "Proofs/ConnC16.v", "Proofs/ConnFrag.v"],
    model_files=["Model/ConnLTS.v", "Model/ConnRun.v"],
    trusted=[],
    assumptions=[],
)
GEN = {"layouts": "Gen/PduLayouts.v"}
ENGINE = {"name": "conn", "path": "coq/Model/ConnLTS.v coq/Model/ConnRun.v coq/Model/LockProto.v coq/Proofs/Conn*.v harness/transport.go harness/conn_*.go harness/c05.go harness/c06.go harness/c14.go harness/c15.go harness/c16.go",
          "serves_properties": ["C16"], "kind_free_text": "Coq labelled transition system of smpp.Conn (any number of callers, inductive invariants over arbitrary traces) + forced schedules on the real Conn through a scripted net.Conn, each replayed through the LTS inside coqc"}
MANIFEST = dict(
    engine="conn",
    design_ref="DESIGN.md §5 C16",
    technique="Coq proof (induction over arbitrary traces of an executable LTS, any number of callers) + vm_compute correspondence on forced schedules",
    text="TODO",
    note="TODO",
)
