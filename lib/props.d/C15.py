PROP = dict(
    rerun_mismatch=True,  # a mismatching model case is generated and evaluated again (and a third time with relaxed wall-clock bounds) before it is reported
    gen=["layouts"],
    proof_files=["Properties/C15.v", "Proofs/ConnBase.v", "Proofs/ConnSched.v", "Proofs/ConnC14.v", "Proofs/ConnC16.v", "Proofs/ConnC05.v", "Proofs/ConnC15.v", "Proofs/ConnLive.v"],
    model_files=["Model/ConnLTS.v", "Model/ConnRun.v"],
    trusted=["scripted net.Conn + goroutine-dump quiescence detection (harness/transport.go, harness/conn_world.go)", "Model/Pdu.v as the meaning of frames and ReadPDU items (compared with the implementation on every frame)"],
    assumptions=["a single net.Conn.Write call is atomic and completes", "Go scheduler fairness, timers and the Go memory model are runtime facts (liveness stated as enabledness)"],
)
GEN = {"layouts": "Gen/PduLayouts.v"}
ENGINE = {"name": "conn", "path": "coq/Model/ConnLTS.v coq/Model/ConnRun.v coq/Model/LockProto.v coq/Proofs/Conn*.v harness/transport.go harness/conn_*.go harness/c05.go harness/c06.go harness/c14.go harness/c15.go harness/c16.go",
          "serves_properties": ["C15"], "kind_free_text": "Coq labelled transition system of smpp.Conn (any number of callers, inductive invariants over arbitrary traces) + forced schedules on the real Conn through a scripted net.Conn, each replayed through the LTS inside coqc"}
MANIFEST = dict(
    engine="conn",
    design_ref="DESIGN.md §5 C15; notes/design_C15.md; notes/design_conn_engine.md",
    technique='Coq proof: invariants (no panic, queue closed only by its sender, stopped ticker implies Done), existence of finishing runs by well-founded measures from every reachable state, legacy variants refuted (one of them for all continuations) + vm_compute correspondence of teardown placements',
    text="Theorems in coq/Properties/C15.v: Watch never panics; once the transport reported its end or was closed Watch reaches its return from every reachable state and Done() is closed (C15_watch_exit); every call in progress at the teardown reaches its return by its own steps (C15_every_call_returns); blocked Submits are released by Done() and by their own context with an error; the keep-alive loop's return is enabled whenever it waits with Done() closed, and a stopped ticker implies Done() (D28); D27, D28 and D32 refuted on the legacy variants. Teardown placements (EOF, error, timeouts, parent cancel, Close answered/unanswered with every handshake step, keep-alive failure) x outstanding Submits x inbound traffic run on the real Conn with every goroutine under recover, each replayed through the model; prompt return measured (1 s).",
    note="Trusted: Coq kernel + vm_compute; harness. Partial: timers, scheduler, 'promptly' are runtime (measured); a Submit inside a transport Write is bounded by WriteTimeout, not its context (assumed to return). No axioms.",
)
