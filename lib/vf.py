#!/usr/bin/env python3
"""Driver shared by every registered check.

  ./check setup                    build harness, regenerate tables, full Coq build
  ./check <PID> [quick|thorough]   decide property PID on /repo's working tree
  ./check <PID> --replay <file>    re-run a recorded input on the implementation

Protocol (DESIGN.md §3.3): build harness from /repo (tag verif) -> regenerate the
Gen/*.v tables the property depends on -> run the direct property tests on the
implementation and emit the model-correspondence cases -> `make` the property's
theorem files -> Print Assumptions audit -> evaluate the cases with vm_compute
inside coqc -> decide, write evidence, print VIOLATION / KNOWN-FINDING lines.
"""
import concurrent.futures as cf
import fcntl
import hashlib
import json
import os
import re
import subprocess
import sys
import time

ROOT = os.path.dirname(os.path.dirname(os.path.abspath(__file__)))
COQ = os.path.join(ROOT, "coq")
WORK = os.path.join(ROOT, ".work")
HARNESS_SRC = os.path.join(ROOT, "harness")
HARNESS_BIN = os.path.join(WORK, "harness")
REPO = os.environ.get("VERIF_REPO", "/repo")

sys.path.insert(0, os.path.join(ROOT, "lib"))
from props import PROPS, GEN_FILES, SETUP_CMDS  # noqa: E402

ENV = dict(os.environ)
ENV.update(GOFLAGS="-mod=mod", GOPROXY="off", GOSUMDB="off", GOTOOLCHAIN="local",
           CGO_ENABLED=ENV.get("CGO_ENABLED", "1"))

STD_AXIOMS = {  # axioms the standard library itself declares; allowed if named
    "functional_extensionality_dep", "classic", "proof_irrelevance", "JMeq_eq",
    "Eqdep.Eq_rect_eq.eq_rect_eq", "eq_rect_eq", "propositional_extensionality",
    "constructive_indefinite_description", "constructive_definite_description",
}

FORBIDDEN = re.compile(
    r"\b(Admitted|admit|Axiom|Axioms|Parameter|Parameters|Conjecture|Conjectures|Abort All|"
    r"Unset Guard Checking|Unset Positivity Checking|Unset Universe Checking|bypass_check|"
    r"Admit Obligations|native_compute)\b")


def log(*a):
    print(*a, file=sys.stderr, flush=True)


def tlog(t0, what):
    """optional phase timing (VERIF_TIMING=1), stderr only"""
    if os.environ.get("VERIF_TIMING"):
        log("timing: %-28s at %.1fs" % (what, time.time() - t0))


def sh(cmd, cwd=None, timeout=600, env=None):
    """run, return (rc, output); rc 124 on timeout"""
    try:
        p = subprocess.run(cmd, cwd=cwd, env=env or ENV, stdout=subprocess.PIPE,
                           stderr=subprocess.STDOUT, timeout=timeout, text=True, errors="replace")
        return p.returncode, p.stdout
    except subprocess.TimeoutExpired as e:
        out = e.stdout or ""
        if isinstance(out, bytes):
            out = out.decode(errors="replace")
        return 124, out + "\n[timeout after %ss]" % timeout


class Lock:
    def __enter__(self):
        os.makedirs(WORK, exist_ok=True)
        self.f = open(os.path.join(WORK, "lock"), "w")
        fcntl.flock(self.f, fcntl.LOCK_EX)
        return self

    def __exit__(self, *a):
        fcntl.flock(self.f, fcntl.LOCK_UN)
        self.f.close()


def tool_error(msg, out=""):
    log("TOOL-ERROR:", msg)
    if out:
        log(out[-4000:])
    sys.exit(2)


# ---------------------------------------------------------------- build steps
def build_harness(race=False, cover=False):
    os.makedirs(WORK, exist_ok=True)
    # module file outside the source dir: go.sum is the repository's, the replace points at the tree under test
    gm = open(os.path.join(HARNESS_SRC, "go.mod")).read().replace("=> /repo", "=> " + REPO)
    modfile = os.path.join(WORK, "go.mod")
    if not os.path.exists(modfile) or open(modfile).read() != gm:
        open(modfile, "w").write(gm)
    sh(["cp", os.path.join(REPO, "go.sum"), os.path.join(WORK, "go.sum")])
    cmd = ["go", "build", "-tags", "verif", "-modfile", modfile]
    target = HARNESS_BIN
    if race:
        cmd.append("-race")
        target = HARNESS_BIN + "_race"
    if cover:
        # statement coverage of the library under the harness run (thorough tier): evidence for the tie, not a verdict
        cmd += ["-cover", "-coverpkg=verif/harness,github.com/M2MGateway/go-smpp/..."]
        target = HARNESS_BIN + "_cover"
    rc, out = sh(cmd + ["-o", target, "."], cwd=HARNESS_SRC, timeout=900)
    if rc != 0:
        tool_error("harness does not build against the working tree of " + REPO, out)
    return target


def regen(tables):
    for t in tables:
        rc, out = sh([HARNESS_BIN, "gen", t, os.path.join(COQ, GEN_FILES[t])], timeout=900)
        if rc != 0:
            tool_error("table generation failed: " + t, out)


def ensure_makefile():
    """_CoqProject is derived from the files present (no hand-maintained list)."""
    files = []
    for sub in ("Model", "Spec", "Gen", "Proofs", "Properties"):
        d = os.path.join(COQ, sub)
        if os.path.isdir(d):
            files += sorted(os.path.join(sub, f) for f in os.listdir(d) if f.endswith(".v"))
    for g in GEN_FILES.values():
        if g not in files:
            files.append(g)
    txt = "-Q . V\n" + "\n".join(files) + "\n"
    cp = os.path.join(COQ, "_CoqProject")
    mk = os.path.join(COQ, "Makefile")
    if not os.path.exists(cp) or open(cp).read() != txt or not os.path.exists(mk):
        open(cp, "w").write(txt)
        rc, out = sh(["coq_makefile", "-f", "_CoqProject", "-o", "Makefile"], cwd=COQ)
        if rc != 0:
            tool_error("coq_makefile failed", out)


def coq_make(targets, timeout=3000):
    ensure_makefile()
    return sh(["make", "-j16", "-k"] + targets, cwd=COQ, timeout=timeout)


def forbidden_scan():
    bad = []
    for d, _, fs in os.walk(COQ):
        for f in fs:
            if not f.endswith(".v"):
                continue
            p = os.path.join(d, f)
            txt = open(p, errors="replace").read()
            txt = re.sub(r"\(\*.*?\*\)", "", txt, flags=re.S)
            for m in FORBIDDEN.finditer(txt):
                bad.append("%s: %s" % (os.path.relpath(p, COQ), m.group(0)))
    return bad


STMT = re.compile(r"^\s*(Theorem|Lemma|Corollary|Example|Fact|Proposition)\s+([A-Za-z0-9_']+)", re.M)


def count_statements(files):
    n, names = 0, []
    for f in files:
        p = os.path.join(COQ, f)
        if not os.path.exists(p):
            continue
        txt = open(p, errors="replace").read()
        for m in STMT.finditer(txt):
            n += 1
            names.append(m.group(2))
    return n, names


def audit_assumptions(pid, prop_file, workdir):
    """Print Assumptions for every Theorem of the property file (fresh coqc run)."""
    txt = open(os.path.join(COQ, prop_file), errors="replace").read()
    names = [m.group(2) for m in STMT.finditer(txt) if m.group(1) == "Theorem"]
    mod = prop_file[:-2].replace("/", ".")
    # fast path (additive): ONE dependency traversal for all theorems together.  A tuple of all the theorems depends on
    # every axiom any of them depends on, so "Closed under the global context" for the tuple means closed for each one.
    # Anything else (an axiom, an error) falls through to the per-theorem audit below, which attributes it.
    if names and not os.environ.get("VERIF_AUDIT_SLOW"):
        fast = os.path.join(workdir, "AuditAll_%s.v" % pid)
        open(fast, "w").write("From V Require Import %s.\nDefinition audit_all := (%s).\nPrint Assumptions audit_all.\n"
                              % (mod, ", ".join(names)))
        frc, fout = sh(["coqc", "-Q", COQ, "V", fast], cwd=workdir, timeout=600)
        if frc == 0 and "Closed under the global context" in fout and "Axioms:" not in fout:
            return {n: [] for n in names}, fout
    src = ["From V Require Import %s." % mod]
    for n in names:
        src.append('Goal True. idtac "@@ %s". exact I. Qed.' % n)
        src.append("Print Assumptions %s." % n)
    src.append('Goal True. idtac "@@ END". exact I. Qed.')
    path = os.path.join(workdir, "Audit_%s.v" % pid)
    open(path, "w").write("\n".join(src) + "\n")
    rc, out = sh(["coqc", "-Q", COQ, "V", path], cwd=workdir, timeout=600)
    res = {}
    if rc != 0:
        return None, out
    cur = None
    for line in out.splitlines():
        if line.startswith("@@ "):
            cur = line[3:].strip()
            if cur != "END":
                res[cur] = []
            continue
        if cur and cur != "END":
            line = line.strip()
            if not line or line.startswith("Closed under the global context") or line == "Axioms:":
                continue
            m = re.match(r"^([A-Za-z0-9_.']+)\s*:", line)
            if m:
                res[cur].append(m.group(1))
    return res, out


def run_shard(args):
    workdir, name = args
    t0 = time.time()
    rc, out = sh(["bash", "-c", "ulimit -s unlimited 2>/dev/null || ulimit -s 1000000; exec coqc -noglob -Q %s V %s" % (COQ, name)],
                 cwd=workdir, timeout=1500)
    if rc != 0:
        return name, None, out, time.time() - t0
    m = re.search(r"M\s*=\s*(\[.*?\])", out, re.S)
    if not m:
        return name, None, out, time.time() - t0
    idx = [int(x) for x in re.findall(r"\d+", m.group(1))]
    return name, idx, out, time.time() - t0


# ---------------------------------------------------------------- known findings
def load_known(pid):
    known, fixed = {}, []
    p = os.path.join(ROOT, "KNOWN_FINDINGS.txt")
    if os.path.exists(p):
        for line in open(p):
            line = line.strip()
            if line.startswith("known:"):
                m = re.match(r"known:\s+property=(\S+)\s+class=(\S+)\s*::\s*(.*)$", line)
                if m and m.group(1) == pid:
                    known[m.group(2)] = m.group(3)
            elif line.startswith("fixed:"):
                m = re.match(r"fixed:\s+property=(\S+)\s+(.*)$", line)
                if m and m.group(1) == pid:
                    fixed.append(m.group(2))
    return known, fixed


def tree_hash():
    h = hashlib.sha256()
    rc, out = sh(["git", "-C", REPO, "ls-files", "-co", "--exclude-standard"])
    for f in sorted(out.split()):
        if f.endswith(".go") or f in ("go.mod", "go.sum"):
            try:
                h.update(f.encode())
                h.update(open(os.path.join(REPO, f), "rb").read())
            except OSError:
                pass
    return h.hexdigest()[:16]


def write_replay(pid, obj):
    d = os.path.join(ROOT, "replays", pid)
    os.makedirs(d, exist_ok=True)
    blob = json.dumps(obj, indent=1, sort_keys=True)
    name = hashlib.sha256(blob.encode()).hexdigest()[:12] + ".json"
    path = os.path.join(d, name)
    open(path, "w").write(blob + "\n")
    return path


# ---------------------------------------------------------------- re-run of mismatching model cases (opt-in)
def _case_key(desc):
    """a generated case is identified by its scenario tag (first token, e.g. 'sched#12', 'witness-D27'), else by its text"""
    tok = desc.split(" ", 1)[0]
    return tok if ("#" in tok or tok.startswith("witness")) else desc


def rerun_mismatches(pid, tier, seed, workdir, mism):
    """Properties whose cases come from runs of concurrent code (cfg['rerun_mismatch']): a model case that
    mismatches is generated again by a fresh run of the harness (same seed, so the same scenario) and evaluated
    again; it is generated a third time with the harness's wall-clock bounds widened (VERIF_RELAXED=1).  Only a
    scenario whose case mismatches all three times is reported.  Returns (remaining mismatches, notes)."""
    notes = []
    keys = {_case_key(m["case"]) for m in mism}
    for attempt, relaxed in ((1, False), (2, True)):
        wd = workdir + "_rerun%d" % attempt
        sh(["rm", "-rf", wd])
        os.makedirs(wd, exist_ok=True)
        env = dict(ENV, VERIF_RELAXED="1") if relaxed else None
        with Lock():
            rc, out = sh([HARNESS_BIN, "corr", pid, tier, str(seed), wd], timeout=1500, env=env)
        if rc != 0 or not os.path.exists(os.path.join(wd, "result.json")):
            notes.append("re-run %d of the harness for mismatching cases failed to execute; mismatches kept" % attempt)
            return mism, notes
        res2 = json.load(open(os.path.join(wd, "result.json")))
        hdr, defs, descs = None, [], []
        for sd in res2.get("shards") or []:
            if not any(_case_key(d) in keys for d in sd["descs"]):
                continue
            lines = open(os.path.join(wd, sd["file"])).read().split("\n")
            if hdr is None:
                hdr = [l for l in lines if l.startswith("From ") or l.startswith("Open Scope")]
            dl = [l for l in lines if re.match(r"Definition c\d+ : bool :=", l)]
            for i, d in enumerate(sd["descs"]):
                if _case_key(d) in keys and i < len(dl):
                    defs.append(re.sub(r"^Definition c\d+ ", "Definition c%d " % len(defs), dl[i]))
                    descs.append(d)
        still = set()
        if defs:
            body = hdr + defs + ["Definition cases : list (N * bool) := ["]
            body += [" (%d, c%d)%s" % (i, i, ";" if i < len(defs) - 1 else "") for i in range(len(defs))]
            body += ["].", "Definition M := Eval vm_compute in mismatches cases.", "Print M."]
            open(os.path.join(wd, "rerun_cases.v"), "w").write("\n".join(body) + "\n")
            name, idx, out, dt = run_shard((wd, "rerun_cases.v"))
            if idx is None:
                notes.append("re-evaluation of mismatching cases failed; mismatches kept: " + out[-300:])
                return mism, notes
            still = {_case_key(descs[i]) for i in idx}
        gone = keys - still
        if gone:
            notes.append("model case(s) that mismatched once and matched when the scenario was run again%s (machine load?): %s"
                         % (" with relaxed wall-clock bounds" if relaxed else "", ", ".join(sorted(gone))[:400]))
        keys = still
        if not keys:
            return [], notes
    return [m for m in mism if _case_key(m["case"]) in keys], notes


# ---------------------------------------------------------------- the check
def check(pid, tier):
    t0 = time.time()
    cfg = PROPS[pid]
    seed = int(os.environ.get("VERIF_SEED", "1") or "1")
    workdir = os.path.join(WORK, pid)
    os.makedirs(workdir, exist_ok=True)
    violations = []   # (replay_obj, no_input_found)
    known_lines = []
    notes = []

    with Lock():
        build_harness()
        if cfg.get("race"):
            build_harness(race=True)
        tlog(t0, "harness built")
        regen(cfg.get("gen", []))
        tlog(t0, "tables regenerated")
        # direct property tests + case emission (implementation side)
        hb = HARNESS_BIN
        cenv = None
        covdir = os.path.join(workdir, "cov")
        if tier == "thorough" and not cfg.get("race") and not cfg.get("no_cover"):
            hb = build_harness(cover=True)
            sh(["rm", "-rf", covdir])
            os.makedirs(covdir, exist_ok=True)
            cenv = dict(ENV, GOCOVERDIR=covdir)
        rc, out = sh([hb, "corr", pid, tier, str(seed), workdir],
                     timeout=cfg.get("corr_timeout", 1500 if tier == "quick" else 7200), env=cenv)
        if rc != 0:
            tool_error("harness corr failed for " + pid, out)
        tlog(t0, "harness corr done")
        result = json.load(open(os.path.join(workdir, "result.json")))
        for k in ("failures", "shards", "samples", "notes"):
            result[k] = result.get(k) or []
        for k in ("failure_counts", "histogram"):
            result[k] = result.get(k) or {}
        # proofs
        targets = [f[:-2] + ".vo" for f in cfg["proof_files"] if f.startswith("Properties/")]
        # the executable models the generated cases import must be current too
        targets += [f[:-2] + ".vo" for f in cfg.get("model_files", []) if f[:-2] + ".vo" not in targets]
        mrc, mout = coq_make(targets, timeout=cfg.get("make_timeout", 3000))
        open(os.path.join(workdir, "make.log"), "w").write(mout)
        bad_words = forbidden_scan()
        tlog(t0, "proofs made")

    proof_ok = (mrc == 0) and not bad_words
    broken = []
    if mrc != 0:
        for m in re.finditer(r'File "\./([^"]+)", line (\d+), characters [^\n]*\n((?:.*\n){0,6})', mout):
            broken.append({"file": m.group(1), "line": int(m.group(2)), "error": m.group(3).strip()[:600]})
        if not broken:
            broken.append({"file": "?", "line": 0, "error": mout[-800:]})
    if bad_words:
        broken.append({"file": "forbidden-construct", "line": 0, "error": "; ".join(bad_words)})

    axioms = {}
    if mrc == 0:
        prop_file = [f for f in cfg["proof_files"] if f.startswith("Properties/")][0]
        res, aout = audit_assumptions(pid, prop_file, workdir)
        if res is None:
            proof_ok = False
            broken.append({"file": prop_file, "line": 0, "error": "Print Assumptions audit failed: " + aout[-600:]})
        else:
            axioms = res
            for thm, axs in res.items():
                for a in axs:
                    if a.split(".")[-1] not in STD_AXIOMS and a not in STD_AXIOMS:
                        proof_ok = False
                        broken.append({"file": prop_file, "line": 0,
                                       "error": "theorem %s depends on non-standard axiom %s" % (thm, a)})

    tlog(t0, "assumptions audited")
    # thorough tier: independent re-check of the compiled property file and everything it depends on
    coqchk_report = None
    if tier == "thorough" and mrc == 0 and not cfg.get("no_coqchk"):
        prop_file = [f for f in cfg["proof_files"] if f.startswith("Properties/")][0]
        mod = "V." + prop_file[:-2].replace("/", ".")
        with Lock():
            crc, cout = sh(["coqchk", "-silent", "-o", "-Q", COQ, "V", mod], cwd=COQ, timeout=cfg.get("coqchk_timeout", 2400))
        m = re.search(r"\* Axioms:\s*(.*?)\n\s*\n", cout + "\n\n", re.S)
        ax = m.group(1).strip() if m else "?"
        coqchk_report = {"exit": crc, "axioms": ax,
                         "type_in_type": "relying on type-in-type: <none>" in cout,
                         "positivity_assumed_none": "positivity is assumed: <none>" in cout}
        if crc != 0 or ax != "<none>" and not all(a.strip().split(".")[-1] in STD_AXIOMS for a in ax.split()):
            proof_ok = False
            broken.append({"file": prop_file, "line": 0, "error": "coqchk: exit %d, axioms: %s; %s" % (crc, ax, cout[-400:])})

    # model-correspondence cases inside the kernel
    mism = []
    shard_errs = []
    shards = result.get("shards", [])
    cases_ok = 0
    if mrc == 0 or cfg.get("cases_without_proofs", True):
        # the models live in Model/*.vo which the proofs depend on; build them even if a proof broke
        if mrc != 0:
            with Lock():
                coq_make([f[:-2] + ".vo" for f in cfg.get("model_files", [])])
        with cf.ThreadPoolExecutor(max_workers=16) as ex:
            for name, idx, out, dt in ex.map(run_shard, [(workdir, s["file"]) for s in shards]):
                s = next(x for x in shards if x["file"] == name)
                if idx is None:
                    shard_errs.append({"shard": name, "error": out[-800:]})
                    continue
                cases_ok += len(s["descs"]) - len(idx)
                for i in idx:
                    mism.append({"shard": name, "index": i, "case": s["descs"][i]})
        # a shard whose coqc died without a Coq error message (killed under memory pressure, timed out on a loaded
        # machine) says nothing about the property: evaluate it again, alone; if it still gives no answer this is a
        # tool error (exit 2), not a verdict
        retry = [e for e in shard_errs if "Error" not in e["error"]]
        for e in retry:
            name, idx, out, dt = run_shard((workdir, e["shard"]))
            if idx is None and "Error" not in out:
                tool_error("coqc gave no answer for %s of %s twice (resource limits?)" % (e["shard"], pid), out)
            shard_errs.remove(e)
            s = next(x for x in shards if x["file"] == name)
            if idx is None:
                shard_errs.append({"shard": name, "error": out[-800:]})
                continue
            cases_ok += len(s["descs"]) - len(idx)
            for i in idx:
                mism.append({"shard": name, "index": i, "case": s["descs"][i]})

    # advisory cases (harness: r.Advisory) and extension proof files (cfg: extra_files): what they state is NOT
    # part of the property; a failure is a note in the evidence, never a violation
    adv_shards = result.get("advisory_shards") or []
    adv_ok, adv_mism = 0, []
    if adv_shards:
        with cf.ThreadPoolExecutor(max_workers=16) as ex:
            for name, idx, out, dt in ex.map(run_shard, [(workdir, s["file"]) for s in adv_shards]):
                s = next(x for x in adv_shards if x["file"] == name)
                if idx is None:
                    notes.append("advisory shard %s did not evaluate: %s" % (name, out[-300:]))
                    continue
                adv_ok += len(s["descs"]) - len(idx)
                adv_mism += [s["descs"][i] for i in idx]
        notes.append("advisory model cases (outside the property's statement; informational): %d of %d agree with the implementation"
                     % (adv_ok, result.get("n_advisory", 0)))
        if adv_mism:
            notes.append("ADVISORY: the model no longer describes the implementation on %d inputs outside the property's statement, e.g. %s"
                         % (len(adv_mism), "; ".join(d[:200] for d in adv_mism[:3])))
    if cfg.get("extra_files"):
        with Lock():
            erc, eout = coq_make([f[:-2] + ".vo" for f in cfg["extra_files"]], timeout=cfg.get("make_timeout", 3000))
        if erc == 0:
            notes.append("extension theorems (not part of the property) hold on this tree: " + ", ".join(cfg["extra_files"]))
        else:
            em = re.search(r'File "\./([^"]+)", line (\d+), characters [^\n]*\n((?:.*\n){0,4})', eout)
            notes.append("ADVISORY: extension theorems (not part of the property) no longer build: %s"
                         % ((em.group(1) + ":" + em.group(2) + " " + em.group(3).strip()[:300]) if em else eout[-300:]))

    tlog(t0, "case shards evaluated")
    # ---- decide
    known, fixed = load_known(pid)
    fail_by_class = {}
    for f in result.get("failures", []):
        fail_by_class.setdefault(f["class"], []).append(f)
    unknown_fail = {c: fs for c, fs in fail_by_class.items() if c not in known}
    for c, fs in fail_by_class.items():
        if c in known:
            known_lines.append("KNOWN-FINDING: property=%s %s :: %s (e.g. input %s)" %
                               (pid, c, known[c], fs[0]["input"][:160]))
    if mism and not shard_errs and cfg.get("rerun_mismatch") and not unknown_fail:
        # (with a direct failure at hand the verdict does not rest on the model cases: no need to generate them again)
        n0 = len(mism)
        mism, rnotes = rerun_mismatches(pid, tier, seed, workdir, mism)
        notes += rnotes
        cases_ok += n0 - len(mism)
    th = tree_hash()
    # one VIOLATION line per failing class, at most 4 lines; the rest is folded into the last replay
    items = sorted(unknown_fail.items())
    for k, (c, fs) in enumerate(items[:4]):
        obj = {"property": pid, "kind": "direct-property-failure", "class": c, "tier": tier,
               "seed": seed, "tree": th, "failing_input": fs[0], "more": fs[1:]}
        if k == 3 and len(items) > 4:
            obj["further_failing_classes"] = [{"class": c2, "failing_input": fs2[0]} for c2, fs2 in items[4:60]]
            obj["n_failing_classes"] = len(items)
        violations.append((obj, False))
    found_input = bool(unknown_fail)
    if not proof_ok:
        obj = {"property": pid, "kind": "proof-obligation-broken", "tier": tier, "seed": seed, "tree": th,
               "broken": broken,
               "search": "direct property tests on the implementation: %d evaluations, %d unlisted failing classes"
                         % (result["evaluations"], len(unknown_fail))}
        if found_input:
            obj["failing_input"] = next(iter(unknown_fail.values()))[0]
        violations.append((obj, not found_input))
    if mism or shard_errs:
        obj = {"property": pid, "kind": "model-implementation-correspondence-broken", "tier": tier, "seed": seed,
               "tree": th, "mismatches": mism[:10], "n_mismatches": len(mism), "shard_errors": shard_errs[:3],
               "search": "direct property tests on the implementation: %d evaluations, %d unlisted failing classes"
                         % (result["evaluations"], len(unknown_fail))}
        if found_input:
            obj["failing_input"] = next(iter(unknown_fail.values()))[0]
        violations.append((obj, not found_input))

    # ---- statement coverage of the library by this run's harness inputs (thorough tier)
    impl_cov = None
    if tier == "thorough" and os.path.isdir(os.path.join(workdir, "cov")) and os.listdir(os.path.join(workdir, "cov")):
        covdir = os.path.join(workdir, "cov")
        rc1, pout = sh(["go", "tool", "covdata", "percent", "-i=" + covdir])
        rc2, fout = sh(["go", "tool", "covdata", "func", "-i=" + covdir])
        pk = {}
        for line in pout.splitlines():
            m = re.match(r"\s*(github.com/M2MGateway/go-smpp\S*)\s+coverage:\s+([0-9.]+)% of statements", line)
            if m:
                pk[m.group(1).replace("github.com/M2MGateway/go-smpp", "smpp") or "smpp"] = float(m.group(2))
        zero = []
        for line in fout.splitlines():
            m = re.match(r"(github.com/M2MGateway/go-smpp/\S+?):(\d+):\s+(\S+)\s+([0-9.]+)%", line)
            if m and float(m.group(4)) == 0.0 and any(("/" + q + "/") in m.group(1) for q in cfg.get("cover_pkgs", [])):
                zero.append("%s:%s" % (m.group(1).split("go-smpp/")[1], m.group(3)))
        impl_cov = {"statement_coverage_percent_by_package": pk, "functions_never_entered": zero[:80],
                    "note": "library statements executed by this run's harness inputs (go build -cover); evidence about the tie, not a verdict"}

    # ---- evidence
    n_obl, names = count_statements(cfg["proof_files"])
    discharged = n_obl if mrc == 0 and not bad_words else 0
    if mrc != 0:
        # statements in files whose .vo exists and is newer than source still count
        ok_files = []
        for f in cfg["proof_files"]:
            vo = os.path.join(COQ, f[:-2] + ".vo")
            if os.path.exists(vo) and os.path.getmtime(vo) >= os.path.getmtime(os.path.join(COQ, f)) \
                    and not any(b["file"] == f for b in broken):
                ok_files.append(f)
        discharged, _ = count_statements(ok_files)
    all_ax = sorted({a for axs in axioms.values() for a in axs})
    trusted = ["Coq 8.16.1 kernel incl. vm_compute (no native_compute)",
               "axioms per Print Assumptions: " + (", ".join(all_ax) if all_ax else "none (closed under the global context)"),
               "Go harness /verif/harness (table dumper, generators, direct tests), lib/vf.py driver",
               ] + cfg.get("trusted", [])
    ev = {
        "property_id": pid, "tier": tier, "seed": seed, "level": "proof",
        "coverage": {
            "obligations": n_obl, "discharged": discharged,
            "checker_cmd": "make -C /verif/coq " + " ".join(targets) + " (coqc 8.16.1, full .vo) + Print Assumptions audit + coqc vm_compute on generated case shards",
            "trusted_base": trusted,
            "theorems": axioms and sorted(axioms.keys()) or names[:40],
            "evaluations": result["evaluations"],
            "distinct_nontrivial": result["distinct_nontrivial"],
            "rule": result.get("rule", ""),
            "samples": result.get("samples", [])[:12] or ["(no samples)"],
            "input_histogram": result.get("histogram", {}),
            "traces_validated_against_impl": cases_ok,
            "model_cases": result.get("n_cases", 0),
            "model_case_mismatches": len(mism),
            "direct_failure_classes": result.get("failure_counts", {}),
            "known_findings_hit": sorted(c for c in fail_by_class if c in known),
            "fixed_entries": fixed,
            "notes": result.get("notes", []) + notes,
            "tree": th,
            "coqchk": coqchk_report,
            "implementation_coverage": impl_cov,
        },
        "assumptions": cfg.get("assumptions", []),
        "wall_s": round(time.time() - t0, 2),
        "violations": len(violations),
    }
    os.makedirs(os.path.join(ROOT, "evidence"), exist_ok=True)
    open(os.path.join(ROOT, "evidence", pid + ".json"), "w").write(json.dumps(ev, indent=1) + "\n")

    for line in known_lines:
        print(line)
    for obj, noinput in violations:
        path = write_replay(pid, obj)
        print("VIOLATION property=%s replay=%s%s" % (pid, path, " no-failing-input-found" if noinput else ""))
    if violations:
        sys.exit(1)
    print("OK property=%s tier=%s obligations=%d/%d cases=%d/%d direct_evaluations=%d wall=%.1fs" %
          (pid, tier, discharged, n_obl, cases_ok, result.get("n_cases", 0), result["evaluations"], time.time() - t0))
    sys.exit(0)


def setup():
    with Lock():
        build_harness()
        regen(sorted(GEN_FILES))
        ensure_makefile()
        rc, out = sh(["make", "-j16", "-k"], cwd=COQ, timeout=6000)
        if rc != 0:
            # extension theorems (cfg extra_files: statements no property makes) must not stop the set-up: the checks
            # that list them report their state as a note.  Anything else that does not build is a set-up failure.
            extra = {f for c in PROPS.values() for f in c.get("extra_files", [])}
            broken = set(re.findall(r'File "\./([^"]+)", line \d+', out))
            if not broken or not broken <= extra:
                log(out[-6000:])
                sys.exit(2)
            log("note: extension files do not build on this tree (reported as notes by their checks): " + ", ".join(sorted(broken)))
        for cmd in SETUP_CMDS:   # per-property setup steps (lib/props.d/*.py: SETUP), e.g. extracted models
            rc, out = sh([os.path.join(ROOT, cmd[0])] + cmd[1:], cwd=ROOT, timeout=3000)
            if rc != 0:
                log(out[-6000:])
                sys.exit(2)
    bad = forbidden_scan()
    if bad:
        log("forbidden constructs:", bad)
        sys.exit(2)
    print("setup ok")


def replay(pid, path):
    with Lock():
        build_harness()
    obj = json.load(open(path))
    print(json.dumps(obj, indent=1)[:4000])
    fi = obj.get("failing_input")
    if fi:
        rc, out = sh([HARNESS_BIN, "replay", pid, path], timeout=120)
        print("re-run on the implementation (current /repo tree):")
        print(out.strip())
    else:
        print("this replay names a broken proof obligation / correspondence case; no concrete input was found")


def main():
    a = sys.argv[1:]
    if not a:
        print(__doc__)
        sys.exit(2)
    if a[0] == "setup":
        setup()
        return
    pid = a[0]
    if pid not in PROPS:
        log("unknown property", pid)
        sys.exit(2)
    if len(a) >= 3 and a[1] == "--replay":
        replay(pid, a[2])
        return
    tier = a[1] if len(a) > 1 else os.environ.get("VERIF_TIER", "quick")
    if tier not in ("quick", "thorough"):
        tier = "quick"
    check(pid, tier)


if __name__ == "__main__":
    main()
