(* Extraction of the PDU codec model to OCaml (volume path of the pdu engine).
   NOT part of coq/_CoqProject: tools/build_extract.sh copies this file to
   .work/ocaml/ and runs coqc there.  Extract directives in force: exactly
   those of the standard library file ExtrOcamlBasic (bool, option, unit, list,
   prod, sumbool, sumor as their OCaml counterparts; andb / orb inlined) and
   none of our own — N, Z, positive, nat, string, ascii, outcome, the records
   and fval stay the Coq inductives they are.  The extracted code is outside
   the proof: every run cross-checks it against the implementation on all op
   lines and against kernel evaluation on the lines that are also generated as
   vm_compute cases. *)
From Coq Require Extraction.
From Coq Require Import ExtrOcamlBasic.
From V Require Import Model.PduRun.
Extraction Language OCaml.
Extraction "pdu_model.ml" run_many run_read marshal unmarshal lay.
