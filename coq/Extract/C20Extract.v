(* Extraction of the C20 time models to OCaml (reusable extraction path).

   This file is NOT part of coq/_CoqProject (extraction writes files as a side
   effect): tools/build_extract.sh copies it to .work/ocaml/ and runs coqc
   there, so the generated c20_model.ml / c20_model.mli land in .work/ocaml/.

   Extract directives in force -- exactly those of the standard library file
   ExtrOcamlBasic, and none of our own:

     Extract Inductive bool    => bool   [ true false ].
     Extract Inductive option  => option [ Some None ].
     Extract Inductive unit    => unit   [ "()" ].
     Extract Inductive list    => list   [ "[]" "( :: )" ].
     Extract Inductive prod    => "( * )" [ "" ].      (pairs as OCaml tuples)
     Extract Inductive sumbool => bool   [ true false ].
     Extract Inductive sumor   => option [ Some None ].
     Extract Inlined Constant andb => "(&&)".
     Extract Inlined Constant orb  => "(||)".

   Nothing else is mapped: N, Z, positive, nat, Decimal.uint, comparison,
   outcome, err, tparts are extracted as the Coq inductives they are, and all
   arithmetic (Z.div, Z.modulo, N.to_uint ...) is the extracted Gallina code,
   not OCaml's.  No [Extract Constant], no [Extraction Inline], no
   [Extraction Blacklist], no optimisation flags changed.

   The extracted code is outside the proof: it is cross-checked on every
   thorough run against the implementation (>= 100k op lines) and against
   kernel evaluation ([vm_compute] in coqc) on the slice of lines that are also
   generated as cases (harness/c20_extract.go). *)
From Coq Require Extraction.
From Coq Require Import ExtrOcamlBasic.
From V Require Import Model.SmppTime.
Extraction Language OCaml.
Extraction "c20_model.ml" time_parse time_format dur_parse dur_format.
