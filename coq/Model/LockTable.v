(* Lock protocol of the state of smpp.Conn.  Executable, no proofs.

   A TABLE is a control-flow graph per entry point (README role): every node
   performs one action — lock or unlock a mutex (exclusively or shared), access
   a location of the connection state (plain or atomic read / write), or
   nothing — and names its successors; a node without successors returns.  Each
   node also carries the set of mutexes the extraction claims are held when it
   is reached: a certificate that [table_wf] re-checks edge by edge.  The table
   of the code under test is Gen/ConnLocks.v, regenerated from the source on
   every run (harness/c06_extract.go); nothing here knows a field, function or
   mutex name.

   The SYSTEM interleaves any number of threads.  A thread is idle or at a
   node; an idle thread may call any entry its role permits; a thread at a node
   performs the node's action and moves to ANY successor (branches are
   non-deterministic).  Accesses have NO guard in the semantics: that
   conflicting accesses exclude each other is what the theorems show. *)
From Coq Require Import String.
From V Require Import Model.Base.
Open Scope N_scope.

Inductive amode := MRead | MWrite | MAtomicRead | MAtomicWrite.
Inductive act :=
| ANop
| ALock (m : N) (excl : bool)      (* excl = false: RLock of a sync.RWMutex *)
| AUnlock (m : N) (excl : bool)
| AAcc (loc : N) (md : amode).

Definition lockset := list (N * bool).
Record node := mkNode { n_entry : N; n_act : act; n_ls : lockset; n_succ : list N }.
Record entry := mkEntry { e_id : N; e_name : string; e_multi : bool; e_start : N }.   (* e_multi: any number of goroutines may run it *)
Record locinfo := mkLoc { l_id : N; l_path : string; l_type : string; l_sync : bool }. (* l_sync: a type of sync or sync/atomic *)
Record table := mkTable { t_locs : list locinfo; t_entries : list entry; t_nodes : list (N * node) }.

Fixpoint assocN {A} (k : N) (l : list (N * A)) : option A :=
  match l with [] => None | (k', v) :: r => if N.eqb k k' then Some v else assocN k r end.
Definition find_node (T : table) (n : N) : option node := assocN n (t_nodes T).
Definition find_entry (T : table) (e : N) : option entry := List.find (fun x => N.eqb (e_id x) e) (t_entries T).
Definition entry_multi (T : table) (e : N) : bool := match find_entry T e with Some en => e_multi en | None => true end.
Definition loc_sync (T : table) (l : N) : bool :=
  match List.find (fun x => N.eqb (l_id x) l) (t_locs T) with Some li => l_sync li | None => false end.

(* ---- held sets *)
Definition held_eqb (a b : N * bool) : bool := N.eqb (fst a) (fst b) && Bool.eqb (snd a) (snd b).
Definition ls_has (x : N * bool) (ls : lockset) : bool := existsb (held_eqb x) ls.
Definition ls_holds (m : N) (ls : lockset) : bool := existsb (fun y => N.eqb (fst y) m) ls.
Definition ls_remove (m : N) (ls : lockset) : lockset := filter (fun y => negb (N.eqb (fst y) m)) ls.
Definition ls_incl (a b : lockset) : bool := forallb (fun x => ls_has x b) a.
Definition ls_equiv (a b : lockset) : bool := ls_incl a b && ls_incl b a.

(* the held set after an action; None: the action does not fit the held set
   (locking what is held, unlocking what is not held in that mode) *)
Definition ls_after (a : act) (ls : lockset) : option lockset :=
  match a with
  | ALock m e => if ls_holds m ls then None else Some ((m, e) :: ls)
  | AUnlock m e => if ls_has (m, e) ls then Some (ls_remove m ls) else None
  | _ => Some ls
  end.

(* ---- the certificate check *)
Definition node_ok (T : table) (x : N * node) : bool :=
  let nd := snd x in
  match ls_after (n_act nd) (n_ls nd) with
  | None => false
  | Some ls' =>
    forallb (fun s => match find_node T s with
                      | Some ns => ls_equiv (n_ls ns) ls' && N.eqb (n_entry ns) (n_entry nd)
                      | None => false end) (n_succ nd)
  end.
Definition entry_ok (T : table) (en : entry) : bool :=
  match find_node T (e_start en) with
  | Some nd => match n_ls nd with [] => N.eqb (n_entry nd) (e_id en) | _ => false end
  | None => false
  end.
Definition table_wf (T : table) : bool := forallb (node_ok T) (t_nodes T) && forallb (entry_ok T) (t_entries T).

(* ---- conflicts *)
Definition is_write (m : amode) : bool := match m with MWrite | MAtomicWrite => true | _ => false end.
Definition is_atomic (m : amode) : bool := match m with MAtomicRead | MAtomicWrite => true | _ => false end.
(* the Go memory model: two accesses conflict when at least one writes, unless both are atomic *)
Definition conflict (a b : amode) : bool := (is_write a || is_write b) && negb (is_atomic a && is_atomic b).
(* can two nodes of these entries be executed by two different goroutines? *)
Definition conc (T : table) (e1 e2 : N) : bool := negb (N.eqb e1 e2) || entry_multi T e1.
(* a mutex held at both nodes, exclusively at one of them at least *)
Definition share_lock (a b : lockset) : bool :=
  existsb (fun x => existsb (fun y => N.eqb (fst x) (fst y) && (snd x || snd y)) b) a.

Definition pair_ok (T : table) (l : N) (n1 n2 : node) : bool :=
  match n_act n1, n_act n2 with
  | AAcc l1 m1, AAcc l2 m2 =>
    if N.eqb l1 l && N.eqb l2 l && conflict m1 m2 && conc T (n_entry n1) (n_entry n2)
    then share_lock (n_ls n1) (n_ls n2) else true
  | _, _ => true
  end.
Definition accesses_of (T : table) (l : N) : list node :=
  filter (fun nd => match n_act nd with AAcc l' _ => N.eqb l' l | _ => false end) (map snd (t_nodes T)).
(* every pair of conflicting accesses to location l by entries that may run concurrently shares a mutex *)
Definition loc_ok (T : table) (l : N) : bool :=
  let ns := accesses_of T l in forallb (fun n1 => forallb (fun n2 => pair_ok T l n1 n2) ns) ns.

(* ---- the interleaving semantics *)
Record tstate := mkT {
  pc : nat -> option N;                  (* idle, or the node the thread is about to execute *)
  locks : N -> list (nat * bool)         (* who holds each mutex, in which mode *)
}.
Definition tinit : tstate := mkT (fun _ => None) (fun _ => []).
Definition upd {A} (f : nat -> A) (t : nat) (v : A) : nat -> A := fun x => if Nat.eqb x t then v else f x.
Definition updN {A} (f : N -> A) (m : N) (v : A) : N -> A := fun x => if N.eqb x m then v else f x.

(* sync.Mutex / sync.RWMutex: Lock waits until nobody holds it; RLock waits until no writer holds it *)
Definition lock_enabled (l : list (nat * bool)) (excl : bool) : bool :=
  if excl then match l with [] => true | _ => false end else forallb (fun x => negb (snd x)) l.
Fixpoint remove_first (t : nat) (e : bool) (l : list (nat * bool)) : option (list (nat * bool)) :=
  match l with
  | [] => None
  | x :: r => if Nat.eqb (fst x) t && Bool.eqb (snd x) e then Some r
              else match remove_first t e r with Some r' => Some (x :: r') | None => None end
  end.

Inductive event := ECall (t : nat) (e : N) | EAct (t : nat) (n : N) (a : act).

(* one step of thread tid; [choice] is the entry to call (idle thread) or the index of the successor taken *)
Definition tstep (T : table) (roles : nat -> N -> bool) (s : tstate) (tid : nat) (choice : N) : option (tstate * event) :=
  match pc s tid with
  | None =>
    match find_entry T choice with
    | Some en => if roles tid (e_id en) then Some (mkT (upd (pc s) tid (Some (e_start en))) (locks s), ECall tid (e_id en)) else None
    | None => None
    end
  | Some n =>
    match find_node T n with
    | None => None
    | Some nd =>
      let next := match n_succ nd with
                  | [] => Some None
                  | ss => match nth_error ss (N.to_nat choice) with Some x => Some (Some x) | None => None end
                  end in
      match next with
      | None => None
      | Some pc' =>
        match n_act nd with
        | ALock m e =>
          if lock_enabled (locks s m) e
          then Some (mkT (upd (pc s) tid pc') (updN (locks s) m ((tid, e) :: locks s m)), EAct tid n (n_act nd))
          else None                                                          (* blocks *)
        | AUnlock m e =>
          match remove_first tid e (locks s m) with
          | Some l' => Some (mkT (upd (pc s) tid pc') (updN (locks s) m l'), EAct tid n (n_act nd))
          | None => None                                                     (* "unlock of unlocked mutex": never reached from a checked table *)
          end
        | _ => Some (mkT (upd (pc s) tid pc') (locks s), EAct tid n (n_act nd))   (* accesses: no guard *)
        end
      end
    end
  end.

Fixpoint trun (T : table) (roles : nat -> N -> bool) (s : tstate) (sched : list (nat * N)) : option (tstate * list event) :=
  match sched with
  | [] => Some (s, [])
  | (t, c) :: r =>
    match tstep T roles s t c with
    | None => None
    | Some (s', ev) => match trun T roles s' r with Some (s'', tr) => Some (s'', ev :: tr) | None => None end
    end
  end.

(* ---- what a data race is here: a state in which two different threads are both about to perform
   conflicting accesses to the same location (nothing orders them: either may go first) *)
Definition at_access (T : table) (s : tstate) (t : nat) (l : N) (md : amode) : Prop :=
  exists n nd, pc s t = Some n /\ find_node T n = Some nd /\ n_act nd = AAcc l md.
Definition race_state (T : table) (s : tstate) (l : N) : Prop :=
  exists t1 t2 m1 m2, t1 <> t2 /\ at_access T s t1 l m1 /\ at_access T s t2 l m2 /\ conflict m1 m2 = true.

(* a single-goroutine role is given to at most one thread *)
Definition roles_ok (T : table) (roles : nat -> N -> bool) : Prop :=
  forall t1 t2 e, roles t1 e = true -> roles t2 e = true -> entry_multi T e = false -> t1 = t2.

(* ---- executable companions used by the generated cases *)
(* thread 0 may run everything; the others only the any-number entries *)
Definition default_roles (T : table) : nat -> N -> bool := fun t e => match t with O => true | _ => entry_multi T e end.
Definition acc_of (T : table) (s : tstate) (t : nat) : option (N * amode * node) :=
  match pc s t with
  | Some n => match find_node T n with
              | Some nd => match n_act nd with AAcc l md => Some (l, md, nd) | _ => None end
              | None => None end
  | None => None
  end.
(* the locations for which the static verdict holds *)
Definition ok_locs (T : table) : list N :=
  map l_id (filter (fun li => loc_ok T (l_id li) && negb (l_sync li)) (t_locs T)).
(* is some pair of the threads 0..k-1 in a race state on one of these locations? *)
Definition race_now (T : table) (oks : list N) (s : tstate) (k : nat) : bool :=
  existsb (fun t1 => existsb (fun t2 =>
    negb (Nat.eqb t1 t2) &&
    match acc_of T s t1, acc_of T s t2 with
    | Some (l1, m1, _), Some (l2, m2, _) => N.eqb l1 l2 && conflict m1 m2 && existsb (N.eqb l1) oks
    | _, _ => false
    end) (seq 0 k)) (seq 0 k).
(* run a schedule, skipping the steps that are not enabled; true iff no visited state is a race state (and some steps ran) *)
Fixpoint sched_run (T : table) (oks : list N) (s : tstate) (sched : list (nat * N)) (ran : N) : bool * N :=
  match sched with
  | [] => (true, ran)
  | (t, c) :: r =>
    match tstep T (default_roles T) s t c with
    | None => sched_run T oks s r ran
    | Some (s', _) => if race_now T oks s' 8 then (false, ran) else sched_run T oks s' r (ran + 1)
    end
  end.
Definition sched_check (T : table) (sched : list (nat * N)) : bool :=
  let '(ok, ran) := sched_run T (ok_locs T) tinit sched 0 in ok && (10 <=? ran).

(* ---- hand-typed miniatures (non-vacuity and the unrepaired shape) *)
(* location 0: a map guarded by mutex 0; location 1: a flag nobody guards; entry 0 (any number): lock, write 0, unlock;
   entry 1 (one goroutine): lock, read 0, write 0, unlock; *)
Definition sample_table : table := mkTable
  [mkLoc 0 "table"%string "map"%string false; mkLoc 1 "flag"%string "bool"%string false]
  [mkEntry 0 "put"%string true 0; mkEntry 1 "take"%string false 10]
  [(0, mkNode 0 (ALock 0 true) [] [1]); (1, mkNode 0 (AAcc 0 MWrite) [(0, true)] [2]); (2, mkNode 0 (AUnlock 0 true) [(0, true)] [3]); (3, mkNode 0 ANop [] []);
   (10, mkNode 1 (ALock 0 true) [] [11]); (11, mkNode 1 (AAcc 0 MRead) [(0, true)] [12; 13]); (12, mkNode 1 (AAcc 0 MWrite) [(0, true)] [13]);
   (13, mkNode 1 (AUnlock 0 true) [(0, true)] [14]); (14, mkNode 1 ANop [] [])].
(* the same with a third entry that tests and sets the flag without any lock, run by two roles *)
Definition unguarded_table : table := mkTable
  (t_locs sample_table)
  (t_entries sample_table ++ [mkEntry 2 "close"%string true 20])
  (t_nodes sample_table ++ [(20, mkNode 2 (AAcc 1 MRead) [] [21; 22]); (21, mkNode 2 (AAcc 1 MWrite) [] [22]); (22, mkNode 2 ANop [] [])]).
