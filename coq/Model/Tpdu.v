(* Executable model of package sms (GSM 03.40 TPDU codec): sms/marshal.go
   (Unmarshal, unmarshal, Marshal, getType, unmarshalFlags, marshalFlags),
   sms/address.go, sms/time.go, sms/indicator.go, sms/message_type.go — as the
   code is after the fix: commits recorded in KNOWN_FINDINGS.txt — and of the
   part of coding/gsm7bit that alphanumeric addresses go through.
   No proofs in this file.

   What is NOT written here but regenerated from the running code on every run
   (Gen/TpduLayouts.v): the field lists of the eight TPDU structs classified
   exactly as the two reflection walks dispatch them, the field lists of the
   four first-octet / indicator structs as unmarshalFlags / marshalFlags walk
   them, and the GSM 7-bit default alphabet + extension table.  The model is
   parametrised by that environment ([env]).

   Reader.  sms.Unmarshal wraps its argument in one bufio.Reader (4096 octets);
   every nested bufio.NewReader returns the same reader.  A TPDU consumes at
   most 1+255 + 1 + 2+128 + 2 + 7 + 1+255 < 4096 octets, so refills never
   happen after the first fill and the stream is the list of input octets:
     ReadByte        -> EOF on the empty list;
     Read(p), len 0  -> (0, nil) always;
     Read(p), len n  -> EOF on the empty list, otherwise min(n, available)
                        octets and NO error: p keeps its zero tail (short read);
     Peek(n)         -> error unless n octets are available;
     Discard(n)      -> error unless n octets are available.
   Every Go index expression on a slice is [idx], which yields [Panic] out of
   range. *)
From V Require Export Model.SemiOctet.
Open Scope N_scope.

(* ------------------------------------------------------------------ layouts *)
Inductive fbit := FbMT | FbByte | FbBool.      (* MessageType: 2 bits, byte: 2 bits, bool: 1 bit *)
Record flagstruct := {
  fs_name : string;                            (* Go type name *)
  fs_fields : list (string * fbit);            (* exported fields in declaration order *)
  fs_dir : bool                                (* implements directionSetter *)
}.

Inductive tkind :=
| KByte                    (* *byte *)
| KFlags (fs : flagstruct) (* io.ByteWriter / io.ByteReader *)
| KBytes                   (* *[]byte: one-octet length + octets *)
| KSCAddr                  (* *SCAddress (io.ReaderFrom / io.WriterTo) *)
| KAddr                    (* *Address *)
| KTime                    (* *Time *)
| KIface                   (* *interface{} : the validity period *)
| KSkip.                   (* matched by neither switch: bool, FailureCause; no octets *)

Record tfield := {
  f_name : string;
  f_tp : string;             (* struct tag TP:"…" *)
  f_dirtag : string;         (* struct tag DIR:"…" *)
  f_dkind : tkind;           (* how unmarshal dispatches the field *)
  f_ekind : tkind            (* how Marshal dispatches the field *)
}.
Record tlayout := { tl_name : string; tl_fields : list tfield }.

(* GSM 7-bit tables as the running code decodes them *)
Record g7tab := {
  g7_rev : list N;           (* rune of septet 0..127 (reverseLookup) *)
  g7_esc : list (N * N)      (* septet after ESC -> rune (reverseEscapes), ascending *)
}.
Record env := { e_layouts : list tlayout; e_g7 : g7tab }.

(* ------------------------------------------------------------------ values *)
Record taddr := { a_npi : N; a_ton : N; a_no : list N (* runes of the Go string *) }.
Definition addr0 : taddr := {| a_npi := 0; a_ton := 0; a_no := [] |}.

(* sms.Time: TZero is the zero time.Time; TDate keeps the arguments handed to
   time.Date(2000+y, mo, d, h, mi, s, 0, FixedZone(name, ±zq*900)) before Go normalises them;
   zneg = the sign bit of the zone octet was set (zone name "-", so that minus zero survives) *)
Inductive mtime := TZero | TDate (y mo d h mi s : N) (zneg : bool) (zq : N).

(* durations are whole seconds (every decoder produces whole seconds) *)
Inductive vp :=
| VPNone                               (* nil interface *)
| VPEnh (dur : N) (ind : N)            (* EnhancedDuration{Duration, Indicator} *)
| VPRel (dur : N)                      (* Duration *)
| VPAbs (t : mtime).                   (* Time *)

Inductive tval :=
| TVByte (b : N)
| TVFlags (vals : list N)   (* one number per field of the flag struct: MessageType value (3 bits), byte, bool as 0/1 *)
| TVBytes (l : bytes)
| TVAddr (a : taddr)        (* SCAddress and Address *)
| TVTime (t : mtime)
| TVVP (v : vp)
| TVSkip.

Definition tpdu := (string * list tval)%type.    (* struct name, field values in declaration order *)

Definition zero_val (k : tkind) : tval :=
  match k with
  | KByte => TVByte 0
  | KFlags fs => TVFlags (map (fun _ => 0) (fs_fields fs))
  | KBytes => TVBytes []
  | KSCAddr | KAddr => TVAddr addr0
  | KTime => TVTime TZero
  | KIface => TVVP VPNone
  | KSkip => TVSkip
  end.

(* ------------------------------------------------------------------ reader *)
Definition blen (l : bytes) : N := N.of_nat (List.length l).

Definition idx {A} (l : list A) (i : N) : outcome A :=
  match nth_error l (N.to_nat i) with Some x => Ok x | None => Panic end.

Definition read_byte (bs : bytes) : outcome (N * bytes) :=
  match bs with [] => Err EEOF | b :: r => Ok (b, r) end.

(* data := make([]byte, n); _, err = buf.Read(data) *)
Definition read_n (n : N) (bs : bytes) : outcome (bytes * bytes) :=
  if n =? 0 then Ok ([], bs)
  else match bs with
       | [] => Err EEOF
       | _ => let k := N.to_nat n in
              let got := firstn k bs in
              Ok (got ++ repeat 0 (k - List.length got)%nat, skipn k bs)
       end.

Definition discard (n : N) (bs : bytes) : outcome bytes :=
  if blen bs <? n then Err EEOF else Ok (skipn (N.to_nat n) bs).

(* ------------------------------------------------------------------ getType *)
(* kind.Set(peek[length+1]&0b11, dir); failure = peek[length+2] > 0b001111111 *)
Definition get_type (bs : bytes) : outcome (N * bool) :=
  match bs with
  | [] => Err EEOF                                   (* Peek(1) *)
  | l :: _ =>
    if blen bs <? l + 3 then Err EEOF                (* Peek(length+3) *)
    else
      let peek := firstn (N.to_nat (l + 3)) bs in
      do f <- idx peek (l + 1);
      do g <- idx peek (l + 2);
      let dir := if l =? 0 then 1 else 0 in          (* MO = 1 when there is no SC address *)
      Ok (N.land (N.lor (N.shiftl (N.land f 3) 1) dir) 7, 127 <? g)
  end.

Open Scope string_scope.
(* the switch in Unmarshal; None = default branch (error "UNKNOWN") *)
Definition struct_of (kind : N) (failure : bool) : option string :=
  match kind with
  | 0%N => Some "Deliver"
  | 1%N => Some (if failure then "DeliverReportError" else "DeliverReport")
  | 3%N => Some "Submit"
  | 2%N => Some (if failure then "SubmitReportError" else "SubmitReport")
  | 4%N => Some "StatusReport"
  | 5%N => Some "Command"
  | _ => None
  end.
Definition struct_names : list string :=
  ["Deliver"; "DeliverReport"; "DeliverReportError"; "Submit"; "SubmitReport"; "SubmitReportError";
   "StatusReport"; "Command"].

Definition find_layout (ls : list tlayout) (name : string) : option tlayout :=
  find (fun l => String.eqb (tl_name l) name) ls.

(* ------------------------------------------------------------------ first octets *)
Definition mt_set (kind dir : N) : N := N.land (N.lor (N.shiftl kind 1) dir) 7.   (* MessageType.Set *)
Definition mt_type (t : N) : N := N.land (N.shiftr t 1) 3.                          (* MessageType.Type *)
Definition mt_dir (t : N) : N := N.land t 1.                                        (* MessageType.Direction *)

(* unmarshalFlags: b = c >> bits for each field in turn (the struct is zero before) *)
Fixpoint unmarshal_flags (fields : list (string * fbit)) (c bits : N) : list N :=
  match fields with
  | [] => []
  | (_, k) :: r =>
    let b := N.shiftr c bits in
    match k with
    | FbMT => mt_set (N.land b 3) 0 :: unmarshal_flags r c (bits + 2)
    | FbByte => N.land b 3 :: unmarshal_flags r c (bits + 2)
    | FbBool => N.land b 1 :: unmarshal_flags r c (bits + 1)
    end
  end.

(* marshalFlags: c |= field << bits, in a byte *)
Fixpoint marshal_flags (fields : list (string * fbit)) (vals : list N) (bits : N) : N :=
  match fields, vals with
  | (_, k) :: r, v :: vs =>
    match k with
    | FbMT => N.lor (N.shiftl (mt_type v) bits mod 256) (marshal_flags r vs (bits + 2))
    | FbByte => N.lor (N.shiftl (N.land v 3) bits mod 256) (marshal_flags r vs (bits + 2))
    | FbBool => N.lor (if (v =? 0)%N then 0 else N.shiftl 1 bits mod 256) (marshal_flags r vs (bits + 1))
    end
  | _, _ => 0
  end.

(* setDirection on the MessageType field(s) *)
Fixpoint set_direction (fields : list (string * fbit)) (vals : list N) (dir : N) : list N :=
  match fields, vals with
  | (_, FbMT) :: r, v :: vs => mt_set (mt_type v) dir :: set_direction r vs dir
  | _ :: r, v :: vs => v :: set_direction r vs dir
  | _, _ => vals
  end.

(* value of the named field of a flag struct (0 if the struct has no such field) *)
Fixpoint flag_get (fields : list (string * fbit)) (vals : list N) (name : string) : N :=
  match fields, vals with
  | (n, _) :: r, v :: vs => if String.eqb n name then v else flag_get r vs name
  | _, _ => 0%N
  end.
Fixpoint flag_put (fields : list (string * fbit)) (vals : list N) (name : string) (x : N) : list N :=
  match fields, vals with
  | (n, _) :: r, v :: vs => (if String.eqb n name then x else v) :: flag_put r vs name x
  | _, _ => vals
  end.

(* ParameterIndicator.Has *)
Definition pi_has (fs : flagstruct) (vals : list N) (abbr : string) : bool :=
  if String.eqb abbr "PID" then negb (flag_get (fs_fields fs) vals "ProtocolIdentifier" =? 0)%N
  else if String.eqb abbr "DCS" then negb (flag_get (fs_fields fs) vals "DataCoding" =? 0)%N
  else if String.eqb abbr "UD" then negb (flag_get (fs_fields fs) vals "UserData" =? 0)%N
  else false.
Close Scope string_scope.

(* ------------------------------------------------------------------ GSM 7-bit for addresses *)
Fixpoint bits_of (w : nat) (n : N) : list bool :=
  match w with O => [] | S w' => N.odd n :: bits_of w' (N.div2 n) end.
Fixpoint of_bits (l : list bool) : N :=
  match l with [] => 0 | b :: r => (if b then 1 else 0) + 2 * of_bits r end.

(* unpackSeptets: bits of every octet, least significant first, cut into groups
   of seven; an incomplete last group is dropped *)
Fixpoint chunk7 (l : list bool) : list N :=
  match l with
  | a :: b :: c :: d :: e :: f :: g :: r => of_bits [a; b; c; d; e; f; g] :: chunk7 r
  | _ => []
  end.
Definition ta_unpack (os : bytes) : list N := chunk7 (flat_map (bits_of 8) os).

(* packSeptets into a zeroed buffer of blocks(7n) octets: groups of eight bits,
   the last group zero-filled *)
Fixpoint chunk8 (l : list bool) : list N :=
  match l with
  | a :: b :: c :: d :: e :: f :: g :: h :: r => of_bits [a; b; c; d; e; f; g; h] :: chunk8 r
  | [] => []
  | _ => [of_bits l]
  end.
Definition ta_pack (septets : list N) : bytes :=
  let n := List.length septets in
  (* a CR septet is appended when seven spare bits remain (7n mod 8 = 1) *)
  let s := if Nat.eqb (Nat.modulo (7 * n) 8) 1 then septets ++ [13] else septets in
  chunk8 (flat_map (bits_of 7) s).

Definition ESC : N := 27.
Definition CR : N := 13.

Fixpoint assoc (k : N) (l : list (N * N)) : option N :=
  match l with [] => None | (a, b) :: r => if a =? k then Some b else assoc k r end.

(* the loop of gsm7Decoder.Transform: Err = ErrInvalidByte *)
Fixpoint ta_runes (t : g7tab) (ss : list N) : outcome (list N) :=
  match ss with
  | [] => Ok []
  | s :: r =>
    if (s <=? 127) && negb (s =? ESC) then
      do c <- idx (g7_rev t) s;                     (* reverseLookup[septet] *)
      do rest <- ta_runes t r;
      Ok (c :: rest)
    else
      match r with
      | [] => Err EDecode
      | x :: r' =>
        match assoc x (g7_esc t) with
        | None => Err EDecode
        | Some c => do rest <- ta_runes t r'; Ok (c :: rest)
        end
      end
  end.

(* Packed.NewDecoder().Bytes(data): after the loop the filler CR is dropped when
   the septet count is a positive multiple of 8 and the last septet is CR (it
   then is a one-octet rune of its own, see notes/design_C18.md). *)
Definition ta_decode (t : g7tab) (data : bytes) : outcome (list N) :=
  match data with
  | [] => Ok []
  | _ =>
    let ss := ta_unpack data in
    do rs <- ta_runes t ss;
    let n := List.length ss in
    if (negb (Nat.eqb n 0)) && Nat.eqb (Nat.modulo n 8) 0 && (last ss 0 =? CR)
    then Ok (removelast rs) else Ok rs
  end.

(* forwardLookup is reverseLookup inverted in index order skipping ESC: the
   last index wins; then forwardEscapes.  None = ErrInvalidCharacter *)
Fixpoint rev_find (l : list N) (i : N) (r : N) (acc : option N) : option N :=
  match l with
  | [] => acc
  | x :: l' => rev_find l' (i + 1) r (if (x =? r) && negb (i =? ESC) then Some i else acc)
  end.
Fixpoint esc_find (l : list (N * N)) (r : N) : option N :=
  match l with [] => None | (b, x) :: l' => if x =? r then Some b else esc_find l' r end.
Fixpoint ta_septets (t : g7tab) (rs : list N) : option (list N) :=
  match rs with
  | [] => Some []
  | r :: rest =>
    match ta_septets t rest with
    | None => None
    | Some ss =>
      match rev_find (g7_rev t) 0 r None with
      | Some s => Some (s :: ss)
      | None => match esc_find (g7_esc t) r with Some b => Some (ESC :: b :: ss) | None => None end
      end
    end
  end.
(* Packed.NewEncoder().Writer(&buf).Write([]byte(s)): octets appended to buf, nothing on error *)
Definition ta_encode (t : g7tab) (rs : list N) : bytes :=
  match rs with
  | [] => []
  | _ => match ta_septets t rs with Some ss => ta_pack ss | None => [] end
  end.

(* ------------------------------------------------------------------ addresses *)
Definition addr_text (t : g7tab) (ton : N) (data : bytes) : outcome (list N) :=
  if ton =? 5 then ta_decode t data else Ok (decode_semi_address data).

(* Address.ReadFrom *)
Definition addr_read (t : g7tab) (bs : bytes) : outcome (taddr * bytes) :=
  do (length, bs1) <- read_byte bs;
  if length =? 0 then Ok (addr0, bs1) else
  do (kind, bs2) <- read_byte bs1;
  let npi := N.land kind 15 in
  let ton := N.land (N.shiftr kind 4) 7 in
  let n := ((length + 1) mod 256) / 2 in            (* length = (length + 1) / 2 on a byte *)
  do (data, bs3) <- read_n n bs2;
  do no <- addr_text t ton data;
  Ok ({| a_npi := npi; a_ton := ton; a_no := no |}, bs3).

(* SCAddress.ReadFrom *)
Definition sc_read (t : g7tab) (bs : bytes) : outcome (taddr * bytes) :=
  do (length, bs1) <- read_byte bs;
  if length =? 0 then Ok (addr0, bs1) else
  do (kind, bs2) <- read_byte bs1;
  let npi := N.land kind 15 in
  let ton := N.land (N.shiftr kind 4) 7 in
  do (data, bs3) <- read_n (length - 1) bs2;
  do no <- addr_text t ton data;
  Ok ({| a_npi := npi; a_ton := ton; a_no := no |}, bs3).

(* Address.MarshalBinary without its first octet: type octet, then the digits /
   packed text (nothing when the encoder refuses the string) *)
Definition addr_body (t : g7tab) (a : taddr) : bytes :=
  let kind := N.lor (N.lor (N.land (a_npi a) 15) (N.shiftl (N.land (a_ton a) 7) 4)) 128 in
  kind :: (if a_ton a =? 5 then ta_encode t (a_no a)
           else match encode_semi_address (a_no a) with Some d => d | None => [] end).

(* Address.WriteTo after the D20 / D21 fixes: numeric -> number of characters; alphanumeric ->
   useful semi-octets of the 8*octets/7 septets the octets hold *)
Definition addr_write (t : g7tab) (a : taddr) : bytes :=
  match a_no a with
  | [] => [0]
  | _ =>
    let body := addr_body t a in
    let n := (blen body - 1) mod 256 in                        (* data[0] = byte(len(data) - 2) *)
    (if a_ton a =? 5 then (((n * 8 / 7) * 7 + 3) / 4) mod 256 else blen (a_no a) mod 256) :: body
  end.
(* before the fix: data[0] *= 2; if numeric: data[0] -= 1 *)
Definition addr_write_legacy_len (a : taddr) (octets : N) : N :=
  if a_ton a =? 5 then (octets * 2) mod 256 else (octets * 2 + 255) mod 256.

(* SCAddress.WriteTo: data[0]++ *)
Definition sc_write (t : g7tab) (a : taddr) : bytes :=
  match a_no a with
  | [] => [0]
  | _ => let body := addr_body t a in (blen body mod 256) :: body
  end.

(* ------------------------------------------------------------------ time *)
Open Scope Z_scope.
(* proleptic Gregorian calendar, days relative to 1970-01-01 (what time.Date /
   Time.Year… compute; Go library code, tied by the generated cases) *)
Definition days_from_civil (y m d : Z) : Z :=
  let y' := if m <=? 2 then y - 1 else y in
  let era := y' / 400 in
  let yoe := y' - era * 400 in
  let mp := if m >? 2 then m - 3 else m + 9 in
  let doy := (153 * mp + 2) / 5 + d - 1 in
  let doe := yoe * 365 + yoe / 4 - yoe / 100 + doy in
  era * 146097 + doe - 719468.
Definition civil_from_days (z0 : Z) : Z * Z * Z :=
  let z := z0 + 719468 in
  let era := z / 146097 in
  let doe := z - era * 146097 in
  let yoe := (doe - doe / 1460 + doe / 36524 - doe / 146096) / 365 in
  let y := yoe + era * 400 in
  let doy := doe - (365 * yoe + yoe / 4 - yoe / 100) in
  let mp := (5 * doy + 2) / 153 in
  let d := doy - (153 * mp + 2) / 5 + 1 in
  let m := if mp <? 10 then mp + 3 else mp - 9 in
  (if m <=? 2 then y + 1 else y, m, d).

(* time.Date(y, mo, d, h, mi, s, 0, loc) followed by Year/Month/Day/Hour/Minute/Second
   in loc: out-of-range arguments are normalised (month 0 is December of the year
   before, hour 99 moves the day, …).  The zone offset cancels. *)
Definition go_date (y mo d h mi s : Z) : Z * Z * Z * Z * Z * Z :=
  let m0 := mo - 1 in
  let y1 := y + m0 / 12 in
  let m1 := m0 mod 12 + 1 in
  let mi1 := mi + s / 60 in
  let h1 := h + mi1 / 60 in
  let d1 := d + h1 / 24 in
  let '(yy, mm, dd) := civil_from_days (days_from_civil y1 m1 1 + (d1 - 1)) in
  (yy, mm, dd, h1 mod 24, mi1 mod 60, s mod 60).

(* (Year, Month, Day, Hour, Minute, Second, zone offset / 900) of a decoded sms.Time *)
Definition time_civil (t : mtime) : Z * Z * Z * Z * Z * Z * Z :=
  match t with
  | TZero => (1, 1, 1, 0, 0, 0, 0)
  | TDate y mo d h mi s zneg zq =>
    (go_date (2000 + Z.of_N y) (Z.of_N mo) (Z.of_N d) (Z.of_N h) (Z.of_N mi) (Z.of_N s),
     if zneg then - Z.of_N zq else Z.of_N zq)
  end.
(* name, offset := t.Zone(); negative := offset < 0 || offset == 0 && name == "-" *)
Definition time_negative (t : mtime) : bool :=
  match t with TZero => false | TDate _ _ _ _ _ _ zneg _ => zneg end.

Close Scope Z_scope.
(* encoded[len(encoded)-1] |= 0b1000 *)
Fixpoint or_last (l : bytes) (m : N) : bytes :=
  match l with [] => [] | [b] => [N.lor b m] | b :: r => b :: or_last r m end.
(* Time.WriteTo after the D19 fix: the magnitude of the offset, then the sign into bit 3 of the last octet *)
Definition time_write (t : mtime) : bytes :=
  let '(y, mo, d, h, mi, s, zq) := time_civil t in
  let enc := encode_semi [(y - 2000)%Z; mo; d; h; mi; s; Z.abs zq] in
  if time_negative t then or_last enc 8 else enc.

(* the zone after the D19 fix: bit 3 of the zone octet is the sign; DecodeSemi had read it as part of the
   tens digit (80 too much, or 8 when the high nibble is the filler).  [legacy19] = the code before. *)
Definition zone_of (legacy19 : bool) (octet raw : N) : bool * N :=
  if negb legacy19 && negb (N.land octet 8 =? 0)
  then (true, if hi4 octet =? 15 then raw - 8 else raw - 80)
  else (false, raw).
(* Time.ReadFrom.  [legacy] = true is the code before the D18 fix (no length check) *)
Definition time_of_blocks (legacy : bool) (data : bytes) (blocks : list N) : outcome mtime :=
  if negb legacy && (N.of_nat (List.length blocks) <? 7) then Err EDecode else
  do raw <- idx blocks 6;
  do zo <- idx data 6;
  do y <- idx blocks 0; do mo <- idx blocks 1; do d <- idx blocks 2; do h <- idx blocks 3;
  do mi <- idx blocks 4; do s <- idx blocks 5;
  let (zneg, zq) := zone_of false zo raw in
  Ok (TDate y mo d h mi s zneg zq).
Definition time_read_gen (legacy : bool) (bs : bytes) : outcome (mtime * bytes) :=
  do (data, bs1) <- read_n 7 bs;
  do t <- time_of_blocks legacy data (decode_semi data);
  Ok (t, bs1).

(* ------------------------------------------------------------------ validity periods *)
(* Duration.ReadFrom: the switch on the octet, in seconds *)
Definition rel_dur (n : N) : N :=
  if n <=? 143 then (n + 1) * 300
  else if n <=? 167 then (n - 143) * 1800 + 43200
  else if n <=? 196 then (n - 166) * 86400
  else (n - 192) * 604800.
(* Duration.WriteTo after the D23 fix; [legacy] compares whole hours with 12 *)
Definition rel_octet_gen (legacy : bool) (d : N) : N :=
  let minutes := d / 60 in
  let hours := d / 3600 in
  let days := hours / 24 in
  let weeks := days / 7 in
  (if minutes <=? 5 then 0
   else if (if legacy then hours <=? 12 else d <=? 43200) then minutes / 5 - 1
   else if hours <=? 24 then (d - 43200) / 1800 + 143
   else if days <=? 31 then hours / 24 + 166
   else if weeks <=? 62 then weeks + 192
   else 255) mod 256.
Definition rel_octet := rel_octet_gen false.

Definition rel_read (bs : bytes) : outcome (N * bytes) :=
  do (data, bs1) <- read_n 1 bs;
  do b <- idx data 0;
  Ok (rel_dur b, bs1).

(* EnhancedDuration.ReadFrom *)
Definition enh_read_gen (legacy : bool) (bs : bytes) : outcome (vp * bytes) :=
  do (ind, bs1) <- read_byte bs;
  let fmt := N.land ind 7 in
  if fmt =? 1 then
    do (d, bs2) <- rel_read bs1;
    do bs3 <- discard 5 bs2; Ok (VPEnh d ind, bs3)
  else if fmt =? 2 then
    do (sec, bs2) <- read_byte bs1;
    do bs3 <- discard 5 bs2; Ok (VPEnh sec ind, bs3)
  else if fmt =? 3 then
    (* _, err = buf.Read(data); semi := DecodeSemi(data); semi[0..2]; the read error is looked at afterwards *)
    let rd := read_n 3 bs1 in
    let data := match rd with Ok (data, _) => data | _ => [0; 0; 0] end in
    let semi := decode_semi data in
    if negb legacy && (N.of_nat (List.length semi) <? 3) then Err EDecode else
    do h <- idx semi 0; do m <- idx semi 1; do s <- idx semi 2;
    do (_, bs2) <- rd;
    do bs3 <- discard 3 bs2; Ok (VPEnh (h * 3600 + m * 60 + s) ind, bs3)
  else
    do bs2 <- discard 6 bs1; Ok (VPEnh 0 ind, bs2).

(* EnhancedDuration.WriteTo; make([]byte, 7-buf.Len()) panics when negative *)
Definition enh_write (d ind : N) : outcome bytes :=
  let fmt := N.land ind 7 in
  let body :=
    if fmt =? 1 then [rel_octet d]
    else if fmt =? 2 then [d mod 256]
    else if fmt =? 3 then
      let hh := d / 3600 in let mm := d / 60 in
      encode_semi [Z.of_N hh; (Z.of_N mm - Z.of_N hh * 60)%Z; (Z.of_N d - Z.of_N mm * 60)%Z]
    else [] in
  let used := 1 + blen body in
  if 7 <? used then Panic else Ok (ind :: body ++ repeat 0 (N.to_nat (7 - used))).

(* ------------------------------------------------------------------ unmarshal *)
Record ustate := { u_vpf : N; u_pi : option (flagstruct * list N) }.

Open Scope string_scope.
Definition dir_of_tag (tag : string) : option N :=
  if String.eqb tag "MT" then Some 0%N else if String.eqb tag "MO" then Some 1%N else None.

(* one field of the walk in unmarshal *)
Definition field_read (legacy : bool) (t : g7tab) (st : ustate) (f : tfield) (bs : bytes)
  : outcome (tval * bytes) :=
  match f_dkind f with
  | KByte => do (b, r) <- read_byte bs; Ok (TVByte b, r)
  | KFlags fs =>
    do (c, r) <- read_byte bs;
    let vals := unmarshal_flags (fs_fields fs) c 0 in
    let vals := if fs_dir fs then
                  match dir_of_tag (f_dirtag f) with Some d => set_direction (fs_fields fs) vals d | None => vals end
                else vals in
    Ok (TVFlags vals, r)
  | KBytes =>
    do (n, r) <- read_byte bs;
    do (data, r2) <- read_n n r;
    Ok (TVBytes data, r2)
  | KSCAddr => do (a, r) <- sc_read t bs; Ok (TVAddr a, r)
  | KAddr => do (a, r) <- addr_read t bs; Ok (TVAddr a, r)
  | KTime => do (x, r) <- time_read_gen legacy bs; Ok (TVTime x, r)
  | KIface =>
    if String.eqb (f_tp f) "VP" then
      if (u_vpf st =? 1)%N then do (v, r) <- enh_read_gen legacy bs; Ok (TVVP v, r)
      else if (u_vpf st =? 2)%N then do (d, r) <- rel_read bs; Ok (TVVP (VPRel d), r)
      else if (u_vpf st =? 3)%N then do (x, r) <- time_read_gen legacy bs; Ok (TVVP (VPAbs x), r)
      else Ok (TVVP VPNone, bs)
    else Ok (TVVP VPNone, bs)
  | KSkip => Ok (TVSkip, bs)
  end.

Definition state_after (st : ustate) (f : tfield) (v : tval) : ustate :=
  match f_dkind f, v with
  | KFlags fs, TVFlags vals =>
    if String.eqb (fs_name fs) "SubmitFlags"
    then {| u_vpf := flag_get (fs_fields fs) vals "ValidityPeriodFormat"; u_pi := u_pi st |}
    else if String.eqb (fs_name fs) "ParameterIndicator"
    then {| u_vpf := u_vpf st; u_pi := Some (fs, vals) |}
    else st
  | _, _ => st
  end.

Fixpoint fields_read (legacy : bool) (t : g7tab) (st : ustate) (fs : list tfield) (bs : bytes)
  : outcome (list tval) :=
  match fs with
  | [] => Ok []
  | f :: rest =>
    let skip := match u_pi st with Some (pfs, pv) => negb (pi_has pfs pv (f_tp f)) | None => false end in
    if skip then
      do vs <- fields_read legacy t st rest bs; Ok (zero_val (f_dkind f) :: vs)
    else
      do (v, r) <- field_read legacy t st f bs;
      do vs <- fields_read legacy t (state_after st f v) rest r;
      Ok (v :: vs)
  end.
Close Scope string_scope.

Definition st0 : ustate := {| u_vpf := 0; u_pi := None |}.

Definition unmarshal_gen (legacy : bool) (E : env) (bs : bytes) : outcome tpdu :=
  do (kind, failure) <- get_type bs;
  match struct_of kind failure with
  | None => Err EOther                                   (* errors.New(kind.String()) *)
  | Some name =>
    match find_layout (e_layouts E) name with
    | None => Err EOther                                 (* not in the generated table: never for the shipped code, see tpdu_layouts_complete *)
    | Some l => do vs <- fields_read legacy (e_g7 E) st0 (tl_fields l) bs; Ok (name, vs)
    end
  end.
Definition unmarshal := unmarshal_gen false.
Definition unmarshal_legacy := unmarshal_gen true.

(* ------------------------------------------------------------------ marshal *)
Definition vpf_of (v : vp) : N :=
  match v with VPNone => 0 | VPEnh _ _ => 1 | VPRel _ => 2 | VPAbs _ => 3 end.
(* first loop of Marshal: the dynamic type of the last interface field decides *)
Fixpoint vpf_scan (fs : list tfield) (vs : list tval) (acc : N) : N :=
  match fs, vs with
  | f :: fr, v :: vr =>
    vpf_scan fr vr (match f_ekind f, v with
                    | KIface, TVVP VPNone => acc
                    | KIface, TVVP x => vpf_of x
                    | _, _ => acc end)
  | _, _ => acc
  end.

(* countsSeptets(dcs) of sms/marshal.go *)
Definition counts_septets (dcs : N) : bool :=
  let group := N.shiftr dcs 4 in
  if group <? 4 then
    let alphabet := N.land (N.shiftr dcs 2) 3 in
    (N.land dcs 32 =? 0) && ((alphabet =? 0) || (alphabet =? 3))
  else if group =? 14 then false
  else if group =? 15 then N.land dcs 4 =? 0
  else true.

Fixpoint trim_right0 (l : bytes) : bytes :=       (* bytes.TrimRight(l, "\x00"): the code before the D22 fix *)
  match l with
  | [] => []
  | b :: r => match trim_right0 r with
              | [] => if b =? 0 then [] else [b]
              | r' => b :: r'
              end
  end.

Open Scope string_scope.
(* one field of the second loop of Marshal.  A value whose shape does not fit
   the field kind cannot exist in Go (static types); the model answers
   [Err EOther] there and the theorems show decoded values never reach it. *)
Definition field_write (t : g7tab) (vpf dcs : N) (f : tfield) (v : tval) : outcome bytes :=
  match f_ekind f, v with
  | KByte, TVByte b => Ok [b]
  | KBytes, TVBytes l =>
    (* after the D22 fix: under a septet-counting DCS the field named UD holds TP-UDL octets of which
       (7 UDL + 7) div 8 are data; the Go slice expression panics beyond the slice *)
    if String.eqb (f_tp f) "UD" && counts_septets dcs then
      let k := (blen l * 7 + 7) / 8 in
      if (blen l <? k)%N then Panic else Ok ((blen l mod 256) :: firstn (N.to_nat k) l)
    else Ok ((blen l mod 256) :: l)
  | KFlags fs, TVFlags vals =>
    let vals := if String.eqb (fs_name fs) "SubmitFlags"
                then flag_put (fs_fields fs) vals "ValidityPeriodFormat" vpf else vals in
    Ok [marshal_flags (fs_fields fs) vals 0]
  | KSCAddr, TVAddr a => Ok (sc_write t a)
  | KAddr, TVAddr a => Ok (addr_write t a)
  | KTime, TVTime x => Ok (time_write x)
  | KIface, TVVP VPNone => Ok []
  | KIface, TVVP (VPEnh d ind) => enh_write d ind
  | KIface, TVVP (VPRel d) => Ok [rel_octet d]
  | KIface, TVVP (VPAbs x) => Ok (time_write x)
  | KSkip, TVSkip => Ok []
  | _, _ => Err EOther
  end.
Close Scope string_scope.

(* dataCoding = *field when a *byte field is tagged DCS *)
Definition dcs_after (dcs : N) (f : tfield) (v : tval) : N :=
  match f_ekind f, v with
  | KByte, TVByte b => if String.eqb (f_tp f) "DCS"%string then b else dcs
  | _, _ => dcs
  end.
Fixpoint fields_write (t : g7tab) (vpf dcs : N) (fs : list tfield) (vs : list tval) : outcome bytes :=
  match fs, vs with
  | [], [] => Ok []
  | f :: fr, v :: vr =>
    do a <- field_write t vpf dcs f v;
    do b <- fields_write t vpf (dcs_after dcs f v) fr vr;
    Ok (a ++ b)
  | _, _ => Err EOther
  end.

Definition marshal (E : env) (p : tpdu) : outcome bytes :=
  let '(name, vs) := p in
  match find_layout (e_layouts E) name with
  | None => Err EOther
  | Some l => fields_write (e_g7 E) (vpf_scan (tl_fields l) vs 0) 0 (tl_fields l) vs
  end.

(* decode, then re-encode what was decoded *)
Definition remarshal (E : env) (bs : bytes) : outcome bytes :=
  do p <- unmarshal E bs; marshal E p.

(* ------------------------------------------------------------------ observables for the generated cases *)
(* the harness prints what the implementation decoded in this form; times as
   the civil fields Go reports, so the normalisation model is exercised *)
Inductive oval :=
| OByte (b : N) | OFlags (vals : list N) | OBytes (l : bytes)
| OAddr (npi ton : N) (no : list N)
| OTime (y mo d h mi s zq : Z) (neg : bool)
| OVPNone | OVPEnh (dur ind : N) | OVPRel (dur : N) | OVPAbs (y mo d h mi s zq : Z) (neg : bool)
| OSkip.

Definition beq_nlist := beq_list N.eqb.
Definition civil_eqb (t : mtime) (y mo d h mi s zq : Z) (neg : bool) : bool :=
  let '(y', mo', d', h', mi', s', zq') := time_civil t in
  ((y' =? y) && (mo' =? mo) && (d' =? d) && (h' =? h) && (mi' =? mi) && (s' =? s) && (zq' =? zq))%Z
  && Bool.eqb (time_negative t) neg.
Definition oval_eqb (v : tval) (o : oval) : bool :=
  match v, o with
  | TVByte a, OByte b => a =? b
  | TVFlags a, OFlags b => beq_nlist a b
  | TVBytes a, OBytes b => beq_bytes a b
  | TVAddr a, OAddr npi ton no => (a_npi a =? npi) && (a_ton a =? ton) && beq_nlist (a_no a) no
  | TVTime t, OTime y mo d h mi s zq neg => civil_eqb t y mo d h mi s zq neg
  | TVVP VPNone, OVPNone => true
  | TVVP (VPEnh d i), OVPEnh d' i' => (d =? d') && (i =? i')
  | TVVP (VPRel d), OVPRel d' => d =? d'
  | TVVP (VPAbs t), OVPAbs y mo d h mi s zq neg => civil_eqb t y mo d h mi s zq neg
  | TVSkip, OSkip => true
  | _, _ => false
  end.

Fixpoint ovals_eqb (vs : list tval) (os : list oval) : bool :=
  match vs, os with
  | [], [] => true
  | v :: vr, o :: or => oval_eqb v o && ovals_eqb vr or
  | _, _ => false
  end.

(* cases: outcome class only / decoded value / re-encoded octets *)
Definition dec_class (E : env) (bs : bytes) : N := oclass (unmarshal E bs).
Definition dec_is (E : env) (bs : bytes) (name : string) (ovs : list oval) : bool :=
  match unmarshal E bs with
  | Ok (n, vs) => String.eqb n name && ovals_eqb vs ovs
  | _ => false
  end.
Definition enc_is (E : env) (bs out : bytes) : bool :=
  match remarshal E bs with Ok o => beq_bytes o out | _ => false end.
