(* Glue used by the generated C11 case files only: the accessor model
   instantiated with the tables regenerated from the running code. *)
From V Require Export Model.Accessors Model.PduRun Gen.AccessorTables.
From V Require Model.Gsm7.
Open Scope N_scope.

(* the GSM 7-bit decoder of Model/Gsm7.v (builder gsm7; C08) as the decoder Parse selects for
   the data_codings whose Encoding() is gsm7bit.Packed; [utf8] turns the decoded runes into the text's octets *)
Definition gsm7_decoder (utf8 : list N -> bytes) : decoder :=
  fun b => match Gsm7.decode b with Ok rs => Ok (utf8 rs) | Err e => Err e | Panic => Panic end.
Definition is_gsm7_dc (c : N) : bool := existsb (N.eqb c) data_coding_gsm7.
Definition encoding_gsm7 (c : N) : option decoder := if is_gsm7_dc c then Some (gsm7_decoder (fun rs => rs)) else None.
(* case: Parse observed on a message whose data_coding selects the GSM 7-bit decoder: returned (text or error) iff the model does *)
Definition chk_parse_gsm7 (dc : N) (msg : bytes) (cls : N) : bool :=
  is_gsm7_dc dc &&
  match parse encoding_gsm7 {| sm_dflt := 0; sm_dc := dc; sm_udh := None; sm_msg := msg |} with
  | Panic => cls =? 2
  | _ => (cls =? 0) || (cls =? 1)
  end.
(* case: getHeader through reflect on a packet of the given shape *)
Definition shape_of (tag : N) (kinds : list N) : shape :=
  if tag =? 0 then ShPtrStruct (map kind_of kinds) else if tag =? 1 then ShNilPtr
  else if tag =? 2 then ShStruct (map kind_of kinds) else ShOther.
(* on a pointer to a struct (tag 0: what ReadPDU returns) the outcome class is compared exactly; on the other
   shapes (a caller's mistake, outside C11) only "where the code returns, the model returns": a getHeader that
   refuses more of them is no C11 matter *)
Definition chk_get_header (tag : N) (kinds : list N) (cls : N) : bool :=
  (ocls (get_header_reflect (shape_of tag kinds)) =? cls) || (negb (tag =? 0) && (cls =? 2)).

Fixpoint find_row (rows : list (N * bool)) (c : N) : bool :=
  match rows with [] => false | (k, b) :: r => if k =? c then b else find_row r c end.
(* DataCoding(c).Encoding() != nil, from the generated table *)
Definition has_dec (c : N) : bool := find_row data_coding_rows c.

Definition accessors_of_value (id : N) (vs : list fval) : outcome acc_obs :=
  run_accessors resp_pairs has_dec (lay id) vs.

(* the whole path: ReadPDU on the frame, then every accessor on what it returned *)
Definition accessors_of_frame (frame : bytes) : outcome (option acc_obs) :=
  match run_read frame [] with
  | (OOk id vs, _) => do o <- accessors_of_value id vs; Ok (Some o)
  | (OPanic, _) => Panic
  | _ => Ok None
  end.
Definition beq_oacc_opt (a b : outcome (option acc_obs)) : bool :=
  match a, b with
  | Ok x, Ok y => beq_opt beq_acc x y
  | Err _, Err _ => true
  | Panic, Panic => true
  | _, _ => false
  end.

(* all 65,536 (total, sequence) pairs, each as the segment arriving after the
   history [prime]: 0 no callback, 1 callback, 2 panic *)
Definition pair_addr : addr := {| a_ton := 1; a_npi := 1; a_no := [49] |}.
Definition pair_seg (id t s : N) : dsm :=
  {| d_id := id; d_src := pair_addr; d_dst := pair_addr; d_udh := Some [(0, [7; t; s])] |}.
Definition pair_class (prime : list dsm) (t s : N) : N :=
  match crun [] (prime ++ [pair_seg 9 t s]) with
  | Ok (_, outs) => match last outs [] with [] => 0 | _ => 1 end
  | Err _ => 3
  | Panic => 2
  end.
Fixpoint find_exc (ex : list (N * N * N)) (t s : N) : N :=
  match ex with
  | [] => 0
  | (t', s', c) :: r => if (t =? t') && (s =? s') then c else find_exc r t s
  end.
Definition all256n : list N := all256.
(* the implementation's class is 0 for every pair except those listed.  [inprog] is the total of the
   message the history [prime] leaves in progress (0: none): a segment announcing ANOTHER total
   "yields a value or an ignored segment" (C11) — ignored, or the message started afresh — so for those
   pairs only "neither panics" is compared; every other pair exactly *)
Definition chk_pairs (prime : list (N * N)) (inprog : N) (exceptions : list (N * N * N)) : bool :=
  let pr := map (fun ts => pair_seg 1 (fst ts) (snd ts)) prime in
  forallb (fun t => forallb (fun s =>
    let m := pair_class pr t s in let i := find_exc exceptions t s in
    (m =? i) || (negb (inprog =? 0) && negb (t =? inprog) && (m <? 2) && (i <? 2))) all256n) all256n.
