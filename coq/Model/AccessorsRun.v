(* Glue used by the generated C11 case files only: the accessor model
   instantiated with the tables regenerated from the running code. *)
From V Require Export Model.Accessors Model.PduRun Gen.AccessorTables.
Open Scope N_scope.

Fixpoint find_row (rows : list (N * bool)) (c : N) : bool :=
  match rows with [] => false | (k, b) :: r => if k =? c then b else find_row r c end.
(* DataCoding(c).Encoding() != nil, from the generated table *)
Definition has_dec (c : N) : bool := find_row data_coding_rows c.

Definition accessors_of_value (id : N) (vs : list fval) : outcome acc_obs :=
  run_accessors resp_pairs has_dec (lay id) vs.

(* the whole path: ReadPDU on the frame, then every accessor on what it returned *)
Definition accessors_of_frame (frame : bytes) : outcome (option acc_obs) :=
  match run_read frame [] with
  | (OOk id vs, _) => do o <- accessors_of_value id vs; Ok (Some o)
  | (OPanic, _) => Panic
  | _ => Ok None
  end.
Definition beq_oacc_opt (a b : outcome (option acc_obs)) : bool :=
  match a, b with
  | Ok x, Ok y => beq_opt beq_acc x y
  | Err _, Err _ => true
  | Panic, Panic => true
  | _, _ => false
  end.

(* all 65,536 (total, sequence) pairs, each as the segment arriving after the
   history [prime]: 0 no callback, 1 callback, 2 panic *)
Definition pair_addr : addr := {| a_ton := 1; a_npi := 1; a_no := [49] |}.
Definition pair_seg (id t s : N) : dsm :=
  {| d_id := id; d_src := pair_addr; d_dst := pair_addr; d_udh := Some [(0, [7; t; s])] |}.
Definition pair_class (prime : list dsm) (t s : N) : N :=
  match crun [] (prime ++ [pair_seg 9 t s]) with
  | Ok (_, outs) => match last outs [] with [] => 0 | _ => 1 end
  | Err _ => 3
  | Panic => 2
  end.
Fixpoint find_exc (ex : list (N * N * N)) (t s : N) : N :=
  match ex with
  | [] => 0
  | (t', s', c) :: r => if (t =? t') && (s =? s') then c else find_exc r t s
  end.
Definition all256n : list N := all256.
(* the implementation's class is 0 for every pair except those listed *)
Definition chk_pairs (prime : list (N * N)) (exceptions : list (N * N * N)) : bool :=
  let pr := map (fun ts => pair_seg 1 (fst ts) (snd ts)) prime in
  forallb (fun t => forallb (fun s => pair_class pr t s =? find_exc exceptions t s) all256n) all256n.
