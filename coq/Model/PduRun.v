(* Glue used by the generated case files only: look a layout up in the table
   regenerated from the running code, run the stream reader on a schedule. *)
From V Require Export Model.Pdu Gen.PduLayouts.
Open Scope N_scope.

Definition no_layout : layout :=
  {| l_id := 0; l_name := "?"; l_fields := []; l_replace := false; l_has_esm := false |}.
Definition lay (id : N) : layout :=
  match find_layout layouts id with Some l => l | None => no_layout end.

(* observation of one ReadPDU call, comparable with the harness's *)
Inductive rp_obs :=
| OOk (id : N) (vs : list fval) | ODecodeErr (id : N) (seq : Z) | OUnknownId | OBadLen | OEOF | OTruncated | OPanic | OFuel.
Definition obs_of (r : rp_result) : rp_obs :=
  match r with
  | RpOk l vs => OOk (l_id l) vs
  | RpDecodeErr l h => ODecodeErr (l_id l) (h_seq h)
  | RpUnknownId _ => OUnknownId
  | RpBadLen => OBadLen | RpEOF => OEOF | RpTruncated => OTruncated | RpPanic => OPanic | RpFuel => OFuel
  end.
Definition beq_obs (a b : rp_obs) : bool :=
  match a, b with
  | OOk i x, OOk j y => (i =? j) && beq_fvals x y
  | ODecodeErr i s, ODecodeErr j t => (i =? j) && (s =? t)%Z
  | OUnknownId, OUnknownId | OBadLen, OBadLen | OEOF, OEOF | OTruncated, OTruncated
  | OPanic, OPanic | OFuel, OFuel => true
  | _, _ => false
  end.

Definition run_read (data : bytes) (sched : list nat) : rp_obs * N :=
  let '(r, c, _) := read_pdu layouts {| st_data := data; st_sched := sched |} in (obs_of r, c).
Definition beq_read (a b : rp_obs * N) : bool := beq_obs (fst a) (fst b) && (snd a =? snd b).

Definition run_many (data : bytes) (sched : list nat) : list (rp_obs * N) :=
  map (fun rc => (obs_of (fst rc), snd rc))
      (read_many (S (List.length data)) layouts {| st_data := data; st_sched := sched |}).
