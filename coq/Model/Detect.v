(* Executable model of coding.BestCoding / BestSafeCoding, DataCoding.Validate,
   the GSM 7-bit text codec as far as C09 needs it (per-rune septet table
   regenerated from the running code, bit-level packing with the CR filler),
   and ShortMessage.Compose / Parse for a single message.  No proofs here. *)
From V Require Import Model.Base Model.IntervalMap Gen.Charsets Model.Charset Gen.Detect.
Open Scope N_scope.

(* what the detector can return *)
Inductive label := LGsm7 | LCs (c : coding).

Definition dc_of_label (l : label) : N := match l with LGsm7 => 0 | LCs c => dc_of_coding c end.
Definition label_of_dc (dc : N) : option label :=
  if dc =? 0 then Some LGsm7 else option_map LCs (coding_of_dc dc).

(* DataCoding.Validate: UCS-2 accepts everything, the others test every rune
   against the alphabet table of the coding (tabulated per rune) *)
Definition validate_ranges (l : label) : ranges :=
  match l with
  | LGsm7 => validate_gsm7
  | LCs CAscii => validate_ascii | LCs CLatin1 => validate_latin1
  | LCs CCyrillic => validate_cyrillic | LCs CHebrew => validate_hebrew
  | LCs CSjis => validate_sjis | LCs CEuckr => validate_euckr
  | LCs _ => []
  end.
Definition validates (l : label) (rs : list N) : bool :=
  match l with
  | LCs CUcs2 => true
  | _ => forallb (fun r => mem r (validate_ranges l)) rs
  end.

(* BestCoding: first match in the fixed priority list, else UCS-2 *)
Definition priority : list label :=
  [LGsm7; LCs CAscii; LCs CLatin1; LCs CCyrillic; LCs CHebrew; LCs CSjis; LCs CEuckr].
Definition best (rs : list N) : label :=
  match find (fun l => validates l rs) priority with Some l => l | None => LCs CUcs2 end.
Definition best_safe (rs : list N) : label :=
  if validates LGsm7 rs then LGsm7 else LCs CUcs2.

(* ------------------------------------------------------------ GSM 7-bit *)
Definition g7_rune (r : N) : option (list N) :=
  match lookup r gsm7_enc_runs with
  | Some (n, v) => if n =? 1 then Some [v] else Some [v / 256; v mod 256]
  | None => None
  end.

Fixpoint g7_septets (rs : list N) : outcome (list N) :=
  match rs with
  | [] => Ok []
  | r :: t =>
      match g7_rune r with
      | None => Err EText
      | Some s => match g7_septets t with Ok ss => Ok (s ++ ss) | e => e end
      end
  end.

(* bits, least significant first *)
Fixpoint bits_of (w : nat) (n : N) : list bool :=
  match w with O => [] | S w' => N.odd n :: bits_of w' (N.div2 n) end.
Fixpoint of_bits (l : list bool) : N :=
  match l with [] => 0 | b :: r => (if b then 1 else 0) + 2 * of_bits r end.
Fixpoint chunks (fuel k : nat) (l : list bool) : list (list bool) :=
  match fuel with
  | O => []
  | S f => if Nat.leb k (List.length l) then firstn k l :: chunks f k (skipn k l) else []
  end.
Definition septet_bits (ss : list N) : list bool := flat_map (bits_of 7) ss.
Definition padlen (nbits : nat) : nat := ((8 - nbits mod 8) mod 8)%nat.
Definition pack_bits (bs : list bool) : bytes :=
  let padded := bs ++ repeat false (padlen (List.length bs)) in
  map of_bits (chunks (S (List.length padded)) 8 padded).
Definition unpack_octets (os : bytes) : list N :=
  let bs := flat_map (bits_of 8) os in
  map of_bits (chunks (S (List.length bs)) 7 bs).

(* a CR filler septet exactly when seven bits would be spare *)
Definition g7_fill (ss : list N) : list N :=
  if Nat.eqb (List.length ss mod 8) 7 then ss ++ [13] else ss.
Definition g7_pack (ss : list N) : bytes := pack_bits (septet_bits (g7_fill ss)).

Definition g7_encode (rs : list N) : outcome bytes :=
  match g7_septets rs with Ok ss => Ok (g7_pack ss) | Err e => Err e | Panic => Panic end.

Fixpoint g7_runes (ss : list N) : outcome (list N) :=
  match ss with
  | [] => Ok []
  | s :: t =>
      if s =? 27 then
        match t with
        | c :: t' =>
            match nth_error gsm7_dec_esc (N.to_nat c) with
            | Some r => if r =? 65533 then Err EDecode else ocons r (g7_runes t')
            | None => Err EDecode
            end
        | [] => Err EDecode
        end
      else
        match nth_error gsm7_dec (N.to_nat s) with
        | Some r => ocons r (g7_runes t)
        | None => Err EDecode
        end
  end.

(* the decoder drops the last character when the last of 8k septets is CR *)
Definition g7_strip (ss rs : list N) : list N :=
  if negb (Nat.eqb (List.length ss) 0) && Nat.eqb (List.length ss mod 8) 0 && (last ss 0 =? 13)
  then removelast rs else rs.

Definition g7_decode (bs : bytes) : outcome (list N) :=
  let ss := unpack_octets bs in
  match g7_runes ss with Ok rs => Ok (g7_strip ss rs) | e => e end.

(* the one case in which packed GSM 7-bit text is ambiguous (GSM 03.38
   6.1.2.3.1): 8k septets ending in CR look like 8k-1 septets plus filler *)
Definition g7_ambiguous (ss : list N) : bool :=
  negb (Nat.eqb (List.length ss) 0) && Nat.eqb (List.length ss mod 8) 0 && (last ss 0 =? 13).

(* ------------------------------------------- encode / decode by label *)
Definition encode_l (l : label) (rs : list N) : outcome bytes :=
  match l with LGsm7 => g7_encode rs | LCs c => encode c rs end.
Definition decode_l (l : label) (bs : bytes) : outcome (list N) :=
  match l with LGsm7 => g7_decode bs | LCs c => decode c bs end.

(* ---------------------------------------- Compose / Parse, one message *)
Definition width_runs (l : label) : list (N * N * N) :=
  match l with
  | LGsm7 => width_gsm7
  | LCs CAscii => width_ascii | LCs CLatin1 => width_latin1
  | LCs CCyrillic => width_cyrillic | LCs CHebrew => width_hebrew
  | LCs CSjis => width_sjis | LCs CEuckr => width_euckr | LCs CUcs2 => width_ucs2
  | LCs _ => []
  end.
Definition width (l : label) (r : N) : N := match lookup3 r (width_runs l) with Some w => w | None => 0 end.
(* Splitter.Len: bits summed over the runes, rounded up to octets *)
Definition splitter_len (l : label) (rs : list N) : N :=
  (fold_right (fun r a => width l r + a) 0 rs + 7) / 8.

(* Compose: detect, refuse what does not fit 140 octets, encode, store label and octets *)
Definition compose (rs : list N) : outcome (N * bytes) :=
  let l := best rs in
  if 140 <? splitter_len l rs then Err ESize
  else match encode_l l rs with
       | Ok bs => Ok (dc_of_label l, bs)
       | Err e => Err e
       | Panic => Panic
       end.
(* Parse: decode by the stored label *)
Definition parse (m : N * bytes) : outcome (list N) :=
  match label_of_dc (fst m) with
  | Some l => decode_l l (snd m)
  | None => Err EOther
  end.

Definition compose_out_eq (a : outcome (N * bytes)) (b : outcome (N * bytes)) : bool :=
  match a, b with
  | Ok (d, x), Ok (e, y) => (d =? e) && beq_bytes x y
  | Err ESize, Err ESize => true
  | Err EText, Err EText => true
  | Panic, Panic => true
  | _, _ => false
  end.

(* What C09 lets an implementation of Compose answer for text rs, against which the observation of the running code is
   compared (the model [compose] above is one such implementation: it refuses by the splitter's estimate, as the code
   does today; one that refuses by the encoded length is another):
     stored (label, octets)  - the label is the detector's and the octets are its encoder's output for the text;
     refusal for size        - only if the text does not fit 140 octets by the estimate or by its encoded length;
     encoder error           - only if the detected coding's encoder rejects the text. *)
Definition compose_obs_ok (rs : list N) (obs : outcome (N * bytes)) : bool :=
  let l := best rs in
  match obs, encode_l l rs with
  | Ok (d, bs), Ok bs' => (d =? dc_of_label l) && beq_bytes bs bs'
  | Err ESize, e => (140 <? splitter_len l rs) || match e with Ok bs' => 140 <? N.of_nat (List.length bs') | _ => false end
  | Err EText, Err _ => true
  | Panic, Panic => true
  | _, _ => false
  end.

(* --- Compose on a reused ShortMessage value: the state is (data_coding, octets);
   a successful Compose replaces both, a failing one leaves the value alone.
   status: 0 composed, 1 does not fit, 2 encoder error, 3 panic *)
Definition compose_step (m : N * bytes) (rs : list N) : (N * bytes) * N :=
  match compose rs with
  | Ok m' => (m', 0)
  | Err ESize => (m, 1)
  | Err _ => (m, 2)
  | Panic => (m, 3)
  end.

(* state after each Compose of a history, with what Parse returns from it when Compose succeeded *)
Fixpoint compose_history (m : N * bytes) (texts : list (list N))
  : list (N * bytes * N * option (outcome (list N))) :=
  match texts with
  | [] => []
  | t :: rest =>
      let '(m', st) := compose_step m t in
      (fst m', snd m', st, if st =? 0 then Some (parse m') else None) :: compose_history m' rest
  end.

Definition history_eq (a b : list (N * bytes * N * option (outcome (list N)))) : bool :=
  beq_list (fun x y =>
    let '(d, o, s, p) := x in let '(d', o', s', p') := y in
    (d =? d') && beq_bytes o o' && (s =? s') &&
    match p, p' with Some u, Some v => same_out u v | None, None => true | _, _ => false end) a b.

(* --- Compose on a value that carries a user-data header: the full state of a ShortMessage is (data_coding, header, octets).
   Compose reads none of them and writes data_coding and octets; the header stays.  [hdr] is abstract: whatever the value held. *)
Definition compose_step_u {H : Type} (m : N * H * bytes) (rs : list N) : (N * H * bytes) * N :=
  let '(dc, u, o) := m in
  let '((dc', o'), st) := compose_step (dc, o) rs in ((dc', u, o'), st).
