(* The reader sms.Unmarshal decodes from: one bufio.Reader (4096 octets) over an io.Reader that hands out
   the octets in pieces.  Model/Tpdu.v treats the input as a LIST of octets (read_byte / read_n / get_type's
   Peek / discard on lists); this file models the real thing - the underlying reader with a schedule of
   read sizes, bufio's buffer and pending error - and Proofs/TpduReader.v shows that every primitive the
   decoder uses returns on it what the list primitive returns on the octets still to come, whatever the
   schedule.  That is the precise sense of "for every byte sequence" in C18 / C19:

     the result of sms.Unmarshal depends on the octets only, not on how the reader chunks them,

   proved for the whole decoder: the second half of this file writes sms.Unmarshal over this reader ([unmarshal_gen_on],
   [unmarshal_reader]) and Proofs/TpduReaderCompose.v shows it equal to the list decoder for every schedule,

   for every reader that delivers the octets in pieces of any positive sizes and then io.EOF (with the last
   piece or on the following call).  Readers that fail with another error, or return (0, nil), are outside.
   No proofs in this file. *)
From V Require Export Model.Tpdu.
Open Scope N_scope.

(* the underlying io.Reader: octets still to come, sizes of the pieces the next Read calls may return (an
   entry 0 counts as 1; exhausted schedule: one octet per call), and whether io.EOF comes with the last piece *)
Record source := { s_data : bytes; s_sched : list nat; s_eofd : bool }.

(* one Read(p) with len(p) = room > 0: (octets, err == io.EOF, source afterwards) *)
Definition src_read (room : nat) (s : source) : bytes * bool * source :=
  match s_data s with
  | [] => ([], true, s)
  | _ =>
    let c := match s_sched s with [] => 1%nat | c :: _ => Nat.max 1 c end in
    let k := Nat.min room c in
    let rest := skipn k (s_data s) in
    (firstn k (s_data s),
     match rest with [] => s_eofd s | _ => false end,
     {| s_data := rest; s_sched := tl (s_sched s); s_eofd := s_eofd s |})
  end.

(* bufio.Reader: unread buffered octets (b.buf[b.r:b.w]), pending error (b.err, only io.EOF here), source *)
Record breader := { b_buf : bytes; b_err : bool; b_src : source }.
Definition bufsize : nat := 4096.
Definition set_buf (b : breader) (l : bytes) : breader := {| b_buf := l; b_err := b_err b; b_src := b_src b |}.
Definition clear_err (b : breader) : breader := {| b_buf := b_buf b; b_err := false; b_src := b_src b |}.

(* b.fill(): slide, then one Read into the free space (the source never returns (0, nil)) *)
Definition fill (b : breader) : breader :=
  let '(got, eof, src') := src_read (bufsize - List.length (b_buf b)) (b_src b) in
  {| b_buf := b_buf b ++ got; b_err := eof; b_src := src' |}.

(* ReadByte: for b.r == b.w { if b.err != nil { return 0, b.readErr() }; b.fill() } *)
Definition br_read_byte (b : breader) : outcome (N * breader) :=
  match b_buf b with
  | x :: r => Ok (x, set_buf b r)
  | [] =>
    if b_err b then Err EEOF else
    let b' := fill b in
    match b_buf b' with x :: r => Ok (x, set_buf b' r) | [] => Err EEOF end
  end.

(* Read(p), 0 < len(p) = n < 4096: what is buffered, else ONE Read of the source into the buffer; (octets, io.EOF?, reader) *)
Definition br_read (n : nat) (b : breader) : bytes * bool * breader :=
  match b_buf b with
  | [] =>
    if b_err b then ([], true, clear_err b) else
    let b' := fill b in
    match b_buf b' with
    | [] => ([], true, clear_err b')
    | l => (firstn n l, false, set_buf b' (skipn n l))
    end
  | l => (firstn n l, false, set_buf b (skipn n l))
  end.

(* the code BEFORE fix 0373e10: data := make([]byte, n); _, err = buf.Read(data) - one Read, count ignored *)
Definition br_read_once (n : N) (b : breader) : outcome (bytes * breader) :=
  if n =? 0 then Ok ([], b) else
  let '(got, eof, b') := br_read (N.to_nat n) b in
  if eof then Err EEOF else Ok (got ++ repeat 0 (N.to_nat n - List.length got), b').

(* readFull(r, p) of sms/marshal.go: io.ReadFull = Read until p is full or Read fails; io.ErrUnexpectedEOF
   (some octets, then the end) is turned into nil and the tail of p stays zero *)
Fixpoint br_read_full_loop (fuel need : nat) (acc : bytes) (b : breader) : outcome (bytes * breader) :=
  match need with
  | O => Ok (acc, b)
  | S _ =>
    match fuel with
    | O => Err EFuel
    | S fuel' =>
      let '(got, eof, b') := br_read need b in
      if eof then match acc with [] => Err EEOF | _ => Ok (acc ++ repeat 0 need, b') end
      else br_read_full_loop fuel' (need - List.length got) (acc ++ got) b'
    end
  end.
Definition br_read_full (n : N) (b : breader) : outcome (bytes * breader) :=
  br_read_full_loop (S (N.to_nat n)) (N.to_nat n) [] b.

(* Peek(n), n <= 4096: for b.w-b.r < n && b.w-b.r < len(b.buf) && b.err == nil { b.fill() } *)
Fixpoint fill_until (fuel n : nat) (b : breader) : breader :=
  match fuel with
  | O => b
  | S f => if (List.length (b_buf b) <? n)%nat && negb (b_err b) then fill_until f n (fill b) else b
  end.
Definition br_peek (n : nat) (b : breader) : outcome (bytes * breader) :=
  let b' := fill_until (S n) n b in
  if (List.length (b_buf b') <? n)%nat then Err EEOF else Ok (firstn n (b_buf b'), b').

(* Discard(n) *)
Fixpoint br_discard_loop (fuel remain : nat) (b : breader) : outcome breader :=
  match remain with
  | O => Ok b
  | S _ =>
    match fuel with
    | O => Err EFuel
    | S f =>
      let b1 := match b_buf b with [] => fill b | _ => b end in
      let skip := Nat.min (List.length (b_buf b1)) remain in
      let b2 := set_buf b1 (skipn skip (b_buf b1)) in
      if (remain - skip =? 0)%nat then Ok b2
      else if b_err b2 then Err EEOF
      else br_discard_loop f (remain - skip) b2
    end
  end.
Definition br_discard (n : N) (b : breader) : outcome breader := br_discard_loop (S (N.to_nat n)) (N.to_nat n) b.

(* the octets still to come, and bufio.NewReader(r) *)
Definition content (b : breader) : bytes := b_buf b ++ s_data (b_src b).
Definition new_reader (data : bytes) (sched : list nat) (eofd : bool) : breader :=
  {| b_buf := []; b_err := false; b_src := {| s_data := data; s_sched := sched; s_eofd := eofd |} |}.

(* cases: the harness runs a script of operations on a real bufio.Reader over a scheduled reader;
   ops: 0 = ReadByte, 1 n = readFull of n octets, 2 n = Peek(n), 3 n = Discard(n); observation per op:
   the octets returned ([] for Discard), or None for an error (the script stops there) *)
Inductive rop := RByte | RFull (n : N) | RPeek (n : N) | RDiscard (n : N).
Fixpoint run_script (ops : list rop) (b : breader) : list (option bytes) :=
  match ops with
  | [] => []
  | RByte :: r => match br_read_byte b with Ok (x, b') => Some [x] :: run_script r b' | _ => [None] end
  | RFull n :: r => match br_read_full n b with Ok (l, b') => Some l :: run_script r b' | _ => [None] end
  | RPeek n :: r => match br_peek (N.to_nat n) b with Ok (l, b') => Some l :: run_script r b' | _ => [None] end
  | RDiscard n :: r => match br_discard n b with Ok b' => Some [] :: run_script r b' | _ => [None] end
  end.
(* the same script on the plain list of octets (the reader of Model/Tpdu.v) *)
Fixpoint run_script_list (ops : list rop) (bs : bytes) : list (option bytes) :=
  match ops with
  | [] => []
  | RByte :: r => match read_byte bs with Ok (x, bs') => Some [x] :: run_script_list r bs' | _ => [None] end
  | RFull n :: r => match read_n n bs with Ok (l, bs') => Some l :: run_script_list r bs' | _ => [None] end
  | RPeek n :: r => if blen bs <? n then [None] else Some (firstn (N.to_nat n) bs) :: run_script_list r bs
  | RDiscard n :: r => match discard n bs with Ok bs' => Some [] :: run_script_list r bs' | _ => [None] end
  end.
Definition beq_obs (a b : list (option bytes)) : bool := beq_list (beq_opt beq_bytes) a b.
Definition script_is (data : bytes) (sched : list nat) (eofd : bool) (ops : list rop) (obs : list (option bytes)) : bool :=
  beq_obs (run_script ops (new_reader data sched eofd)) obs && beq_obs (run_script_list ops data) obs.

(* ------------------------------------------------------------------ the decoder of Model/Tpdu.v over the bufio reader
   sms.Unmarshal as the code runs it: every function of Model/Tpdu.v that consumes octets, written again with the four
   primitives above in place of the list primitives, the reader threaded through.  Everything that does not touch the
   reader (flags, addresses' text, time stamps, validity periods, the struct switch, state_after) IS the function of
   Model/Tpdu.v.  Proofs/TpduReaderCompose.v: for every schedule this decoder equals the list decoder. *)
(* getType: peek, err = buf.Peek(1); length := int(peek[0]); peek, err = buf.Peek(length+3); peek[length+1], peek[length+2] *)
Definition get_type_on (b : breader) : outcome (N * bool * breader) :=
  do (p1, b1) <- br_peek 1 b;
  do l <- idx p1 0;
  do (peek, b2) <- br_peek (N.to_nat (l + 3)) b1;
  do f <- idx peek (l + 1);
  do g <- idx peek (l + 2);
  let dir := if l =? 0 then 1 else 0 in
  Ok (N.land (N.lor (N.shiftl (N.land f 3) 1) dir) 7, 127 <? g, b2).

Definition addr_read_on (t : g7tab) (b : breader) : outcome (taddr * breader) :=
  do (length, b1) <- br_read_byte b;
  if length =? 0 then Ok (addr0, b1) else
  do (kind, b2) <- br_read_byte b1;
  let npi := N.land kind 15 in
  let ton := N.land (N.shiftr kind 4) 7 in
  let n := ((length + 1) mod 256) / 2 in
  do (data, b3) <- br_read_full n b2;
  do no <- addr_text t ton data;
  Ok ({| a_npi := npi; a_ton := ton; a_no := no |}, b3).

Definition sc_read_on (t : g7tab) (b : breader) : outcome (taddr * breader) :=
  do (length, b1) <- br_read_byte b;
  if length =? 0 then Ok (addr0, b1) else
  do (kind, b2) <- br_read_byte b1;
  let npi := N.land kind 15 in
  let ton := N.land (N.shiftr kind 4) 7 in
  do (data, b3) <- br_read_full (length - 1) b2;
  do no <- addr_text t ton data;
  Ok ({| a_npi := npi; a_ton := ton; a_no := no |}, b3).

Definition time_read_gen_on (legacy : bool) (b : breader) : outcome (mtime * breader) :=
  do (data, b1) <- br_read_full 7 b;
  do t <- time_of_blocks legacy data (decode_semi data);
  Ok (t, b1).

Definition rel_read_on (b : breader) : outcome (N * breader) :=
  do (data, b1) <- br_read_full 1 b;
  do x <- idx data 0;
  Ok (rel_dur x, b1).

Definition enh_read_gen_on (legacy : bool) (b : breader) : outcome (vp * breader) :=
  do (ind, b1) <- br_read_byte b;
  let fmt := N.land ind 7 in
  if fmt =? 1 then
    do (d, b2) <- rel_read_on b1;
    do b3 <- br_discard 5 b2; Ok (VPEnh d ind, b3)
  else if fmt =? 2 then
    do (sec, b2) <- br_read_byte b1;
    do b3 <- br_discard 5 b2; Ok (VPEnh sec ind, b3)
  else if fmt =? 3 then
    let rd := br_read_full 3 b1 in
    let data := match rd with Ok (data, _) => data | _ => [0; 0; 0] end in
    let semi := decode_semi data in
    if negb legacy && (N.of_nat (List.length semi) <? 3) then Err EDecode else
    do h <- idx semi 0; do m <- idx semi 1; do s <- idx semi 2;
    do (_, b2) <- rd;
    do b3 <- br_discard 3 b2; Ok (VPEnh (h * 3600 + m * 60 + s) ind, b3)
  else
    do b2 <- br_discard 6 b1; Ok (VPEnh 0 ind, b2).

Open Scope string_scope.
Definition field_read_on (legacy : bool) (t : g7tab) (st : ustate) (f : tfield) (b : breader)
  : outcome (tval * breader) :=
  match f_dkind f with
  | KByte => do (x, r) <- br_read_byte b; Ok (TVByte x, r)
  | KFlags fs =>
    do (c, r) <- br_read_byte b;
    let vals := unmarshal_flags (fs_fields fs) c 0 in
    let vals := if fs_dir fs then
                  match dir_of_tag (f_dirtag f) with Some d => set_direction (fs_fields fs) vals d | None => vals end
                else vals in
    Ok (TVFlags vals, r)
  | KBytes =>
    do (n, r) <- br_read_byte b;
    do (data, r2) <- br_read_full n r;
    Ok (TVBytes data, r2)
  | KSCAddr => do (a, r) <- sc_read_on t b; Ok (TVAddr a, r)
  | KAddr => do (a, r) <- addr_read_on t b; Ok (TVAddr a, r)
  | KTime => do (x, r) <- time_read_gen_on legacy b; Ok (TVTime x, r)
  | KIface =>
    if String.eqb (f_tp f) "VP" then
      if (u_vpf st =? 1)%N then do (v, r) <- enh_read_gen_on legacy b; Ok (TVVP v, r)
      else if (u_vpf st =? 2)%N then do (d, r) <- rel_read_on b; Ok (TVVP (VPRel d), r)
      else if (u_vpf st =? 3)%N then do (x, r) <- time_read_gen_on legacy b; Ok (TVVP (VPAbs x), r)
      else Ok (TVVP VPNone, b)
    else Ok (TVVP VPNone, b)
  | KSkip => Ok (TVSkip, b)
  end.

Fixpoint fields_read_on (legacy : bool) (t : g7tab) (st : ustate) (fs : list tfield) (b : breader)
  : outcome (list tval) :=
  match fs with
  | [] => Ok []
  | f :: rest =>
    let skip := match u_pi st with Some (pfs, pv) => negb (pi_has pfs pv (f_tp f)) | None => false end in
    if skip then
      do vs <- fields_read_on legacy t st rest b; Ok (zero_val (f_dkind f) :: vs)
    else
      do (v, r) <- field_read_on legacy t st f b;
      do vs <- fields_read_on legacy t (state_after st f v) rest r;
      Ok (v :: vs)
  end.
Close Scope string_scope.

(* Unmarshal: buf := bufio.NewReader(r); getType(buf); the switch; unmarshal(buf, packet) *)
Definition unmarshal_gen_on (legacy : bool) (E : env) (b : breader) : outcome tpdu :=
  do (kind, failure, b1) <- get_type_on b;
  match struct_of kind failure with
  | None => Err EOther
  | Some name =>
    match find_layout (e_layouts E) name with
    | None => Err EOther
    | Some l => do vs <- fields_read_on legacy (e_g7 E) st0 (tl_fields l) b1; Ok (name, vs)
    end
  end.
Definition unmarshal_on := unmarshal_gen_on false.
(* sms.Unmarshal(r) for the reader r that hands out [data] in pieces of the sizes [sched] (then one octet per call),
   io.EOF with the last piece iff [eofd] *)
Definition unmarshal_reader (E : env) (data : bytes) (sched : list nat) (eofd : bool) : outcome tpdu :=
  unmarshal_on E (new_reader data sched eofd).
