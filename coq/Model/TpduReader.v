(* The reader sms.Unmarshal decodes from: one bufio.Reader (4096 octets) over an io.Reader that hands out
   the octets in pieces.  Model/Tpdu.v treats the input as a LIST of octets (read_byte / read_n / get_type's
   Peek / discard on lists); this file models the real thing - the underlying reader with a schedule of
   read sizes, bufio's buffer and pending error - and Proofs/TpduReader.v shows that every primitive the
   decoder uses returns on it what the list primitive returns on the octets still to come, whatever the
   schedule.  That is the precise sense of "for every byte sequence" in C18 / C19:

     the result of sms.Unmarshal depends on the octets only, not on how the reader chunks them,

   for every reader that delivers the octets in pieces of any positive sizes and then io.EOF (with the last
   piece or on the following call).  Readers that fail with another error, or return (0, nil), are outside.
   No proofs in this file. *)
From V Require Export Model.Tpdu.
Open Scope N_scope.

(* the underlying io.Reader: octets still to come, sizes of the pieces the next Read calls may return (an
   entry 0 counts as 1; exhausted schedule: one octet per call), and whether io.EOF comes with the last piece *)
Record source := { s_data : bytes; s_sched : list nat; s_eofd : bool }.

(* one Read(p) with len(p) = room > 0: (octets, err == io.EOF, source afterwards) *)
Definition src_read (room : nat) (s : source) : bytes * bool * source :=
  match s_data s with
  | [] => ([], true, s)
  | _ =>
    let c := match s_sched s with [] => 1%nat | c :: _ => Nat.max 1 c end in
    let k := Nat.min room c in
    let rest := skipn k (s_data s) in
    (firstn k (s_data s),
     match rest with [] => s_eofd s | _ => false end,
     {| s_data := rest; s_sched := tl (s_sched s); s_eofd := s_eofd s |})
  end.

(* bufio.Reader: unread buffered octets (b.buf[b.r:b.w]), pending error (b.err, only io.EOF here), source *)
Record breader := { b_buf : bytes; b_err : bool; b_src : source }.
Definition bufsize : nat := 4096.
Definition set_buf (b : breader) (l : bytes) : breader := {| b_buf := l; b_err := b_err b; b_src := b_src b |}.
Definition clear_err (b : breader) : breader := {| b_buf := b_buf b; b_err := false; b_src := b_src b |}.

(* b.fill(): slide, then one Read into the free space (the source never returns (0, nil)) *)
Definition fill (b : breader) : breader :=
  let '(got, eof, src') := src_read (bufsize - List.length (b_buf b)) (b_src b) in
  {| b_buf := b_buf b ++ got; b_err := eof; b_src := src' |}.

(* ReadByte: for b.r == b.w { if b.err != nil { return 0, b.readErr() }; b.fill() } *)
Definition br_read_byte (b : breader) : outcome (N * breader) :=
  match b_buf b with
  | x :: r => Ok (x, set_buf b r)
  | [] =>
    if b_err b then Err EEOF else
    let b' := fill b in
    match b_buf b' with x :: r => Ok (x, set_buf b' r) | [] => Err EEOF end
  end.

(* Read(p), 0 < len(p) = n < 4096: what is buffered, else ONE Read of the source into the buffer; (octets, io.EOF?, reader) *)
Definition br_read (n : nat) (b : breader) : bytes * bool * breader :=
  match b_buf b with
  | [] =>
    if b_err b then ([], true, clear_err b) else
    let b' := fill b in
    match b_buf b' with
    | [] => ([], true, clear_err b')
    | l => (firstn n l, false, set_buf b' (skipn n l))
    end
  | l => (firstn n l, false, set_buf b (skipn n l))
  end.

(* the code BEFORE fix 0373e10: data := make([]byte, n); _, err = buf.Read(data) - one Read, count ignored *)
Definition br_read_once (n : N) (b : breader) : outcome (bytes * breader) :=
  if n =? 0 then Ok ([], b) else
  let '(got, eof, b') := br_read (N.to_nat n) b in
  if eof then Err EEOF else Ok (got ++ repeat 0 (N.to_nat n - List.length got), b').

(* readFull(r, p) of sms/marshal.go: io.ReadFull = Read until p is full or Read fails; io.ErrUnexpectedEOF
   (some octets, then the end) is turned into nil and the tail of p stays zero *)
Fixpoint br_read_full_loop (fuel need : nat) (acc : bytes) (b : breader) : outcome (bytes * breader) :=
  match need with
  | O => Ok (acc, b)
  | S _ =>
    match fuel with
    | O => Err EFuel
    | S fuel' =>
      let '(got, eof, b') := br_read need b in
      if eof then match acc with [] => Err EEOF | _ => Ok (acc ++ repeat 0 need, b') end
      else br_read_full_loop fuel' (need - List.length got) (acc ++ got) b'
    end
  end.
Definition br_read_full (n : N) (b : breader) : outcome (bytes * breader) :=
  br_read_full_loop (S (N.to_nat n)) (N.to_nat n) [] b.

(* Peek(n), n <= 4096: for b.w-b.r < n && b.w-b.r < len(b.buf) && b.err == nil { b.fill() } *)
Fixpoint fill_until (fuel n : nat) (b : breader) : breader :=
  match fuel with
  | O => b
  | S f => if (List.length (b_buf b) <? n)%nat && negb (b_err b) then fill_until f n (fill b) else b
  end.
Definition br_peek (n : nat) (b : breader) : outcome (bytes * breader) :=
  let b' := fill_until (S n) n b in
  if (List.length (b_buf b') <? n)%nat then Err EEOF else Ok (firstn n (b_buf b'), b').

(* Discard(n) *)
Fixpoint br_discard_loop (fuel remain : nat) (b : breader) : outcome breader :=
  match remain with
  | O => Ok b
  | S _ =>
    match fuel with
    | O => Err EFuel
    | S f =>
      let b1 := match b_buf b with [] => fill b | _ => b end in
      let skip := Nat.min (List.length (b_buf b1)) remain in
      let b2 := set_buf b1 (skipn skip (b_buf b1)) in
      if (remain - skip =? 0)%nat then Ok b2
      else if b_err b2 then Err EEOF
      else br_discard_loop f (remain - skip) b2
    end
  end.
Definition br_discard (n : N) (b : breader) : outcome breader := br_discard_loop (S (N.to_nat n)) (N.to_nat n) b.

(* the octets still to come, and bufio.NewReader(r) *)
Definition content (b : breader) : bytes := b_buf b ++ s_data (b_src b).
Definition new_reader (data : bytes) (sched : list nat) (eofd : bool) : breader :=
  {| b_buf := []; b_err := false; b_src := {| s_data := data; s_sched := sched; s_eofd := eofd |} |}.

(* cases: the harness runs a script of operations on a real bufio.Reader over a scheduled reader;
   ops: 0 = ReadByte, 1 n = readFull of n octets, 2 n = Peek(n), 3 n = Discard(n); observation per op:
   the octets returned ([] for Discard), or None for an error (the script stops there) *)
Inductive rop := RByte | RFull (n : N) | RPeek (n : N) | RDiscard (n : N).
Fixpoint run_script (ops : list rop) (b : breader) : list (option bytes) :=
  match ops with
  | [] => []
  | RByte :: r => match br_read_byte b with Ok (x, b') => Some [x] :: run_script r b' | _ => [None] end
  | RFull n :: r => match br_read_full n b with Ok (l, b') => Some l :: run_script r b' | _ => [None] end
  | RPeek n :: r => match br_peek (N.to_nat n) b with Ok (l, b') => Some l :: run_script r b' | _ => [None] end
  | RDiscard n :: r => match br_discard n b with Ok b' => Some [] :: run_script r b' | _ => [None] end
  end.
(* the same script on the plain list of octets (the reader of Model/Tpdu.v) *)
Fixpoint run_script_list (ops : list rop) (bs : bytes) : list (option bytes) :=
  match ops with
  | [] => []
  | RByte :: r => match read_byte bs with Ok (x, bs') => Some [x] :: run_script_list r bs' | _ => [None] end
  | RFull n :: r => match read_n n bs with Ok (l, bs') => Some l :: run_script_list r bs' | _ => [None] end
  | RPeek n :: r => if blen bs <? n then [None] else Some (firstn (N.to_nat n) bs) :: run_script_list r bs
  | RDiscard n :: r => match discard n bs with Ok bs' => Some [] :: run_script_list r bs' | _ => [None] end
  end.
Definition beq_obs (a b : list (option bytes)) : bool := beq_list (beq_opt beq_bytes) a b.
Definition script_is (data : bytes) (sched : list nat) (eofd : bool) (ops : list rop) (obs : list (option bytes)) : bool :=
  beq_obs (run_script ops (new_reader data sched eofd)) obs && beq_obs (run_script_list ops data) obs.
