(* Proleptic Gregorian calendar arithmetic: day number <-> (year, month, day).
   This is the model of what Go's [time.Date] (civil -> instant) and
   [Time.Year/Month/Day] (instant -> civil) compute for a fixed-offset zone.
   Go's time package is library code: it is *modelled* here and tied by the
   generated correspondence cases (harness/c20.go), not verified.

   The algorithms are the well-known era-based ones (days since 1970-01-01,
   valid for every integer day number and every year, Coq's [/] and [mod]
   being floor division for a positive divisor); everything else in this
   development counts days from 2000-01-01 ([days2000] / [civil2000]).
   Executable, no proofs here. *)
From V Require Export Model.Base.
Local Open Scope Z_scope.

(* days since 1970-01-01 of the civil date y-m-d (1 <= m <= 12; d is used
   linearly, so d outside the month simply counts on, as time.Date does) *)
Definition days_from_civil (y m d : Z) : Z :=
  let y' := if m <=? 2 then y - 1 else y in
  let era := y' / 400 in
  let yoe := y' - era * 400 in
  let mp := if m >? 2 then m - 3 else m + 9 in
  let doy := (153 * mp + 2) / 5 + d - 1 in
  let doe := yoe * 365 + yoe / 4 - yoe / 100 + doy in
  era * 146097 + doe - 719468.

Definition civil_from_days (z0 : Z) : Z * Z * Z :=
  let z := z0 + 719468 in
  let era := z / 146097 in
  let doe := z - era * 146097 in
  let yoe := (doe - doe / 1460 + doe / 36524 - doe / 146096) / 365 in
  let y := yoe + era * 400 in
  let doy := doe - (365 * yoe + yoe / 4 - yoe / 100) in
  let mp := (5 * doy + 2) / 153 in
  let d := doy - (153 * mp + 2) / 5 + 1 in
  let m := if mp <? 10 then mp + 3 else mp - 9 in
  (if m <=? 2 then y + 1 else y, m, d).

(* 2000-01-01 is day 10957 of the 1970 count *)
Definition epoch2000 : Z := 10957.
Definition days2000 (y m d : Z) : Z := days_from_civil y m d - epoch2000.
Definition civil2000 (n : Z) : Z * Z * Z := civil_from_days (n + epoch2000).

(* The day count of [time.Date(year, month, day, ...)]: Go first normalises
   the month into 1..12 carrying into the year ([norm(year, month-1, 12)],
   floor division), then adds the days before that month and [day - 1] with
   no range check on [day]. *)
Definition go_date_days (year month day : Z) : Z :=
  let m0 := month - 1 in
  days2000 (year + m0 / 12) (m0 mod 12 + 1) 1 + (day - 1).

(* number of days in 2000-01-01 .. 2099-12-31: 100 * 365 + 25 leap days *)
Definition days_2000_2099 : Z := 36525.

(* --- what a "real calendar date" is (written from the Gregorian rule) ---- *)
Definition is_leap (y : Z) : bool :=
  (y mod 4 =? 0) && (negb (y mod 100 =? 0) || (y mod 400 =? 0)).
Definition days_in_month (y m : Z) : Z :=
  if m =? 2 then (if is_leap y then 29 else 28)
  else if (m =? 4) || (m =? 6) || (m =? 9) || (m =? 11) then 30 else 31.
Definition valid_date (y m d : Z) : bool :=
  (1 <=? m) && (m <=? 12) && (1 <=? d) && (d <=? days_in_month y m).

(* [from; from+1; ...], n of them (n stays small: sweeps are nested) *)
Fixpoint zrange (n : nat) (from : Z) : list Z :=
  match n with O => [] | S k => from :: zrange k (from + 1) end.

Definition beq_date (a b : Z * Z * Z) : bool :=
  let '(y, m, d) := a in let '(y', m', d') := b in (y =? y') && (m =? m') && (d =? d').

(* month lengths of a year, as Go's time.Date(y, m+1, 0).Day() reports them
   (generated cases compare this with the running library for 2000..2099) *)
Definition month_lengths (y : Z) : list Z := map (days_in_month y) (zrange 12 1).
Definition month_lengths_are (y : Z) (l : list Z) : bool := beq_list Z.eqb (month_lengths y) l.
