(* Base definitions shared by every model: octets, outcomes, hex literals,
   big-endian integers.  Executable, no proofs here. *)
From Coq Require Export List NArith ZArith Lia Bool String Ascii.
Export ListNotations.
Open Scope N_scope.

Definition bytes := list N.

(* Error identities are projected to a small enum; checks compare them only
   where a property speaks about which error. *)
Inductive err :=
| EEOF | EUnexpectedEOF | EFrameLen | EUnknownId | EDecode | EInvalidSeq
| ESize | ECount | ETagLen | EText | EFuel | EOther.

(* Every Go index / slice / nil-map write is modelled by an operation that can
   yield [Panic]; "never panics" is therefore a theorem, not a by-product of
   Coq totality. *)
Inductive outcome (A : Type) := Ok (a : A) | Err (e : err) | Panic.
Arguments Ok {A} a.
Arguments Err {A} e.
Arguments Panic {A}.

Definition obind {A B} (x : outcome A) (f : A -> outcome B) : outcome B :=
  match x with Ok a => f a | Err e => Err e | Panic => Panic end.
Notation "'do' x <- a ; b" := (obind a (fun x => b))
  (at level 200, x pattern, a at level 100, b at level 200).

Definition is_ok {A} (x : outcome A) := match x with Ok _ => true | _ => false end.
Definition is_err {A} (x : outcome A) := match x with Err _ => true | _ => false end.
Definition is_panic {A} (x : outcome A) := match x with Panic => true | _ => false end.

(* outcome class: 0 ok, 1 err, 2 panic *)
Definition oclass {A} (x : outcome A) : N :=
  match x with Ok _ => 0 | Err _ => 1 | Panic => 2 end.

(* --- hex literals used by generated case files ------------------------- *)
Definition hexval (c : ascii) : N :=
  let n := N_of_ascii c in
  if (48 <=? n) && (n <=? 57) then n - 48
  else if (97 <=? n) && (n <=? 102) then n - 87
  else if (65 <=? n) && (n <=? 70) then n - 55 else 0.

Fixpoint hx (s : string) : bytes :=
  match s with
  | String a (String b r) => (16 * hexval a + hexval b) :: hx r
  | _ => []
  end.

Definition hxs (l : list bytes) : bytes := List.concat l.

(* --- equality helpers --------------------------------------------------- *)
Fixpoint beq_bytes (a b : bytes) : bool :=
  match a, b with
  | [], [] => true
  | x :: a', y :: b' => (x =? y) && beq_bytes a' b'
  | _, _ => false
  end.

Definition beq_opt {A} (eq : A -> A -> bool) (a b : option A) : bool :=
  match a, b with Some x, Some y => eq x y | None, None => true | _, _ => false end.

Fixpoint beq_list {A} (eq : A -> A -> bool) (a b : list A) : bool :=
  match a, b with
  | [], [] => true
  | x :: a', y :: b' => eq x y && beq_list eq a' b'
  | _, _ => false
  end.

(* --- big-endian integers ------------------------------------------------ *)
Definition be16 (n : N) : bytes := [(n / 256) mod 256; n mod 256].
Definition be32 (n : N) : bytes :=
  [(n / 16777216) mod 256; (n / 65536) mod 256; (n / 256) mod 256; n mod 256].
Definition de16 (a b : N) : N := a * 256 + b.
Definition de32 (a b c d : N) : N := ((a * 256 + b) * 256 + c) * 256 + d.

Definition octet (b : N) : Prop := b < 256.
Definition octets (l : bytes) : Prop := Forall octet l.
Definition octetsb (l : bytes) : bool := forallb (fun b => b <? 256) l.

(* int32 <-> uint32 (two's complement), as encoding/binary does for Header.Sequence *)
Definition u32_of_i32 (z : Z) : N := Z.to_N (z mod 4294967296)%Z.
Definition i32_of_u32 (n : N) : Z :=
  if n <? 2147483648 then Z.of_N n else (Z.of_N n - 4294967296)%Z.

(* failing-case indices of a generated case list *)
Definition mismatches (cases : list (N * bool)) : list N :=
  map fst (filter (fun c => negb (snd c)) cases).
