(* Model of pdu/esm_class.go, pdu/registered_delivery.go,
   pdu/interface_version.go (octet codecs).  Bytes are N; Go's byte
   arithmetic wraps, which we write explicitly as [mod 256] / masks. *)
From V Require Export Model.Base.
Open Scope N_scope.

Record esm := { e_mode : N; e_type : N; e_udhi : bool; e_reply : bool }.
Record regdel := { r_mc : N; r_sme : N; r_inter : bool; r_rsv : N }.

Definition nb (b : bool) : N := if b then 1 else 0.

(* ESMClass.WriteByte *)
Definition esm_of_byte (c : N) : esm :=
  {| e_mode := N.land c 3;
     e_type := N.land (N.shiftr c 2) 15;
     e_udhi := N.land (N.shiftr c 6) 1 =? 1;
     e_reply := N.land (N.shiftr c 7) 1 =? 1 |}.

(* ESMClass.ReadByte: fields of the struct are arbitrary bytes, masked here *)
Definition esm_to_byte (e : esm) : N :=
  N.lor (N.lor (N.lor (N.land (e_mode e) 3)
                      (N.shiftl (N.land (e_type e) 15) 2))
               (N.shiftl (nb (e_udhi e)) 6))
        (N.shiftl (nb (e_reply e)) 7).

Definition regdel_of_byte (c : N) : regdel :=
  {| r_mc := N.land c 3;
     r_sme := N.land (N.shiftr c 2) 3;
     r_inter := N.land (N.shiftr c 4) 1 =? 1;
     r_rsv := N.land (N.shiftr c 5) 7 |}.

Definition regdel_to_byte (r : regdel) : N :=
  N.lor (N.lor (N.lor (N.land (r_mc r) 3)
                      (N.shiftl (N.land (r_sme r) 3) 2))
               (N.shiftl (nb (r_inter r)) 4))
        (N.shiftl (N.land (r_rsv r) 7) 5).

(* --- SMPP v5 4.7.12 / 4.7.21 bit assignment, written with div/mod only -- *)
Definition spec_esm (c : N) : esm :=
  {| e_mode := c mod 4;                 (* bits 1-0: messaging mode *)
     e_type := (c / 4) mod 16;          (* bits 5-2: message type   *)
     e_udhi := (c / 64) mod 2 =? 1;     (* bit 6: UDHI              *)
     e_reply := (c / 128) mod 2 =? 1 |}. (* bit 7 *)
Definition spec_esm_byte (e : esm) : N :=
  e_mode e + 4 * e_type e + 64 * nb (e_udhi e) + 128 * nb (e_reply e).

Definition spec_regdel (c : N) : regdel :=
  {| r_mc := c mod 4;                   (* bits 1-0: MC delivery receipt *)
     r_sme := (c / 4) mod 4;            (* bits 3-2: SME originated ack  *)
     r_inter := (c / 16) mod 2 =? 1;    (* bit 4: intermediate notif.    *)
     r_rsv := (c / 32) mod 8 |}. (* bits 7-5 *)
Definition spec_regdel_byte (r : regdel) : N :=
  r_mc r + 4 * r_sme r + 16 * nb (r_inter r) + 32 * r_rsv r.

Definition beq_esm (a b : esm) : bool :=
  (e_mode a =? e_mode b) && (e_type a =? e_type b) &&
  Bool.eqb (e_udhi a) (e_udhi b) && Bool.eqb (e_reply a) (e_reply b).
Definition beq_regdel (a b : regdel) : bool :=
  (r_mc a =? r_mc b) && (r_sme a =? r_sme b) &&
  Bool.eqb (r_inter a) (r_inter b) && (r_rsv a =? r_rsv b).

Lemma beq_esm_eq a b : beq_esm a b = true -> a = b.
Proof.
  destruct a, b; unfold beq_esm; cbn.
  rewrite !andb_true_iff, !N.eqb_eq, !Bool.eqb_true_iff.
  intros [[[-> ->] ->] ->]; reflexivity.
Qed.
Lemma beq_regdel_eq a b : beq_regdel a b = true -> a = b.
Proof.
  destruct a, b; unfold beq_regdel; cbn.
  rewrite !andb_true_iff, !N.eqb_eq, !Bool.eqb_true_iff.
  intros [[[-> ->] ->] ->]; reflexivity.
Qed.

(* --- InterfaceVersion JSON text form ------------------------------------ *)
(* String(): fmt.Sprintf("%d.%d", v>>4&15, v&15); MarshalJSON quotes it.
   UnmarshalJSON: Sscanf "%d.%d" into two bytes then (major&15)<<4 | minor&15. *)
Definition dec_digits (n : N) : list N :=          (* n < 100, decimal ASCII *)
  if n <? 10 then [48 + n] else [48 + n / 10; 48 + n mod 10].
Definition ifver_to_json (v : N) : bytes :=
  [34] ++ dec_digits (N.land (N.shiftr v 4) 15) ++ [46] ++ dec_digits (N.land v 15) ++ [34].

Fixpoint parse_dec (acc : N) (seen : bool) (l : bytes) : option (N * bytes) :=
  match l with
  | c :: r => if (48 <=? c) && (c <=? 57) then parse_dec (acc * 10 + (c - 48)) true r
              else if seen then Some (acc, l) else None
  | [] => if seen then Some (acc, []) else None
  end.
Definition ifver_of_json (s : bytes) : option N :=
  match s with
  | 34 :: r =>
    match parse_dec 0 false r with
    | Some (ma, 46 :: r2) =>
      match parse_dec 0 false r2 with
      | Some (mi, [34]) => Some (N.lor (N.shiftl (N.land ma 15) 4) (N.land mi 15))
      | _ => None
      end
    | _ => None
    end
  | _ => None
  end.

Definition all256 : list N := map N.of_nat (seq 0 256).
Lemma all256_spec b : b < 256 -> In b all256.
Proof.
  intros H. unfold all256. apply in_map_iff. exists (N.to_nat b). split; [lia|].
  apply in_seq. lia.
Qed.

(* --- receivers --------------------------------------------------------------
   WriteByte / UnmarshalJSON / From are methods on a pointer: they run on a
   receiver that already holds a value.  The model of a method takes the OLD
   value and performs the method's assignments one by one; that the result does
   not depend on the old value is a theorem (Proofs/FlagsProofs.v), and the
   harness decodes into NON-ZERO receivers to tie it. *)
Definition esm_set_mode (e : esm) (x : N) : esm := {| e_mode := x; e_type := e_type e; e_udhi := e_udhi e; e_reply := e_reply e |}.
Definition esm_set_type (e : esm) (x : N) : esm := {| e_mode := e_mode e; e_type := x; e_udhi := e_udhi e; e_reply := e_reply e |}.
Definition esm_set_udhi (e : esm) (x : bool) : esm := {| e_mode := e_mode e; e_type := e_type e; e_udhi := x; e_reply := e_reply e |}.
Definition esm_set_reply (e : esm) (x : bool) : esm := {| e_mode := e_mode e; e_type := e_type e; e_udhi := e_udhi e; e_reply := x |}.
(* (e *ESMClass) WriteByte(c): four assignments *)
Definition esm_write (e0 : esm) (c : N) : esm :=
  let e1 := esm_set_mode e0 (N.land c 3) in
  let e2 := esm_set_type e1 (N.land (N.shiftr c 2) 15) in
  let e3 := esm_set_udhi e2 (N.land (N.shiftr c 6) 1 =? 1) in
  esm_set_reply e3 (N.land (N.shiftr c 7) 1 =? 1).
(* what a WriteByte that ORs into the receiver (|=) would compute: the variant the histories exclude *)
Definition esm_write_or (e0 : esm) (c : N) : esm :=
  {| e_mode := N.lor (e_mode e0) (N.land c 3); e_type := N.lor (e_type e0) (N.land (N.shiftr c 2) 15);
     e_udhi := e_udhi e0 || (N.land (N.shiftr c 6) 1 =? 1); e_reply := e_reply e0 || (N.land (N.shiftr c 7) 1 =? 1) |}.

Definition regdel_write (r0 : regdel) (c : N) : regdel :=
  let r1 := {| r_mc := N.land c 3; r_sme := r_sme r0; r_inter := r_inter r0; r_rsv := r_rsv r0 |} in
  let r2 := {| r_mc := r_mc r1; r_sme := N.land (N.shiftr c 2) 3; r_inter := r_inter r1; r_rsv := r_rsv r1 |} in
  let r3 := {| r_mc := r_mc r2; r_sme := r_sme r2; r_inter := N.land (N.shiftr c 4) 1 =? 1; r_rsv := r_rsv r2 |} in
  {| r_mc := r_mc r3; r_sme := r_sme r3; r_inter := r_inter r3; r_rsv := N.land (N.shiftr c 5) 7 |}.

(* (v *InterfaceVersion) UnmarshalJSON(data): on an error *v keeps its old value; otherwise *v = … *)
Definition ifver_unmarshal (v0 : N) (s : bytes) : N * bool :=
  match ifver_of_json s with Some v => (v, true) | None => (v0, false) end.

(* every normalised field value of the two structs (the finite domain of "encode, then decode") *)
Definition bools : list bool := [false; true].
Definition all_esm : list esm :=            (* in the order of their octets *)
  flat_map (fun r => flat_map (fun u => flat_map (fun t => map (fun m =>
    {| e_mode := m; e_type := t; e_udhi := u; e_reply := r |}) (map N.of_nat (seq 0 4))) (map N.of_nat (seq 0 16))) bools) bools.
Definition all_regdel : list regdel :=
  flat_map (fun r => flat_map (fun i => flat_map (fun s => map (fun m =>
    {| r_mc := m; r_sme := s; r_inter := i; r_rsv := r |}) (map N.of_nat (seq 0 4))) (map N.of_nat (seq 0 4))) bools) (map N.of_nat (seq 0 8)).
