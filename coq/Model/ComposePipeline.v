(* The pipeline  text -> BestCoding / BestSafeCoding -> ComposeMultipartShortMessage with the detected coding:
   Model/Compose.v instantiated with the detector's label (Model/Detect.v), the splitter widths tabulated for every
   scalar value (Gen/Detect.v width_<c>) and the label's encoder.  No proofs in this file. *)
From V Require Import Model.Base Model.IntervalMap Model.Splitter Model.Compose Gen.Charsets Model.Charset Gen.Detect Model.Detect.
Open Scope N_scope.
Local Notation length := List.length.

(* ---- the pipeline: the detector's label, its splitter (width tables of Gen/Detect.v, every scalar value), its encoder *)
(* the bits Splitter() charges: tabulated for every scalar value (width_<c>); a Go string holds scalar values only, so
   nothing else is ever looked up - there the model charges one bit, which keeps the function positive *)
Definition w_label (l : label) (r : N) : nat := N.to_nat (N.max 1 (width l r)).
Definition compose_label (l : label) (ref : N) (rs : list N) : outcome (list (part bytes)) :=
  Compose.compose bytes (@length N) (w_label l) (encode_l l) ref rs.
Definition pipeline (ref : N) (rs : list N) : outcome (list (part bytes)) := compose_label (best rs) ref rs.
Definition pipeline_safe (ref : N) (rs : list N) : outcome (list (part bytes)) := compose_label (best_safe rs) ref rs.

(* observation of one pipeline run: the detected data_coding, outcome class, per part header entries and payload *)
Definition pipeline_case (detect : list N -> label) (ref : N) (rs : list N) (dc : N) (cls : N) (ps : list (udh * bytes)) : bool :=
  (dc_of_label (detect rs) =? dc) && parts_obs_ok beq_bytes (compose_label (detect rs) ref rs) cls ps.

(* helper for the generated long texts: a block of runes repeated k times *)
Definition rept (k : N) (b : list N) : list N := List.concat (repeat b (N.to_nat k)).
