(* Lock protocol of smpp.Conn's pending table (conn.go after the D26 repair).
   Executable, no proofs.

   Shared objects: the mutex guarding Conn.pending, and the map itself.  A
   ROUTINE is the sequence of lock and map actions one function of conn.go
   performs, in source order — regenerated from the source on every run
   (Gen/ConnLocks.v, harness/gen_connlocks.go, go/ast).  A THREAD (Watch, any
   Submit caller, the keep-alive loop, Close) executes any sequence of
   routines.  The system interleaves any number of threads action by action;
   map actions have NO guard in the semantics: that they only happen under
   the mutex is what the theorems show. *)
From V Require Import Model.Base.
Open Scope N_scope.

Inductive act :=
| ALock | AUnlock
| AMap (write : bool).     (* a read (index, range, len) or a write (assign, delete) of Conn.pending *)

Definition routine := list act.

(* a routine is well locked: it takes the free mutex before touching the map,
   never re-locks, and releases what it took before it ends *)
Fixpoint routine_ok_from (held : bool) (r : routine) : bool :=
  match r with
  | [] => negb held
  | ALock :: r' => negb held && routine_ok_from true r'
  | AUnlock :: r' => held && routine_ok_from false r'
  | AMap _ :: r' => held && routine_ok_from held r'
  end.
Definition routine_ok (r : routine) : bool := routine_ok_from false r.

(* ---- the interleaving semantics *)
Record lstate := mkL {
  holder : option nat;           (* thread holding the mutex *)
  progs : nat -> list act        (* what each thread still has to execute *)
}.

Definition lstep (s : lstate) (t : nat) : option (lstate * act) :=
  match progs s t with
  | [] => None
  | a :: rest =>
    let progs' := fun x => if Nat.eqb x t then rest else progs s x in
    match a with
    | ALock => match holder s with None => Some (mkL (Some t) progs', a) | Some _ => None end   (* blocks *)
    | AUnlock => Some (mkL None progs', a)       (* sync.Mutex.Unlock does not check the owner *)
    | AMap _ => Some (mkL (holder s) progs', a)  (* no guard: a plain Go map access *)
    end
  end.

(* run a schedule (which thread moves next); the executed trace *)
Fixpoint lrun (s : lstate) (sched : list nat) : option (lstate * list (nat * act)) :=
  match sched with
  | [] => Some (s, [])
  | t :: r =>
    match lstep s t with
    | None => None
    | Some (s', a) => match lrun s' r with Some (s'', tr) => Some (s'', (t, a) :: tr) | None => None end
    end
  end.

(* ---- what a data race on the map is: two accesses by different threads, at
   least one a write, with no release/acquire of the mutex ordering them.
   [trace_ok] checks a trace against the lock discipline that excludes it. *)
Fixpoint trace_ok_from (h : option nat) (tr : list (nat * act)) : bool :=
  match tr with
  | [] => true
  | (t, ALock) :: r => match h with None => trace_ok_from (Some t) r | Some _ => false end
  | (t, AUnlock) :: r => match h with Some u => Nat.eqb u t && trace_ok_from None r | None => false end
  | (t, AMap _) :: r => match h with Some u => Nat.eqb u t && trace_ok_from h r | None => false end
  end.
Definition trace_ok (tr : list (nat * act)) : bool := trace_ok_from None tr.

(* adjacent conflicting accesses of two threads: the shape of a race report *)
Fixpoint has_adjacent_race (tr : list (nat * act)) : bool :=
  match tr with
  | (t1, AMap w1) :: (((t2, AMap w2) :: _) as r) => (negb (Nat.eqb t1 t2) && (w1 || w2)) || has_adjacent_race r
  | _ :: r => has_adjacent_race r
  | [] => false
  end.

(* the pre-repair routines (no mutex at all) *)
Definition legacy_register : routine := [AMap true].
Definition legacy_lookup : routine := [AMap false].
