(* Model of pdu/time.go: SMPP absolute time "YYMMDDhhmmsstnnp" (SMPP v5
   4.7.23.4, [pdu.Time]) and relative period "YYMMDDhhmmsst00R" (4.7.23.5,
   [pdu.Duration]), for EVERY input string / value, as the Go code computes
   them (including what it does with strings the standard does not allow).

   Values.
   * a [pdu.Time] in a fixed zone is a pair (t, q) : Z * Z where t is the
     instant in tenths of a second since 2000-01-01T00:00:00Z and q the zone
     offset in quarter hours (what a Go [time.Time] located in
     [time.FixedZone("", q*900)] carries, sub-tenth part being zero);
     the zero [time.Time{}] is ([zero_instant], 0);
   * a [pdu.Duration] that is a multiple of 1e8 ns is d : Z, tenths of a second;
   * a string is the list of its octets, [list N].

   Structure follows the Go code line by line:
     [parse_int]            strconv.ParseInt(s, 10, 16) with the error discarded
     [from_time_string]     fromTimeString   (string -> parts[8], symbol)
     [instant_of_parts]     the time.Date(...) call of Time.From
     [time_parse]           Time.From
     [parts_of_instant]     the accessor calls of Time.String
     [fmt_02d], [fmt_d]     the %02d / %d verbs of fmt.Sprintf
     [time_format]          Time.String
     [dur_parse]/[dur_format]   Duration.From / Duration.String

   Outcomes.  [Err EDecode] is [ErrUnparseableTime].  The slice expressions
   [input[i:i+2]] and the index [input[15]] of fromTimeString are modelled by
   [slice]/[char_at], which yield [Panic] when out of range; that the length
   test in front of them makes [Panic] unreachable is a theorem
   (Proofs/SmppTimeProofs.v), not an effect of Coq totality.  The formatting
   functions contain no index or slice expression and always return [Ok].

   Library code that is modelled here and tied only by the generated cases:
   strconv.ParseInt, time.Date / FixedZone / Year..Nanosecond / Zone / IsZero,
   the %02d %d %c verbs of fmt.  Not modelled: int64 overflow of a
   time.Duration (unreachable: parts are in -9..99), zones that are not a
   whole number of quarter hours and sub-tenth nanoseconds (both are
   truncated by the Go code; the harness tests that directly).
   Executable, no proofs here. *)
From V Require Export Model.Base Model.Civil.
Local Open Scope Z_scope.

(* parts[0..7] of fromTimeString; the same array serves both codecs *)
Record tparts := {
  p_yy : Z;   (* years                *)
  p_mo : Z;   (* months               *)
  p_dd : Z;   (* days                 *)
  p_hh : Z;   (* hours                *)
  p_mi : Z;   (* minutes              *)
  p_ss : Z;   (* seconds              *)
  p_t  : Z;   (* tenths of a second   *)
  p_q  : Z    (* nn, negated if the symbol is '-' *)
}.
Definition zero_parts : tparts :=
  {| p_yy := 0; p_mo := 0; p_dd := 0; p_hh := 0; p_mi := 0; p_ss := 0; p_t := 0; p_q := 0 |}.

Definition ch_plus : N := 43%N.
Definition ch_minus : N := 45%N.
Definition ch_R : N := 82%N.
Definition ch_0 : N := 48%N.

(* --- Go slice / index expressions on a string ------------------------------- *)
Definition slice (s : list N) (i j : nat) : outcome (list N) :=
  if ((i <=? j) && (j <=? List.length s))%nat then Ok (firstn (j - i) (skipn i s)) else Panic.
Definition char_at (s : list N) (i : nat) : outcome N :=
  match nth_error s i with Some c => Ok c | None => Panic end.

(* --- strconv.ParseInt(s, 10, 16), first result -------------------------------- *)
Definition is_digit (c : N) : bool := ((48 <=? c) && (c <=? 57))%N.
Definition dval (c : N) : Z := Z.of_N c - 48.
Fixpoint parse_digits (s : list N) (acc : Z) : option Z :=
  match s with
  | [] => Some acc
  | c :: r => if is_digit c then parse_digits r (10 * acc + dval c) else None
  end.
(* ParseUint: at least one character, decimal digits only (no '_' in base 10) *)
Definition parse_uint (s : list N) : option Z :=
  match s with [] => None | _ => parse_digits s 0 end.
(* optional sign, then ParseUint; syntax error -> 0; out of int16 -> clamped
   (the clamp needs five digits and is unreachable from fromTimeString) *)
Definition parse_int (s : list N) : Z :=
  match s with
  | [] => 0
  | c :: r =>
    let neg := (c =? ch_minus)%N in
    let body := if ((c =? ch_plus) || (c =? ch_minus))%N then r else s in
    match parse_uint body with
    | None => 0
    | Some un =>
      if negb neg && (32768 <=? un) then 32767
      else if neg && (32768 <? un) then -32768
      else if neg then - un else un
    end
  end.

(* --- fromTimeString ----------------------------------------------------------- *)
Definition from_time_string (s : list N) : outcome (tparts * N) :=
  if negb (List.length s =? 16)%nat then Ok (zero_parts, 0%N) else
  do yy <- slice s 0 2;
  do mo <- slice s 2 4;
  do dd <- slice s 4 6;
  do hh <- slice s 6 8;
  do mi <- slice s 8 10;
  do ss <- slice s 10 12;
  do t  <- slice s 12 13;
  do nn <- slice s 13 15;
  do sym <- char_at s 15;
  let q := parse_int nn in
  Ok ({| p_yy := parse_int yy; p_mo := parse_int mo; p_dd := parse_int dd;
         p_hh := parse_int hh; p_mi := parse_int mi; p_ss := parse_int ss;
         p_t := parse_int t;
         p_q := if (sym =? ch_minus)%N then - q else q |}, sym).

(* --- absolute time ---------------------------------------------------------- *)
Definition tenths_per_day : Z := 864000.
Definition tenths_per_quarter : Z := 9000.

(* time.Time{}: 0001-01-01T00:00:00Z, the value Time.From("") stores and the
   one Time.String prints as "" (IsZero compares the instant, not the zone) *)
Definition zero_instant : Z := days2000 1 1 1 * tenths_per_day.

(* time.Date(2000+yy, mo, dd, hh, mi, ss, t*1e8, FixedZone("", q*900)): the
   instant whose wall clock in the zone shows these fields; out-of-range
   fields are carried over by time.Date, which makes the result linear in
   every field but the month *)
Definition instant_of_parts (p : tparts) : Z * Z :=
  let l := go_date_days (2000 + p_yy p) (p_mo p) (p_dd p) * tenths_per_day
           + p_hh p * 36000 + p_mi p * 600 + p_ss p * 10 + p_t p in
  (l - p_q p * tenths_per_quarter, p_q p).

(* Time.From *)
Definition time_parse (s : list N) : outcome (Z * Z) :=
  match s with
  | [] => Ok (zero_instant, 0)
  | _ =>
    do ps <- from_time_string s;
    let '(p, sym) := ps in
    if ((sym =? ch_plus) || (sym =? ch_minus))%N then Ok (instant_of_parts p) else Err EDecode
  end.

(* t.Year()-2000, t.Month(), t.Day(), t.Hour(), t.Minute(), t.Second(),
   t.Nanosecond()/1e8 and the zone offset, of the instant t shown in zone q *)
Definition parts_of_instant (t q : Z) : tparts :=
  let l := t + q * tenths_per_quarter in          (* wall clock of the zone *)
  let day := l / tenths_per_day in
  let r := l mod tenths_per_day in
  let '(y, m, d) := civil2000 day in
  let sec := r / 10 in
  {| p_yy := y - 2000; p_mo := m; p_dd := d;
     p_hh := sec / 3600; p_mi := sec mod 3600 / 60; p_ss := sec mod 60;
     p_t := r mod 10; p_q := q |}.

(* --- fmt verbs ------------------------------------------------------------------ *)
Fixpoint uint_digits (u : Decimal.uint) : list N :=
  (match u with
   | Decimal.Nil => []
   | Decimal.D0 r => 48 :: uint_digits r | Decimal.D1 r => 49 :: uint_digits r
   | Decimal.D2 r => 50 :: uint_digits r | Decimal.D3 r => 51 :: uint_digits r
   | Decimal.D4 r => 52 :: uint_digits r | Decimal.D5 r => 53 :: uint_digits r
   | Decimal.D6 r => 54 :: uint_digits r | Decimal.D7 r => 55 :: uint_digits r
   | Decimal.D8 r => 56 :: uint_digits r | Decimal.D9 r => 57 :: uint_digits r
   end)%N.
(* decimal digits of n >= 0 (standard library conversion, structural, no fuel) *)
Definition dec (n : Z) : list N := uint_digits (N.to_uint (Z.to_N n)).
(* %d *)
Definition fmt_d (n : Z) : list N := if n <? 0 then ch_minus :: dec (- n) else dec n.
(* %02d: zero padding to width 2, the sign counts towards the width *)
Definition fmt_02d (n : Z) : list N :=
  if n <? 0 then ch_minus :: dec (- n) else if n <? 10 then ch_0 :: dec n else dec n.

(* Sprintf("%02d%02d%02d%02d%02d%02d%d%02d%c", ..., |offset|/900, symbol) *)
Definition time_string_of_parts (p : tparts) : list N :=
  fmt_02d (p_yy p) ++ fmt_02d (p_mo p) ++ fmt_02d (p_dd p) ++ fmt_02d (p_hh p) ++
  fmt_02d (p_mi p) ++ fmt_02d (p_ss p) ++ fmt_d (p_t p) ++ fmt_02d (Z.abs (p_q p)) ++
  [if p_q p <? 0 then ch_minus else ch_plus].

(* Time.String *)
Definition time_format (v : Z * Z) : outcome (list N) :=
  let '(t, q) := v in
  if t =? zero_instant then Ok [] else Ok (time_string_of_parts (parts_of_instant t q)).

(* --- relative period ---------------------------------------------------------- *)
Definition t_year : Z := 8760 * 36000.   (* time.Hour * 8760, in tenths *)
Definition t_month : Z := 720 * 36000.   (* time.Hour * 720 *)
Definition t_day : Z := 24 * 36000.
Definition t_hour : Z := 36000.
Definition t_min : Z := 600.
Definition t_sec : Z := 10.

(* Duration.String *)
Definition dur_format (d : Z) : outcome (list N) :=
  if d <? t_sec then Ok [] else
  let y := d / t_year in let r := d mod t_year in
  let mo := r / t_month in let r := r mod t_month in
  let dy := r / t_day in let r := r mod t_day in
  let h := r / t_hour in let r := r mod t_hour in
  let mi := r / t_min in let r := r mod t_min in
  let s := r / t_sec in let r := r mod t_sec in
  Ok (fmt_02d y ++ fmt_02d mo ++ fmt_02d dy ++ fmt_02d h ++ fmt_02d mi ++ fmt_02d s ++
      fmt_d r ++ [ch_0; ch_0; ch_R]).

(* Duration.From: sum of bases[i] * parts[i] with bases[6] = 1e8 ns, bases[7] = 0 *)
Definition dur_parse (s : list N) : outcome Z :=
  match s with
  | [] => Ok 0
  | _ =>
    do ps <- from_time_string s;
    let '(p, sym) := ps in
    if (sym =? ch_R)%N then
      Ok (p_yy p * t_year + p_mo p * t_month + p_dd p * t_day + p_hh p * t_hour +
          p_mi p * t_min + p_ss p * t_sec + p_t p + 0 * p_q p)
    else Err EDecode
  end.

(* --- comparison helpers for the generated cases ------------------------------- *)
Definition beq_inst (a b : Z * Z) : bool := (fst a =? fst b) && (snd a =? snd b).

(* the implementation parsed [s] to (t,q) / rejected [s] / formatted (t,q) as [s] *)
Definition time_parse_is (s : list N) (t q : Z) : bool :=
  match time_parse s with Ok v => beq_inst v (t, q) | _ => false end.
Definition time_parse_rejects (s : list N) : bool := is_err (time_parse s).
Definition time_format_is (t q : Z) (s : list N) : bool :=
  match time_format (t, q) with Ok s' => beq_bytes s' s | _ => false end.
Definition dur_parse_is (s : list N) (d : Z) : bool :=
  match dur_parse s with Ok d' => d' =? d | _ => false end.
Definition dur_parse_rejects (s : list N) : bool := is_err (dur_parse s).
Definition dur_format_is (d : Z) (s : list N) : bool :=
  match dur_format d with Ok s' => beq_bytes s' s | _ => false end.

(* --- receivers ------------------------------------------------------------------
   (t *Time) From and (p *Duration) From run on a receiver that already holds a
   value.  [reset] = the first statement of the method (t.Time = time.Time{} /
   p.Duration = 0) is present; the shipped code is [reset = true].  Result: the
   receiver afterwards and the error class of the call. *)
Definition time_from_gen (reset : bool) (v0 : Z * Z) (s : list N) : (Z * Z) * outcome unit :=
  let v1 := if reset then (zero_instant, 0) else v0 in
  match s with
  | [] => (v1, Ok tt)
  | _ =>
    match from_time_string s with
    | Ok (p, sym) => if ((sym =? ch_plus) || (sym =? ch_minus))%N then (instant_of_parts p, Ok tt) else (v1, Err EDecode)
    | Err e => (v1, Err e)
    | Panic => (v1, Panic)
    end
  end.
Definition time_from := time_from_gen true.

(* for i, part := range parts { p.Duration += bases[i] * part }: the loop ADDS to the receiver *)
Definition dur_from_gen (reset : bool) (d0 : Z) (s : list N) : Z * outcome unit :=
  let d1 := if reset then 0 else d0 in
  match s with
  | [] => (d1, Ok tt)
  | _ =>
    match from_time_string s with
    | Ok (p, sym) =>
      if (sym =? ch_R)%N then
        (fold_left Z.add [p_yy p * t_year; p_mo p * t_month; p_dd p * t_day; p_hh p * t_hour;
                          p_mi p * t_min; p_ss p * t_sec; p_t p; 0 * p_q p] d1, Ok tt)
      else (d1, Err EDecode)
    | Err e => (d1, Err e)
    | Panic => (d1, Panic)
    end
  end.
Definition dur_from := dur_from_gen true.

(* cases: the implementation called From(s) on a receiver holding the given value and then held (t, q) / d;
   [ok] = the call returned nil *)
Definition time_from_is (t0 q0 : Z) (s : list N) (ok : bool) (t q : Z) : bool :=
  let '(v, r) := time_from (t0, q0) s in beq_inst v (t, q) && Bool.eqb (is_ok r) ok && negb (is_panic r).
Definition dur_from_is (d0 : Z) (s : list N) (ok : bool) (d : Z) : bool :=
  let '(v, r) := dur_from d0 s in (v =? d) && Bool.eqb (is_ok r) ok && negb (is_panic r).
