(* The decoder over the bufio reader model (Model/TpduReader.v) instantiated with the environment regenerated from the
   running code: the functions the generated reader cases of harness/c18.go evaluate and the reader theorems of
   Properties/C18.v speak about.  No proofs in this file. *)
From V Require Export Model.TpduReader Model.TpduRun.
Open Scope N_scope.

(* sms.Unmarshal(r), r = the reader that hands out [data] in pieces of the sizes [sched] (then one octet per call),
   io.EOF together with the last piece iff [eofd] *)
Definition sms_unmarshal_reader (data : bytes) (sched : list nat) (eofd : bool) : outcome tpdu :=
  unmarshal_reader sms_env data sched eofd.

(* case forms used by harness/c18.go *)
Definition sms_reader_class (data : bytes) (sched : list nat) (eofd : bool) : N :=
  oclass (sms_unmarshal_reader data sched eofd).
Definition sms_reader_dec_is (data : bytes) (sched : list nat) (eofd : bool) (name : string) (ovs : list oval) : bool :=
  match sms_unmarshal_reader data sched eofd with
  | Ok (n, vs) => String.eqb n name && ovals_eqb vs ovs
  | _ => false
  end.

(* decode from the reader, then re-encode what was decoded (sms_remarshal behind the reader) *)
Definition sms_remarshal_reader (data : bytes) (sched : list nat) (eofd : bool) : outcome bytes :=
  do p <- sms_unmarshal_reader data sched eofd; sms_marshal p.
Definition sms_reader_enc_is (data : bytes) (sched : list nat) (eofd : bool) (out : bytes) : bool :=
  match sms_remarshal_reader data sched eofd with Ok o => beq_bytes o out | _ => false end.
