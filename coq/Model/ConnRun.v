(* Glue used by the generated case files of the connection engine (C05 C06
   C14 C15 C16): ties the abstract events of Model/ConnLTS.v to the octets
   the harness saw, through the PDU codec model (Model/Pdu.v, owned by the pdu
   engine) and the layouts regenerated from the running code. *)
From V Require Export Model.Base Model.Pdu Model.PduRun Model.ConnLTS.
Open Scope N_scope.

(* sequence_number of a decoded value list *)
Definition seq_of (vs : list fval) : Z :=
  match vs with VHeader h :: _ => h_seq h | _ => 0%Z end.

(* what one ReadPDU call on these octets (handed out in the given pieces)
   means to Watch *)
Definition item_of (o : rp_obs) : item :=
  match o with
  | OOk id vs => IPdu (id, seq_of vs)
  | ODecodeErr _ q => IBad q
  | _ => IFatal
  end.
Definition frame_item (data : bytes) (sched : list nat) : item := item_of (fst (run_read data sched)).

(* the items Watch reads off a stretch of the inbound octet stream handed out in
   the given pieces (pieces need not respect frame boundaries): successive
   ReadPDU calls of the codec model; octets that end inside a frame are a
   failed read ([IFatal]: nil PDU and an error) *)
Definition stream_items (data : bytes) (sched : list nat) : list item :=
  flat_map (fun rc => match fst rc with OEOF => [] | o => [item_of o] end) (run_many data sched).
Definition peer_stream (data : bytes) (sched : list nat) : list event := map PeerFrame (stream_items data sched).

(* Submit stamps the sequence number into the packet before Send marshals it *)
Definition stamp (q : Z) (vs : list fval) : list fval :=
  match vs with
  | VHeader h :: r => VHeader {| h_len := h_len h; h_id := h_id h; h_status := h_status h; h_seq := q |} :: r
  | _ => vs
  end.
Definition frame_of (id : N) (q : Z) (vs : list fval) : outcome bytes := marshal (lay id) (stamp q vs).

(* Resp(): the response table regenerated from the running code *)
Definition resp_id (req : N) : option N :=
  match find (fun r => fst (fst r) =? req) resp_pairs with
  | Some r => Some (snd (fst r))
  | None => None
  end.

(* ------------------------------------------------------------------ C06 glue *)
From V Require Import Model.LockProto.
(* The lock routine each pending-table event of the LTS stands for (thread 0 is
   Watch, thread c+1 is caller c): the LTS treats a critical section as one
   atomic event; here it is expanded into the actions of conn.go's helper. *)
Definition lock_actions (s : state) (e : event) : list (nat * act) :=
  match e with
  | Register c => map (pair (S c)) [ALock; AMap true; AUnlock]
  | Unregister c => map (pair (S c)) [ALock; AMap true; AUnlock]
  | WatchStep =>
    match wpc s, transport_closed s, inbound s with
    | WReading, false, IPdu p :: _ =>
      match pending s (snd p) with
      | Some _ => map (pair 0%nat) [ALock; AMap false; AMap true; AUnlock]
      | None => map (pair 0%nat) [ALock; AMap false; AUnlock]
      end
    | _, _, _ => []
    end
  | _ => []
  end.
Fixpoint lock_trace (v : variant) (s : state) (t : list event) : list (nat * act) :=
  match t with
  | [] => []
  | e :: r => lock_actions s e ++ match step v s e with Some s' => lock_trace v s' r | None => [] end
  end.
Definition lock_trace_ok (v : variant) (auto_app : bool) (gs : list (list event)) : bool :=
  match sched v auto_app gs with
  | Some (_, _, tr) =>
    let lt := lock_trace v init tr in
    trace_ok lt && negb (has_adjacent_race lt) && negb (Nat.eqb (List.length lt) 0)
  | None => false
  end.

(* threads running the given routines under the given schedule: accepted by the
   interleaving semantics, and the executed trace is well locked and race free *)
Definition lrun_ok (progs : list (list act)) (sched : list nat) : bool :=
  match lrun (mkL None (fun t => nth t progs [])) sched with
  | Some (_, tr) => trace_ok tr && negb (has_adjacent_race tr) && Nat.eqb (List.length tr) (List.length sched)
  | None => false
  end.

(* What Send obtains before it calls the transport Write: with a write timeout
   configured it first sets the write deadline — if the transport refuses that,
   Send returns the error and nothing is marshalled onto the transport. *)
Definition send_prep (deadline_ok : bool) (m : outcome bytes) : outcome bytes :=
  if deadline_ok then m else Err EOther.
(* The same term stands for a transport whose Write call fails without taking
   an octet ([CallSpec.WriteFails]): Send returns the error, nothing is on the wire. *)
