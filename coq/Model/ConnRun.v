(* Glue used by the generated case files of the connection engine (C05 C06
   C14 C15 C16): ties the abstract events of Model/ConnLTS.v to the octets
   the harness saw, through the PDU codec model (Model/Pdu.v, owned by the pdu
   engine) and the layouts regenerated from the running code. *)
From V Require Export Model.Base Model.Pdu Model.PduRun Model.ConnLTS.
Open Scope N_scope.

(* sequence_number of a decoded value list *)
Definition seq_of (vs : list fval) : Z :=
  match vs with VHeader h :: _ => h_seq h | _ => 0%Z end.

(* what one ReadPDU call on these octets (handed out in the given pieces)
   means to Watch *)
Definition item_of (o : rp_obs) : item :=
  match o with
  | OOk id vs => IPdu (id, seq_of vs)
  | ODecodeErr _ q => IBad q
  | _ => IFatal
  end.
Definition frame_item (data : bytes) (sched : list nat) : item := item_of (fst (run_read data sched)).

(* Submit stamps the sequence number into the packet before Send marshals it *)
Definition stamp (q : Z) (vs : list fval) : list fval :=
  match vs with
  | VHeader h :: r => VHeader {| h_len := h_len h; h_id := h_id h; h_status := h_status h; h_seq := q |} :: r
  | _ => vs
  end.
Definition frame_of (id : N) (q : Z) (vs : list fval) : outcome bytes := marshal (lay id) (stamp q vs).

(* Resp(): the response table regenerated from the running code *)
Definition resp_id (req : N) : option N :=
  match find (fun r => fst (fst r) =? req) resp_pairs with
  | Some r => Some (snd (fst r))
  | None => None
  end.
