(* Interval sets and piecewise-affine maps over N, with boolean checkers and
   their soundness lemmas.  The tables regenerated from the running code
   (Gen/Charsets.v, Gen/Detect.v) are in this format; theorems about "every
   Unicode scalar value" are checked run by run inside the kernel and lifted
   to points by the lemmas below. *)
From V Require Import Model.Base.
From Coq Require Import ZifyN ZifyNat ZifyBool.
Open Scope N_scope.

(* ------------------------------------------------------------------ sets *)
Definition ranges := list (N * N).                       (* closed intervals lo..hi *)

Definition in_rng (r : N) (p : N * N) : bool := (fst p <=? r) && (r <=? snd p).
Definition mem (r : N) (l : ranges) : bool := existsb (in_rng r) l.

Lemma in_rng_spec r p : in_rng r p = true <-> fst p <= r <= snd p.
Proof. unfold in_rng. rewrite andb_true_iff, !N.leb_le. tauto. Qed.

Lemma mem_spec r l : mem r l = true <-> exists p, In p l /\ fst p <= r <= snd p.
Proof.
  unfold mem. rewrite existsb_exists. split; intros [p [Hin H]]; exists p; split; auto;
    apply in_rng_spec; exact H.
Qed.

Lemma mem_app r a b : mem r (a ++ b) = mem r a || mem r b.
Proof. unfold mem. apply existsb_app. Qed.

(* [lo..hi] is inside the union of b: walk from lo, each step jumps behind the
   end of an interval of b that contains the current point. *)
Fixpoint covered_by (fuel : nat) (lo hi : N) (b : ranges) : bool :=
  match fuel with
  | O => false
  | S f =>
      match find (in_rng lo) b with
      | None => false
      | Some p => if hi <=? snd p then true else covered_by f (snd p + 1) hi b
      end
  end.

Lemma covered_by_sound fuel : forall lo hi b,
  covered_by fuel lo hi b = true -> forall r, lo <= r <= hi -> mem r b = true.
Proof.
  induction fuel as [|f IH]; intros lo hi b H r Hr; [discriminate|].
  cbn [covered_by] in H. destruct (find (in_rng lo) b) as [p|] eqn:Hf; [|discriminate].
  apply find_some in Hf. destruct Hf as [Hin Hp]. apply in_rng_spec in Hp.
  destruct (N.le_gt_cases r (snd p)) as [Hle|Hgt].
  - apply mem_spec. exists p. split; [exact Hin|lia].
  - destruct (hi <=? snd p) eqn:Hh.
    + apply N.leb_le in Hh. lia.
    + apply (IH _ _ _ H). lia.
Qed.

Definition covers (lo hi : N) (b : ranges) : bool := covered_by (S (List.length b)) lo hi b.

Lemma covers_sound lo hi b : covers lo hi b = true -> forall r, lo <= r <= hi -> mem r b = true.
Proof. apply covered_by_sound. Qed.

(* a ⊆ b *)
Definition incl_ranges (a b : ranges) : bool := forallb (fun p => covers (fst p) (snd p) b) a.

Theorem incl_sound a b : incl_ranges a b = true -> forall r, mem r a = true -> mem r b = true.
Proof.
  unfold incl_ranges. rewrite forallb_forall. intros H r Hr.
  apply mem_spec in Hr. destruct Hr as [p [Hin Hp]].
  exact (covers_sound _ _ _ (H _ Hin) r Hp).
Qed.

(* a ∩ b = ∅ *)
Definition disjoint_ranges (a b : ranges) : bool :=
  forallb (fun p => forallb (fun q => (snd p <? fst q) || (snd q <? fst p)) b) a.

Lemma disjoint_sound a b : disjoint_ranges a b = true ->
  forall r, mem r a = true -> mem r b = true -> False.
Proof.
  unfold disjoint_ranges. rewrite forallb_forall. intros H r Ha Hb.
  apply mem_spec in Ha. destruct Ha as [p [Hp Hpr]].
  apply mem_spec in Hb. destruct Hb as [q [Hq Hqr]].
  specialize (H _ Hp). rewrite forallb_forall in H. specialize (H _ Hq).
  apply orb_true_iff in H. rewrite !N.ltb_lt in H. lia.
Qed.

(* a \ b for the report of *which* points break an inclusion (b sorted by lo);
   used only to compute witnesses, no theorem depends on it *)
Fixpoint subtract1 (fuel : nat) (lo hi : N) (b : ranges) : ranges :=
  match fuel with
  | O => [(lo, hi)]
  | S f =>
      match b with
      | [] => [(lo, hi)]
      | (bl, bh) :: rest =>
          if hi <? bl then [(lo, hi)]
          else if bh <? lo then subtract1 f lo hi rest
          else (if lo <? bl then [(lo, bl - 1)] else []) ++
               (if bh <? hi then subtract1 f (bh + 1) hi rest else [])
      end
  end.
Definition subtract (a b : ranges) : ranges :=
  flat_map (fun p => subtract1 (S (List.length b)) (fst p) (snd p) b) a.

Definition size (l : ranges) : N := fold_right (fun p a => snd p - fst p + 1 + a) 0 l.

(* ---------------------------------------------------- bounded enumeration *)
Fixpoint forall_from (lo : N) (len : nat) (P : N -> bool) : bool :=
  match len with
  | O => true
  | S k => P lo && forall_from (lo + 1) k P
  end.

Lemma forall_from_sound len : forall lo P,
  forall_from lo len P = true -> forall r, lo <= r < lo + N.of_nat len -> P r = true.
Proof.
  induction len as [|k IH]; intros lo P H r Hr; [lia|].
  cbn [forall_from] in H. apply andb_true_iff in H. destruct H as [H0 H1].
  destruct (N.eq_dec r lo) as [->|Hne]; [exact H0|].
  apply (IH _ _ H1). lia.
Qed.

(* all points of the closed interval lo..hi *)
Definition forall_in (lo hi : N) (P : N -> bool) : bool :=
  forall_from lo (N.to_nat (hi + 1 - lo)) P.

Lemma forall_in_sound lo hi P :
  forall_in lo hi P = true -> forall r, lo <= r <= hi -> P r = true.
Proof. intros H r Hr. apply (forall_from_sound _ _ _ H). lia. Qed.

(* -------------------------------------------------- piecewise-affine maps *)
(* (lo, hi, n, v): every r in lo..hi is mapped to (n, v + (r - lo)) *)
Definition run := (N * N * N * N)%type.
Definition runs := list run.

Fixpoint lookup (r : N) (l : runs) : option (N * N) :=
  match l with
  | [] => None
  | (lo, hi, n, v) :: t =>
      if (lo <=? r) && (r <=? hi) then Some (n, v + (r - lo)) else lookup r t
  end.

Definition run_range (p : run) : N * N := let '(lo, hi, _, _) := p in (lo, hi).
Definition ranges_of (l : runs) : ranges := map run_range l.

Lemma lookup_Some_in r l n x :
  lookup r l = Some (n, x) ->
  exists lo hi v, In (lo, hi, n, v) l /\ lo <= r <= hi /\ x = v + (r - lo).
Proof.
  induction l as [|[[[lo hi] n'] v] t IH]; cbn [lookup]; [discriminate|].
  destruct ((lo <=? r) && (r <=? hi)) eqn:Hc.
  - intros H. injection H as <- <-. apply andb_true_iff in Hc. rewrite !N.leb_le in Hc.
    exists lo, hi, v. split; [left; reflexivity|]. split; [lia|reflexivity].
  - intros H. destruct (IH H) as (lo' & hi' & v' & Hin & Hr & Hx).
    exists lo', hi', v'. split; [right; exact Hin|]. split; assumption.
Qed.

Lemma lookup_None_mem r l : lookup r l = None <-> mem r (ranges_of l) = false.
Proof.
  induction l as [|[[[lo hi] n] v] t IH]; cbn [lookup ranges_of map mem existsb]; [tauto|].
  unfold run_range at 1. unfold in_rng at 1. cbn [fst snd].
  destruct ((lo <=? r) && (r <=? hi)); cbn [orb]; [split; discriminate|exact IH].
Qed.

Lemma lookup_mem r l : mem r (ranges_of l) = true -> exists x, lookup r l = Some x.
Proof.
  intros H. destruct (lookup r l) as [x|] eqn:E; [exists x; reflexivity|].
  apply lookup_None_mem in E. congruence.
Qed.

(* lifting of a run-wise boolean check to every point of the map *)
Lemma lookup_forall (P : run -> bool) l :
  forallb P l = true ->
  forall r n x, lookup r l = Some (n, x) ->
  exists lo hi v, P (lo, hi, n, v) = true /\ lo <= r <= hi /\ x = v + (r - lo).
Proof.
  intros H r n x Hl. destruct (lookup_Some_in _ _ _ _ Hl) as (lo & hi & v & Hin & Hr & Hx).
  exists lo, hi, v. split; [|split; assumption].
  rewrite forallb_forall in H. exact (H _ Hin).
Qed.

(* big-endian octets of a code value *)
Fixpoint be_bytes (n : nat) (v : N) : bytes :=
  match n with
  | O => []
  | S k => (v / 256 ^ N.of_nat k) mod 256 :: be_bytes k v
  end.

Lemma be_bytes_length n v : List.length (be_bytes n v) = n.
Proof. induction n as [|k IH]; cbn [be_bytes List.length]; [reflexivity|]. rewrite IH. reflexivity. Qed.

(* label maps: (lo, hi, label) *)
Fixpoint lookup3 (r : N) (l : list (N * N * N)) : option N :=
  match l with
  | [] => None
  | (lo, hi, x) :: t => if (lo <=? r) && (r <=? hi) then Some x else lookup3 r t
  end.

Lemma lookup3_Some_in r l x :
  lookup3 r l = Some x -> exists lo hi, In (lo, hi, x) l /\ lo <= r <= hi.
Proof.
  induction l as [|[[lo hi] y] t IH]; cbn [lookup3]; [discriminate|].
  destruct ((lo <=? r) && (r <=? hi)) eqn:Hc.
  - intros H. injection H as <-. apply andb_true_iff in Hc. rewrite !N.leb_le in Hc.
    exists lo, hi. split; [left; reflexivity|lia].
  - intros H. destruct (IH H) as (lo' & hi' & Hin & Hr). exists lo', hi'. split; [right|]; assumption.
Qed.

(* Unicode scalar values *)
Definition scalarb (r : N) : bool := (r <? 55296) || ((57344 <=? r) && (r <? 1114112)).
Definition scalar (r : N) : Prop := r < 55296 \/ 57344 <= r < 1114112.
Lemma scalarb_spec r : scalarb r = true <-> scalar r.
Proof.
  unfold scalarb, scalar. rewrite orb_true_iff, andb_true_iff, !N.ltb_lt, N.leb_le. tauto.
Qed.
Definition scalar_ranges : ranges := [(0, 55295); (57344, 1114111)].
Lemma scalar_mem r : scalar r <-> mem r scalar_ranges = true.
Proof.
  unfold scalar, scalar_ranges, mem, existsb, in_rng. cbn [fst snd].
  rewrite !orb_true_iff, !andb_true_iff, !N.leb_le. lia.
Qed.

(* runs sorted by lo and pairwise disjoint (every lo above the previous hi) *)
Fixpoint sorted_above (b : N) (l : runs) : bool :=
  match l with
  | [] => true
  | (lo, hi, _, _) :: t => (b <=? lo) && (lo <=? hi) && sorted_above (hi + 1) t
  end.

Lemma sorted_above_in l : forall b lo hi n v,
  sorted_above b l = true -> In (lo, hi, n, v) l -> b <= lo /\ lo <= hi.
Proof.
  induction l as [|[[[lo0 hi0] n0] v0] t IH]; intros b lo hi n v Hs Hin; [destruct Hin|].
  cbn [sorted_above] in Hs. rewrite !andb_true_iff, !N.leb_le in Hs. destruct Hs as [[H1 H2] H3].
  destruct Hin as [Heq|Hin].
  - injection Heq as <- <- <- <-. lia.
  - destruct (IH _ _ _ _ _ H3 Hin). lia.
Qed.

(* in a sorted run list the run that contains a point is the one lookup finds *)
Lemma lookup_sorted l : forall b lo hi n v r,
  sorted_above b l = true -> In (lo, hi, n, v) l -> lo <= r <= hi ->
  lookup r l = Some (n, v + (r - lo)).
Proof.
  induction l as [|[[[lo0 hi0] n0] v0] t IH]; intros b lo hi n v r Hs Hin Hr; [destruct Hin|].
  pose proof Hs as Hs'. cbn [sorted_above] in Hs'. rewrite !andb_true_iff, !N.leb_le in Hs'.
  destruct Hs' as [[H1 H2] H3]. cbn [lookup].
  destruct Hin as [Heq|Hin].
  - injection Heq as <- <- <- <-.
    replace ((lo0 <=? r) && (r <=? hi0)) with true; [reflexivity|].
    symmetry. apply andb_true_iff. rewrite !N.leb_le. lia.
  - destruct (sorted_above_in _ _ _ _ _ _ H3 Hin) as [H4 H5].
    replace ((lo0 <=? r) && (r <=? hi0)) with false; [exact (IH _ _ _ _ _ _ H3 Hin Hr)|].
    symmetry. apply andb_false_iff. right. apply N.leb_gt. lia.
Qed.

(* [v..ve] lies in one run of [d] of width n whose value at v is [x0] *)
Definition run_maps (d : runs) (n v ve x0 : N) : bool :=
  existsb (fun q => let '(clo, chi, n', r0) := q in
                    (n' =? n) && (clo <=? v) && (ve <=? chi) && (r0 + (v - clo) =? x0)) d.

Lemma run_maps_sound d n v ve x0 :
  sorted_above 0 d = true -> run_maps d n v ve x0 = true ->
  forall x, v <= x <= ve -> lookup x d = Some (n, x0 + (x - v)).
Proof.
  intros Hs H x Hx. unfold run_maps in H. apply existsb_exists in H.
  destruct H as [[[[clo chi] n'] r0] [Hin H]].
  rewrite !andb_true_iff, !N.leb_le, !N.eqb_eq in H. destruct H as [[[H1 H2] H3] H4]. subst n'.
  rewrite (lookup_sorted d 0 clo chi n r0 x Hs Hin) by lia. f_equal. f_equal. lia.
Qed.

(* The same check against a decoder table pre-split by lead octet, so that a
   kernel sweep over ~10^4 runs stays linear instead of quadratic. *)
Definition code_key (n v : N) : N := if n =? 1 then 0 else (v / 256) mod 256.   (* the octet before the last *)
Definition run_key (q : run) : N := let '(clo, _, n, _) := q in code_key n clo.
Definition keys256 : list N := map N.of_nat (seq 0 256).
Definition buckets (d : runs) : list runs :=
  let kd := map (fun q => (run_key q, q)) d in
  map (fun b => map snd (filter (fun kq => fst kq =? b) kd)) keys256.
Definition run_maps_b (bk : list runs) (n v ve x0 : N) : bool :=
  match nth_error bk (N.to_nat (code_key n v)) with
  | Some d' => run_maps d' n v ve x0
  | None => false
  end.

Lemma run_maps_b_sound d n v ve x0 :
  run_maps_b (buckets d) n v ve x0 = true -> run_maps d n v ve x0 = true.
Proof.
  unfold run_maps_b. destruct (nth_error (buckets d) (N.to_nat (code_key n v))) as [d'|] eqn:E; [|discriminate].
  apply nth_error_In in E. unfold buckets in E. cbv zeta in E. apply in_map_iff in E. destruct E as [b [<- _]].
  unfold run_maps. rewrite !existsb_exists. intros [q [Hin H]]. exists q. split; [|exact H].
  apply in_map_iff in Hin. destruct Hin as [[k q'] [Hq Hin]]. cbn [snd] in Hq. subst q'.
  apply filter_In in Hin. destruct Hin as [Hin _]. apply in_map_iff in Hin.
  destruct Hin as [q' [Hq Hin]]. injection Hq as _ ->. exact Hin.
Qed.

(* [lo..hi] inside the union of two range lists, walking both from the front
   (linear when both are sorted by lo; sound whatever their order) *)
Fixpoint cover2 (fuel : nat) (lo hi : N) (a b : ranges) : bool :=
  match fuel with
  | O => false
  | S f =>
      match a with
      | (al, ah) :: a' =>
          if ah <? lo then cover2 f lo hi a' b
          else if al <=? lo then (if hi <=? ah then true else cover2 f (ah + 1) hi a' b)
          else
            match b with
            | (bl, bh) :: b' =>
                if bh <? lo then cover2 f lo hi a b'
                else if bl <=? lo then (if hi <=? bh then true else cover2 f (bh + 1) hi a b')
                else false
            | [] => false
            end
      | [] =>
          match b with
          | (bl, bh) :: b' =>
              if bh <? lo then cover2 f lo hi [] b'
              else if bl <=? lo then (if hi <=? bh then true else cover2 f (bh + 1) hi [] b')
              else false
          | [] => false
          end
      end
  end.

Lemma mem_cons r p l : mem r (p :: l) = in_rng r p || mem r l.
Proof. reflexivity. Qed.

Lemma cover2_sound fuel : forall lo hi a b,
  cover2 fuel lo hi a b = true -> forall r, lo <= r <= hi -> mem r a || mem r b = true.
Proof.
  induction fuel as [|f IH]; intros lo hi a b H r Hr; [discriminate|].
  cbn [cover2] in H.
  assert (Huse : forall pl ph (rest : ranges) (other : ranges) (swap : bool),
             (ph <? lo) = false -> (pl <=? lo) = true ->
             (if hi <=? ph then true else (if swap then cover2 f (ph + 1) hi other rest else cover2 f (ph + 1) hi rest other)) = true ->
             in_rng r (pl, ph) || (if swap then mem r other || mem r rest else mem r rest || mem r other) = true).
  { intros pl ph rest other swap H1 H2 H3. apply N.ltb_ge in H1. apply N.leb_le in H2.
    destruct (N.le_gt_cases r ph) as [Hle|Hgt].
    - replace (in_rng r (pl, ph)) with true; [reflexivity|].
      symmetry. apply in_rng_spec. cbn [fst snd]. lia.
    - destruct (hi <=? ph) eqn:Hh; [apply N.leb_le in Hh; lia|].
      destruct swap; rewrite (IH _ _ _ _ H3 r) by lia; apply orb_true_r. }
  destruct a as [|[al ah] a'].
  - destruct b as [|[bl bh] b']; [discriminate|]. rewrite mem_cons. cbn [mem existsb orb].
    destruct (bh <? lo) eqn:E1.
    + pose proof (IH _ _ _ _ H r Hr) as H0. cbn [mem existsb orb] in H0. rewrite H0. apply orb_true_r.
    + destruct (bl <=? lo) eqn:E2; [|discriminate].
      pose proof (Huse bl bh b' [] true E1 E2 H) as H0. cbv iota in H0.
      cbn [mem existsb orb] in H0. exact H0.
  - rewrite mem_cons. destruct (ah <? lo) eqn:E1.
    + pose proof (IH _ _ _ _ H r Hr) as H0. apply orb_true_iff in H0. destruct H0 as [H0|H0]; rewrite H0.
      * rewrite orb_true_r. reflexivity.
      * apply orb_true_r.
    + destruct (al <=? lo) eqn:E2.
      * pose proof (Huse al ah a' b false E1 E2 H) as H0. cbv iota in H0.
        rewrite <- orb_assoc. exact H0.
      * destruct b as [|[bl bh] b']; [discriminate|]. rewrite mem_cons.
        destruct (bh <? lo) eqn:E3.
        -- pose proof (IH _ _ _ _ H r Hr) as H0. rewrite mem_cons in H0.
           apply orb_true_iff in H0. destruct H0 as [H0|H0]; rewrite H0; [reflexivity|].
           rewrite !orb_true_r. reflexivity.
        -- destruct (bl <=? lo) eqn:E4; [|discriminate].
           pose proof (Huse bl bh b' ((al, ah) :: a') true E3 E4 H) as H0. cbv iota in H0.
           rewrite mem_cons in H0.
           destruct (in_rng r (al, ah)), (in_rng r (bl, bh)), (mem r a'), (mem r b');
             cbn in H0 |- *; try reflexivity; discriminate.
Qed.

Definition incl2 (v a b : ranges) : bool :=
  forallb (fun p => cover2 (S (List.length a + List.length b)) (fst p) (snd p) a b) v.

Theorem incl2_sound v a b : incl2 v a b = true ->
  forall r, mem r v = true -> mem r a || mem r b = true.
Proof.
  unfold incl2. rewrite forallb_forall. intros H r Hr.
  apply mem_spec in Hr. destruct Hr as [p [Hin Hp]].
  exact (cover2_sound _ _ _ _ _ (H _ Hin) r Hp).
Qed.

(* ------------------------------------------- disjointness of two SORTED range lists, linear *)
(* ranges sorted by lo, every lo above the previous hi *)
Fixpoint sorted_rng (b : N) (l : ranges) : bool :=
  match l with
  | [] => true
  | (lo, hi) :: t => (b <=? lo) && (lo <=? hi) && sorted_rng (hi + 1) t
  end.

Lemma sorted_rng_lower q : forall l b0, sorted_rng b0 l = true -> In q l -> b0 <= fst q.
Proof.
  induction l as [|[l0 h0] l IH]; intros b0 Hs Hq; [destruct Hq|].
  cbn [sorted_rng] in Hs. rewrite !andb_true_iff, !N.leb_le in Hs. destruct Hs as [[A B] C].
  destruct Hq as [Hq|Hq].
  - subst q. cbn [fst]. exact A.
  - specialize (IH _ C Hq). lia.
Qed.

Lemma sorted_rng_head lo hi t b q :
  sorted_rng b ((lo, hi) :: t) = true -> In q ((lo, hi) :: t) -> lo <= fst q.
Proof.
  intros Hs Hq. destruct Hq as [Hq|Hq].
  - subst q. cbn [fst]. apply N.le_refl.
  - cbn [sorted_rng] in Hs. rewrite !andb_true_iff, !N.leb_le in Hs. destruct Hs as [[A B] C].
    pose proof (sorted_rng_lower q _ _ C Hq). lia.
Qed.

Lemma sorted_rng_tail lo hi t b : sorted_rng b ((lo, hi) :: t) = true -> sorted_rng (hi + 1) t = true.
Proof. cbn [sorted_rng]. rewrite !andb_true_iff. tauto. Qed.

Fixpoint disj_walk (fuel : nat) (a b : ranges) : bool :=
  match fuel with
  | O => false
  | S f =>
      match a, b with
      | [], _ => true
      | _, [] => true
      | (al, ah) :: a', (bl, bh) :: b' =>
          if ah <? bl then disj_walk f a' b
          else if bh <? al then disj_walk f a b'
          else false
      end
  end.

Lemma disj_walk_sound fuel : forall a b x y,
  sorted_rng x a = true -> sorted_rng y b = true -> disj_walk fuel a b = true ->
  forall r, mem r a = true -> mem r b = true -> False.
Proof.
  induction fuel as [|f IH]; intros a b x y Ha Hb H r Hra Hrb; [discriminate|].
  destruct a as [|[al ah] a']; [discriminate|]. destruct b as [|[bl bh] b']; [discriminate|].
  cbn [disj_walk] in H.
  destruct (ah <? bl) eqn:E1.
  - apply N.ltb_lt in E1. rewrite mem_cons in Hra. apply orb_true_iff in Hra. destruct Hra as [Hra|Hra].
    + apply in_rng_spec in Hra. cbn [fst snd] in Hra.
      apply mem_spec in Hrb. destruct Hrb as [q [Hq Hqr]].
      pose proof (sorted_rng_head _ _ _ _ _ Hb Hq). lia.
    + exact (IH _ _ _ _ (sorted_rng_tail _ _ _ _ Ha) Hb H r Hra Hrb).
  - destruct (bh <? al) eqn:E2; [|discriminate]. apply N.ltb_lt in E2.
    rewrite mem_cons in Hrb. apply orb_true_iff in Hrb. destruct Hrb as [Hrb|Hrb].
    + apply in_rng_spec in Hrb. cbn [fst snd] in Hrb.
      apply mem_spec in Hra. destruct Hra as [q [Hq Hqr]].
      pose proof (sorted_rng_head _ _ _ _ _ Ha Hq). lia.
    + exact (IH _ _ _ _ Ha (sorted_rng_tail _ _ _ _ Hb) H r Hra Hrb).
Qed.

Definition disjoint_sorted (a b : ranges) : bool :=
  sorted_rng 0 a && sorted_rng 0 b && disj_walk (S (List.length a + List.length b)) a b.

Theorem disjoint_sorted_sound a b : disjoint_sorted a b = true ->
  forall r, mem r a = true -> mem r b = false.
Proof.
  unfold disjoint_sorted. rewrite !andb_true_iff. intros [[Ha Hb] H] r Hr.
  destruct (mem r b) eqn:E; [|reflexivity].
  exfalso. exact (disj_walk_sound _ _ _ _ _ Ha Hb H r Hr E).
Qed.
