(* glue for the generated cases: requested octets of one ReadPDU call on the registered layouts *)
From V Require Export Model.PduAlloc Gen.PduLayouts.
Open Scope N_scope.
Definition run_alloc (data : bytes) (sched : list nat) : N :=
  read_pdu_alloc layouts {| st_data := data; st_sched := sched |}.
