(* Executable model of pdu.ComposeMultipartShortMessage, pdu.ConcatenatedHeader
   (Len, Set), UserDataHeader.Len and UserDataHeader.ConcatenatedHeader(),
   generic in the coding (width function, encoder, payload type), after the
   fix: commits for D11 (Len agrees with Set) and D12 (widths, size guard).
   No proofs in this file. *)
From V Require Import Model.Base Model.Gsm7 Model.Splitter.
Open Scope N_scope.
Local Notation length := List.length.

Definition max_sm_len : nat := 140.                    (* MaxShortMessageLength *)

(* --- pdu/udh_element.go -------------------------------------------------- *)
(* ConcatenatedHeader.Len() *)
Definition hdr_len (ref : N) : nat := if ref <=? 0xFF then 5%nat else 6%nat.

(* ConcatenatedHeader.Set(udh): binary.Write big-endian of {Reference uint16; TotalParts, Sequence byte};
   data[0] == 0 selects the 8-bit element (id 0x00, data[1:4]), otherwise id 0x08 with all four octets *)
Definition concat_ie (ref total seq : N) : N * bytes :=
  let data := [(ref / 256) mod 256; ref mod 256; total mod 256; seq mod 256] in
  if (ref / 256) mod 256 =? 0 then (0x00, tl data) else (0x08, data).

(* a user-data header: the entries of the Go map (at most one here); [] is the nil map *)
Definition udh := list (N * bytes).

(* UserDataHeader.Len(): 0 for nil, else 1 + sum (2 + len data) *)
Definition udh_len (u : udh) : nat :=
  match u with
  | [] => 0%nat
  | _ => S (fold_right (fun e a => (2 + length (snd e) + a)%nat) 0%nat u)
  end.

Fixpoint udh_get (id : N) (u : udh) : option bytes :=
  match u with [] => None | (k, d) :: rest => if k =? id then Some d else udh_get id rest end.

(* UserDataHeader.ConcatenatedHeader(): (reference, total, sequence); None when there is no such
   element (or it is too short: the index panics of D7 belong to C11, not modelled here) *)
Definition concat_of_udh (u : udh) : option (N * N * N) :=
  match udh_get 0x00 u with
  | Some [r; t; s] => Some (r, t, s)
  | Some _ => None
  | None =>
      match udh_get 0x08 u with
      | Some [rh; rl; t; s] => Some (rh * 256 + rl, t, s)
      | _ => None
      end
  end.

(* --- pdu/message_multipart.go -------------------------------------------- *)
Section Compose.
  Variable P : Type.                      (* what the model knows of a payload *)
  Variable plen : P -> nat.               (* its length in octets *)
  Variable w : N -> nat.                  (* coding.Splitter() *)
  Variable enc : list N -> outcome P.     (* coding.Encoding().NewEncoder().Bytes on a fresh/reset encoder *)

  Record part := mkpart { pt_udh : udh; pt_payload : P }.

  (* the loop over the segments: encode, Sequence++ (a byte), Set, size check (fix D12), append *)
  Fixpoint compose_parts (ref total seq : N) (segs : list (list N)) : outcome (list part) :=
    match segs with
    | [] => Ok []
    | s :: rest =>
        do p <- enc s;
        let seq' := (seq + 1) mod 256 in
        let u := [concat_ie ref total seq'] in
        if Nat.ltb max_sm_len (udh_len u + plen p) then Err ESize
        else do ps <- compose_parts ref total seq' rest; Ok (mkpart u p :: ps)
    end.

  (* The Go function has NAMED results: when the loop stops with an error the parts appended so far are returned together
     with it.  [compose_parts_done]: those parts (all of them when there is no error). *)
  Fixpoint compose_parts_done (ref total seq : N) (segs : list (list N)) : list part :=
    match segs with
    | [] => []
    | s :: rest =>
        match enc s with
        | Ok p =>
            let seq' := (seq + 1) mod 256 in
            let u := [concat_ie ref total seq'] in
            if Nat.ltb max_sm_len (udh_len u + plen p) then []
            else mkpart u p :: compose_parts_done ref total seq' rest
        | _ => []
        end
    end.

  Definition compose (ref : N) (t : list N) : outcome (list part) :=
    if Nat.leb (text_len w t) max_sm_len then
      (* single part, no header *)
      do p <- enc t;
      if Nat.ltb max_sm_len (plen p) then Err ESize else Ok [mkpart [] p]
    else
      do segs <- split w (max_sm_len - 1 - hdr_len ref) t;
      if Nat.ltb 0xFE (length segs) then Err ECount           (* ErrMultipartTooMuch *)
      else compose_parts ref (N.of_nat (length segs) mod 256) 0 segs.
  (* what comes back in the multi-part path: (the outcome, the parts returned with it) *)
  Definition compose_returned_multi (ref : N) (t : list N) : list part :=
    match split w (max_sm_len - 1 - hdr_len ref) t with
    | Ok segs => if Nat.ltb 0xFE (length segs) then [] else compose_parts_done ref (N.of_nat (length segs) mod 256) 0 segs
    | _ => []
    end.
End Compose.
Arguments mkpart {P} _ _.
Arguments pt_udh {P} _.
Arguments pt_payload {P} _.

(* --- GSM 7-bit instance: payloads are the octets of Model/Gsm7.v ---------- *)
Definition compose_gsm7 (ref : N) (t : list N) : outcome (list (part bytes)) :=
  compose bytes (@List.length N) w_7bit encode ref t.

(* --- length-only instances: the payload is known by its length ----------- *)
(* Table rows (ascending, accepted runes only): lo, hi, octets for the one-character text, splitter bits *)
Definition wrow := (N * N * N * N)%type.
Fixpoint wd_find (r : N) (tbl : list wrow) : option (N * N) :=
  match tbl with
  | [] => None
  | (lo, hi, n, wd) :: rest =>
      if r <? lo then None                       (* rows ascend: r is in no row *)
      else if r <=? hi then Some (n, wd) else wd_find r rest
  end.

(* stateless encoders: the octets of a text are those of its characters, one after the other *)
Fixpoint enc_len_stateless (tbl : list wrow) (t : list N) : outcome nat :=
  match t with
  | [] => Ok 0%nat
  | r :: rest =>
      match wd_find r tbl with
      | None => Err EText
      | Some (n, _) => do l <- enc_len_stateless tbl rest; Ok (N.to_nat n + l)%nat
      end
  end.

(* measuredSplitter(enc) (EUC-JP after fix D12): ASCII 8 bits, else 8 * octets the encoder emits, 16 when it refuses *)
Definition w_measured (tbl : list wrow) (r : N) : nat :=
  if r <? 0x80 then 8%nat
  else match wd_find r tbl with
       | Some (n, _) => if 0 <? n then (8 * N.to_nat n)%nat else 16%nat
       | None => 16%nat
       end.

(* ISO-2022-JP (x/text): three states; a 3-octet escape sequence at every change of state and at the
   end when not in ASCII.  The state a character needs and its body length follow from the length of
   its one-character encoding: 1 = ASCII, 7 = ESC ( I + 1 + ESC ( B (katakana), 8 = ESC $ B + 2 + ESC ( B. *)
Inductive jstate := JAscii | JKana | JJis.
Definition jstate_eqb (a b : jstate) : bool :=
  match a, b with JAscii, JAscii | JKana, JKana | JJis, JJis => true | _, _ => false end.
Definition jclass (n : N) : option (jstate * nat) :=
  if n =? 1 then Some (JAscii, 1%nat) else if n =? 7 then Some (JKana, 1%nat) else if n =? 8 then Some (JJis, 2%nat) else None.
Fixpoint enc_len_2022 (tbl : list wrow) (st : jstate) (t : list N) : outcome nat :=
  match t with
  | [] => Ok (if jstate_eqb st JAscii then 0 else 3)%nat
  | r :: rest =>
      match wd_find r tbl with
      | None => Err EText
      | Some (n, _) =>
          match jclass n with
          | None => Err EOther           (* a standalone length the model does not know *)
          | Some (st', body) =>
              do l <- enc_len_2022 tbl st' rest;
              Ok ((if jstate_eqb st st' then 0 else 3) + body + l)%nat
          end
      end
  end.

Definition compose_len (w : N -> nat) (enc : list N -> outcome nat) (ref : N) (t : list N) : outcome (list (part nat)) :=
  compose nat (fun n => n) w enc ref t.

(* --- observables for the generated cases --------------------------------- *)
Definition beq_udh (a b : udh) : bool := beq_list (fun x y => (fst x =? fst y) && beq_bytes (snd x) (snd y)) a b.
(* a composed message as the harness reports it: class (0 parts, 1 error, 2 panic) and per part (udh, payload) *)
Fixpoint all2 {A B} (f : A -> B -> bool) (a : list A) (b : list B) : bool :=
  match a, b with
  | [], [] => true
  | x :: a', y :: b' => f x y && all2 f a' b'
  | _, _ => false
  end.
Definition parts_obs_ok {P} (eqp : P -> P -> bool) (x : outcome (list (part P))) (cls : N) (ps : list (udh * P)) : bool :=
  match x with
  | Ok l => (cls =? 0) && all2 (fun a b => beq_udh (pt_udh a) (fst b) && eqp (pt_payload a) (snd b)) l ps
  | Err _ => cls =? 1
  | Panic => cls =? 2
  end.
Definition segs_obs_ok (x : outcome (list (list N))) (segs : list (list N)) : bool :=
  match x with Ok l => beq_list beq_bytes l segs | _ => false end.
(* a part's header as the implementation reports it: UserDataHeader.Len() and ConcatenatedHeader() *)
Definition udh_obs_ok (u : udh) (len : N) (ch : option (N * N * N)) : bool :=
  (N.of_nat (udh_len u) =? len) &&
  match concat_of_udh u, ch with
  | Some (a, b, c), Some (x, y, z) => (a =? x) && (b =? y) && (c =? z)
  | None, None => true
  | _, _ => false
  end.
(* run-length helper for long generated texts *)
Definition rep (n : N) (r : N) : list N := repeat r (N.to_nat n).

(* observation: the parts returned TOGETHER WITH AN ERROR in the multi-part path *)
Definition returned_obs_ok {P} (eqp : P -> P -> bool) (l : list (part P)) (ps : list (udh * P)) : bool :=
  all2 (fun a b => beq_udh (pt_udh a) (fst b) && eqp (pt_payload a) (snd b)) l ps.
