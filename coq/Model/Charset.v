(* Executable model of the text codings of package coding other than GSM 7-bit:
   encoders are per-rune lookups in the tables regenerated from the running
   code (Gen/Charsets.v) concatenated over the text; ISO-2022-JP adds the
   three-state escape machine of RFC 1468; decoders are table driven state
   machines over octets.  No proofs here. *)
From V Require Import Model.Base Model.IntervalMap Spec.Utf16 Gen.Charsets.
Open Scope N_scope.

Inductive coding :=
| CAscii | CLatin1 | CSjis | CCyrillic | CHebrew | CUcs2 | CIso2022jp | CEucjp | CEuckr.

(* SMPP v5 4.7.7 data_coding values of the table entries *)
Definition dc_of_coding (c : coding) : N :=
  match c with
  | CAscii => 1 | CLatin1 => 3 | CSjis => 5 | CCyrillic => 6 | CHebrew => 7
  | CUcs2 => 8 | CIso2022jp => 10 | CEucjp => 13 | CEuckr => 14
  end.
Definition all_codings : list coding :=
  [CAscii; CLatin1; CSjis; CCyrillic; CHebrew; CUcs2; CIso2022jp; CEucjp; CEuckr].
Definition coding_of_dc (dc : N) : option coding :=
  find (fun c => dc_of_coding c =? dc) all_codings.

(* ---------------------------------------------------------------- encoders *)
Definition enc_runs (c : coding) : runs :=
  match c with
  | CAscii => enc_runs_ascii | CLatin1 => enc_runs_latin1 | CSjis => enc_runs_sjis
  | CCyrillic => enc_runs_cyrillic | CHebrew => enc_runs_hebrew | CUcs2 => enc_runs_ucs2
  | CEucjp => enc_runs_eucjp | CEuckr => enc_runs_euckr
  | CIso2022jp => []            (* stateful: see encode_jp *)
  end.

(* octets of the one-character text r, None = the encoder returns an error *)
Definition enc_rune_t (t : runs) (r : N) : option bytes :=
  match lookup r t with
  | Some (n, x) => Some (be_bytes (N.to_nat n) x)
  | None => None
  end.

Fixpoint encode_t (t : runs) (rs : list N) : outcome bytes :=
  match rs with
  | [] => Ok []
  | r :: rest =>
      match enc_rune_t t r with
      | None => Err EText
      | Some b => match encode_t t rest with Ok bs => Ok (b ++ bs) | e => e end
      end
  end.

(* ISO-2022-JP (RFC 1468): state 0 ASCII, 1 JIS X 0201 katakana, 2 JIS X 0208 *)
Fixpoint lookup5 (r : N) (l : list (N * N * N * N * N)) : option (N * N * N) :=
  match l with
  | [] => None
  | (lo, hi, m, n, v) :: t =>
      if (lo <=? r) && (r <=? hi) then Some (m, n, v + (r - lo)) else lookup5 r t
  end.

Definition jp_esc (m : N) : bytes :=
  if m =? 1 then [27; 40; 73] else if m =? 2 then [27; 36; 66] else [27; 40; 66].

Fixpoint encode_jp (st : N) (rs : list N) : outcome bytes :=
  match rs with
  | [] => Ok (if st =? 0 then [] else jp_esc 0)
  | r :: rest =>
      match lookup5 r enc_runs_iso2022jp with
      | None => Err EText
      | Some (m, n, x) =>
          match encode_jp m rest with
          | Ok bs => Ok ((if m =? st then [] else jp_esc m) ++ be_bytes (N.to_nat n) x ++ bs)
          | e => e
          end
      end
  end.

Definition encode (c : coding) (rs : list N) : outcome bytes :=
  match c with
  | CIso2022jp => encode_jp 0 rs
  | _ => encode_t (enc_runs c) rs
  end.

(* ---------------------------------------------------------------- decoders *)
(* The x/text decoders never fail: octets outside the code decode to U+FFFD.
   The single-octet tables contain that substitution (65533), so decode_sb is
   total on octets.  For the other codings the model covers exactly the octet
   strings that are sequences of codes of the tabulated code set and answers
   [Err EDecode] elsewhere ("Go would substitute U+FFFD") - that is all C17 and
   C09 speak about (decoding of encoder output). *)
Definition dec_sb (c : coding) : list N :=
  match c with
  | CAscii => dec_sb_ascii | CLatin1 => dec_sb_latin1
  | CCyrillic => dec_sb_cyrillic | CHebrew => dec_sb_hebrew
  | _ => []
  end.

Fixpoint decode_sb (tbl : list N) (bs : bytes) : outcome (list N) :=
  match bs with
  | [] => Ok []
  | b :: t =>
      match nth_error tbl (N.to_nat b) with
      | None => Err EDecode
      | Some r => match decode_sb tbl t with Ok rs => Ok (r :: rs) | e => e end
      end
  end.

Definition lead_len (ll : list (list N)) (b : N) : option N :=
  match nth_error ll (N.to_nat b) with
  | Some [n] => Some n
  | _ => None
  end.

(* pend = Some (k, acc, n): inside an n-octet code, k more octets wanted, acc = value so far *)
Fixpoint decode_mb (ll : list (list N)) (dr : runs) (pend : option (N * N * N)) (bs : bytes)
  : outcome (list N) :=
  match bs with
  | [] => match pend with None => Ok [] | Some _ => Err EDecode end
  | b :: t =>
      let '(k, acc, n) :=
        match pend with
        | Some (k, acc, n) => (k, acc * 256 + b, n)
        | None => match lead_len ll b with Some n => (n, b, n) | None => (0, 0, 0) end
        end in
      if k =? 0 then Err EDecode
      else if k =? 1 then
        match lookup acc dr with
        | Some (n', r) =>
            if n' =? n
            then match decode_mb ll dr None t with Ok rs => Ok (r :: rs) | e => e end
            else Err EDecode
        | None => Err EDecode
        end
      else decode_mb ll dr (Some (k - 1, acc, n)) t
  end.

Definition jp_dec_runs (st : N) : runs :=
  if st =? 1 then dec_runs_iso2022jp_kana
  else if st =? 2 then dec_runs_iso2022jp_jis else dec_runs_iso2022jp_ascii.

Definition ocons (r : N) (o : outcome (list N)) : outcome (list N) :=
  match o with Ok rs => Ok (r :: rs) | e => e end.

Fixpoint decode_jp (st : N) (bs : bytes) : outcome (list N) :=
  match bs with
  | [] => Ok []
  | b :: t =>
      if b =? 27 then
        match t with
        | c1 :: c2 :: t' =>
            if (c1 =? 36) && (c2 =? 66) then decode_jp 2 t'
            else if (c1 =? 40) && (c2 =? 66) then decode_jp 0 t'
            else if (c1 =? 40) && (c2 =? 73) then decode_jp 1 t'
            else Err EDecode                 (* escape sequences the encoder never emits *)
        | _ => Err EDecode
        end
      else if st =? 2 then
        if b =? 10 then ocons 10 (decode_jp 0 t)    (* line feed resets to ASCII *)
        else
          match t with
          | c :: t' =>
              match lookup (b * 256 + c) dec_runs_iso2022jp_jis with
              | Some (_, r) => ocons r (decode_jp 2 t')
              | None => Err EDecode
              end
          | [] => Err EDecode
          end
      else
        match lookup b (jp_dec_runs st) with
        | Some (_, r) => ocons r (decode_jp st t)
        | None => Err EDecode
        end
  end.

Definition decode_ucs2 (bs : bytes) : outcome (list N) :=
  match utf16be_decode bs with Some rs => Ok rs | None => Err EDecode end.

Definition decode (c : coding) (bs : bytes) : outcome (list N) :=
  match c with
  | CAscii | CLatin1 | CCyrillic | CHebrew => decode_sb (dec_sb c) bs
  | CSjis => decode_mb lead_lens_sjis dec_runs_sjis None bs
  | CEucjp => decode_mb lead_lens_eucjp dec_runs_eucjp None bs
  | CEuckr => decode_mb lead_lens_euckr dec_runs_euckr None bs
  | CUcs2 => decode_ucs2 bs
  | CIso2022jp => decode_jp 0 bs
  end.

(* ------------------------------------------------ data_coding availability *)
Definition dc_row (dc : N) : option (N * bool * bool * bool * N) := nth_error dc_table (N.to_nat dc).
Definition has_encoder (dc : N) : bool := match dc_row dc with Some (_, e, _, _, _) => e | None => false end.
Definition has_decoder (dc : N) : bool := match dc_row dc with Some (_, _, d, _, _) => d | None => false end.
Definition has_splitter (dc : N) : bool := match dc_row dc with Some (_, _, _, s, _) => s | None => false end.
(* the table entry DataCoding(dc).Encoding() resolves to (message-waiting and
   message-class groups are mapped to a base coding first); None for GSM 7-bit
   (modelled elsewhere) and for values without an encoding *)
Definition resolve (dc : N) : option coding :=
  match dc_row dc with Some (_, _, _, _, base) => coding_of_dc base | None => None end.

(* dc_closure: per data_coding value the table constant whose encoder / decoder / splitter the running code's
   behaves like (by behaviour; 255 = there is none, 254 = like none of the ten constants) *)
Definition closure_row (dc : N) : option (N * N * N * N) := nth_error dc_closure (N.to_nat dc).
Definition enc_class (dc : N) : N := match closure_row dc with Some (_, e, _, _) => e | None => 255 end.
Definition dec_class (dc : N) : N := match closure_row dc with Some (_, _, d, _) => d | None => 255 end.
Definition spl_class (dc : N) : N := match closure_row dc with Some (_, _, _, s) => s | None => 255 end.
Definition table_constants : list N := [0; 1; 3; 5; 6; 7; 8; 10; 13; 14].
(* the observation of one value, as the harness reports it *)
Definition closure_row_eq (dc : N) (x : N * N * N) : bool :=
  let '(e, d, s) := x in (enc_class dc =? e) && (dec_class dc =? d) && (spl_class dc =? s).

Definition encode_dc (dc : N) (rs : list N) : outcome bytes :=
  match resolve dc with Some c => encode c rs | None => Err EOther end.
Definition decode_dc (dc : N) (bs : bytes) : outcome (list N) :=
  match resolve dc with Some c => decode c bs | None => Err EOther end.

(* comparison of observations: outcome class, and the value when there is one *)
Definition same_out (a b : outcome (list N)) : bool :=
  match a, b with
  | Ok x, Ok y => beq_bytes x y
  | Err _, Err _ => true
  | Panic, Panic => true
  | _, _ => false
  end.
