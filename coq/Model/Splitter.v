(* Executable model of coding/splitter.go: the per-rune bit-width functions
   and the greedy Split over runes, generic in the width function.  Follows the
   code after the fix: commits for D12 (extension-aware 7-bit width).
   No proofs in this file. *)
From V Require Import Model.Base Model.Gsm7.
Open Scope N_scope.
Local Notation length := List.length.

(* --- width functions (bits per rune) ------------------------------------ *)
(* _7BitSplitter: 7 * gsm7bit.Septets(r): two septets for the extension table *)
Definition w_7bit (r : N) : nat := match forward_escape r with Some _ => 14%nat | None => 7%nat end.
(* _1ByteSplitter *)
Definition w_1byte (r : N) : nat := 8%nat.
(* _MultibyteSplitter: r < 0x7F ? 8 : 16 *)
Definition w_multibyte (r : N) : nat := if r <? 0x7F then 8%nat else 16%nat.
(* _UTF16Splitter *)
Definition w_utf16 (r : N) : nat :=
  if (r <=? 0xD7FF) || ((0xE000 <=? r) && (r <=? 0xFFFF)) then 16%nat else 32%nat.

Section Split.
  Variable w : N -> nat.

  Definition total (l : list N) : nat := fold_right (fun r a => (w r + a)%nat) 0%nat l.

  (* Splitter.Len: bits rounded up to octets *)
  Definition text_len (t : list N) : nat := ((total t + 7) / 8)%nat.

  (* Splitter.Split: accumulate widths; when the next rune would exceed the limit,
     close the segment before it and look at the rune again with length 0.  If
     that rune alone exceeds the limit the Go loop appends empty segments for
     ever: Err EFuel.  [cur] is the open segment in reverse, [len] its width. *)
  Fixpoint split_aux (lim : nat) (cur : list N) (len : nat) (rs : list N) : outcome (list (list N)) :=
    match rs with
    | [] => Ok (if Nat.ltb 0 len then [rev cur] else [])
    | r :: rest =>
        if Nat.ltb lim (len + w r) then
          if Nat.ltb lim (w r) then Err EFuel
          else do segs <- split_aux lim [r] (w r) rest; Ok (rev cur :: segs)
        else split_aux lim (r :: cur) (len + w r) rest
    end.

  (* limit in octets, as the caller passes it *)
  Definition split (limit : nat) (rs : list N) : outcome (list (list N)) :=
    split_aux (8 * limit) [] 0 rs.
End Split.
