(* Executable model of the read-only operations the library offers on a
   decoded PDU (C11): MessageState.String (pdu/message_state.go),
   Address.String (pdu/address.go), ShortMessage.Parse (pdu/message.go),
   UserDataHeader.ConcatenatedHeader (Model/Combiner.v), ReadSequence /
   ReadCommandStatus (pdu/header_kit.go), Resp() (pdu/packet.go) and feeding a
   deliver_sm to the multipart combiner (Model/Combiner.v) — as the code is
   after the fix: commits for D6, D7, D8.  Every Go index expression is an
   operation that can yield [Panic].  No proofs in this file. *)
From V Require Export Model.Base Model.Pdu Model.Combiner.
Open Scope N_scope.

Fixpoint bytes_of_string (s : string) : bytes :=
  match s with EmptyString => [] | String a r => N_of_ascii a :: bytes_of_string r end.

(* ------------------------------------------------------ MessageState.String *)
(* strings.ToUpper(messageStateMap[m]) of the ten names *)
Definition message_state_names : list bytes :=
  map bytes_of_string ["SCHEDULED"; "ENROUTE"; "DELIVERED"; "EXPIRED"; "DELETED";
                       "UNDELIVERABLE"; "ACCEPTED"; "UNKNOWN"; "REJECTED"; "SKIPPED"]%string.
Definition n_names : N := N.of_nat (List.length message_state_names).

(* messageStateMap[m] *)
Definition name_at (m : N) : outcome bytes :=
  match nth_error message_state_names (N.to_nat m) with Some s => Ok s | None => Panic end.

(* if int(m) >= len(messageStateMap) { return strconv.Itoa(int(m)) }; return ToUpper(messageStateMap[m]) *)
Definition message_state_string (m : N) : outcome bytes :=
  if n_names <=? m then Ok (dec_digits m) else name_at m.
(* before D6: > instead of >= *)
Definition message_state_string_legacy (m : N) : outcome bytes :=
  if n_names <? m then Ok (dec_digits m) else name_at m.

(* ----------------------------------------------------------- Address.String *)
(* if p.TON == 1 && p.NPI == 1 && len(p.No) > 0 && p.No[0] != '+' { return "+" + p.No }; return p.No *)
Definition address_string (a : addr) : outcome bytes :=
  if (a_ton a =? 1) && (a_npi a =? 1) && (0 <? len (a_no a)) then
    do c <- idx (a_no a) 0;
    if negb (c =? 43) then Ok (43 :: a_no a) else Ok (a_no a)
  else Ok (a_no a).

(* ------------------------------------------------------ ShortMessage.Parse *)
Definition hex_digit (n : N) : N := if n <? 10 then 48 + n else 87 + n.
(* hex.EncodeToString *)
Definition hex_string (b : bytes) : bytes := flat_map (fun x => [hex_digit (x / 16); hex_digit (x mod 16)]) b.

(* A text decoder (golang.org/x/text, coding/gsm7bit) is not modelled here:
   it is a parameter returning the decoded octets or an error.  C08 models
   the GSM 7-bit decoder; the x/text decoders are library code. *)
Definition decoder := bytes -> outcome bytes.
(* encoder := p.DataCoding.Encoding(); if encoder == nil { hex }; encoder.NewDecoder().Bytes(p.Message) *)
Definition parse (encoding : N -> option decoder) (m : shortmsg) : outcome bytes :=
  match encoding (sm_dc m) with
  | None => Ok (hex_string (sm_msg m))
  | Some d => d (sm_msg m)
  end.

(* ---------------------------------------------------- CommandStatus.String *)
(* if name, ok := commandStatusNames[c]; ok { "ESME_R" + upper(name) } else { %08X }: a map lookup, no
   index expression.  Which codes have a name, and the text printed for them,
   is data ([named], regenerated from the running code). *)
Definition hex_digit_up (n : N) : N := if n <? 10 then 48 + n else 55 + n.
Definition hex8 (s : N) : bytes :=
  map (fun k => hex_digit_up ((s / 16 ^ k) mod 16)) [7; 6; 5; 4; 3; 2; 1; 0].
Fixpoint find_name (named : list (N * bytes)) (s : N) : option bytes :=
  match named with
  | [] => None
  | (k, t) :: r => if k =? s then Some t else find_name r s
  end.
Definition command_status_string (named : list (N * bytes)) (s : N) : outcome bytes :=
  match find_name named s with Some t => Ok t | None => Ok (hex8 s) end.

(* ------------------------------------- ReadSequence, ReadCommandStatus, Resp *)
(* getHeader: the first field that is a Header *)
Fixpoint get_header (vs : list fval) : option header :=
  match vs with
  | [] => None
  | VHeader h :: _ => Some h
  | _ :: r => get_header r
  end.
(* getHeader as the code has it, through reflect (pdu/header_kit.go):
     p := reflect.ValueOf(packet); if p.Kind() == reflect.Ptr { p = p.Elem() }
     for i := 0; i < p.NumField(); i++ { field := p.Field(i)
       if h, ok := field.Addr().Interface() as pointer to Header; ok { return h } }
     return nil
   What reflect sees of the argument decides whether this returns: NumField
   panics on anything that is not a struct (the zero Value of a nil interface
   or of a nil pointer's Elem, a scalar, a map, a pointer to a pointer); Addr
   panics on a field of a struct passed by value (not addressable); Interface
   panics on an unexported field. *)
Inductive fkind := KHeader | KExported | KUnexported.
Inductive shape :=
| ShPtrStruct (fs : list fkind)      (* a non-nil pointer to a struct with these fields *)
| ShNilPtr                           (* a typed nil pointer *)
| ShStruct (fs : list fkind)         (* a struct passed by value *)
| ShOther.                           (* nil interface, scalar, string, map, pointer to a non-struct *)
Definition kind_of (n : N) : fkind := if n =? 0 then KHeader else if n =? 1 then KExported else KUnexported.
(* the loop over an addressable struct: is a Header found? *)
Fixpoint scan_fields (fs : list fkind) : outcome bool :=
  match fs with
  | [] => Ok false
  | KHeader :: _ => Ok true
  | KExported :: r => scan_fields r
  | KUnexported :: _ => Panic
  end.
Definition get_header_reflect (s : shape) : outcome bool :=
  match s with
  | ShPtrStruct fs => scan_fields fs
  | ShNilPtr => Panic
  | ShStruct [] => Ok false
  | ShStruct (_ :: _) => Panic
  | ShOther => Panic
  end.

Definition read_sequence (vs : list fval) : outcome Z :=
  match get_header vs with Some h => Ok (h_seq h) | None => Ok 0%Z end.
Definition read_status (vs : list fval) : outcome N :=
  match get_header vs with Some h => Ok (h_status h) | None => Ok 0 end.

(* ReadSequence / ReadCommandStatus on a packet of shape [s] whose decoded fields are [vs] *)
Definition read_sequence_go (s : shape) (vs : list fval) : outcome Z :=
  do found <- get_header_reflect s; if found then read_sequence vs else Ok 0%Z.
Definition read_status_go (s : shape) (vs : list fval) : outcome N :=
  do found <- get_header_reflect s; if found then read_status vs else Ok 0.

(* Resp(): which response type a request type builds and whether it copies
   the sequence number is data ([pairs], regenerated from the running code:
   Gen.PduLayouts.resp_pairs); result: response command_id and its sequence *)
Fixpoint find_pair (pairs : list (N * N * bool)) (id : N) : option (N * bool) :=
  match pairs with
  | [] => None
  | (i, r, c) :: t => if i =? id then Some (r, c) else find_pair t id
  end.
Definition resp (pairs : list (N * N * bool)) (lay : layout) (vs : list fval) : outcome (option (N * Z)) :=
  match find_pair pairs (l_id lay) with
  | None => Ok None                          (* not Responsable *)
  | Some (rid, copies) =>
    do s <- read_sequence vs;                (* p.Header.Sequence *)
    Ok (Some (rid, if copies then s else 0%Z))
  end.

(* ------------------------------------------- all accessors of one decoded PDU *)
Inductive fobs :=
| FoNone
| FoAddr (s : bytes)                               (* Address.String() *)
| FoU8 (state : bytes)                             (* MessageState(b).String() of the octet *)
| FoShort (c : option concat) (hexed : option bytes)  (* ConcatenatedHeader(); Parse() text when data_coding has no decoder *)
| FoShortOpen (hexed : option bytes)               (* observation only: the UDH holds both elements or an over-long one — which header is read is left open *)
| FoAddrs (l : list bytes).                        (* String() of each address in a list field *)

Record acc_obs := { o_seq : Z; o_status : N; o_resp : option (N * Z); o_fields : list fobs }.

Fixpoint omap {A B} (f : A -> outcome B) (l : list A) : outcome (list B) :=
  match l with
  | [] => Ok []
  | x :: r => do y <- f x; do ys <- omap f r; Ok (y :: ys)
  end.

Definition field_accessors (has_dec : N -> bool) (v : fval) : outcome fobs :=
  match v with
  | VAddr a => do s <- address_string a; Ok (FoAddr s)
  | VU8 b => do s <- message_state_string b; Ok (FoU8 s)
  | VShort m =>
    do c <- concatenated_header (sm_udh m);
    (* Parse: only the branch without a decoder is computed by the model *)
    do t <- (if has_dec (sm_dc m) then Ok None
             else do x <- parse (fun _ => None) m; Ok (Some x));
    Ok (FoShort c t)
  | VDests sme _ => do l <- omap address_string sme; Ok (FoAddrs l)
  | VUnsucc l => do l' <- omap (fun e => address_string (fst e)) l; Ok (FoAddrs l')
  | _ => Ok FoNone
  end.

Definition run_accessors (pairs : list (N * N * bool)) (has_dec : N -> bool) (lay : layout) (vs : list fval)
  : outcome acc_obs :=
  do s <- read_sequence vs;
  do st <- read_status vs;
  do r <- resp pairs lay vs;
  do fs <- omap (field_accessors has_dec) vs;
  Ok {| o_seq := s; o_status := st; o_resp := r; o_fields := fs |}.

(* what the combiner reads of a decoded deliver_sm: the first two addresses
   and the short message's UDH *)
Fixpoint first_addrs (vs : list fval) : list addr :=
  match vs with [] => [] | VAddr a :: r => a :: first_addrs r | _ :: r => first_addrs r end.
Fixpoint first_short (vs : list fval) : option shortmsg :=
  match vs with [] => None | VShort m :: _ => Some m | _ :: r => first_short r end.
Definition dsm_of (id : N) (vs : list fval) : option dsm :=
  match first_addrs vs, first_short vs with
  | s :: d :: _, Some m => Some {| d_id := id; d_src := s; d_dst := d; d_udh := sm_udh m |}
  | _, _ => None
  end.

(* ------------------------------------------------------------ comparisons *)
Definition beq_concat (a b : concat) : bool :=
  (c_ref a =? c_ref b) && (c_total a =? c_total b) && (c_seq a =? c_seq b).
(* C11 demands that the operations return, not what they print: texts
   (state names, the '+' rule, hex case) are compared by presence only; the
   concatenation header (a value the combiner acts on) is compared exactly,
   except where the property leaves open which element is read *)
Definition same_some {A B} (x : option A) (y : option B) : bool :=
  match x, y with Some _, Some _ => true | None, None => true | _, _ => false end.
Definition beq_fobs (a b : fobs) : bool :=
  match a, b with
  | FoNone, FoNone => true
  | FoAddr _, FoAddr _ => true
  | FoU8 _, FoU8 _ => true
  | FoShort c x, FoShort d y => beq_opt beq_concat c d && same_some x y
  | FoShort _ x, FoShortOpen y => same_some x y
  | FoShortOpen x, FoShort _ y => same_some x y
  | FoShortOpen x, FoShortOpen y => same_some x y
  | FoAddrs x, FoAddrs y => (List.length x =? List.length y)%nat
  | _, _ => false
  end.
Definition beq_resp (a b : option (N * Z)) : bool :=
  beq_opt (fun x y => (fst x =? fst y) && (snd x =? snd y)%Z) a b.
Definition beq_acc (a b : acc_obs) : bool :=
  (o_seq a =? o_seq b)%Z && (o_status a =? o_status b) && beq_resp (o_resp a) (o_resp b)
  && beq_list beq_fobs (o_fields a) (o_fields b).
Definition beq_oacc (a b : outcome acc_obs) : bool :=
  match a, b with
  | Ok x, Ok y => beq_acc x y
  | Err _, Err _ => true
  | Panic, Panic => true
  | _, _ => false
  end.
(* outcome class: 0 returned a value, 1 returned an error, 2 panicked *)
Definition ocls {A} (o : outcome A) : N := match o with Ok _ => 0 | Err _ => 1 | Panic => 2 end.
Definition beq_oconcat (a b : outcome (option concat)) : bool :=
  match a, b with
  | Ok x, Ok y => beq_opt beq_concat x y
  | Err _, Err _ => true
  | Panic, Panic => true
  | _, _ => false
  end.
