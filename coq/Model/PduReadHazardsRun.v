(* glue for the generated cases: one ReadPDU call of the Go-hazards layer on the registered layouts *)
From V Require Export Model.PduReadHazards Model.PduRun.
Open Scope N_scope.
Definition run_read_io (data : bytes) (sched : list nat) : rp_obs * N :=
  let '(r, c, _) := read_pdu_io layouts {| st_data := data; st_sched := sched |} in (obs_of r, c).
