(* Glue used by the generated C10 end-to-end cases only. *)
From V Require Export Model.Combiner Model.CombinerRun Model.Compose Model.ComposeBridge.
Open Scope N_scope.

(* case: the GSM 7-bit composition model composes [t] into [nparts] parts;
   bridged to deliver_sm PDUs from [src] to [dst] (table entries 0..nparts-1)
   and followed in the table by the other traffic [others], the history
   [ixs] through the combiner model gives the callback trace the
   implementation produced on the real composed parts *)
Definition chk_e2e (src dst : addr) (ref : N) (t : list N) (nparts : N) (others : list dsm)
  (ixs proj : list nat) (expected : list (list (list N))) : bool :=
  match compose_gsm7 ref t with
  | Ok parts =>
    (N.of_nat (List.length parts) =? nparts) &&
    chk_combine_proj (bridge 0 src dst parts ++ others) ixs proj (Ok expected)
  | _ => false
  end.
