(* Executable model of coding/semioctet/semi_octet.go (as it is after the
   fix: commits recorded in KNOWN_FINDINGS.txt) and of the small pieces of Go
   library behaviour it leans on (strconv.Itoa digit expansion, byte
   arithmetic).  No proofs in this file.

   Octets are N.  Go's byte arithmetic wraps; every place where that can
   matter is written with an explicit [mod 256]. *)
From V Require Export Model.Base.
Open Scope N_scope.

Definition lo4 (b : N) : N := b mod 16.            (* item & 0b1111 *)
Definition hi4 (b : N) : N := (b / 16) mod 16.     (* item >> 4 (item is a byte) *)

(* semioctet.DecodeSemi: one int per octet, low nibble is the tens digit;
   a high nibble 0xF ends the list early with the low nibble alone. *)
Fixpoint decode_semi (l : bytes) : list N :=
  match l with
  | [] => []
  | b :: r => if hi4 b =? 15 then [lo4 b] else (lo4 b * 10 + hi4 b) :: decode_semi r
  end.

(* semioctet.DecodeSemiAddress: '0'+low nibble, then '0'+high nibble unless it is 0xF.
   Non-decimal nibbles give the characters ':' .. '?'. *)
Fixpoint decode_semi_address (l : bytes) : list N :=
  match l with
  | [] => []
  | b :: r => (48 + lo4 b) :: (if hi4 b =? 15 then [] else [48 + hi4 b]) ++ decode_semi_address r
  end.

(* strconv.Itoa followed by byte(r - '0') for each rune, as toDigits does:
   decimal digits most significant first; a minus sign becomes byte('-' - '0') = 253. *)
Fixpoint digits_fuel (fuel : nat) (n : N) (acc : list N) : list N :=
  match fuel with
  | O => acc
  | S f => let acc' := (n mod 10) :: acc in
           if n <? 10 then acc' else digits_fuel f (n / 10) acc'
  end.
Definition itoa_digits (z : Z) : list N :=        (* |z| < 10^20: int is 64 bit *)
  if (z <? 0)%Z then 253 :: digits_fuel 20 (Z.to_N (- z)) [] else digits_fuel 20 (Z.to_N z) [].

(* semioctet.toDigits: a leading 0 for every chunk < 10 (negative ones included) *)
Definition chunk_digits (c : Z) : list N :=
  (if (c <? 10)%Z then [0] else []) ++ itoa_digits c.
Definition to_digits (chunks : list Z) : list N := flat_map chunk_digits chunks.

(* the packing loop of EncodeSemi / encodeDigits: digits[i+1]<<4 | digits[i],
   a lone last digit gets the filler 0xF0.  Digits are bytes (253 can occur). *)
Fixpoint pack_digits (d : list N) : bytes :=
  match d with
  | [] => []
  | [a] => [N.lor 240 a]
  | a :: b :: r => N.lor ((b * 16) mod 256) a :: pack_digits r
  end.

Definition encode_semi (chunks : list Z) : bytes := pack_digits (to_digits chunks).

(* semioctet.EncodeSemiAddress after the D20 fix: every character must be a
   decimal digit and there must be at least one; each digit is one semi-octet.
   None = the error return (nothing written). *)
Definition is_digit (c : N) : bool := (48 <=? c) && (c <=? 57).
Definition encode_semi_address (s : list N) : option bytes :=
  match s with
  | [] => None
  | _ => if forallb is_digit s then Some (pack_digits (map (fun c => c - 48) s)) else None
  end.
