(* Glue used by the generated C10 case files only. *)
From V Require Export Model.Combiner Spec.CombinerSetSpec.
Open Scope N_scope.

(* case: the set-style specification (Spec/CombinerSetSpec.v) on the
   sub-history of the key of table entry [ki] makes exactly the callbacks the
   implementation made at the steps of that key *)
Definition chk_setspec (table : list dsm) (ixs proj : list nat) (ki : nat) (expected : list (list (list N))) : bool :=
  match pick table ixs, nth_error table ki with
  | Some h, Some q =>
    match seg_key q with
    | Some k => beq_trace (proj_trace proj (ids_of (snd (espec_run [] (hist_key k (number_from 1 h)))))) expected
    | None => false
    end
  | _, _ => false
  end.

(* one random history, everything at once: the callback trace of the keyed
   combiner, and for each listed key (table entry, expected callbacks at the
   steps of that key) the reference combiner and the set-style specification *)
Definition chk_history (table : list dsm) (ixs proj : list nat) (expected : list (list (list N)))
  (refs : list (nat * list (list (list N)))) : bool :=
  chk_combine_proj table ixs proj (Ok expected) &&
  forallb (fun kr => chk_reference table ixs proj (fst kr) (snd kr) && chk_setspec table ixs proj (fst kr) (snd kr)) refs.

(* ---- long histories and large totals: the history is generated here from a
   few numbers (printing thousands of PDUs as terms would dominate the run),
   the harness builds the same PDUs for the implementation ---- *)
(* a segment with the 16-bit concatenation element (IEI 8), whatever the reference *)
Definition seg16 (src dst : addr) (ref total seq : N) : dsm :=
  {| d_id := 0; d_src := src; d_dst := dst;
     d_udh := Some [(8, [(ref / 256) mod 256; ref mod 256; total; seq])] |}.
(* n one-part concatenated messages with references lo, lo+1, ...: each is complete on arrival *)
Definition fillers (src dst : addr) (lo : N) (n : nat) : list dsm :=
  map (fun i => seg16 src dst (lo + N.of_nat i) 1 1) (seq 0 n).
(* n two-part messages, parts in order *)
Definition fillers2 (src dst : addr) (lo : N) (n : nat) : list dsm :=
  flat_map (fun i => [seg16 src dst (lo + N.of_nat i) 2 1; seg16 src dst (lo + N.of_nat i) 2 2]) (seq 0 n).
(* the segments of one message of [total] parts in the arrival order [order] (sequence numbers) *)
Definition ordered_segs (src dst : addr) (ref total : N) (order : bytes) : list dsm :=
  map (fun q => seg16 src dst ref total q) order.

Fixpoint find_exception (exc : list (N * list (list N))) (j : N) : option (list (list N)) :=
  match exc with
  | [] => None
  | (k, x) :: r => if k =? j then Some x else find_exception r j
  end.
(* the trace given sparsely: at arrival j (from 1) the callbacks are those listed
   for j in [exc]; otherwise the default of that arrival: 0 none, 1 the
   arriving PDU alone, 2 the previous and the arriving PDU *)
Fixpoint sparse_trace (dflt : list N) (exc : list (N * list (list N))) (j : N) : list (list (list N)) :=
  match dflt with
  | [] => []
  | o :: r =>
    (match find_exception exc j with
     | Some x => x
     | None => if o =? 1 then [[j]] else if o =? 2 then [[j - 1; j]] else []
     end) :: sparse_trace r exc (j + 1)
  end.
(* case: target message of [total] parts whose segments [before] arrive first,
   then [n] filler messages (one-part if [two] is false, else two-part), then
   the segments [after]; observed: every filler message fires at its last
   part, the target segments do not, except as listed *)
Definition chk_long (src dst : addr) (ref total : N) (before : bytes) (lo : N) (n : nat) (two : bool) (after : bytes)
  (exc : list (N * list (list N))) : bool :=
  let h := ordered_segs src dst ref total before ++ (if two then fillers2 src dst lo n else fillers src dst lo n)
           ++ ordered_segs src dst ref total after in
  let dflt := map (fun _ => 0) before ++ (if two then flat_map (fun _ => [0; 2]) (seq 0 n) else map (fun _ => 1) (seq 0 n))
              ++ map (fun _ => 0) after in
  beq_otrace (run_ids h) (Ok (sparse_trace dflt exc 1)).
(* case: one message of [total] parts arriving in [order]: no callback except as listed *)
Definition chk_order (src dst : addr) (ref total : N) (order : bytes) (exc : list (N * list (list N))) : bool :=
  beq_otrace (run_ids (ordered_segs src dst ref total order)) (Ok (sparse_trace (map (fun _ => 0) order) exc 1)).

(* ---- round 5: many messages open at once, histories of ignored segments,
   lenient comparison on malformed histories ---- *)
(* a segment in either form: 0 = 8-bit reference (IEI 0), else 16-bit (IEI 8) *)
Definition segf (form : N) (src dst : addr) (ref total seq : N) : dsm :=
  if form =? 0 then
    {| d_id := 0; d_src := src; d_dst := dst; d_udh := Some [(0, [ref mod 256; total; seq])] |}
  else seg16 src dst ref total seq.

(* the trace given sparsely against an explicit default per arrival *)
Fixpoint sparse_over (dflt : list (list (list N))) (exc : list (N * list (list N))) (j : N) : list (list (list N)) :=
  match dflt with
  | [] => []
  | d :: r => (match find_exception exc j with Some x => x | None => d end) :: sparse_over r exc (j + 1)
  end.

(* message i of an "open" history: its key differs from the others' in the
   reference (variant 0), in the destination number (variant 1: the decimal
   digits of lo+i appended) or in the source number (variant 2) *)
Definition with_no (a : addr) (suffix : bytes) : addr :=
  {| a_ton := a_ton a; a_npi := a_npi a; a_no := a_no a ++ suffix |}.
Definition open_seg (form : N) (src dst : addr) (variant lo i total seq : N) : dsm :=
  if variant =? 0 then segf form src dst ((lo + i) mod 65536) total seq
  else if variant =? 1 then segf form src (with_no dst (dec_digits (lo + i))) (lo mod 65536) total seq
  else segf form (with_no src (dec_digits (lo + i))) dst (lo mod 65536) total seq.
(* the affine permutation j -> (s*j + b) mod K; s is 1 (rotation) or K-1 (reversal + rotation) *)
Definition aperm (K s b j : N) : N := (s * j + b) mod K.
Definition aperm_inv (K s b m : N) : N := (s * ((m + K - b mod K) mod K)) mod K.
(* round q (= sequence number q) brings segment q of every one of the K messages, in the order of its permutation *)
Fixpoint open_rounds (form : N) (src dst : addr) (variant lo : N) (K : nat) (total q : N) (rounds : list (N * N)) : list dsm :=
  match rounds with
  | [] => []
  | (s, b) :: rest =>
    map (fun j => open_seg form src dst variant lo (aperm (N.of_nat K) s b (N.of_nat j)) total q) (seq 0 K)
    ++ open_rounds form src dst variant lo K total (q + 1) rest
  end.
(* identities (arrival positions) of the segments of message m, one per round *)
Fixpoint open_ids (K : N) (m : N) (q : N) (rounds : list (N * N)) : list N :=
  match rounds with
  | [] => []
  | (s, b) :: rest => (q * K + aperm_inv K s b m + 1) :: open_ids K m (q + 1) rest
  end.
Definition open_default (K : nat) (rounds : list (N * N)) : list (list (list N)) :=
  let k := N.of_nat K in
  match rev rounds with
  | [] => []
  | (s, b) :: before =>
    flat_map (fun _ => repeat [] K) before
    ++ map (fun j => [open_ids k (aperm k s b (N.of_nat j)) 0 rounds]) (seq 0 K)
  end.
(* case: K messages of [length rounds] parts, all open together (every first
   segment arrives before any second one ...); observed: no callback before the
   last round, in the last round every arrival delivers its message — except as listed *)
Definition chk_open (form : N) (src dst : addr) (variant lo : N) (K : nat) (rounds : list (N * N))
  (exc : list (N * list (list N))) : bool :=
  let total := N.of_nat (List.length rounds) in
  beq_otrace (run_ids (open_rounds form src dst variant lo K total 1 rounds))
             (Ok (sparse_over (open_default K rounds) exc 1)).

(* a run of [n] segments every one of which the combiner must ignore: total
   by [tm] (0: always 255, 1: i mod 256, 2: scattered), sequence number by
   [km] (0: zero, 1: total+1, 2: alternating), key by [rm] (0: a new
   reference each, 1: always the reference lo) *)
Definition ign_total (tm i : N) : N := if tm =? 0 then 255 else if tm =? 1 then i mod 256 else (i * 37 + 11) mod 256.
Definition ign_seq (km t i : N) : N :=
  if km =? 0 then 0 else if km =? 1 then (t + 1) mod 256 else if i mod 2 =? 0 then 0 else (t + 1) mod 256.
Definition ign_ref (rm lo i : N) : N := if rm =? 0 then (lo + i) mod 65536 else lo.
Definition ignored_segs (form : N) (src dst : addr) (rm tm km lo : N) (n : nat) : list dsm :=
  map (fun i => let i := N.of_nat i in let t := ign_total tm i in
                segf form src dst (ign_ref rm lo i) t (ign_seq km t i)) (seq 0 n).
Definition listed_segs (form : N) (src dst : addr) (l : list (N * N * N)) : list dsm :=
  map (fun rts => segf form src dst (fst (fst rts)) (snd (fst rts)) (snd rts)) l.
(* case: segments [pre], then the ignored run, then segments [post]; observed: no callback except as listed *)
Definition chk_ignored (form : N) (src dst : addr) (pre : list (N * N * N)) (rm tm km lo : N) (n : nat)
  (post : list (N * N * N)) (exc : list (N * list (list N))) : bool :=
  let h := listed_segs form src dst pre ++ ignored_segs form src dst rm tm km lo n ++ listed_segs form src dst post in
  beq_otrace (run_ids h) (Ok (sparse_over (map (fun _ => []) h) exc 1)).

(* a history in which some key carries malformed numbering, or a PDU carries
   both concatenation elements: C10/C11 leave open what is done with those
   (ignored, restarted ...), so only this is compared — the model returns
   normally, and for every listed key whose segments are all well formed the
   callbacks at its arrivals are those the model, the reference combiner and
   the set-style specification make *)
Definition chk_key_outputs (table : list dsm) (ixs proj : list nat) (ki : nat) (expected : list (list (list N))) : bool :=
  match pick table ixs, nth_error table ki with
  | Some h, Some q =>
    match seg_key q, crun [] (number_from 1 h) with
    | Some k, Ok (_, outs) => beq_trace (proj_trace proj (ids_of (outputs_at k (number_from 1 h) outs))) expected
    | _, _ => false
    end
  | _, _ => false
  end.
Definition chk_history_lenient (table : list dsm) (ixs proj : list nat) (refs : list (nat * list (list (list N)))) : bool :=
  match pick table ixs with
  | Some h => match run_ids h with Ok _ => true | _ => false end
  | None => false
  end &&
  forallb (fun kr => chk_key_outputs table ixs proj (fst kr) (snd kr) && chk_reference table ixs proj (fst kr) (snd kr)
                     && chk_setspec table ixs proj (fst kr) (snd kr)) refs.

(* compact form of a table entry in the generated cases (record syntax with
   nested records dominated the parse time): addresses as hex strings, the UDH
   as one string "<key hex><data hex>/<key hex><data hex>..." ([has] = false: nil map) *)
Definition sg (st sn : N) (sno : string) (dt dn : N) (dno : string) (has : bool) (udh : string) : dsm :=
  {| d_id := 0; d_src := {| a_ton := st; a_npi := sn; a_no := hx sno |}; d_dst := {| a_ton := dt; a_npi := dn; a_no := hx dno |};
     d_udh := if has then Some (flat_map (fun s => match hx s with k :: d => [(k, d)] | [] => [] end) (split_slash udh)) else None |}.
