(* Glue used by the generated C10 case files only. *)
From V Require Export Model.Combiner Spec.CombinerSetSpec.
Open Scope N_scope.

(* case: the set-style specification (Spec/CombinerSetSpec.v) on the
   sub-history of the key of table entry [ki] makes exactly the callbacks the
   implementation made at the steps of that key *)
Definition chk_setspec (table : list dsm) (ixs proj : list nat) (ki : nat) (expected : list (list (list N))) : bool :=
  match pick table ixs, nth_error table ki with
  | Some h, Some q =>
    match seg_key q with
    | Some k => beq_trace (proj_trace proj (ids_of (snd (espec_run [] (hist_key k (number_from 1 h)))))) expected
    | None => false
    end
  | _, _ => false
  end.

(* one random history, everything at once: the callback trace of the keyed
   combiner, and for each listed key (table entry, expected callbacks at the
   steps of that key) the reference combiner and the set-style specification *)
Definition chk_history (table : list dsm) (ixs proj : list nat) (expected : list (list (list N)))
  (refs : list (nat * list (list (list N)))) : bool :=
  chk_combine_proj table ixs proj (Ok expected) &&
  forallb (fun kr => chk_reference table ixs proj (fst kr) (snd kr) && chk_setspec table ixs proj (fst kr) (snd kr)) refs.
