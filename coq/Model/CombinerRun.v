(* Glue used by the generated C10 case files only. *)
From V Require Export Model.Combiner Spec.CombinerSetSpec.
Open Scope N_scope.

(* case: the set-style specification (Spec/CombinerSetSpec.v) on the
   sub-history of the key of table entry [ki] makes exactly the callbacks the
   implementation made at the steps of that key *)
Definition chk_setspec (table : list dsm) (ixs proj : list nat) (ki : nat) (expected : list (list (list N))) : bool :=
  match pick table ixs, nth_error table ki with
  | Some h, Some q =>
    match seg_key q with
    | Some k => beq_trace (proj_trace proj (ids_of (snd (espec_run [] (hist_key k (number_from 1 h)))))) expected
    | None => false
    end
  | _, _ => false
  end.

(* one random history, everything at once: the callback trace of the keyed
   combiner, and for each listed key (table entry, expected callbacks at the
   steps of that key) the reference combiner and the set-style specification *)
Definition chk_history (table : list dsm) (ixs proj : list nat) (expected : list (list (list N)))
  (refs : list (nat * list (list (list N)))) : bool :=
  chk_combine_proj table ixs proj (Ok expected) &&
  forallb (fun kr => chk_reference table ixs proj (fst kr) (snd kr) && chk_setspec table ixs proj (fst kr) (snd kr)) refs.

(* ---- long histories and large totals: the history is generated here from a
   few numbers (printing thousands of PDUs as terms would dominate the run),
   the harness builds the same PDUs for the implementation ---- *)
(* a segment with the 16-bit concatenation element (IEI 8), whatever the reference *)
Definition seg16 (src dst : addr) (ref total seq : N) : dsm :=
  {| d_id := 0; d_src := src; d_dst := dst;
     d_udh := Some [(8, [(ref / 256) mod 256; ref mod 256; total; seq])] |}.
(* n one-part concatenated messages with references lo, lo+1, ...: each is complete on arrival *)
Definition fillers (src dst : addr) (lo : N) (n : nat) : list dsm :=
  map (fun i => seg16 src dst (lo + N.of_nat i) 1 1) (seq 0 n).
(* n two-part messages, parts in order *)
Definition fillers2 (src dst : addr) (lo : N) (n : nat) : list dsm :=
  flat_map (fun i => [seg16 src dst (lo + N.of_nat i) 2 1; seg16 src dst (lo + N.of_nat i) 2 2]) (seq 0 n).
(* the segments of one message of [total] parts in the arrival order [order] (sequence numbers) *)
Definition ordered_segs (src dst : addr) (ref total : N) (order : bytes) : list dsm :=
  map (fun q => seg16 src dst ref total q) order.

Fixpoint find_exception (exc : list (N * list (list N))) (j : N) : option (list (list N)) :=
  match exc with
  | [] => None
  | (k, x) :: r => if k =? j then Some x else find_exception r j
  end.
(* the trace given sparsely: at arrival j (from 1) the callbacks are those listed
   for j in [exc]; otherwise the default of that arrival: 0 none, 1 the
   arriving PDU alone, 2 the previous and the arriving PDU *)
Fixpoint sparse_trace (dflt : list N) (exc : list (N * list (list N))) (j : N) : list (list (list N)) :=
  match dflt with
  | [] => []
  | o :: r =>
    (match find_exception exc j with
     | Some x => x
     | None => if o =? 1 then [[j]] else if o =? 2 then [[j - 1; j]] else []
     end) :: sparse_trace r exc (j + 1)
  end.
(* case: target message of [total] parts whose segments [before] arrive first,
   then [n] filler messages (one-part if [two] is false, else two-part), then
   the segments [after]; observed: every filler message fires at its last
   part, the target segments do not, except as listed *)
Definition chk_long (src dst : addr) (ref total : N) (before : bytes) (lo : N) (n : nat) (two : bool) (after : bytes)
  (exc : list (N * list (list N))) : bool :=
  let h := ordered_segs src dst ref total before ++ (if two then fillers2 src dst lo n else fillers src dst lo n)
           ++ ordered_segs src dst ref total after in
  let dflt := map (fun _ => 0) before ++ (if two then flat_map (fun _ => [0; 2]) (seq 0 n) else map (fun _ => 1) (seq 0 n))
              ++ map (fun _ => 0) after in
  beq_otrace (run_ids h) (Ok (sparse_trace dflt exc 1)).
(* case: one message of [total] parts arriving in [order]: no callback except as listed *)
Definition chk_order (src dst : addr) (ref total : N) (order : bytes) (exc : list (N * list (list N))) : bool :=
  beq_otrace (run_ids (ordered_segs src dst ref total order)) (Ok (sparse_trace (map (fun _ => 0) order) exc 1)).
