(* Executable labelled transition system of smpp.Conn (conn.go) as the code is
   after the fix: commits recorded in KNOWN_FINDINGS.txt (D25 D26 D27 D28 D32).
   No proofs in this file.

   Threads: any number of callers of Submit / Send / Close (each call is one
   "caller" c : nat, tagged with the goroutine g that issues it: a goroutine
   issues its calls one after the other), the Watch loop, the keep-alive loop
   (EnquireLink), the application receiving from PDU(), the peer.

   Every event is one atomic step of the code: a critical section of the
   pending table, a transport Write call (the atomic append the net.Conn
   contract gives), the return of that call, one channel operation, one
   select decision, one context cancellation.  [step] is a partial function:
   [None] means "not enabled in this state".

   The four repaired defects are kept as switches of a [variant] so that the
   pre-repair behaviour stays executable: the theorems are about [fixed], the
   [..._legacy_refuted] lemmas exhibit the failing trace of each legacy switch. *)
From V Require Import Model.Base.
Open Scope N_scope.

(* ------------------------------------------------------------------ data *)
Inductive kind :=
| KSubmit            (* Conn.Submit *)
| KSend              (* Conn.Send *)
| KClose             (* Conn.Close called by the application *)
| KPing              (* the Submit(enquire_link) of the keep-alive loop *)
| KKaClose.          (* the Close the keep-alive loop calls after a failed enquire_link *)

Definition submit_like (k : kind) : bool := match k with KSend => false | _ => true end.
Definition close_like (k : kind) : bool := match k with KClose | KKaClose => true | _ => false end.

(* a decoded PDU as far as Conn looks at it: command_id and sequence_number *)
Definition pdu := (N * Z)%type.

Inductive result :=
| ROk (p : pdu)      (* Submit returned this response, nil error *)
| RSent              (* Send returned nil *)
| RErr.              (* non-nil error *)

Inductive cpc :=
| PNone              (* call not issued *)
| PStarted           (* sequence number stamped / read; nothing shared touched yet *)
| PRegistered        (* waiter is in the pending table, Send not yet at the transport *)
| PWriting           (* transport.Write called with the whole frame: the octets are on the wire; Write has not returned *)
| PWritten           (* legacy order only: Write returned, waiter not yet registered *)
| PWaiting           (* in the select of Submit *)
| PLeaving (r : result)   (* select decided / Send failed; deferred unregister not yet run *)
| PClosing (r : result)   (* Close only: its Submit returned r; transport close and cancel still to do *)
| PReturned (r : result).

Record caller := mkCaller {
  c_kind : kind;
  c_gor : nat;                  (* issuing goroutine *)
  c_seq : Z;                    (* Header.Sequence of the packet *)
  c_frame : outcome bytes;      (* what Send obtains before it calls the transport Write: what pdu.Marshal yields
                                   for the packet — or an error when a configured write deadline could not be set
                                   ([send_prep] in Model/ConnRun.v) *)
  c_pc : cpc;
  c_ctx : bool;                 (* the call's own context is done *)
  c_wrote : bool;               (* ghost: the call reached transport.Write *)
  c_mail : option pdu           (* the call's one-slot [returns] channel *)
}.
Definition no_caller : caller := mkCaller KSend 0 0%Z (Err EOther) PNone false false None.

(* one ReadPDU result as Watch distinguishes them *)
Inductive item :=
| IPdu (p : pdu)     (* decoded without error *)
| IBad (q : Z)       (* registered command_id, body undecodable: (partial pdu, error) *)
| IFatal.            (* nil pdu with an error: bad length, unknown id, truncated frame *)

(* one transport Write call *)
Inductive wrec :=
| WCall (c : nat) (f : bytes)    (* the frame of caller c *)
| WNack (q : Z).                 (* generic_nack issued by Watch for sequence q *)

Inductive wpc_t :=
| WTop               (* loop top, before the ctx.Done() check *)
| WReading           (* past the check, inside ReadPDU *)
| WSending (p : pdu) (* blocked in the send on receiveQueue *)
| WStuck             (* blocked forever inside a waiter callback (legacy D32) *)
| WExited
| WPanicked.         (* send on closed channel *)

Inductive kpc :=
| KOff | KReady | KInPing (c : nat) | KNeedClose | KInClose (c : nat) | KWaitTick | KExited.

Record state := mkState {
  callers : nat -> caller;
  started : list nat;            (* callers in the order their calls were issued *)
  pending : Z -> option nat;     (* Conn.pending: sequence -> waiter (identified by its caller) *)
  inbound : list item;           (* readable, not yet consumed by Watch *)
  in_end : bool;                 (* after [inbound] the transport reports EOF / an error / a timeout *)
  wire : list wrec;              (* transport Write calls in order *)
  wpc : wpc_t;
  app : list pdu;                (* values the application received from PDU() *)
  done : bool;                   (* Conn.ctx is done *)
  queue_closed : bool;           (* receiveQueue closed *)
  transport_closed : bool;       (* parent.Close() was called *)
  ka : kpc;
  ticker_stopped : bool;
  injected : list item;          (* ghost: every frame the peer made readable, in order *)
  taken : list (item * bool)     (* ghost: frames Watch consumed; flag = a waiter took it *)
}.

Record variant := mkVariant {
  v_reg_first : bool;      (* D25 repaired: the waiter is registered before Send *)
  v_oneshot : bool;        (* D32 repaired: Watch removes the entry when it hands the response over *)
  v_watch_closes : bool;   (* D27 repaired: Watch closes the queue on return and its send gives up when ctx is done *)
  v_ka_ctx : bool          (* D28 repaired: the keep-alive loop selects on ctx.Done() *)
}.
Definition fixed : variant := mkVariant true true true true.
Definition legacy_D25 : variant := mkVariant false true true true.
Definition legacy_D32 : variant := mkVariant true false true true.
Definition legacy_D27 : variant := mkVariant true true false true.
Definition legacy_D28 : variant := mkVariant true true true false.
Definition legacy : variant := mkVariant false false false false.

Inductive event :=
| Start (c : nat) (k : kind) (g : nat) (q : Z) (f : outcome bytes)
| Register (c : nat)
| WireWrite (c : nat)
| SendFail (c : nat)
| WriteReturn (c : nat)
| WakeResp (c : nat)
| WakeDone (c : nat)
| WakeCtx (c : nat)
| Unregister (c : nat)
| CloseFinish (c : nat)
| CancelCtx (c : nat)
| CancelParent
| PeerFrame (i : item)
| PeerEnd
| WatchLoop
| WatchStep
| WatchSeeDone
| AppRecv
| KaStart
| KaNext
| Tick
| KaSeeDone.

(* ---------------------------------------------------------------- updates *)
Definition upd {A} (f : nat -> A) (c : nat) (v : A) : nat -> A :=
  fun x => if Nat.eqb x c then v else f x.
Definition updz {A} (f : Z -> A) (q : Z) (v : A) : Z -> A :=
  fun x => if Z.eqb x q then v else f x.

Definition set_callers (s : state) (x : nat -> caller) : state :=
  mkState x (started s) (pending s) (inbound s) (in_end s) (wire s) (wpc s) (app s) (done s)
          (queue_closed s) (transport_closed s) (ka s) (ticker_stopped s) (injected s) (taken s).
Definition set_started (s : state) (x : list nat) : state :=
  mkState (callers s) x (pending s) (inbound s) (in_end s) (wire s) (wpc s) (app s) (done s)
          (queue_closed s) (transport_closed s) (ka s) (ticker_stopped s) (injected s) (taken s).
Definition set_pending (s : state) (x : Z -> option nat) : state :=
  mkState (callers s) (started s) x (inbound s) (in_end s) (wire s) (wpc s) (app s) (done s)
          (queue_closed s) (transport_closed s) (ka s) (ticker_stopped s) (injected s) (taken s).
Definition set_inbound (s : state) (x : list item) : state :=
  mkState (callers s) (started s) (pending s) x (in_end s) (wire s) (wpc s) (app s) (done s)
          (queue_closed s) (transport_closed s) (ka s) (ticker_stopped s) (injected s) (taken s).
Definition set_in_end (s : state) (x : bool) : state :=
  mkState (callers s) (started s) (pending s) (inbound s) x (wire s) (wpc s) (app s) (done s)
          (queue_closed s) (transport_closed s) (ka s) (ticker_stopped s) (injected s) (taken s).
Definition set_wire (s : state) (x : list wrec) : state :=
  mkState (callers s) (started s) (pending s) (inbound s) (in_end s) x (wpc s) (app s) (done s)
          (queue_closed s) (transport_closed s) (ka s) (ticker_stopped s) (injected s) (taken s).
Definition set_wpc (s : state) (x : wpc_t) : state :=
  mkState (callers s) (started s) (pending s) (inbound s) (in_end s) (wire s) x (app s) (done s)
          (queue_closed s) (transport_closed s) (ka s) (ticker_stopped s) (injected s) (taken s).
Definition set_app (s : state) (x : list pdu) : state :=
  mkState (callers s) (started s) (pending s) (inbound s) (in_end s) (wire s) (wpc s) x (done s)
          (queue_closed s) (transport_closed s) (ka s) (ticker_stopped s) (injected s) (taken s).
Definition set_done (s : state) (x : bool) : state :=
  mkState (callers s) (started s) (pending s) (inbound s) (in_end s) (wire s) (wpc s) (app s) x
          (queue_closed s) (transport_closed s) (ka s) (ticker_stopped s) (injected s) (taken s).
Definition set_queue_closed (s : state) (x : bool) : state :=
  mkState (callers s) (started s) (pending s) (inbound s) (in_end s) (wire s) (wpc s) (app s) (done s)
          x (transport_closed s) (ka s) (ticker_stopped s) (injected s) (taken s).
Definition set_transport_closed (s : state) (x : bool) : state :=
  mkState (callers s) (started s) (pending s) (inbound s) (in_end s) (wire s) (wpc s) (app s) (done s)
          (queue_closed s) x (ka s) (ticker_stopped s) (injected s) (taken s).
Definition set_ka (s : state) (x : kpc) : state :=
  mkState (callers s) (started s) (pending s) (inbound s) (in_end s) (wire s) (wpc s) (app s) (done s)
          (queue_closed s) (transport_closed s) x (ticker_stopped s) (injected s) (taken s).
Definition set_ticker_stopped (s : state) (x : bool) : state :=
  mkState (callers s) (started s) (pending s) (inbound s) (in_end s) (wire s) (wpc s) (app s) (done s)
          (queue_closed s) (transport_closed s) (ka s) x (injected s) (taken s).
Definition set_injected (s : state) (x : list item) : state :=
  mkState (callers s) (started s) (pending s) (inbound s) (in_end s) (wire s) (wpc s) (app s) (done s)
          (queue_closed s) (transport_closed s) (ka s) (ticker_stopped s) x (taken s).
Definition set_taken (s : state) (x : list (item * bool)) : state :=
  mkState (callers s) (started s) (pending s) (inbound s) (in_end s) (wire s) (wpc s) (app s) (done s)
          (queue_closed s) (transport_closed s) (ka s) (ticker_stopped s) (injected s) x.

Definition set_pc (cl : caller) (p : cpc) : caller :=
  mkCaller (c_kind cl) (c_gor cl) (c_seq cl) (c_frame cl) p (c_ctx cl) (c_wrote cl) (c_mail cl).
Definition set_ctx (cl : caller) (b : bool) : caller :=
  mkCaller (c_kind cl) (c_gor cl) (c_seq cl) (c_frame cl) (c_pc cl) b (c_wrote cl) (c_mail cl).
Definition set_wrote (cl : caller) (b : bool) : caller :=
  mkCaller (c_kind cl) (c_gor cl) (c_seq cl) (c_frame cl) (c_pc cl) (c_ctx cl) b (c_mail cl).
Definition set_mail (cl : caller) (m : option pdu) : caller :=
  mkCaller (c_kind cl) (c_gor cl) (c_seq cl) (c_frame cl) (c_pc cl) (c_ctx cl) (c_wrote cl) m.

Definition with_caller (s : state) (c : nat) (cl : caller) : state :=
  set_callers s (upd (callers s) c cl).

Definition init : state :=
  mkState (fun _ => no_caller) [] (fun _ => None) [] false [] WTop [] false false false KOff false [] [].

(* ------------------------------------------------------------------ step *)
Definition is_returned (p : cpc) : bool := match p with PReturned _ => true | _ => false end.

(* a goroutine issues its next call only after its previous one returned *)
Definition gor_free (s : state) (g : nat) : bool :=
  forallb (fun c' => negb (Nat.eqb (c_gor (callers s c')) g) || is_returned (c_pc (callers s c'))) (started s).

Definition ka_allows (s : state) (k : kind) : bool :=
  match k, ka s with
  | KPing, KReady => true
  | KPing, _ => false
  | KKaClose, KNeedClose => true
  | KKaClose, _ => false
  | _, _ => true
  end.

(* the keep-alive loop is inside the call it has just issued *)
Definition ka_after (k : kind) (c : nat) (old : kpc) : kpc :=
  match k with KPing => KInPing c | KKaClose => KInClose c | _ => old end.

(* pc at which Send is entered *)
Definition at_send (v : variant) (cl : caller) : bool :=
  match c_pc cl with
  | PRegistered => submit_like (c_kind cl) && v_reg_first v
  | PStarted => negb (submit_like (c_kind cl) && v_reg_first v)
  | _ => false
  end.

(* Send succeeds in handing the frame to the transport *)
Definition can_write (s : state) (cl : caller) : option bytes :=
  if (0 <? c_seq cl)%Z && negb (transport_closed s)
  then match c_frame cl with Ok f => Some f | _ => None end
  else None.

Definition after_call (cl : caller) (r : result) : cpc :=
  if close_like (c_kind cl) then PClosing r else PReturned r.

(* Watch returns: deferred cancel, and (repaired) close of the queue *)
Definition watch_exit (v : variant) (s : state) : state :=
  set_queue_closed (set_done (set_wpc s WExited) true) (v_watch_closes v || queue_closed s).

Definition step (v : variant) (s : state) (e : event) : option state :=
  match e with
  | Start c k g q f =>
    match c_pc (callers s c) with
    | PNone =>
      if gor_free s g && ka_allows s k then
        let s1 := with_caller s c (mkCaller k g q f PStarted false false None) in
        Some (set_ka (set_started s1 (started s ++ [c])) (ka_after k c (ka s)))
      else None
    | _ => None
    end
  | Register c =>
    let cl := callers s c in
    if submit_like (c_kind cl) then
      match c_pc cl, v_reg_first v with
      | PStarted, true =>
        Some (set_pending (with_caller s c (set_pc cl PRegistered)) (updz (pending s) (c_seq cl) (Some c)))
      | PWritten, false =>
        Some (set_pending (with_caller s c (set_pc cl PWaiting)) (updz (pending s) (c_seq cl) (Some c)))
      | _, _ => None
      end
    else None
  | WireWrite c =>
    let cl := callers s c in
    if at_send v cl then
      match can_write s cl with
      | Some f => Some (set_wire (with_caller s c (set_wrote (set_pc cl PWriting) true)) (wire s ++ [WCall c f]))
      | None => None
      end
    else None
  | SendFail c =>
    let cl := callers s c in
    if at_send v cl then
      match can_write s cl with
      | Some _ => None
      | None =>
        Some (with_caller s c (set_pc cl
               (match c_pc cl with
                | PRegistered => PLeaving RErr        (* the deferred unregister runs *)
                | _ => after_call cl RErr
                end)))
      end
    else None
  | WriteReturn c =>
    let cl := callers s c in
    match c_pc cl with
    | PWriting =>
      Some (with_caller s c (set_pc cl
             (if submit_like (c_kind cl) then (if v_reg_first v then PWaiting else PWritten)
              else PReturned RSent)))
    | _ => None
    end
  | WakeResp c =>
    let cl := callers s c in
    match c_pc cl, c_mail cl with
    | PWaiting, Some m => Some (with_caller s c (set_mail (set_pc cl (PLeaving (ROk m))) None))
    | _, _ => None
    end
  | WakeDone c =>
    let cl := callers s c in
    match c_pc cl with
    | PWaiting => if done s then Some (with_caller s c (set_pc cl (PLeaving RErr))) else None
    | _ => None
    end
  | WakeCtx c =>
    let cl := callers s c in
    match c_pc cl with
    | PWaiting => if c_ctx cl then Some (with_caller s c (set_pc cl (PLeaving RErr))) else None
    | _ => None
    end
  | Unregister c =>
    let cl := callers s c in
    match c_pc cl with
    | PLeaving r =>
      Some (set_pending (with_caller s c (set_pc cl (after_call cl r))) (updz (pending s) (c_seq cl) None))
    | _ => None
    end
  | CloseFinish c =>
    let cl := callers s c in
    match c_pc cl with
    | PClosing r =>
      let s1 := with_caller s c (set_pc cl (PReturned r)) in
      let s2 :=
        match r with
        | ROk _ =>
          let s3 :=
            if v_watch_closes v then s1
            else (* legacy: close(receiveQueue) — a sender blocked on it panics *)
              set_queue_closed (match wpc s1 with WSending _ => set_wpc s1 WPanicked | _ => s1 end) true in
          set_transport_closed s3 true
        | _ => s1
        end in
      Some (set_done s2 true)
    | _ => None
    end
  | CancelCtx c =>
    let cl := callers s c in
    match c_pc cl with
    | PNone => None
    | _ => Some (with_caller s c (set_ctx cl true))
    end
  | CancelParent => Some (set_done s true)
  | PeerFrame i =>
    if in_end s then None
    else Some (set_injected (set_inbound s (inbound s ++ [i])) (injected s ++ [i]))
  | PeerEnd => Some (set_in_end s true)
  | WatchLoop =>
    match wpc s with
    | WTop => Some (if done s then watch_exit v s else set_wpc s WReading)
    | _ => None
    end
  | WatchStep =>
    match wpc s with
    | WReading =>
      if transport_closed s then Some (watch_exit v s)
      else
        match inbound s with
        | [] => if in_end s then Some (watch_exit v s) else None
        | i :: rest =>
          let s0 := set_inbound s rest in
          match i with
          | IFatal => Some (watch_exit v (set_taken s0 (taken s ++ [(i, false)])))
          | IBad q =>
            let s1 := set_taken s0 (taken s ++ [(i, false)]) in
            Some (set_wpc (if (0 <? q)%Z then set_wire s1 (wire s ++ [WNack q]) else s1) WTop)
          | IPdu p =>
            match pending s (snd p) with
            | Some c =>
              let cl := callers s c in
              let s1 := set_taken s0 (taken s ++ [(i, true)]) in
              let s2 := if v_oneshot v then set_pending s1 (updz (pending s) (snd p) None) else s1 in
              match c_mail cl with
              | None => Some (set_wpc (with_caller s2 c (set_mail cl (Some p))) WTop)
              | Some _ => Some (set_wpc s2 WStuck)     (* the waiter's channel is full: the send blocks *)
              end
            | None =>
              let s1 := set_taken s0 (taken s ++ [(i, false)]) in
              if queue_closed s then Some (set_wpc s1 WPanicked)
              else Some (set_wpc s1 (WSending p))
            end
          end
        end
    | _ => None
    end
  | WatchSeeDone =>
    match wpc s with
    | WSending _ => if done s && v_watch_closes v then Some (watch_exit v s) else None
    | _ => None
    end
  | AppRecv =>
    match wpc s with
    | WSending p => Some (set_wpc (set_app s (app s ++ [p])) WTop)
    | _ => None
    end
  | KaStart =>
    match ka s with KOff => Some (set_ka s KReady) | _ => None end
  | KaNext =>
    match ka s with
    | KInPing c =>
      match c_pc (callers s c) with
      | PReturned (ROk _) => Some (set_ka s KWaitTick)
      | PReturned _ => Some (set_ka (set_ticker_stopped s true) KNeedClose)
      | _ => None
      end
    | KInClose c =>
      match c_pc (callers s c) with
      | PReturned _ => Some (set_ka s KWaitTick)
      | _ => None
      end
    | _ => None
    end
  | Tick =>
    match ka s with
    | KWaitTick => if ticker_stopped s then None else Some (set_ka s KReady)
    | _ => None
    end
  | KaSeeDone =>
    match ka s with
    | KWaitTick => if done s && v_ka_ctx v then Some (set_ka s KExited) else None
    | _ => None
    end
  end.

Fixpoint run (v : variant) (s : state) (t : list event) : option state :=
  match t with
  | [] => Some s
  | e :: r => match step v s e with Some s' => run v s' r | None => None end
  end.

Definition reachable (v : variant) (s : state) : Prop := exists t, run v init t = Some s.

(* ----------------------------------------------------------- observation *)
(* what the property texts mention and the harness can see from outside *)
Inductive cres := CBlocked | CRet (r : result).
(* Close returns only an error value: which unbind_resp it saw is not visible *)
Definition project (k : kind) (r : result) : result :=
  if close_like k then match r with ROk _ => RSent | _ => r end else r.
Definition caller_res (s : state) (c : nat) : cres :=
  match c_pc (callers s c) with PReturned r => CRet (project (c_kind (callers s c)) r) | _ => CBlocked end.
(* the calls the keep-alive loop makes internally return nothing to the outside *)
Definition visible (s : state) (c : nat) : bool :=
  match c_kind (callers s c) with KPing | KKaClose => false | _ => true end.

Definition watch_code (s : state) : N :=
  match wpc s with WExited => 1 | WPanicked => 2 | _ => 0 end.
Definition ka_code (s : state) : N :=
  match ka s with KOff => 0 | KExited => 2 | _ => 1 end.

Record obs := mkObs {
  o_calls : list (nat * cres);   (* every issued call, in issue order *)
  o_app : list pdu;              (* PDU() deliveries in order *)
  o_wire : list wrec;            (* transport Write calls in order *)
  o_watch : N;                   (* 0 running, 1 returned, 2 panicked *)
  o_done : bool;                 (* Done() closed *)
  o_ka : N                       (* 0 not started, 1 running, 2 returned *)
}.
Definition call_list (s : state) : list (nat * cres) :=
  map (fun c => (c, caller_res s c)) (filter (visible s) (started s)).
Definition observe (s : state) : obs :=
  mkObs (call_list s) (app s) (wire s) (watch_code s) (done s) (ka_code s).

(* the snapshot compared after every forced group of events *)
Definition snap := (list (nat * cres) * N * N * N * bool)%type.
Definition snapshot (s : state) : snap :=
  (filter (fun x => match snd x with CRet _ => true | CBlocked => false end) (call_list s),
   N.of_nat (List.length (app s)), N.of_nat (List.length (wire s)), watch_code s, done s).

(* ------------------------------------------- forced schedules (harness) *)
(* The harness forces the boundary events (issue a call, let a transport
   Write return, make octets readable, end the stream, cancel a context, let
   the application receive) and after each of them waits until every library
   goroutine is blocked.  [settle] is the model of that wait: it runs the
   events no outside party controls until none is enabled.  It only ever
   calls [step]. *)
Definition internal_events (auto_app : bool) (s : state) : list event :=
  [WatchLoop; WatchStep] ++ (if auto_app then [AppRecv] else [WatchSeeDone]) ++
  flat_map (fun c => [Register c; WireWrite c; SendFail c; WakeResp c; WakeDone c; WakeCtx c;
                      Unregister c; CloseFinish c]) (started s)
  ++ [KaNext; KaSeeDone].

Fixpoint first_enabled (v : variant) (s : state) (evs : list event) : option (event * state) :=
  match evs with
  | [] => None
  | e :: r => match step v s e with Some s' => Some (e, s') | None => first_enabled v s r end
  end.

Fixpoint settle (v : variant) (auto_app : bool) (fuel : nat) (s : state) (tr : list event)
  : state * list event * bool :=
  match fuel with
  | O => (s, tr, false)
  | S f =>
    match first_enabled v s (internal_events auto_app s) with
    | None => (s, tr, true)
    | Some (e, s') => settle v auto_app f s' (tr ++ [e])
    end
  end.

Definition settle_fuel : nat := 400.

(* one forced group: events applied back to back (the octets of several
   frames made readable at once; a call that begins because another returned).
   The forced events of a group are applied as early as they are enabled; the
   system settles when the next one is not yet enabled and at the end. *)
Fixpoint run_group (v : variant) (auto_app : bool) (evs : list event) (s : state) (tr : list event)
  : option (state * list event) :=
  match evs with
  | [] =>
    let '(s2, tr2, ok) := settle v auto_app settle_fuel s tr in
    if ok then Some (s2, tr2) else None
  | e :: r =>
    match step v s e with
    | Some s1 => run_group v auto_app r s1 (tr ++ [e])
    | None =>
      let '(s2, tr2, ok) := settle v auto_app settle_fuel s tr in
      if ok then
        match step v s2 e with
        | Some s3 => run_group v auto_app r s3 (tr2 ++ [e])
        | None => None
        end
      else None
    end
  end.

(* result: final state, snapshots after each forced group, the full trace taken *)
Fixpoint run_sched (v : variant) (auto_app : bool) (gs : list (list event)) (s : state)
         (snaps : list snap) (tr : list event) : option (state * list snap * list event) :=
  match gs with
  | [] => Some (s, snaps, tr)
  | g :: r =>
    match run_group v auto_app g s tr with
    | None => None
    | Some (s2, tr2) => run_sched v auto_app r s2 (snaps ++ [snapshot s2]) tr2
    end
  end.

Definition sched (v : variant) (auto_app : bool) (gs : list (list event)) : option (state * list snap * list event) :=
  let '(s0, tr0, ok) := settle v auto_app settle_fuel init [] in
  if ok then run_sched v auto_app gs s0 [] tr0 else None.

(* every schedule the harness runs is an ordinary trace of [step] *)
Definition sched_trace (v : variant) (auto_app : bool) (gs : list (list event)) : list event :=
  match sched v auto_app gs with Some (_, _, tr) => tr | None => [] end.

(* ------------------------------------------------------ boolean equality *)
Definition beq_pdu (a b : pdu) : bool := (fst a =? fst b) && (snd a =? snd b)%Z.
Definition beq_result (a b : result) : bool :=
  match a, b with
  | ROk x, ROk y => beq_pdu x y
  | RSent, RSent | RErr, RErr => true
  | _, _ => false
  end.
Definition beq_cres (a b : cres) : bool :=
  match a, b with
  | CBlocked, CBlocked => true
  | CRet x, CRet y => beq_result x y
  | _, _ => false
  end.
Definition beq_wrec (a b : wrec) : bool :=
  match a, b with
  | WCall c f, WCall d g => Nat.eqb c d && beq_bytes f g
  | WNack p, WNack q => (p =? q)%Z
  | _, _ => false
  end.
Definition beq_call (a b : nat * cres) : bool := Nat.eqb (fst a) (fst b) && beq_cres (snd a) (snd b).
Definition beq_obs (a b : obs) : bool :=
  beq_list beq_call (o_calls a) (o_calls b) && beq_list beq_pdu (o_app a) (o_app b)
  && beq_list beq_wrec (o_wire a) (o_wire b) && (o_watch a =? o_watch b)
  && Bool.eqb (o_done a) (o_done b) && (o_ka a =? o_ka b).
Definition beq_snap (a b : snap) : bool :=
  let '(ca, aa, wa, ta, da) := a in
  let '(cb, ab, wb, tb, db) := b in
  beq_list beq_call ca cb && (aa =? ab) && (wa =? wb) && (ta =? tb) && Bool.eqb da db.

(* the generated cases: the model, driven through the same forced events,
   shows the same snapshots after every event and the same final observation *)
Definition sched_matches (v : variant) (auto_app : bool) (evs : list (list event))
           (snaps : list snap) (final : obs) : bool :=
  match sched v auto_app evs with
  | Some (s, sn, _) => beq_list beq_snap sn snaps && beq_obs (observe s) final
  | None => false
  end.

(* ------------------------------ schedules with unresolved internal choices *)
(* The properties do not decide every internal step.  Three choices are left
   open by them and are resolved by the Go runtime or by an implementation
   detail; the tie must accept each resolution:
     R1  a Submit whose select finds both its response and a closed context
         (its own or the connection's) ready may leave through either case;
     R2  a call that is about to hand its frame to the transport while another
         caller's transport Write is still open, or while another caller is
         about to do the same, may do so at once or later (a write lock around
         Send is allowed, and it need not be fair);
     R3  Watch handing a PDU to a receiving application after Done() closed
         may complete the hand-over or give it up.
   [settle_nd] runs the internal events like [settle] but returns every
   quiescent state these choices lead to, each with the trace taken; the
   snapshot the harness took after the forced group selects among them.  It
   only ever calls [step]: every candidate is an ordinary run of the LTS
   (Proofs/ConnSched.v, [sched_nd_sound]). *)
Definition racing (s : state) (c : nat) : bool :=
  match c_pc (callers s c), c_mail (callers s c) with
  | PWaiting, Some _ => done s || c_ctx (callers s c)
  | _, _ => false
  end.
(* another caller's transport Write is open, or another caller is about to hand
   its frame to the transport as well (which of two waiting senders goes first
   is not decided by any property) *)
Definition write_open (v : variant) (s : state) (c : nat) : bool :=
  existsb (fun d => negb (Nat.eqb d c) &&
                    match c_pc (callers s d) with PWriting | PStarted | PRegistered => true | _ => false end)
          (started s).

Definition internal_events_skip (auto_app : bool) (skip : list nat) (s : state) : list event :=
  [WatchLoop; WatchStep] ++ (if auto_app then [AppRecv] else [WatchSeeDone]) ++
  flat_map (fun c => (if existsb (Nat.eqb c) skip then [] else [WireWrite c; SendFail c]) ++
                     [Register c; WakeResp c; WakeDone c; WakeCtx c; Unregister c; CloseFinish c]) (started s)
  ++ [KaNext; KaSeeDone].

Definition cand := (state * list event)%type.

Definition alt_step (v : variant) (s : state) (tr : list event) (evs : list event) : list cand :=
  match first_enabled v s evs with Some (e, s') => [(s', tr ++ [e])] | None => [] end.

(* [lazy]: the wait is an intermediate one inside a forced group (the next forced
   event is not yet enabled): further events of the same group may still bring
   competitors, so every hand-over to the transport may be left for the wait
   that ends the group. *)
Fixpoint settle_nd (v : variant) (auto_app : bool) (lazy : bool) (target : list Z) (fuel : nat) (skip : list nat) (p : cand) : list cand :=
  match fuel with
  | O => []
  | S f =>
    let '(s, tr) := p in
    match first_enabled v s (internal_events_skip auto_app skip s) with
    | None => [p]
    | Some (e, s') =>
      match e with
      | WireWrite c =>
        (* R2, guided by what the transport showed after this forced group ([target]: whose frames are on
           the wire, in order): the call hands its frame over now iff it is the next one there; otherwise it waits,
           if waiting is allowed (no enumeration of the subsets of waiting senders) *)
        let later := if lazy || write_open v s c then settle_nd v auto_app lazy target f (c :: skip) p else [] in
        match nth_error target (List.length (wire s)) with
        | Some id => if (id =? Z.of_nat c)%Z then settle_nd v auto_app lazy target f skip (s', tr ++ [e]) else later
        | None => later
        end
      | _ =>
        settle_nd v auto_app lazy target f skip (s', tr ++ [e]) ++
        match e with
        | WakeResp c =>
          if racing s c then flat_map (settle_nd v auto_app lazy target f skip) (alt_step v s tr [WakeDone c; WakeCtx c]) else []
        | SendFail c =>     (* (a Send that fails may find that out only once it has the transport) *)
          if lazy || write_open v s c then settle_nd v auto_app lazy target f (c :: skip) p else []
        | AppRecv =>
          if done s then flat_map (settle_nd v auto_app lazy target f skip) (alt_step v s tr [WatchSeeDone]) else []
        | _ => []
        end
      end
    end
  end.

(* Different resolutions often meet in the same state; candidates are compared
   on everything [step] reads except the pending table (which the callers'
   program counters determine) and one of each kind is kept.  Dropping a
   candidate can only make [sched_admits] false, never true. *)
Definition beq_opt_pdu (a b : option pdu) : bool :=
  match a, b with Some x, Some y => beq_pdu x y | None, None => true | _, _ => false end.
Definition beq_cpc (a b : cpc) : bool :=
  match a, b with
  | PNone, PNone | PStarted, PStarted | PRegistered, PRegistered | PWriting, PWriting
  | PWritten, PWritten | PWaiting, PWaiting => true
  | PLeaving x, PLeaving y | PClosing x, PClosing y | PReturned x, PReturned y => beq_result x y
  | _, _ => false
  end.
Definition beq_wpc (a b : wpc_t) : bool :=
  match a, b with
  | WTop, WTop | WReading, WReading | WStuck, WStuck | WExited, WExited | WPanicked, WPanicked => true
  | WSending p, WSending q => beq_pdu p q
  | _, _ => false
  end.
Definition beq_kpc (a b : kpc) : bool :=
  match a, b with
  | KOff, KOff | KReady, KReady | KNeedClose, KNeedClose | KWaitTick, KWaitTick | KExited, KExited => true
  | KInPing c, KInPing d | KInClose c, KInClose d => Nat.eqb c d
  | _, _ => false
  end.
Definition wire_ids (s : state) : list Z :=
  map (fun w => match w with WCall c _ => Z.of_nat c | WNack q => (-1 - Z.abs q)%Z end) (wire s).
Definition same_state (a b : state) : bool :=
  beq_list Nat.eqb (started a) (started b) &&
  forallb (fun c => beq_cpc (c_pc (callers a c)) (c_pc (callers b c)) &&
                    beq_opt_pdu (c_mail (callers a c)) (c_mail (callers b c)) &&
                    Bool.eqb (c_ctx (callers a c)) (c_ctx (callers b c))) (started a) &&
  beq_list Z.eqb (wire_ids a) (wire_ids b) &&
  (N.of_nat (List.length (inbound a)) =? N.of_nat (List.length (inbound b))) &&
  beq_list beq_pdu (app a) (app b) && beq_wpc (wpc a) (wpc b) && Bool.eqb (done a) (done b) &&
  Bool.eqb (in_end a) (in_end b) && Bool.eqb (queue_closed a) (queue_closed b) &&
  Bool.eqb (transport_closed a) (transport_closed b) && beq_kpc (ka a) (ka b) &&
  Bool.eqb (ticker_stopped a) (ticker_stopped b).
Definition dedup (cs : list cand) : list cand :=
  fold_left (fun acc p => if existsb (fun q => same_state (fst q) (fst p)) acc then acc else acc ++ [p]) cs [].

Fixpoint run_group_nd (v : variant) (auto_app : bool) (target : list Z) (evs : list event) (p : cand) : list cand :=
  match evs with
  | [] => settle_nd v auto_app false target settle_fuel [] p
  | e :: r =>
    match step v (fst p) e with
    | Some s1 => run_group_nd v auto_app target r (s1, snd p ++ [e])
    | None =>
      flat_map (fun p2 => match step v (fst p2) e with
                          | Some s3 => run_group_nd v auto_app target r (s3, snd p2 ++ [e])
                          | None => []
                          end) (dedup (settle_nd v auto_app true target settle_fuel [] p))
    end
  end.

(* the snapshot compared by the search also says WHOSE frames have reached the
   transport so far, in order (the octets on the wire are an observable of C14;
   without it a wrong guess about which waiting sender went first would survive
   until the final observation and multiply) *)
Definition snap2 := (snap * list Z)%type.
Definition snapshot2 (s : state) : snap2 := (snapshot s, wire_ids s).
Definition beq_snap2 (a b : snap2) : bool := beq_snap (fst a) (fst b) && beq_list Z.eqb (snd a) (snd b).

(* candidates that showed every snapshot the harness took *)
Fixpoint run_sched_nd (v : variant) (auto_app : bool) (gs : list (list event)) (snaps : list snap2) (cs : list cand) : list cand :=
  match gs, snaps with
  | [], [] => cs
  | g :: gr, sn :: sr =>
    run_sched_nd v auto_app gr sr
      (dedup (filter (fun p => beq_snap2 (snapshot2 (fst p)) sn) (flat_map (run_group_nd v auto_app (snd sn) g) cs)))
  | _, _ => []
  end.

(* the run of the model that shows the snapshots and the final observation, if there is one *)
Definition sched_nd (v : variant) (auto_app : bool) (gs : list (list event)) (snaps : list snap2) (final : obs) : option cand :=
  find (fun p => beq_obs (observe (fst p)) final)
       (run_sched_nd v auto_app gs snaps (settle_nd v auto_app false [] settle_fuel [] (init, []))).

(* the generated cases: what the implementation showed after every forced event
   and at the end is what ONE of the runs the model admits for these forced events shows *)
Definition sched_admits (v : variant) (auto_app : bool) (evs : list (list event)) (snaps : list snap2) (final : obs) : bool :=
  match sched_nd v auto_app evs snaps final with Some _ => true | None => false end.

(* ------------------------------------------- the peer and callers of C05 *)
(* Executable form of the hypotheses of C05 on the next event (see env_ok in
   Proofs/ConnC05.v, which this implies on reachable states): Submit callers
   draw positive, pairwise distinct sequence numbers the peer has not used;
   the peer sends a PDU carrying the sequence number of a request at most
   once and only after the request's frame reached the transport. *)
Definition item_seqs (l : list item) : list Z :=
  flat_map (fun i => match i with IPdu p => [snd p] | _ => [] end) l.
Definition usedb (s : state) (q : Z) : bool :=
  existsb (fun c => submit_like (c_kind (callers s c)) && (c_seq (callers s c) =? q)%Z) (started s).
Definition answeredb (s : state) (q : Z) : bool := existsb (Z.eqb q) (item_seqs (injected s)).
Definition env_okb (s : state) (e : event) : bool :=
  match e with
  | Start c k g q f =>
    negb (submit_like k) || ((0 <? q)%Z && negb (usedb s q) && negb (answeredb s q))
  | PeerFrame (IPdu p) =>
    negb (usedb s (snd p)) ||
    (negb (answeredb s (snd p)) &&
     forallb (fun c => negb (submit_like (c_kind (callers s c)) && (c_seq (callers s c) =? snd p)%Z)
                       || c_wrote (callers s c)) (started s))
  | _ => true
  end.
Fixpoint erunb (v : variant) (s : state) (t : list event) : option state :=
  match t with
  | [] => Some s
  | e :: r => if env_okb s e then match step v s e with Some s' => erunb v s' r | None => None end else None
  end.
(* a forced schedule stays within the hypotheses of C05 *)
Definition sched_env_ok (v : variant) (auto_app : bool) (gs : list (list event)) : bool :=
  match sched v auto_app gs with
  | Some (_, _, tr) => match erunb v init tr with Some _ => true | None => false end
  | None => false
  end.
(* the same for the run [sched_nd] selects *)
Definition sched_env_admits (v : variant) (auto_app : bool) (gs : list (list event)) (snaps : list snap2) (final : obs) : bool :=
  match sched_nd v auto_app gs snaps final with
  | Some (_, tr) => match erunb v init tr with Some _ => true | None => false end
  | None => false
  end.
