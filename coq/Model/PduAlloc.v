(* Octets the decoders request with make([]byte, n) during one ReadPDU call:
   the body buffer (pdu/pdu.go), every TLV value (pdu/tag.go), every UDH
   element and the message buffer (pdu/udh.go, pdu/message.go).  The sizes come
   from the wire BEFORE the octets are read, which is what makes a bound worth
   proving.  Control flow is that of the decoders in Model/Pdu.v (the
   continuation after each field is computed by [dec_field] itself). *)
From V Require Export Model.Pdu.
Open Scope N_scope.

Fixpoint alloc_tags_loop (fuel : nat) (s : bytes) : N :=
  match s with
  | t0 :: t1 :: l0 :: l1 :: r =>
    match fuel with
    | O => 0
    | S fuel' =>
      let n := de16 l0 l1 in
      n + (if n =? 0 then alloc_tags_loop fuel' r
           else match r with
                | [] => 0
                | _ => if n <=? len r then alloc_tags_loop fuel' (skipn (N.to_nat n) r) else 0
                end)
    end
  | _ => 0
  end.
Definition alloc_tags (s : bytes) : N := alloc_tags_loop (List.length s) s.

Fixpoint alloc_udh_loop (fuel : nat) (rem : N) (s : bytes) : N :=
  if rem =? 0 then 0 else
  match fuel with
  | O => 0
  | S fuel' =>
    match s with
    | _ :: size :: r => size + (if size <=? len r then alloc_udh_loop fuel' (rem - (2 + size)) (skipn (N.to_nat size) r) else 0)
    | _ => 0
    end
  end.

Definition alloc_short (rep active : bool) (s : bytes) : N :=
  let s0 := if rep then Some s else match s with [] => None | _ :: r => Some r end in
  match s0 with
  | Some (_ :: l :: s2) =>
    if active then
      match s2 with
      | [] => 0
      | udhl :: s3 =>
        alloc_udh_loop (N.to_nat udhl) udhl s3 +
        match dec_udh s2 with
        | Ok (m, _) => (l + 256 - udh_len m mod 256) mod 256
        | _ => 0
        end
      end
    else l
  | _ => 0
  end.

Definition alloc_field (lay : layout) (udhi : bool) (k : fkind) (s : bytes) : N :=
  match k with
  | FTags => alloc_tags s
  | FShortMsg => alloc_short (l_replace lay) (negb (l_replace lay) && l_has_esm lay && udhi) s
  | _ => 0
  end.

Fixpoint alloc_fields (lay : layout) (ks : list fkind) (s : bytes) (udhi : bool) : N :=
  match ks with
  | [] => 0
  | k :: ks' =>
    alloc_field lay udhi k s +
    match dec_field lay udhi k s with
    | Ok (v, r) => alloc_fields lay ks' r (match v with VEsm e => e_udhi e | _ => udhi end)
    | _ => 0
    end
  end.

Definition alloc_unmarshal (lay : layout) (frame : bytes) : N :=
  match l_fields lay with
  | FHeader :: ks =>
    match dec_header frame with
    | Ok (h, r) => if negb (h_status h =? 0) then 0 else alloc_fields lay ks r false
    | _ => 0
    end
  | _ => 0
  end.

(* one ReadPDU call: nothing before the header is accepted; then the body buffer; then the decoders *)
Definition read_pdu_alloc (layouts : list layout) (st : stream) : N :=
  match read_full 16 st with
  | RfOk hd rest =>
    match dec_header hd with
    | Ok (h, _) =>
      (h_len h - 16) +
      match read_full (N.to_nat (h_len h - 16)) rest with
      | RfOk body _ =>
        match find_layout layouts (h_id h) with
        | Some lay => alloc_unmarshal lay (hd ++ body)
        | None => 0
        end
      | _ => 0
      end
    | _ => 0
    end
  | _ => 0
  end.
