(* Executable model of the multipart combiner pdu/message_multipart.go
   (CombineMultipartDeliverSM) and of UserDataHeader.ConcatenatedHeader
   (pdu/udh.go), as the code is after the fix: commits for D7, D8 and D9
   recorded in KNOWN_FINDINGS.txt.  The pre-repair code is kept next to it as
   [..._legacy] functions; the ..._refuted lemmas are about those.
   No proofs in this file.

   Every Go index expression ([data[i]], [parts[Sequence-1]]) and slice
   expression ([data[0:2]]) is a bounds-checked operation that yields [Panic]
   out of range.  The byte arithmetic of [Sequence-1] is written [mod 256]. *)
From V Require Export Model.Base Model.Pdu.
Open Scope N_scope.

(* ------------------------------------------------------------ the input *)
(* What the combiner reads of a *DeliverSM: the two addresses and the user
   data header of the short message ([None] = nil map).  [d_id] is the
   identity of the PDU (Go: the pointer); the harness numbers the PDUs of a
   history 1, 2, 3 ... *)
Record dsm := { d_id : N; d_src : addr; d_dst : addr; d_udh : option kvs }.

Record concat := { c_ref : N; c_total : N; c_seq : N }.

(* data[i] *)
Definition idx (d : bytes) (i : nat) : outcome N :=
  match nth_error d i with Some x => Ok x | None => Panic end.

(* h[id] on a Go map (a nil map reads as empty) *)
Fixpoint kv_lookup (k : N) (m : kvs) : option bytes :=
  match m with
  | [] => None
  | (k', v) :: r => if k =? k' then Some v else kv_lookup k r
  end.

(* &ConcatenatedHeader{Reference: uint16(data[0]), TotalParts: data[1], Sequence: data[2]} *)
Definition concat_of_ie0 (d : bytes) : outcome concat :=
  do r <- idx d 0; do t <- idx d 1; do s <- idx d 2;
  Ok {| c_ref := r; c_total := t; c_seq := s |}.

(* &ConcatenatedHeader{Reference: binary.BigEndian.Uint16(data[0:2]), TotalParts: data[2], Sequence: data[3]}
   data[0:2] panics when cap(data) < 2; a decoded element has cap = len. *)
Definition concat_of_ie8 (d : bytes) : outcome concat :=
  if len d <? 2 then Panic else
  do a <- idx d 0; do b <- idx d 1; do t <- idx d 2; do s <- idx d 3;
  Ok {| c_ref := de16 a b; c_total := t; c_seq := s |}.

Definition udh_map (u : option kvs) : kvs := match u with Some m => m | None => [] end.

(* UserDataHeader.ConcatenatedHeader (after D7): an element shorter than its
   format is not a concatenation header *)
Definition concat_ie8_branch (m : kvs) : outcome (option concat) :=
  match kv_lookup 8 m with
  | Some d => if 4 <=? len d then (do c <- concat_of_ie8 d; Ok (Some c)) else Ok None
  | None => Ok None
  end.
Definition concatenated_header (u : option kvs) : outcome (option concat) :=
  let m := udh_map u in
  match kv_lookup 0 m with
  | Some d => if 3 <=? len d then (do c <- concat_of_ie0 d; Ok (Some c)) else concat_ie8_branch m
  | None => concat_ie8_branch m
  end.

(* the code before D7: no length tests *)
Definition concatenated_header_legacy (u : option kvs) : outcome (option concat) :=
  let m := udh_map u in
  match kv_lookup 0 m with
  | Some d => do c <- concat_of_ie0 d; Ok (Some c)
  | None =>
    match kv_lookup 8 m with
    | Some d => do c <- concat_of_ie8 d; Ok (Some c)
    | None => Ok None
    end
  end.

(* ------------------------------------------------------------- the key *)
(* multipartID{p.SourceAddr, p.DestAddr, header.Reference}: a comparable Go
   struct; map-key equality is field by field, strings octet by octet *)
Record ckey := { k_src : addr; k_dst : addr; k_ref : N }.
Definition key_of (p : dsm) (c : concat) : ckey :=
  {| k_src := d_src p; k_dst := d_dst p; k_ref := c_ref c |}.
Definition beq_key (a b : ckey) : bool :=
  beq_addr (k_src a) (k_src b) && beq_addr (k_dst a) (k_dst b) && (k_ref a =? k_ref b).

(* the key before D9: fmt.Sprint(src.TON, src.NPI, src.No, dst.TON, dst.NPI, dst.No, ref).
   Sprint puts a space between two operands only when neither is a string. *)
Fixpoint dec_digits_fuel (fuel : nat) (n : N) (acc : bytes) : bytes :=
  match fuel with
  | O => acc
  | S f => let acc' := (48 + n mod 10) :: acc in
           if n <? 10 then acc' else dec_digits_fuel f (n / 10) acc'
  end.
Definition dec_digits (n : N) : bytes := dec_digits_fuel (S (N.to_nat (N.log2 n))) n [].
Definition legacy_key (src dst : addr) (ref : N) : bytes :=
  dec_digits (a_ton src) ++ [32] ++ dec_digits (a_npi src) ++ a_no src ++
  dec_digits (a_ton dst) ++ [32] ++ dec_digits (a_npi dst) ++ a_no dst ++
  dec_digits ref.

(* ------------------------------------------------------------ registry *)
Definition slots := list (option dsm).       (* []*DeliverSM, nil = None *)
Definition callback := slots.                (* the slice handed to on() *)

Definition slen (l : slots) : N := N.of_nat (List.length l).

(* a Go map as association list with an explicit key equality; at most one
   entry per key is reachable through [lookup] *)
Fixpoint lookup {K} (eqb : K -> K -> bool) (k : K) (r : list (K * slots)) : option slots :=
  match r with
  | [] => None
  | (k', l) :: t => if eqb k k' then Some l else lookup eqb k t
  end.
Fixpoint remove {K} (eqb : K -> K -> bool) (k : K) (r : list (K * slots)) : list (K * slots) :=
  match r with
  | [] => []
  | (k', l) :: t => if eqb k k' then remove eqb k t else (k', l) :: remove eqb k t
  end.
Definition store {K} (eqb : K -> K -> bool) (k : K) (l : slots) (r : list (K * slots)) :=
  (k, l) :: remove eqb k r.

Definition registry := list (ckey * slots).

(* parts[i] = p *)
Fixpoint put (i : nat) (x : dsm) (l : slots) : outcome slots :=
  match l, i with
  | [], _ => Panic
  | _ :: r, O => Ok (Some x :: r)
  | y :: r, S j => do r' <- put j x r; Ok (y :: r')
  end.

Definition filled (o : option dsm) : bool := match o with Some _ => true | None => false end.
Definition full (l : slots) : bool := forallb filled l.          (* isDone *)

(* the test that lets a segment into the slot array (after D8) *)
Definition accept (c : concat) (cur : slots) : bool :=
  negb ((c_seq c =? 0) || (c_total c <? c_seq c) || negb (c_total c =? slen cur)).
(* header.Sequence-1 on a byte, used as index *)
Definition slot_ix (c : concat) : nat := N.to_nat ((c_seq c + 255) mod 256).
Definition fresh (c : concat) : slots := repeat None (N.to_nat (c_total c)).   (* make([]*DeliverSM, TotalParts) *)

(* one call of the function returned by CombineMultipartDeliverSM:
   new registry and the callback invocations it made, in order *)
Definition cstep (r : registry) (p : dsm) : outcome (registry * list callback) :=
  do h <- concatenated_header (d_udh p);
  match h with
  | None => Ok (r, [[Some p]])
  | Some c =>
    let k := key_of p c in
    let parts := match lookup beq_key k r with Some l => l | None => fresh c end in
    if accept c parts then
      do parts' <- put (slot_ix c) p parts;
      if full parts' then Ok (remove beq_key k r, [parts'])
      else Ok (store beq_key k parts' r, [])
    else Ok (r, [])
  end.

(* a whole arrival history: final registry and, per input, the callbacks made
   during that call (position in the list = timing) *)
Fixpoint crun (r : registry) (h : list dsm) : outcome (registry * list (list callback)) :=
  match h with
  | [] => Ok (r, [])
  | p :: t =>
    do (r1, o1) <- cstep r p;
    do (r2, o2) <- crun r1 t;
    Ok (r2, o1 :: o2)
  end.

(* ------------------------------------------ the code before D8 and D9 *)
Definition lregistry := list (bytes * slots).
Definition count_filled (l : slots) : N := N.of_nat (List.length (filter filled l)).
(* isDone(id, total byte): total-- for every non-nil slot, then total == 0 *)
Definition is_done_legacy (l : slots) (total : N) : bool := (count_filled l) mod 256 =? total mod 256.

Definition cstep_legacy (r : lregistry) (p : dsm) : outcome (lregistry * list callback) :=
  do h <- concatenated_header (d_udh p);
  match h with
  | None => Ok (r, [[Some p]])
  | Some c =>
    let k := legacy_key (d_src p) (d_dst p) (c_ref c) in
    let parts := match lookup beq_bytes k r with Some l => l | None => fresh c end in
    do parts' <- put (slot_ix c) p parts;
    if is_done_legacy parts' (c_total c) then Ok (remove beq_bytes k r, [parts'])
    else Ok (store beq_bytes k parts' r, [])
  end.
Fixpoint crun_legacy (r : lregistry) (h : list dsm) : outcome (lregistry * list (list callback)) :=
  match h with
  | [] => Ok (r, [])
  | p :: t =>
    do (r1, o1) <- cstep_legacy r p;
    do (r2, o2) <- crun_legacy r1 t;
    Ok (r2, o1 :: o2)
  end.

(* --------------------------------- single-message reference combiner *)
(* State: the slot array of the one message in progress, if any.  It knows
   nothing about keys; C10's projection theorem says the keyed combiner on an
   interleaved history behaves, for each key, like this machine on the
   sub-history of that key. *)
Definition hdr (p : dsm) : option concat :=
  match concatenated_header (d_udh p) with Ok o => o | _ => None end.
Definition seg_key (p : dsm) : option ckey :=
  match hdr p with Some c => Some (key_of p c) | None => None end.

Fixpoint put_pure (i : nat) (x : dsm) (l : slots) : slots :=
  match l, i with
  | [], _ => []
  | _ :: r, O => Some x :: r
  | y :: r, S j => y :: put_pure j x r
  end.

Definition sstep (st : option slots) (p : dsm) : option slots * list callback :=
  match hdr p with
  | None => (st, [])
  | Some c =>
    let cur := match st with Some l => l | None => fresh c end in
    if accept c cur then
      let cur' := put_pure (slot_ix c) p cur in
      if full cur' then (None, [cur']) else (Some cur', [])
    else (st, [])
  end.
Fixpoint srun (st : option slots) (h : list dsm) : option slots * list (list callback) :=
  match h with
  | [] => (st, [])
  | p :: t =>
    let '(st1, o1) := sstep st p in
    let '(st2, o2) := srun st1 t in (st2, o1 :: o2)
  end.

Definition has_key (k : ckey) (p : dsm) : bool :=
  match seg_key p with Some k' => beq_key k' k | None => false end.
Definition hist_key (k : ckey) (h : list dsm) : list dsm := filter (has_key k) h.
(* the outputs of the steps of [h] whose input belongs to [k] *)
Definition outputs_at (k : ckey) (h : list dsm) (outs : list (list callback)) : list (list callback) :=
  map snd (filter (fun po => has_key k (fst po)) (combine h outs)).

(* --------------------------------------- observation used by the cases *)
Definition slot_id (o : option dsm) : N := match o with Some p => d_id p | None => 0 end.
Definition ids_of (o : list (list callback)) : list (list (list N)) := map (map (map slot_id)) o.

(* number the PDUs of a history 1, 2, 3, ... (identity = arrival position) *)
Fixpoint number_from (n : N) (h : list dsm) : list dsm :=
  match h with
  | [] => []
  | p :: t => {| d_id := n; d_src := d_src p; d_dst := d_dst p; d_udh := d_udh p |} :: number_from (n + 1) t
  end.
(* history given as indices into a table of segment values *)
Fixpoint pick (table : list dsm) (ixs : list nat) : option (list dsm) :=
  match ixs with
  | [] => Some []
  | i :: t => match nth_error table i, pick table t with
              | Some p, Some r => Some (p :: r)
              | _, _ => None
              end
  end.

Definition beq_trace (a b : list (list (list N))) : bool := beq_list (beq_list (beq_list N.eqb)) a b.
Definition beq_otrace (a : outcome (list (list (list N)))) (b : outcome (list (list (list N)))) : bool :=
  match a, b with
  | Ok x, Ok y => beq_trace x y
  | Err _, Err _ => true
  | Panic, Panic => true
  | _, _ => false
  end.

Definition run_ids (h : list dsm) : outcome (list (list (list N))) :=
  match crun [] (number_from 1 h) with
  | Ok (_, o) => Ok (ids_of o) | Err e => Err e | Panic => Panic
  end.
Definition run_ids_legacy (h : list dsm) : outcome (list (list (list N))) :=
  match crun_legacy [] (number_from 1 h) with
  | Ok (_, o) => Ok (ids_of o) | Err e => Err e | Panic => Panic
  end.
(* the reference on the sub-history of key [k] *)
Definition ref_ids (k : ckey) (h : list dsm) : list (list (list N)) :=
  ids_of (snd (srun None (hist_key k (number_from 1 h)))).

(* Which of several arrivals of one and the same segment value ends up in a
   delivery is not something C10 speaks about: traces are compared after
   projecting each identity (arrival position, from 1) to the index of the
   segment value in the case's table (from 1; 0 = nil slot). *)
Definition proj_id (ixs : list nat) (id : N) : N :=
  if id =? 0 then 0 else
  match nth_error ixs (N.to_nat (id - 1)) with Some i => N.of_nat (S i) | None => 99999999 end.
Definition proj_trace (ixs : list nat) (t : list (list (list N))) : list (list (list N)) :=
  map (map (map (proj_id ixs))) t.
Definition proj_otrace (ixs : list nat) (t : outcome (list (list (list N)))) : outcome (list (list (list N))) :=
  match t with Ok x => Ok (proj_trace ixs x) | Err e => Err e | Panic => Panic end.

(* case: the model reproduces the callback trace the implementation produced
   on history [pick table ixs]; [proj] gives, per arrival, the table index
   identities are projected to (the first entry of the same segment class:
   same addresses, reference, total and sequence number); [expected] is
   already projected *)
Definition chk_combine_proj (table : list dsm) (ixs proj : list nat) (expected : outcome (list (list (list N)))) : bool :=
  match pick table ixs with
  | Some h => beq_otrace (proj_otrace proj (run_ids h)) expected
  | None => false
  end.
Definition chk_combine (table : list dsm) (ixs : list nat) (expected : outcome (list (list (list N)))) : bool :=
  chk_combine_proj table ixs ixs expected.
(* case: the reference on the sub-history of the key of table entry [ki]
   reproduces the implementation's callbacks at the steps of that key *)
Definition chk_reference (table : list dsm) (ixs proj : list nat) (ki : nat) (expected : list (list (list N))) : bool :=
  match pick table ixs, nth_error table ki with
  | Some h, Some q =>
    match seg_key q with
    | Some k => beq_trace (proj_trace proj (ref_ids k h)) expected
    | None => false
    end
  | _, _ => false
  end.
(* many histories over one table of pairwise different segment classes *)
Definition chk_combine_all (table : list dsm) (cases : list (list N * list (list (list N)))) : bool :=
  forallb (fun c => chk_combine table (map N.to_nat (fst c)) (Ok (snd c))) cases.

(* Compact text form of a batch of exhaustive-ordering cases (list notations
   of numerals are slow to parse; a string literal is not):
     case  ::= <ixs> "|" <step> { ";" <step> }        cases separated by "/"
     ixs   ::= one letter per arrival, 'A' + table index
     step  ::= callbacks separated by ","; a callback is one letter per entry,
               'A' + projected identity (0 = nil slot, i+1 = table entry i) *)
Fixpoint split_slash (s : string) : list string :=
  match s with
  | EmptyString => [EmptyString]
  | String c r =>
    if N_of_ascii c =? 47 then EmptyString :: split_slash r
    else match split_slash r with
         | [] => [String c EmptyString]
         | h :: t => String c h :: t
         end
  end.
Fixpoint dec_ixs (s : string) : list nat * string :=
  match s with
  | EmptyString => ([], EmptyString)
  | String c r =>
    if N_of_ascii c =? 124 then ([], r)
    else let '(l, rest) := dec_ixs r in (N.to_nat (N_of_ascii c - 65) :: l, rest)
  end.
Definition flush_cb (cb : list N) (cbs : list (list N)) : list (list N) :=
  match cb with [] => cbs | _ => rev cb :: cbs end.
Fixpoint dec_steps (s : string) (cb : list N) (cbs : list (list N)) : list (list (list N)) :=
  match s with
  | EmptyString => [rev (flush_cb cb cbs)]
  | String c r =>
    let n := N_of_ascii c in
    if n =? 59 then rev (flush_cb cb cbs) :: dec_steps r [] []
    else if n =? 44 then dec_steps r [] (flush_cb cb cbs)
    else dec_steps r ((n - 65) :: cb) cbs
  end.
Definition chk_combine_str (table : list dsm) (s : string) : bool :=
  let '(ixs, rest) := dec_ixs s in chk_combine table ixs (Ok (dec_steps rest [] [])).
Definition chk_combine_text (table : list dsm) (s : string) : bool :=
  forallb (chk_combine_str table) (split_slash s).
