(* Bridge between the composition model (Model/Compose.v, builder gsm7) and
   the combiner model (Model/Combiner.v): a composed part, sent as the short
   message of a deliver_sm from [src] to [dst], as the combiner sees it.
   Definitions only. *)
From V Require Import Model.Base Model.Combiner Model.Compose.
Open Scope N_scope.

(* ShortMessage.UDHeader of a composed part: nil for the single-part form,
   else the map holding the concatenation element *)
Definition dsm_of_part {P} (id : N) (src dst : addr) (pt : Compose.part P) : dsm :=
  {| d_id := id; d_src := src; d_dst := dst;
     d_udh := match pt_udh pt with [] => None | u => Some u end |}.

(* the deliver_sm PDUs of a composed message, in composition order; part i
   (from 0) gets the identity base + i *)
Fixpoint bridge {P} (base : N) (src dst : addr) (parts : list (Compose.part P)) : list dsm :=
  match parts with
  | [] => []
  | pt :: r => dsm_of_part base src dst pt :: bridge (base + 1) src dst r
  end.

(* the key under which the combiner files the parts of a message sent with reference [ref] *)
Definition message_key (src dst : addr) (ref : N) : ckey := {| k_src := src; k_dst := dst; k_ref := ref |}.
