(* Multipart composition with the payload OCTETS of the nine table codings: pdu.ComposeMultipartShortMessage
   (Model/Compose.v, generic in the payload) instantiated with the encoders of Model/Charset.v.
   No proofs in this file. *)
From V Require Import Model.Base Model.IntervalMap Model.Splitter Model.Compose Gen.Widths
  Gen.Charsets Model.Charset.
Open Scope N_scope.
Local Notation length := List.length.

(* the width-table (Gen/Widths.v: octets and splitter bits per accepted scalar value) of a coding *)
Definition wd_of (c : coding) : list wrow :=
  match c with
  | CAscii => wd_ascii | CLatin1 => wd_latin1 | CSjis => wd_shiftjis | CCyrillic => wd_cyrillic
  | CHebrew => wd_hebrew | CUcs2 => wd_ucs2 | CIso2022jp => wd_iso2022jp | CEucjp => wd_eucjp | CEuckr => wd_euckr
  end.

(* coding.Splitter() of the nine table codings (Model/Splitter.v) *)
Definition w_of (c : coding) : N -> nat :=
  match c with
  | CAscii | CLatin1 | CCyrillic | CHebrew => w_1byte
  | CSjis | CEuckr | CIso2022jp => w_multibyte
  | CUcs2 => w_utf16
  | CEucjp => w_measured wd_eucjp
  end.

(* ComposeMultipartShortMessage(text, c, ref) with the payload octets *)
Definition compose_cs (c : coding) (ref : N) (t : list N) : outcome (list (part bytes)) :=
  compose bytes (@length N) (w_of c) (Charset.encode c) ref t.

(* the same by data_coding value (message-waiting / message-class values resolve to a table coding: dc_table) *)
Definition compose_dc (dc : N) (ref : N) (t : list N) : outcome (list (part bytes)) :=
  match resolve dc with Some c => compose_cs c ref t | None => Err EOther end.

