(* Executable model of the SMPP PDU codec: pdu/marshal.go (Marshal, unmarshal),
   pdu/pdu.go (ReadPDU), pdu/header.go, pdu/internal.go, pdu/address.go,
   pdu/message.go, pdu/udh.go, pdu/tag.go — as the code is after the fix:
   commits recorded in KNOWN_FINDINGS.txt.  No proofs in this file.

   The struct walk of Marshal/unmarshal is driven by a [layout]: the list of
   field kinds of a PDU struct in declaration order, classified exactly as the
   reflection switch of the Go code dispatches them.  The layouts of the 33
   registered types are NOT written here: they are regenerated from the
   running code into Gen/PduLayouts.v on every run. *)
From V Require Export Model.Base Model.Flags.
Open Scope N_scope.

(* ------------------------------------------------------------------ values *)
Inductive fkind :=
| FHeader            (* *Header: 16 octets, then stop if command_status <> 0 *)
| FCStr              (* reflect.String: C-octet string *)
| FU8                (* reflect.Uint8: byte, InterfaceVersion, DataCoding, MessageState *)
| FBool              (* reflect.Bool *)
| FEsm               (* io.ByteReader/io.ByteWriter struct ESMClass *)
| FRegDel            (* io.ByteReader/io.ByteWriter struct RegisteredDelivery *)
| FAddr              (* Address *)
| FDests             (* DestinationAddresses *)
| FUnsucc            (* UnsuccessfulRecords *)
| FShortMsg          (* ShortMessage *)
| FTags              (* Tags *)
| FSkipped.          (* a kind neither walk handles (uint32 ErrorCode): no octets *)

Record header := { h_len : N; h_id : N; h_status : N; h_seq : Z }.
Record addr := { a_ton : N; a_npi : N; a_no : bytes }.
Definition kvs := list (N * bytes).      (* a Go map as association list *)
Record shortmsg := { sm_dflt : N; sm_dc : N; sm_udh : option kvs; sm_msg : bytes }.

Inductive fval :=
| VHeader (h : header)
| VStr (s : bytes)
| VU8 (b : N)
| VBool (b : bool)
| VEsm (e : esm)
| VRegDel (r : regdel)
| VAddr (a : addr)
| VDests (sme : list addr) (dl : list bytes)
| VUnsucc (l : list (addr * N))
| VShort (m : shortmsg)
| VTags (t : kvs)
| VSkipped (v : N).       (* value of the skipped field (never on the wire) *)

Record layout := {
  l_id : N;                 (* command_id from the struct tag *)
  l_name : string;
  l_fields : list fkind;
  l_replace : bool;         (* *ReplaceSM: ShortMessage.Prepare drops data_coding *)
  l_has_esm : bool          (* struct has a field named ESMClass *)
}.

Definition NoCoding : N := 191.    (* 0xBF, used in-band for "no data_coding octet" *)
Definition MaxShortMessageLength : N := 140.

Definition len (l : bytes) : N := N.of_nat (List.length l).

(* ------------------------------------------------------------- map helpers *)
(* insert with overwrite, keeping the list sorted by key: canonical form of a Go map *)
Fixpoint kv_insert (k : N) (v : bytes) (m : kvs) : kvs :=
  match m with
  | [] => [(k, v)]
  | (k', v') :: r =>
    if k <? k' then (k, v) :: m
    else if k =? k' then (k, v) :: r
    else (k', v') :: kv_insert k v r
  end.
Definition kv_sort (m : kvs) : kvs := fold_left (fun acc e => kv_insert (fst e) (snd e) acc) m [].

(* ---------------------------------------------------------------- encoders *)
Definition enc_cstr (s : bytes) : bytes := s ++ [0].
Definition enc_addr (a : addr) : bytes := [a_ton a; a_npi a] ++ enc_cstr (a_no a).
Definition enc_bool (b : bool) : bytes := [nb b].

Definition enc_header (len id status : N) (seq : Z) : bytes :=
  be32 len ++ be32 id ++ be32 status ++ be32 (u32_of_i32 seq).

(* UserDataHeader.WriteTo on a non-nil map *)
Definition enc_udh_body (u : kvs) : bytes :=
  flat_map (fun e => [fst e; len (snd e) mod 256] ++ snd e) u.
Definition enc_udh (u : kvs) : outcome bytes :=
  let s := kv_sort u in
  if existsb (fun e => 255 <? len (snd e)) s then Err ESize
  else let body := enc_udh_body s in
       (* data[0] = byte(len(data)) - 1 *)
       Ok ((((1 + len body) mod 256 + 255) mod 256) :: body).

(* ShortMessage.WriteTo, on the value left by Prepare *)
Definition enc_short (m : shortmsg) : outcome bytes :=
  if MaxShortMessageLength <? len (sm_msg m) then Err ESize else
  do u <- match sm_udh m with None => Ok [] | Some u => enc_udh u end;
  let l := len u + len (sm_msg m) in
  if 255 <? l then Err ESize else
  Ok ((if sm_dc m =? NoCoding then [] else [sm_dc m]) ++ [sm_dflt m] ++ [l] ++ u ++ sm_msg m).

(* writeCString refuses a string containing NUL (after the fix: commit for D31) *)
Definition has_nul (s : bytes) : bool := existsb (fun b => b =? 0) s.

Definition enc_dests (sme : list addr) (dl : list bytes) : outcome bytes :=
  let n := N.of_nat (List.length sme + List.length dl) in
  if 255 <? n then Err ECount else
  if existsb (fun a => has_nul (a_no a)) sme || existsb has_nul dl then Err EText else
  Ok ([n] ++ flat_map (fun a => 1 :: enc_addr a) sme ++ flat_map (fun d => 2 :: enc_cstr d) dl).

Definition enc_unsucc (l : list (addr * N)) : outcome bytes :=
  let n := N.of_nat (List.length l) in
  if 255 <? n then Err ECount else
  if existsb (fun e => has_nul (a_no (fst e))) l then Err EText else
  Ok ([n] ++ flat_map (fun e => enc_addr (fst e) ++ be32 (snd e)) l).

(* Tags.WriteTo: sorted keys; empty values skipped; a value of 65535+ octets is an error *)
Fixpoint enc_tags_sorted (t : kvs) : outcome bytes :=
  match t with
  | [] => Ok []
  | (k, v) :: r =>
    if len v =? 0 then enc_tags_sorted r
    else if len v <? 65535 then
      do rest <- enc_tags_sorted r; Ok (be16 k ++ be16 (len v) ++ v ++ rest)
    else Err ETagLen
  end.
Definition enc_tags (t : kvs) : outcome bytes := enc_tags_sorted (kv_sort t).

(* ShortMessage.Prepare *)
Definition udhi_of (vs : list fval) : bool :=
  existsb (fun v => match v with VEsm e => e_udhi e | _ => false end) vs.

Definition prepare (lay : layout) (udhi : bool) (m : shortmsg) : shortmsg :=
  if l_replace lay then
    {| sm_dflt := sm_dflt m; sm_dc := NoCoding; sm_udh := sm_udh m; sm_msg := sm_msg m |}
  else match sm_udh m with
       | None => if l_has_esm lay && udhi
                 then {| sm_dflt := sm_dflt m; sm_dc := sm_dc m; sm_udh := Some []; sm_msg := sm_msg m |}
                 else m
       | Some _ => m
       end.

(* ESMClass.ReadByte / RegisteredDelivery.ReadByte report an error when a sub-field is wider than its bit
   field (after the fix: commits recorded in KNOWN_FINDINGS.txt; before, the value was masked silently) *)
Definition esm_fits (e : esm) : bool := (e_mode e <? 4) && (e_type e <? 16).
Definition regdel_fits (r : regdel) : bool := (r_mc r <? 4) && (r_sme r <? 4) && (r_rsv r <? 8).

Definition enc_field (lay : layout) (udhi : bool) (k : fkind) (v : fval) : outcome bytes :=
  match k, v with
  | FCStr, VStr s => if has_nul s then Err EText else Ok (enc_cstr s)
  | FU8, VU8 b => Ok [b]
  | FBool, VBool b => Ok (enc_bool b)
  | FEsm, VEsm e => if esm_fits e then Ok [esm_to_byte e] else Err ESize
  | FRegDel, VRegDel r => if regdel_fits r then Ok [regdel_to_byte r] else Err ESize
  | FAddr, VAddr a => if has_nul (a_no a) then Err EText else Ok (enc_addr a)
  | FDests, VDests sme dl => enc_dests sme dl
  | FUnsucc, VUnsucc l => enc_unsucc l
  | FShortMsg, VShort m => enc_short (prepare lay udhi m)
  | FTags, VTags t => enc_tags t
  | FSkipped, VSkipped _ => Ok []
  | _, _ => Err EOther            (* ill-typed value list: cannot arise from a Go struct *)
  end.

Fixpoint enc_fields (lay : layout) (udhi : bool) (ks : list fkind) (vs : list fval) : outcome bytes :=
  match ks, vs with
  | [], [] => Ok []
  | k :: ks', v :: vs' =>
    do b <- enc_field lay udhi k v;
    do r <- enc_fields lay udhi ks' vs';
    Ok (b ++ r)
  | _, _ => Err EOther
  end.

(* binary.BigEndian.PutUint32(data[0:4], uint32(buf.Len())) *)
Definition patch_len (f : bytes) : bytes := be32 (len f mod 4294967296) ++ skipn 4 f.

(* Marshal: returns the frame handed to the destination.  The destination
   receives exactly one Write call with the whole frame on Ok and no call at
   all otherwise ([marshal_writes]). *)
Definition marshal (lay : layout) (vs : list fval) : outcome bytes :=
  match l_fields lay, vs with
  | FHeader :: ks, VHeader h :: vs' =>
    if (h_seq h <=? 0)%Z then Err EInvalidSeq
    else
      let hdr := enc_header (h_len h) (l_id lay) (h_status h) (h_seq h) in
      if negb (h_status h =? 0) then Ok (patch_len hdr)
      else do body <- enc_fields lay (udhi_of vs') ks vs'; Ok (patch_len (hdr ++ body))
  | _, _ => Err EOther
  end.

Definition marshal_writes (lay : layout) (vs : list fval) : list bytes :=
  match marshal lay vs with Ok f => [f] | _ => [] end.

(* ---------------------------------------------------------------- decoders *)
Definition parser (A : Type) := bytes -> outcome (A * bytes).

Fixpoint dec_cstr (s : bytes) : outcome (bytes * bytes) :=
  match s with
  | [] => Err EEOF
  | c :: r => if c =? 0 then Ok ([], r)
              else match dec_cstr r with Ok (v, r') => Ok (c :: v, r') | Err e => Err e | Panic => Panic end
  end.

Definition dec_u8 : parser N := fun s => match s with [] => Err EEOF | c :: r => Ok (c, r) end.

Definition take (n : N) (s : bytes) : outcome (bytes * bytes) :=   (* io.ReadFull *)
  if n <=? len s then Ok (firstn (N.to_nat n) s, skipn (N.to_nat n) s) else Err EUnexpectedEOF.

Definition dec_be32 : parser N := fun s =>
  match s with a :: b :: c :: d :: r => Ok (de32 a b c d, r) | _ => Err EUnexpectedEOF end.

Definition dec_addr : parser addr := fun s =>
  do (t, s1) <- dec_u8 s;
  do (n, s2) <- dec_u8 s1;
  do (no, s3) <- dec_cstr s2;
  Ok ({| a_ton := t; a_npi := n; a_no := no |}, s3).

Definition dec_header (s : bytes) : outcome (header * bytes) :=
  match s with
  | l0 :: l1 :: l2 :: l3 :: i0 :: i1 :: i2 :: i3 :: s0 :: s1 :: s2 :: s3 :: q0 :: q1 :: q2 :: q3 :: r =>
    let L := de32 l0 l1 l2 l3 in
    if (L <? 16) || (65536 <? L) then Err EFrameLen
    else Ok ({| h_len := L; h_id := de32 i0 i1 i2 i3; h_status := de32 s0 s1 s2 s3;
                h_seq := i32_of_u32 (de32 q0 q1 q2 q3) |}, r)
  | _ => Err EUnexpectedEOF
  end.

(* DestinationAddresses.ReadFrom *)
Fixpoint dec_dests_loop (n : nat) (s : bytes) (sme : list addr) (dl : list bytes)
  : outcome (list addr * list bytes * bytes) :=
  match n with
  | O => Ok (sme, dl, s)
  | S n' =>
    (* destFlag, _ = buf.ReadByte(): at end of input the flag is 0 -> ErrInvalidDestFlag *)
    match s with
    | 1 :: r => do (a, r') <- dec_addr r; dec_dests_loop n' r' (sme ++ [a]) dl
    | 2 :: r => do (d, r') <- dec_cstr r; dec_dests_loop n' r' sme (dl ++ [d])
    | _ => Err EDecode
    end
  end.
Definition dec_dests (s : bytes) : outcome (list addr * list bytes * bytes) :=
  do (c, r) <- dec_u8 s; dec_dests_loop (N.to_nat c) r [] [].

Fixpoint dec_unsucc_loop (n : nat) (s : bytes) (acc : list (addr * N)) : outcome (list (addr * N) * bytes) :=
  match n with
  | O => Ok (acc, s)
  | S n' =>
    do (a, r) <- dec_addr s;
    do (code, r') <- dec_be32 r;
    dec_unsucc_loop n' r' (acc ++ [(a, code)])
  end.
Definition dec_unsucc (s : bytes) : outcome (list (addr * N) * bytes) :=
  do (c, r) <- dec_u8 s; dec_unsucc_loop (N.to_nat c) r [].

(* UserDataHeader.ReadFrom: elements until UDHL octets are covered *)
Fixpoint dec_udh_loop (fuel : nat) (remaining : N) (s : bytes) (m : kvs) : outcome (kvs * bytes) :=
  if remaining =? 0 then Ok (m, s) else
  match fuel with
  | O => Err EFuel
  | S fuel' =>
    do (id, s1) <- dec_u8 s;
    do (size, s2) <- dec_u8 s1;
    do (d, s3) <- take size s2;
    dec_udh_loop fuel' (remaining - (2 + size)) s3 (kv_insert id d m)   (* N subtraction truncates at 0: loop ends when i >= UDHL *)
  end.
Definition dec_udh (s : bytes) : outcome (kvs * bytes) :=
  do (l, r) <- dec_u8 s; dec_udh_loop (N.to_nat l) l r [].

(* UserDataHeader.Len on a non-nil map *)
Definition udh_len (u : kvs) : N := 1 + fold_right (fun e acc => 2 + len (snd e) + acc) 0 u.

(* ShortMessage.ReadFrom after Prepare *)
Definition dec_short (is_replace : bool) (udh_active : bool) (s : bytes) : outcome (shortmsg * bytes) :=
  (* coding, _ := buf.ReadByte() : error ignored, the next ReadByte reports it *)
  do (dc, s0) <- (if is_replace then Ok (NoCoding, s)
                   else match s with [] => Err EEOF | c :: r => Ok (c, r) end);
  do (dflt, s1) <- dec_u8 s0;
  do (l, s2) <- dec_u8 s1;
  do (u, s3) <- (if udh_active then do (m, r) <- dec_udh s2; Ok (Some m, r) else Ok (None, s2));
  let ulen := match u with None => 0 | Some m => udh_len m end in
  (* make([]byte, length-byte(p.UDHeader.Len())): byte arithmetic wraps *)
  let mlen := (l + 256 - ulen mod 256) mod 256 in
  do (msg, s4) <- take mlen s3;
  Ok ({| sm_dflt := dflt; sm_dc := dc; sm_udh := u; sm_msg := msg |}, s4).

(* Tags.ReadFrom: greedy to the end of the frame *)
Fixpoint dec_tags_loop (fuel : nat) (s : bytes) (m : kvs) : outcome kvs :=
  match s with
  | [] => Ok m                                   (* io.EOF on the 4-octet head: clean end *)
  | t0 :: t1 :: l0 :: l1 :: r =>
    match fuel with
    | O => Err EFuel
    | S fuel' =>
      let tag := de16 t0 t1 in let n := de16 l0 l1 in
      if n =? 0 then dec_tags_loop fuel' r (kv_insert tag [] m)
      else match r with
           | [] => Ok m                          (* io.ReadFull returns io.EOF: treated as clean end, TLV dropped *)
           | _ => if n <=? len r
                  then dec_tags_loop fuel' (skipn (N.to_nat n) r) (kv_insert tag (firstn (N.to_nat n) r) m)
                  else Err EUnexpectedEOF
           end
    end
  | _ => Err EUnexpectedEOF                      (* 1..3 octets left *)
  end.
Definition dec_tags (s : bytes) : outcome kvs := dec_tags_loop (List.length s) s [].

Definition zero_val (k : fkind) : fval :=
  match k with
  | FHeader => VHeader {| h_len := 0; h_id := 0; h_status := 0; h_seq := 0 |}
  | FCStr => VStr []
  | FU8 => VU8 0
  | FBool => VBool false
  | FEsm => VEsm {| e_mode := 0; e_type := 0; e_udhi := false; e_reply := false |}
  | FRegDel => VRegDel {| r_mc := 0; r_sme := 0; r_inter := false; r_rsv := 0 |}
  | FAddr => VAddr {| a_ton := 0; a_npi := 0; a_no := [] |}
  | FDests => VDests [] []
  | FUnsucc => VUnsucc []
  | FShortMsg => VShort {| sm_dflt := 0; sm_dc := 0; sm_udh := None; sm_msg := [] |}
  | FTags => VTags []
  | FSkipped => VSkipped 0
  end.

Definition dec_field (lay : layout) (udhi : bool) (k : fkind) (s : bytes) : outcome (fval * bytes) :=
  match k with
  | FHeader => Err EOther      (* only first, handled by unmarshal *)
  | FCStr => do (v, r) <- dec_cstr s; Ok (VStr v, r)
  | FU8 => do (v, r) <- dec_u8 s; Ok (VU8 v, r)
  | FBool => do (v, r) <- dec_u8 s; Ok (VBool (v =? 1), r)
  | FEsm => do (v, r) <- dec_u8 s; Ok (VEsm (esm_of_byte v), r)
  | FRegDel => do (v, r) <- dec_u8 s; Ok (VRegDel (regdel_of_byte v), r)
  | FAddr => do (v, r) <- dec_addr s; Ok (VAddr v, r)
  | FDests => do (sme, dl, r) <- dec_dests s; Ok (VDests sme dl, r)
  | FUnsucc => do (v, r) <- dec_unsucc s; Ok (VUnsucc v, r)
  | FShortMsg => do (v, r) <- dec_short (l_replace lay) (negb (l_replace lay) && l_has_esm lay && udhi) s; Ok (VShort v, r)
  | FTags => do v <- dec_tags s; Ok (VTags v, [])
  | FSkipped => Ok (VSkipped 0, s)
  end.

(* the UDH indicator ShortMessage.Prepare sees is that of the ESMClass field
   decoded earlier in the same walk *)
Fixpoint dec_fields (lay : layout) (ks : list fkind) (s : bytes) (udhi : bool) : outcome (list fval) :=
  match ks with
  | [] => Ok []                                   (* trailing octets are ignored *)
  | k :: ks' =>
    do (v, r) <- dec_field lay udhi k s;
    let udhi' := match v with VEsm e => e_udhi e | _ => udhi end in
    do vs <- dec_fields lay ks' r udhi';
    Ok (v :: vs)
  end.

(* unmarshal on a whole frame (header included) *)
Definition unmarshal (lay : layout) (frame : bytes) : outcome (list fval) :=
  match l_fields lay with
  | FHeader :: ks =>
    do (h, r) <- dec_header frame;
    if negb (h_status h =? 0) then Ok (VHeader h :: map zero_val ks)
    else do vs <- dec_fields lay ks r false; Ok (VHeader h :: vs)
  | _ => Err EOther
  end.

(* ------------------------------------------------------ stream and ReadPDU *)
(* A transport: the octets still to come and a schedule bounding how many
   octets each Read call may return (a 0 entry counts as 1; exhausted
   schedule: one octet per call).  End of data = io.EOF (or a read error:
   ReadPDU treats both alike except for the clean end before a header). *)
Record stream := { st_data : bytes; st_sched : list nat }.

Inductive rf_result :=
| RfOk (got : bytes) (rest : stream)
| RfEOF (got : bytes) (rest : stream)     (* data ended after [got] *)
| RfFuel.

(* io.ReadFull(r, buf[:n]): repeated Read calls until n octets or end of data *)
Fixpoint readfull (fuel n : nat) (s : bytes) (sched : list nat) : rf_result :=
  match n with
  | O => RfOk [] {| st_data := s; st_sched := sched |}
  | S _ =>
    match fuel with
    | O => RfFuel
    | S fuel' =>
      match s with
      | [] => RfEOF [] {| st_data := []; st_sched := sched |}
      | _ =>
        let c := match sched with [] => 1%nat | c :: _ => Nat.max 1 c end in
        let k := Nat.min n (Nat.min c (List.length s)) in
        match readfull fuel' (n - k) (skipn k s) (tl sched) with
        | RfOk got rest => RfOk (firstn k s ++ got) rest
        | RfEOF got rest => RfEOF (firstn k s ++ got) rest
        | RfFuel => RfFuel
        end
      end
    end
  end.
Definition read_full (n : nat) (st : stream) : rf_result := readfull n n (st_data st) (st_sched st).

Inductive rp_result :=
| RpOk (lay : layout) (vs : list fval)      (* pdu, nil *)
| RpDecodeErr (lay : layout) (h : header)   (* partially filled pdu of that type, ErrUnmarshalPDUFailed *)
| RpUnknownId (h : header)                  (* nil, ErrInvalidCommandID *)
| RpBadLen                                  (* nil, ErrInvalidCommandLength: header announces < 16 or > 65536 *)
| RpEOF                                     (* nil, io.EOF: no octet before the end *)
| RpTruncated                               (* nil, error: data ended inside header or body *)
| RpPanic
| RpFuel.

Fixpoint find_layout (ls : list layout) (id : N) : option layout :=
  match ls with
  | [] => None
  | l :: r => if l_id l =? id then Some l else find_layout r id
  end.

(* ReadPDU: result, octets taken from the transport, transport afterwards *)
Definition read_pdu (layouts : list layout) (st : stream) : rp_result * N * stream :=
  match read_full 16 st with
  | RfFuel => (RpFuel, 0, st)
  | RfEOF got rest => ((match got with [] => RpEOF | _ => RpTruncated end), len got, rest)
  | RfOk hd rest =>
    match dec_header hd with
    | Ok (h, _) =>
      match read_full (N.to_nat (h_len h - 16)) rest with
      | RfFuel => (RpFuel, 16, rest)
      | RfEOF got rest' => (RpTruncated, 16 + len got, rest')
      | RfOk body rest' =>
        match find_layout layouts (h_id h) with
        | None => (RpUnknownId h, h_len h, rest')
        | Some lay =>
          match unmarshal lay (hd ++ body) with
          | Ok vs => (RpOk lay vs, h_len h, rest')
          | Err _ => (RpDecodeErr lay h, h_len h, rest')
          | Panic => (RpPanic, h_len h, rest')
          end
        end
      end
    | _ => (RpBadLen, 16, rest)
    end
  end.

(* successive ReadPDU calls until the stream reports EOF / an error *)
Fixpoint read_many (fuel : nat) (layouts : list layout) (st : stream) : list (rp_result * N) :=
  match fuel with
  | O => []
  | S fuel' =>
    let '(r, c, st') := read_pdu layouts st in
    match r with
    | RpEOF | RpTruncated | RpFuel | RpPanic => [(r, c)]
    | _ => (r, c) :: read_many fuel' layouts st'
    end
  end.

(* ------------------------------------------------------- boolean equalities *)
Definition beq_header (a b : header) : bool :=
  (h_len a =? h_len b) && (h_id a =? h_id b) && (h_status a =? h_status b) && (h_seq a =? h_seq b)%Z.
Definition beq_addr (a b : addr) : bool :=
  (a_ton a =? a_ton b) && (a_npi a =? a_npi b) && beq_bytes (a_no a) (a_no b).
Definition beq_kv (a b : N * bytes) : bool := (fst a =? fst b) && beq_bytes (snd a) (snd b).
Definition beq_kvs (a b : kvs) : bool := beq_list beq_kv a b.
Definition beq_short (a b : shortmsg) : bool :=
  (sm_dflt a =? sm_dflt b) && (sm_dc a =? sm_dc b) && beq_opt beq_kvs (sm_udh a) (sm_udh b)
  && beq_bytes (sm_msg a) (sm_msg b).
Definition beq_fval (a b : fval) : bool :=
  match a, b with
  | VHeader x, VHeader y => beq_header x y
  | VStr x, VStr y => beq_bytes x y
  | VU8 x, VU8 y => x =? y
  | VBool x, VBool y => Bool.eqb x y
  | VEsm x, VEsm y => beq_esm x y
  | VRegDel x, VRegDel y => beq_regdel x y
  | VAddr x, VAddr y => beq_addr x y
  | VDests s1 d1, VDests s2 d2 => beq_list beq_addr s1 s2 && beq_list beq_bytes d1 d2
  | VUnsucc x, VUnsucc y => beq_list (fun p q => beq_addr (fst p) (fst q) && (snd p =? snd q)) x y
  | VShort x, VShort y => beq_short x y
  | VTags x, VTags y => beq_kvs x y
  | VSkipped x, VSkipped y => x =? y
  | _, _ => false
  end.
Definition beq_fvals := beq_list beq_fval.

Definition beq_obytes (a b : outcome bytes) : bool :=
  match a, b with
  | Ok x, Ok y => beq_bytes x y
  | Err _, Err _ => true          (* which error is not compared *)
  | Panic, Panic => true
  | _, _ => false
  end.
Definition beq_ofvals (a b : outcome (list fval)) : bool :=
  match a, b with
  | Ok x, Ok y => beq_fvals x y
  | Err _, Err _ => true
  | Panic, Panic => true
  | _, _ => false
  end.
