(* The exported field codecs of package sms called DIRECTLY (not through sms.Unmarshal / sms.Marshal): ReadFrom of
   Address, SCAddress, Time, Duration, EnhancedDuration on a plain reader, then WriteTo of the value decoded.  Case
   forms for harness/c18.go (advisory cases: outside what C18 states).  No proofs. *)
From V Require Export Model.TpduRun.
Open Scope N_scope.

(* kind: 0 Address, 1 SCAddress, 2 Time, 3 Duration, 4 EnhancedDuration *)
Definition fld_rt (kind : N) (bs : bytes) : outcome bytes :=
  match kind with
  | 0 => do x <- addr_read (e_g7 sms_env) bs; Ok (addr_write (e_g7 sms_env) (fst x))
  | 1 => do x <- sc_read (e_g7 sms_env) bs; Ok (sc_write (e_g7 sms_env) (fst x))
  | 2 => do x <- time_read_gen false bs; Ok (time_write (fst x))
  | 3 => do x <- rel_read bs; Ok [rel_octet (fst x)]
  | _ => do x <- enh_read_gen false bs;
         match fst x with VPEnh d i => enh_write d i | _ => Err EOther end
  end.
(* the implementation: class 0 = ReadFrom returned nil and WriteTo wrote [out]; 1 = ReadFrom returned an error; 2 = panic *)
Definition fld_is (kind : N) (bs : bytes) (cls : N) (out : bytes) : bool :=
  match fld_rt kind bs with
  | Ok o => (cls =? 0) && beq_bytes o out
  | Err _ => cls =? 1
  | Panic => cls =? 2
  end.
