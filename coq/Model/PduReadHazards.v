(* The "Go hazards" layer of the DECODER (pdu/pdu.go ReadPDU, pdu/marshal.go unmarshal,
   pdu/internal.go readCString, pdu/message.go, pdu/udh.go, pdu/tag.go, pdu/address.go):
   the same computation as [Model.Pdu.read_pdu], written the way the Go code is written —
   every make([]byte, n) with n computed from the wire IN THE INTEGER TYPE THE SOURCE USES
   (uint32 for command_length-16, byte for sm_length-byte(UDH length), int for the UDH loop
   index), the slice value[0:len(value)-1] of readCString, reflect.New on the looked-up type —
   as operations that CAN yield [Panic].  No proofs here.  That no such operation is ever
   reached out of range, for any octets and any read schedule, and that the layer computes
   [read_pdu], are theorems (Proofs/PduReadHazardProofs.v, Properties/C04.v); the legacy
   variants at the end show that the layer CAN panic (two historical defects). *)
From V Require Export Model.Pdu.
Open Scope N_scope.

(* ------------------------------------------------ Go operations that can panic *)
(* make([]byte, n): "len out of range" for a negative n *)
Definition go_make (n : Z) : outcome N := if (n <? 0)%Z then Panic else Ok (Z.to_N n).
(* the body buffer: n is a uint32; anything beyond 2^31 - 1 octets is treated as the crash it is
   (makeslice: len out of range on 32-bit, gigabytes allocated on 64-bit) *)
Definition go_make_body (n : Z) : outcome N :=
  if (n <? 0)%Z || (2147483647 <? n)%Z then Panic else Ok (Z.to_N n).
(* s[lo:hi] *)
Definition go_slice (s : bytes) (lo hi : Z) : outcome bytes :=
  if (lo <? 0)%Z || (hi <? lo)%Z || (Z.of_N (len s) <? hi)%Z then Panic
  else Ok (firstn (Z.to_nat (hi - lo)) (skipn (Z.to_nat lo) s)).
(* reflect.New(t) with t the result of a map lookup: the zero reflect.Type (unregistered id) panics *)
Definition go_reflect_new (t : option layout) : outcome layout :=
  match t with Some l => Ok l | None => Panic end.

(* ------------------------------------------------ field decoders *)
(* bufio.Reader.ReadString(0): the octets up to AND INCLUDING the delimiter, or io.EOF *)
Fixpoint read_string0 (s : bytes) : outcome (bytes * bytes) :=
  match s with
  | [] => Err EEOF
  | c :: r => if c =? 0 then Ok ([c], r)
              else match read_string0 r with Ok (v, r') => Ok (c :: v, r') | Err e => Err e | Panic => Panic end
  end.
(* readCString: value = value[0 : len(value)-1] *)
Definition dec_cstr_h (s : bytes) : outcome (bytes * bytes) :=
  do (v, r) <- read_string0 s;
  do v' <- go_slice v 0 (Z.of_N (len v) - 1);
  Ok (v', r).

Definition dec_addr_h : parser addr := fun s =>
  do (t, s1) <- dec_u8 s;
  do (n, s2) <- dec_u8 s1;
  do (no, s3) <- dec_cstr_h s2;
  Ok ({| a_ton := t; a_npi := n; a_no := no |}, s3).

(* for i := byte(0); i < count; i++ — count is one octet, so the byte counter cannot wrap *)
Fixpoint dec_dests_loop_h (n : nat) (s : bytes) (sme : list addr) (dl : list bytes)
  : outcome (list addr * list bytes * bytes) :=
  match n with
  | O => Ok (sme, dl, s)
  | S n' =>
    match s with
    | 1 :: r => do (a, r') <- dec_addr_h r; dec_dests_loop_h n' r' (sme ++ [a]) dl
    | 2 :: r => do (d, r') <- dec_cstr_h r; dec_dests_loop_h n' r' sme (dl ++ [d])
    | _ => Err EDecode
    end
  end.
Definition dec_dests_h (s : bytes) : outcome (list addr * list bytes * bytes) :=
  do (c, r) <- dec_u8 s; dec_dests_loop_h (N.to_nat c) r [] [].

Fixpoint dec_unsucc_loop_h (n : nat) (s : bytes) (acc : list (addr * N)) : outcome (list (addr * N) * bytes) :=
  match n with
  | O => Ok (acc, s)
  | S n' =>
    do (a, r) <- dec_addr_h s;
    do (code, r') <- dec_be32 r;
    dec_unsucc_loop_h n' r' (acc ++ [(a, code)])
  end.
Definition dec_unsucc_h (s : bytes) : outcome (list (addr * N) * bytes) :=
  do (c, r) <- dec_u8 s; dec_unsucc_loop_h (N.to_nat c) r [].

(* UserDataHeader.ReadFrom: for i := 0; i < int(length); i += 2 + int(size) { …; data := make([]byte, size); io.ReadFull } *)
Fixpoint dec_udh_loop_h (fuel : nat) (i length : Z) (s : bytes) (m : kvs) : outcome (kvs * bytes) :=
  if (length <=? i)%Z then Ok (m, s) else
  match fuel with
  | O => Err EFuel
  | S fuel' =>
    do (id, s1) <- dec_u8 s;
    do (size, s2) <- dec_u8 s1;
    do n <- go_make (Z.of_N size);
    do (d, s3) <- take n s2;
    dec_udh_loop_h fuel' (i + 2 + Z.of_N size) length s3 (kv_insert id d m)
  end.
Definition dec_udh_h (s : bytes) : outcome (kvs * bytes) :=
  do (l, r) <- dec_u8 s; dec_udh_loop_h (N.to_nat l) 0 (Z.of_N l) r [].

(* ShortMessage.ReadFrom: p.Message = make([]byte, length-byte(p.UDHeader.Len())) — BYTE arithmetic, which wraps *)
Definition msg_len_byte (l ulen : N) : Z := ((Z.of_N l - Z.of_N ulen mod 256) mod 256)%Z.
Definition dec_short_gen (mlen : N -> N -> Z) (is_replace udh_active : bool) (s : bytes) : outcome (shortmsg * bytes) :=
  do (dc, s0) <- (if is_replace then Ok (NoCoding, s)
                   else match s with [] => Err EEOF | c :: r => Ok (c, r) end);
  do (dflt, s1) <- dec_u8 s0;
  do (l, s2) <- dec_u8 s1;
  do (u, s3) <- (if udh_active then do (m, r) <- dec_udh_h s2; Ok (Some m, r) else Ok (None, s2));
  let ulen := match u with None => 0 | Some m => udh_len m end in
  do n <- go_make (mlen l ulen);
  do (msg, s4) <- take n s3;
  Ok ({| sm_dflt := dflt; sm_dc := dc; sm_udh := u; sm_msg := msg |}, s4).
Definition dec_short_h := dec_short_gen msg_len_byte.

(* Tags.ReadFrom: binary.Read of the 4-octet head; data = make([]byte, values[1]); io.ReadFull *)
Fixpoint dec_tags_loop_h (fuel : nat) (s : bytes) (m : kvs) : outcome kvs :=
  match s with
  | [] => Ok m
  | t0 :: t1 :: l0 :: l1 :: r =>
    match fuel with
    | O => Err EFuel
    | S fuel' =>
      let tag := de16 t0 t1 in
      do n <- go_make (Z.of_N (de16 l0 l1));
      if n =? 0 then dec_tags_loop_h fuel' r (kv_insert tag [] m)
      else match r with
           | [] => Ok m
           | _ => if n <=? len r
                  then dec_tags_loop_h fuel' (skipn (N.to_nat n) r) (kv_insert tag (firstn (N.to_nat n) r) m)
                  else Err EUnexpectedEOF
           end
    end
  | _ => Err EUnexpectedEOF
  end.
Definition dec_tags_h (s : bytes) : outcome kvs := dec_tags_loop_h (List.length s) s [].

Definition dec_field_h (lay : layout) (udhi : bool) (k : fkind) (s : bytes) : outcome (fval * bytes) :=
  match k with
  | FHeader => Err EOther
  | FCStr => do (v, r) <- dec_cstr_h s; Ok (VStr v, r)
  | FU8 => do (v, r) <- dec_u8 s; Ok (VU8 v, r)
  | FBool => do (v, r) <- dec_u8 s; Ok (VBool (v =? 1), r)
  | FEsm => do (v, r) <- dec_u8 s; Ok (VEsm (esm_of_byte v), r)
  | FRegDel => do (v, r) <- dec_u8 s; Ok (VRegDel (regdel_of_byte v), r)
  | FAddr => do (v, r) <- dec_addr_h s; Ok (VAddr v, r)
  | FDests => do (sme, dl, r) <- dec_dests_h s; Ok (VDests sme dl, r)
  | FUnsucc => do (v, r) <- dec_unsucc_h s; Ok (VUnsucc v, r)
  | FShortMsg => do (v, r) <- dec_short_h (l_replace lay) (negb (l_replace lay) && l_has_esm lay && udhi) s; Ok (VShort v, r)
  | FTags => do v <- dec_tags_h s; Ok (VTags v, [])
  | FSkipped => Ok (VSkipped 0, s)
  end.

Fixpoint dec_fields_h (lay : layout) (ks : list fkind) (s : bytes) (udhi : bool) : outcome (list fval) :=
  match ks with
  | [] => Ok []
  | k :: ks' =>
    do (v, r) <- dec_field_h lay udhi k s;
    let udhi' := match v with VEsm e => e_udhi e | _ => udhi end in
    do vs <- dec_fields_h lay ks' r udhi';
    Ok (v :: vs)
  end.

Definition unmarshal_h (lay : layout) (frame : bytes) : outcome (list fval) :=
  match l_fields lay with
  | FHeader :: ks =>
    do (h, r) <- dec_header frame;
    if negb (h_status h =? 0) then Ok (VHeader h :: map zero_val ks)
    else do vs <- dec_fields_h lay ks r false; Ok (VHeader h :: vs)
  | _ => Err EOther
  end.

(* ------------------------------------------------ ReadPDU *)
Definition no_layout_h : layout := {| l_id := 0; l_name := "?"; l_fields := []; l_replace := false; l_has_esm := false |}.
(* [checked]: the code tests the `ok` of the registry lookup before reflect.New (true = as the code is) *)
Definition read_pdu_gen (checked : bool) (layouts : list layout) (st : stream) : rp_result * N * stream :=
  match read_full 16 st with
  | RfFuel => (RpFuel, 0, st)
  | RfEOF got rest => ((match got with [] => RpEOF | _ => RpTruncated end), len got, rest)
  | RfOk hd rest =>
    match dec_header hd with
    | Ok (h, _) =>
      (* make([]byte, header.CommandLength-16): uint32 arithmetic *)
      match go_make_body ((Z.of_N (h_len h) - 16) mod 4294967296)%Z with
      | Ok n =>
        match read_full (N.to_nat n) rest with
        | RfFuel => (RpFuel, 16, rest)
        | RfEOF got rest' => (RpTruncated, 16 + len got, rest')
        | RfOk body rest' =>
          let t := find_layout layouts (h_id h) in
          match (if checked then t else Some no_layout_h) with
          | None => (RpUnknownId h, h_len h, rest')
          | Some _ =>
            match go_reflect_new t with
            | Ok lay =>
              match unmarshal_h lay (hd ++ body) with
              | Ok vs => (RpOk lay vs, h_len h, rest')
              | Err _ => (RpDecodeErr lay h, h_len h, rest')
              | Panic => (RpPanic, h_len h, rest')
              end
            | _ => (RpPanic, h_len h, rest')
            end
          end
        end
      | _ => (RpPanic, 16, rest)
      end
    | _ => (RpBadLen, 16, rest)
    end
  end.
Definition read_pdu_io := read_pdu_gen true.

(* ------------------------------------------------ legacy variants: the layer CAN panic *)
(* seeded C04-m1: make([]byte, int(length)-p.UDHeader.Len()) — int arithmetic, negative when sm_length < UDH length *)
Definition msg_len_int (l ulen : N) : Z := (Z.of_N l - Z.of_N ulen)%Z.
Definition dec_short_m1 := dec_short_gen msg_len_int.
(* seeded C04-x1: the TLV section cut out of one slice with end := 4 + length computed in uint16 *)
Fixpoint dec_tags_loop_x1 (fuel : nat) (rest : bytes) (m : kvs) : outcome kvs :=
  match fuel with
  | O => Err EFuel
  | S fuel' =>
    if len rest =? 0 then Ok m else
    if len rest <? 4 then Err EUnexpectedEOF else
    match rest with
    | t0 :: t1 :: l0 :: l1 :: _ =>
      let tag := de16 t0 t1 in let length := de16 l0 l1 in
      if (len rest =? 4) && (0 <? length) then Ok m else
      let e := (4 + length) mod 65536 in                (* end := 4 + length, uint16 *)
      if len rest <? e then Err EUnexpectedEOF else
      do n <- go_make (Z.of_N length);
      do d <- go_slice rest 4 (Z.of_N e);               (* copy(data, rest[4:end]) *)
      do rest' <- go_slice rest (Z.of_N e) (Z.of_N (len rest));
      dec_tags_loop_x1 fuel' rest' (kv_insert tag d m)
    | _ => Err EUnexpectedEOF
    end
  end.
Definition dec_tags_x1 (s : bytes) : outcome kvs := dec_tags_loop_x1 (S (List.length s)) s [].
(* seeded C04-h1 / x2: reflect.New before the `ok` of the registry lookup is looked at *)
Definition read_pdu_unchecked := read_pdu_gen false.
