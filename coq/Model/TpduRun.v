(* The TPDU model instantiated with the environment regenerated from the
   running code (Gen/TpduLayouts.v): these are the functions the generated
   cases evaluate and the theorems of C18 / C19 speak about. *)
From V Require Export Model.Tpdu Gen.TpduLayouts.
Open Scope N_scope.

Definition sms_unmarshal : bytes -> outcome tpdu := unmarshal sms_env.
Definition sms_unmarshal_legacy : bytes -> outcome tpdu := unmarshal_legacy sms_env.
Definition sms_marshal : tpdu -> outcome bytes := marshal sms_env.
Definition sms_remarshal : bytes -> outcome bytes := remarshal sms_env.

(* case forms used by harness/c18.go and harness/c19.go *)
Definition sms_class (bs : bytes) : N := dec_class sms_env bs.
Definition sms_dec_is := dec_is sms_env.
Definition sms_enc_is := enc_is sms_env.
Definition sms_enc_class (bs : bytes) : N := oclass (sms_remarshal bs).
