(* Executable model of coding/gsm7bit (GSM 03.38 packed 7-bit codec) and of the
   detector coding.GSM7BitCoding.Validate, following the Go code AFTER the
   fix: commits for D13 (inverse table), D14 (second CR written past the
   output) and D15 (decoder strips only the filler).  Septet 0x09 is U+00E7 as
   in the code (D16, known finding; GSM 03.38 has U+00C7).

   Text is a list of Unicode scalar values, octets and septets are N.
   Every Go index expression (dst[index] in packSeptets, reverseLookup[septet],
   septets[n-1]) is a bounds-checked operation that yields Panic.
   No proofs in this file. *)
From V Require Import Model.Base.
Open Scope N_scope.
Local Notation length := List.length.

Definition esc : N := 0x1B.
Definition cr : N := 0x0D.

(* --- table.go ----------------------------------------------------------- *)
(* var reverseLookup = [128]rune{...}; slot 0x1B holds U+00A0 but is never used *)
Definition reverse_lookup : list N := [
 0x40; 0xA3; 0x24; 0xA5; 0xE8; 0xE9; 0xF9; 0xEC; 0xF2; 0xE7; 0x0A; 0xD8; 0xF8; 0x0D; 0xC5; 0xE5;
 0x0394; 0x005F; 0x03A6; 0x0393; 0x039B; 0x03A9; 0x03A0; 0x03A8; 0x03A3; 0x0398; 0x039E; 0x00A0;
 0xC6; 0xE6; 0xDF; 0xC9; 0x20; 0x21; 0x22; 0x23; 0xA4; 0x25; 0x26; 0x27; 0x28; 0x29; 0x2A; 0x2B;
 0x2C; 0x2D; 0x2E; 0x2F; 0x30; 0x31; 0x32; 0x33; 0x34; 0x35; 0x36; 0x37; 0x38; 0x39; 0x3A; 0x3B;
 0x3C; 0x3D; 0x3E; 0x3F; 0xA1; 0x41; 0x42; 0x43; 0x44; 0x45; 0x46; 0x47; 0x48; 0x49; 0x4A; 0x4B;
 0x4C; 0x4D; 0x4E; 0x4F; 0x50; 0x51; 0x52; 0x53; 0x54; 0x55; 0x56; 0x57; 0x58; 0x59; 0x5A; 0xC4;
 0xD6; 0xD1; 0xDC; 0xA7; 0xBF; 0x61; 0x62; 0x63; 0x64; 0x65; 0x66; 0x67; 0x68; 0x69; 0x6A; 0x6B;
 0x6C; 0x6D; 0x6E; 0x6F; 0x70; 0x71; 0x72; 0x73; 0x74; 0x75; 0x76; 0x77; 0x78; 0x79; 0x7A; 0xE4;
 0xF6; 0xF1; 0xFC; 0xE0 ].

(* var forwardEscapes = map[rune]byte{...} as (rune, septet) pairs *)
Definition forward_escapes : list (N * N) := [
 (0x0C, 0x0A); (0x5B, 0x3C); (0x5C, 0x2F); (0x5D, 0x3E); (0x5E, 0x14); (0x7B, 0x28); (0x7C, 0x40);
 (0x7D, 0x29); (0x7E, 0x3D); (0x20AC, 0x65) ].

(* init(): for index, r := range reverseLookup { if index == esc { continue }; forwardLookup[r] = index }
   -- a later index overwrites an earlier one. *)
Fixpoint fwd_build (skip : bool) (i : N) (tbl : list N) (r : N) (acc : option N) : option N :=
  match tbl with
  | [] => acc
  | u :: rest =>
      fwd_build skip (i + 1) rest r (if (negb (skip && (i =? esc))) && (u =? r) then Some i else acc)
  end.
Definition forward_lookup (r : N) : option N := fwd_build true 0 reverse_lookup r None.

Fixpoint assoc_fst (k : N) (l : list (N * N)) : option N :=
  match l with [] => None | (a, b) :: rest => if a =? k then Some b else assoc_fst k rest end.
Fixpoint assoc_snd (k : N) (l : list (N * N)) : option N :=
  match l with [] => None | (a, b) :: rest => if b =? k then Some a else assoc_snd k rest end.
Definition forward_escape (r : N) : option N := assoc_fst r forward_escapes.
(* init(): for r, b := range forwardEscapes { reverseEscapes[b] = r } *)
Definition reverse_escape (c : N) : option N := assoc_snd c forward_escapes.

(* var DefaultAlphabet = &unicode.RangeTable{R16: ...} (all strides 1) *)
Definition default_alphabet : list (N * N) := [
 (0x000A, 0x000A); (0x000C, 0x000D); (0x0020, 0x005F); (0x0061, 0x007E); (0x00A1, 0x00A1);
 (0x00A3, 0x00A5); (0x00A7, 0x00A7); (0x00BF, 0x00BF); (0x00C4, 0x00C6); (0x00C9, 0x00C9);
 (0x00D1, 0x00D1); (0x00D6, 0x00D6); (0x00D8, 0x00D8); (0x00DC, 0x00DC); (0x00DF, 0x00E0);
 (0x00E4, 0x00E9); (0x00EC, 0x00EC); (0x00F1, 0x00F2); (0x00F6, 0x00F6); (0x00F8, 0x00F9);
 (0x00FC, 0x00FC); (0x0393, 0x0394); (0x0398, 0x0398); (0x039B, 0x039B); (0x039E, 0x039E);
 (0x03A0, 0x03A0); (0x03A3, 0x03A3); (0x03A6, 0x03A6); (0x03A8, 0x03A9); (0x20AC, 0x20AC) ].

Definition in_ranges (r : N) (l : list (N * N)) : bool :=
  existsb (fun p => (fst p <=? r) && (r <=? snd p)) l.

(* coding.GSM7BitCoding.Validate: every rune is in DefaultAlphabet *)
Definition validate_rune (r : N) : bool := in_ranges r default_alphabet.
Definition validate (t : list N) : bool := forallb validate_rune t.

(* --- encoder.go --------------------------------------------------------- *)
(* toSeptets: forwardLookup first, then forwardEscapes, else ErrInvalidCharacter *)
Definition rune_septets (r : N) : option (list N) :=
  match forward_lookup r with
  | Some v => Some [v]
  | None => match forward_escape r with
            | Some v => Some [esc; v]
            | None => None
            end
  end.

Fixpoint to_septets (t : list N) : outcome (list N) :=
  match t with
  | [] => Ok []
  | r :: rest =>
      match rune_septets r with
      | None => Err EText
      | Some s => do ss <- to_septets rest; Ok (s ++ ss)
      end
  end.

Definition blocks (n : nat) : nat := (n / 8 + (if Nat.eqb (n mod 8) 0 then 0 else 1))%nat.

(* bit i of c, i = 0 .. w-1:  c >> i & 1 *)
Fixpoint bits_of (w : nat) (n : N) : list bool :=
  match w with O => [] | S w' => N.odd n :: bits_of w' (N.div2 n) end.
Fixpoint of_bits (l : list bool) : N :=
  match l with [] => 0 | b :: r => (if b then 1 else 0) + 2 * of_bits r end.

Fixpoint upd (i : nat) (v : N) (d : bytes) : bytes :=
  match d with
  | [] => []
  | x :: r => match i with O => v :: r | S i' => x :: upd i' v r end
  end.

(* state of packSeptets: the destination slice, `index` and `bit` *)
Record pstate := mkp { p_dst : bytes; p_index : nat; p_bit : nat }.

(* dst[index] |= b << bit; bit++; if bit == 8 { index++; bit = 0 }
   -- dst[index] is read and written whatever b is: out of range panics *)
Definition or_bit (st : pstate) (b : bool) : outcome pstate :=
  match nth_error (p_dst st) (p_index st) with
  | None => Panic
  | Some o =>
      let d := upd (p_index st) (N.lor o (N.shiftl (N.b2n b) (N.of_nat (p_bit st)))) (p_dst st) in
      if Nat.eqb (S (p_bit st)) 8 then Ok (mkp d (S (p_index st)) 0)
      else Ok (mkp d (p_index st) (S (p_bit st)))
  end.

Fixpoint or_bits (st : pstate) (bs : list bool) : outcome pstate :=
  match bs with
  | [] => Ok st
  | b :: r => do st' <- or_bit st b; or_bits st' r
  end.

(* pack := func(c byte) { for i := 0; i < 7; i++ { ... c >> i & 1 ... } } *)
Definition pack_one (st : pstate) (c : N) : outcome pstate := or_bits st (bits_of 7 c).

Fixpoint pack_all (st : pstate) (septets : list N) : outcome pstate :=
  match septets with
  | [] => Ok st
  | c :: r => do st' <- pack_one st c; pack_all st' r
  end.

(* packSeptets(dst, septets) after fix D14: the CR filler when 8-bit == 7 *)
Definition pack_septets (dst : bytes) (septets : list N) : outcome bytes :=
  do st <- pack_all (mkp dst 0 0) septets;
  if Nat.eqb (8 - p_bit st) 7
  then do st' <- pack_one st cr; Ok (p_dst st')
  else Ok (p_dst st).

(* gsm7Encoder.Transform(dst, src, atEOF) with len(dst) = dstlen, dst zeroed
   (transform.Bytes hands over fresh memory); result: dst[:nDst].
   Err ESize is transform.ErrShortDst, Err EText is ErrInvalidCharacter. *)
Definition enc_transform (dstlen : nat) (t : list N) : outcome bytes :=
  match t with
  | [] => Ok []
  | _ =>
      do s <- to_septets t;
      let ndst := blocks (7 * length s) in
      if Nat.ltb dstlen ndst then Err ESize
      else do d <- pack_septets (repeat 0 dstlen) s; Ok (firstn ndst d)
  end.

(* what Encoder.Bytes returns: transform.Bytes retries with a larger dst while
   the transformer says ErrShortDst; the tightest dst that is not short is the
   one with exactly nDst octets (the capacity class that exposed D14). *)
Definition needed (t : list N) : nat :=
  match to_septets t with Ok s => blocks (7 * length s) | _ => 0%nat end.
Definition encode (t : list N) : outcome bytes := enc_transform (needed t) t.

(* --- decoder.go --------------------------------------------------------- *)
(* unpackSeptets: bits of every octet LSB first, a septet is emitted each time
   seven bits have been collected; left-over bits are dropped *)
Fixpoint unpack_bits (cur : list bool) (bs : list bool) : list N :=
  match bs with
  | [] => []
  | b :: r =>
      let cur' := cur ++ [b] in
      if Nat.eqb (length cur') 7 then of_bits cur' :: unpack_bits [] r else unpack_bits cur' r
  end.
Definition unpack_septets (src : bytes) : list N := unpack_bits [] (flat_map (bits_of 8) src).

(* the decoding loop of gsm7Decoder.Transform; Err EDecode is ErrInvalidByte *)
Fixpoint dec_septets (ss : list N) : outcome (list N) :=
  match ss with
  | [] => Ok []
  | s :: rest =>
      if (s <=? 0x7F) && negb (s =? esc) then
        match nth_error reverse_lookup (N.to_nat s) with   (* reverseLookup[septet] *)
        | None => Panic
        | Some r => do rs <- dec_septets rest; Ok (r :: rs)
        end
      else
        match rest with
        | [] => Err EDecode
        | c :: rest' =>
            match reverse_escape c with
            | None => Err EDecode
            | Some r => do rs <- dec_septets rest'; Ok (r :: rs)
            end
        end
  end.

Definition utf8_len (r : N) : nat :=
  if r <? 0x80 then 1%nat else if r <? 0x800 then 2%nat else if r <? 0x10000 then 3%nat else 4%nat.
Definition utf8_total (rs : list N) : nat := fold_right (fun r a => (utf8_len r + a)%nat) 0%nat rs.

(* after fix D15: n := len(septets); n > 0 && n%8 == 0 && septets[n-1] == cr  =>  nDst-- *)
Definition filler_present (ss : list N) : outcome bool :=
  let n := length ss in
  if Nat.ltb 0 n && Nat.eqb (n mod 8) 0 then
    match nth_error ss (n - 1) with            (* septets[n-1] *)
    | None => Panic
    | Some s => Ok (s =? cr)
    end
  else Ok false.

(* nDst-- removes the last OCTET of the UTF-8 buffer; that is a whole character
   only if the last rune is below U+0080.  Err EOther marks "would cut inside a
   multi-octet character"; Proofs/Gsm7Proofs.v shows it cannot happen. *)
Definition drop_last_octet (rs : list N) : outcome (list N) :=
  match rev rs with
  | [] => Err EOther
  | r :: before => if r <? 0x80 then Ok (rev before) else Err EOther
  end.

Definition dec_finish (ss rs : list N) : outcome (list N) :=
  do f <- filler_present ss;
  if f then drop_last_octet rs else Ok rs.

(* gsm7Decoder.Transform with len(dst) = dstlen; result: the runes of dst[:nDst] *)
Definition dec_transform (dstlen : nat) (src : bytes) : outcome (list N) :=
  match src with
  | [] => Ok []
  | _ =>
      let ss := unpack_septets src in
      do rs <- dec_septets ss;
      if Nat.ltb dstlen (utf8_total rs) then Err ESize else dec_finish ss rs
  end.

(* what Decoder.Bytes returns (dst large enough) *)
Definition decode (src : bytes) : outcome (list N) :=
  match src with
  | [] => Ok []
  | _ => let ss := unpack_septets src in do rs <- dec_septets ss; dec_finish ss rs
  end.

(* --- observables used by the generated cases ---------------------------- *)
Definition beq_runes := beq_bytes.
(* cls: 0 value returned, 1 error, 2 panic, 3 transform.ErrShortDst *)
Definition out_is {A} (eq : A -> A -> bool) (x : outcome A) (cls : N) (v : A) : bool :=
  match x with
  | Ok a => (cls =? 0) && eq a v
  | Err ESize => cls =? 3
  | Err _ => cls =? 1
  | Panic => cls =? 2
  end.

Definition is_nil {A} (l : list A) : bool := match l with [] => true | _ => false end.

(* the one case in which C08 leaves the encoder and the decoder a choice:
   the septet count is a multiple of 8 and the text ends in CR *)
Definition ambiguous (t : list N) : bool :=
  match to_septets t with
  | Ok s => negb (is_nil t) && Nat.eqb (length s mod 8) 0 && (last t 0 =? 13)
  | _ => false
  end.
Definition eq_mod_cr (a b : list N) : bool :=
  beq_runes a b || beq_runes (a ++ [13]) b || beq_runes a (b ++ [13]).

(* Encoder.Bytes observed (cls, out) against the model: equal, or - only in the
   ambiguous case - followed by the optional further octet holding the second CR *)
Definition enc_obs_ok (t : list N) (cls : N) (out : bytes) : bool :=
  match encode t with
  | Ok o => (cls =? 0) && (beq_bytes o out || (ambiguous t && beq_bytes (o ++ [cr]) out))
  | Err _ => cls =? 1
  | Panic => cls =? 2
  end.
(* Decoder.Bytes on the encoder's output: equal; in the ambiguous case up to one trailing CR *)
Definition dec_rt_ok (t : list N) (out : bytes) (cls : N) (rs : list N) : bool :=
  match decode out with
  | Ok a => (cls =? 0) && (beq_runes a rs || (ambiguous t && eq_mod_cr a rs))
  | Err _ => cls =? 1
  | Panic => cls =? 2
  end.
(* one text through encoder, decoder and detector *)
Definition text_case (t : list N) (ecls : N) (eout : bytes) (dcls : N) (drs : list N) (v : bool) : bool :=
  enc_obs_ok t ecls eout && (negb (ecls =? 0) || dec_rt_ok t eout dcls drs) && Bool.eqb (validate t) v.
(* Decoder.Bytes on arbitrary octets: C08 only demands "a value or an error, no
   panic"; a decoder that is more lenient about malformed escapes is not wrong,
   so value-vs-error is not compared, the value is (up to the trailing-CR rule) *)
Definition dec_obs_ok (src : bytes) (cls : N) (rs : list N) : bool :=
  match decode src with
  | Ok a => (cls =? 1) || ((cls =? 0) && eq_mod_cr a rs)
  | Err _ => (cls =? 0) || (cls =? 1)
  | Panic => cls =? 2
  end.

(* Transform called directly with a given destination capacity.  C08 observes the
   codec at Encoder.Bytes / Decoder.Bytes; at this level it only demands "no panic",
   and whatever is returned must be what Bytes returns.  Reporting ErrShortDst
   (cls 3) although the output would fit merely makes transform.Bytes retry, so
   it is tolerated; octets returned into too small a destination are not. *)
Definition cap_obs_ok {A} (eq : A -> A -> bool) (x : outcome A) (cls : N) (v : A) : bool :=
  (cls =? 3) && negb (is_panic x) || out_is eq x cls v.

(* --- the code before the fix: commits (for the ..._before_fix witnesses) -- *)
(* D13: inverse table built over 256 slots (128 unused slots hold rune 0), ESC slot not skipped *)
Definition forward_lookup_legacy (r : N) : option N :=
  fwd_build false 0 (reverse_lookup ++ repeat 0 128) r None.
(* D14: else if bit == 0 && item == cr { dst[index] = 0x00; pack(cr) } *)
Definition pack_septets_legacy (dst : bytes) (septets : list N) : outcome bytes :=
  do st <- pack_all (mkp dst 0 0) septets;
  if Nat.eqb (8 - p_bit st) 7
  then do st' <- pack_one st cr; Ok (p_dst st')
  else if Nat.eqb (p_bit st) 0 && (last septets 0 =? cr)
  then match nth_error (p_dst st) (p_index st) with
       | None => Panic
       | Some _ => do st' <- pack_one (mkp (upd (p_index st) 0 (p_dst st)) (p_index st) (p_bit st)) cr; Ok (p_dst st')
       end
  else Ok (p_dst st).
(* D15: n := len(decoded); n > 2 && (decoded[n-1] == cr || decoded[n-2] == cr) => nDst-- (on UTF-8 octets;
   stated here for texts below U+0080, one octet per rune) *)
Definition dec_finish_legacy (rs : list N) : list N :=
  let n := length rs in
  if Nat.ltb 2 n && ((nth (n - 1) rs 0 =? cr) || (nth (n - 2) rs 0 =? cr)) then removelast rs else rs.
