(* Executable model of coding/gsm7bit (GSM 03.38 packed 7-bit codec) and of the
   detector coding.GSM7BitCoding.Validate, following the Go code AFTER the
   fix: commits for D13 (inverse table), D14 (second CR written past the
   output) and D15 (decoder strips only the filler).  Septet 0x09 is U+00E7 as
   in the code (D16, known finding; GSM 03.38 has U+00C7).

   Text is a list of Unicode scalar values, octets and septets are N.
   Every Go index expression (dst[index] in packSeptets, reverseLookup[septet],
   septets[n-1]) is a bounds-checked operation that yields Panic.
   No proofs in this file. *)
From V Require Import Model.Base.
Open Scope N_scope.
Local Notation length := List.length.

Definition esc : N := 0x1B.
Definition cr : N := 0x0D.

(* --- table.go ----------------------------------------------------------- *)
(* var reverseLookup = [128]rune{...}; slot 0x1B holds U+00A0 but is never used *)
Definition reverse_lookup : list N := [
 0x40; 0xA3; 0x24; 0xA5; 0xE8; 0xE9; 0xF9; 0xEC; 0xF2; 0xE7; 0x0A; 0xD8; 0xF8; 0x0D; 0xC5; 0xE5;
 0x0394; 0x005F; 0x03A6; 0x0393; 0x039B; 0x03A9; 0x03A0; 0x03A8; 0x03A3; 0x0398; 0x039E; 0x00A0;
 0xC6; 0xE6; 0xDF; 0xC9; 0x20; 0x21; 0x22; 0x23; 0xA4; 0x25; 0x26; 0x27; 0x28; 0x29; 0x2A; 0x2B;
 0x2C; 0x2D; 0x2E; 0x2F; 0x30; 0x31; 0x32; 0x33; 0x34; 0x35; 0x36; 0x37; 0x38; 0x39; 0x3A; 0x3B;
 0x3C; 0x3D; 0x3E; 0x3F; 0xA1; 0x41; 0x42; 0x43; 0x44; 0x45; 0x46; 0x47; 0x48; 0x49; 0x4A; 0x4B;
 0x4C; 0x4D; 0x4E; 0x4F; 0x50; 0x51; 0x52; 0x53; 0x54; 0x55; 0x56; 0x57; 0x58; 0x59; 0x5A; 0xC4;
 0xD6; 0xD1; 0xDC; 0xA7; 0xBF; 0x61; 0x62; 0x63; 0x64; 0x65; 0x66; 0x67; 0x68; 0x69; 0x6A; 0x6B;
 0x6C; 0x6D; 0x6E; 0x6F; 0x70; 0x71; 0x72; 0x73; 0x74; 0x75; 0x76; 0x77; 0x78; 0x79; 0x7A; 0xE4;
 0xF6; 0xF1; 0xFC; 0xE0 ].

(* var forwardEscapes = map[rune]byte{...} as (rune, septet) pairs *)
Definition forward_escapes : list (N * N) := [
 (0x0C, 0x0A); (0x5B, 0x3C); (0x5C, 0x2F); (0x5D, 0x3E); (0x5E, 0x14); (0x7B, 0x28); (0x7C, 0x40);
 (0x7D, 0x29); (0x7E, 0x3D); (0x20AC, 0x65) ].

(* init(): for index, r := range reverseLookup { if index == esc { continue }; forwardLookup[r] = index }
   -- a later index overwrites an earlier one. *)
Fixpoint fwd_build (skip : bool) (i : N) (tbl : list N) (r : N) (acc : option N) : option N :=
  match tbl with
  | [] => acc
  | u :: rest =>
      fwd_build skip (i + 1) rest r (if (negb (skip && (i =? esc))) && (u =? r) then Some i else acc)
  end.
Definition forward_lookup (r : N) : option N := fwd_build true 0 reverse_lookup r None.

Fixpoint assoc_fst (k : N) (l : list (N * N)) : option N :=
  match l with [] => None | (a, b) :: rest => if a =? k then Some b else assoc_fst k rest end.
Fixpoint assoc_snd (k : N) (l : list (N * N)) : option N :=
  match l with [] => None | (a, b) :: rest => if b =? k then Some a else assoc_snd k rest end.
Definition forward_escape (r : N) : option N := assoc_fst r forward_escapes.
(* init(): for r, b := range forwardEscapes { reverseEscapes[b] = r } *)
Definition reverse_escape (c : N) : option N := assoc_snd c forward_escapes.

(* var DefaultAlphabet = &unicode.RangeTable{R16: ...} (all strides 1) *)
Definition default_alphabet : list (N * N) := [
 (0x000A, 0x000A); (0x000C, 0x000D); (0x0020, 0x005F); (0x0061, 0x007E); (0x00A1, 0x00A1);
 (0x00A3, 0x00A5); (0x00A7, 0x00A7); (0x00BF, 0x00BF); (0x00C4, 0x00C6); (0x00C9, 0x00C9);
 (0x00D1, 0x00D1); (0x00D6, 0x00D6); (0x00D8, 0x00D8); (0x00DC, 0x00DC); (0x00DF, 0x00E0);
 (0x00E4, 0x00E9); (0x00EC, 0x00EC); (0x00F1, 0x00F2); (0x00F6, 0x00F6); (0x00F8, 0x00F9);
 (0x00FC, 0x00FC); (0x0393, 0x0394); (0x0398, 0x0398); (0x039B, 0x039B); (0x039E, 0x039E);
 (0x03A0, 0x03A0); (0x03A3, 0x03A3); (0x03A6, 0x03A6); (0x03A8, 0x03A9); (0x20AC, 0x20AC) ].

Definition in_ranges (r : N) (l : list (N * N)) : bool :=
  existsb (fun p => (fst p <=? r) && (r <=? snd p)) l.

(* coding.GSM7BitCoding.Validate: every rune is in DefaultAlphabet *)
Definition validate_rune (r : N) : bool := in_ranges r default_alphabet.
Definition validate (t : list N) : bool := forallb validate_rune t.

(* --- encoder.go --------------------------------------------------------- *)
(* toSeptets: forwardLookup first, then forwardEscapes, else ErrInvalidCharacter *)
Definition rune_septets (r : N) : option (list N) :=
  match forward_lookup r with
  | Some v => Some [v]
  | None => match forward_escape r with
            | Some v => Some [esc; v]
            | None => None
            end
  end.

Fixpoint to_septets (t : list N) : outcome (list N) :=
  match t with
  | [] => Ok []
  | r :: rest =>
      match rune_septets r with
      | None => Err EText
      | Some s => do ss <- to_septets rest; Ok (s ++ ss)
      end
  end.

Definition blocks (n : nat) : nat := (n / 8 + (if Nat.eqb (n mod 8) 0 then 0 else 1))%nat.

(* bit i of c, i = 0 .. w-1:  c >> i & 1 *)
Fixpoint bits_of (w : nat) (n : N) : list bool :=
  match w with O => [] | S w' => N.odd n :: bits_of w' (N.div2 n) end.
Fixpoint of_bits (l : list bool) : N :=
  match l with [] => 0 | b :: r => (if b then 1 else 0) + 2 * of_bits r end.

Fixpoint upd (i : nat) (v : N) (d : bytes) : bytes :=
  match d with
  | [] => []
  | x :: r => match i with O => v :: r | S i' => x :: upd i' v r end
  end.

(* state of packSeptets: the destination slice, `index` and `bit` *)
Record pstate := mkp { p_dst : bytes; p_index : nat; p_bit : nat }.

(* dst[index] |= b << bit; bit++; if bit == 8 { index++; bit = 0 }
   -- dst[index] is read and written whatever b is: out of range panics *)
Definition or_bit (st : pstate) (b : bool) : outcome pstate :=
  match nth_error (p_dst st) (p_index st) with
  | None => Panic
  | Some o =>
      let d := upd (p_index st) (N.lor o (N.shiftl (N.b2n b) (N.of_nat (p_bit st)))) (p_dst st) in
      if Nat.eqb (S (p_bit st)) 8 then Ok (mkp d (S (p_index st)) 0)
      else Ok (mkp d (p_index st) (S (p_bit st)))
  end.

Fixpoint or_bits (st : pstate) (bs : list bool) : outcome pstate :=
  match bs with
  | [] => Ok st
  | b :: r => do st' <- or_bit st b; or_bits st' r
  end.

(* pack := func(c byte) { for i := 0; i < 7; i++ { ... c >> i & 1 ... } } *)
Definition pack_one (st : pstate) (c : N) : outcome pstate := or_bits st (bits_of 7 c).

Fixpoint pack_all (st : pstate) (septets : list N) : outcome pstate :=
  match septets with
  | [] => Ok st
  | c :: r => do st' <- pack_one st c; pack_all st' r
  end.

(* packSeptets(dst, septets) after fix D14: the CR filler when 8-bit == 7 *)
Definition pack_septets (dst : bytes) (septets : list N) : outcome bytes :=
  do st <- pack_all (mkp dst 0 0) septets;
  if Nat.eqb (8 - p_bit st) 7
  then do st' <- pack_one st cr; Ok (p_dst st')
  else Ok (p_dst st).

(* gsm7Encoder.Transform(dst, src, atEOF) with len(dst) = dstlen, dst zeroed
   (transform.Bytes hands over fresh memory); result: dst[:nDst].
   Err ESize is transform.ErrShortDst, Err EText is ErrInvalidCharacter. *)
Definition enc_transform (dstlen : nat) (t : list N) : outcome bytes :=
  match t with
  | [] => Ok []
  | _ =>
      do s <- to_septets t;
      let ndst := blocks (7 * length s) in
      if Nat.ltb dstlen ndst then Err ESize
      else do d <- pack_septets (repeat 0 dstlen) s; Ok (firstn ndst d)
  end.

(* what Encoder.Bytes returns: transform.Bytes retries with a larger dst while
   the transformer says ErrShortDst; the tightest dst that is not short is the
   one with exactly nDst octets (the capacity class that exposed D14). *)
Definition needed (t : list N) : nat :=
  match to_septets t with Ok s => blocks (7 * length s) | _ => 0%nat end.
Definition encode (t : list N) : outcome bytes := enc_transform (needed t) t.

(* --- decoder.go --------------------------------------------------------- *)
(* unpackSeptets: bits of every octet LSB first, a septet is emitted each time
   seven bits have been collected; left-over bits are dropped *)
Fixpoint unpack_bits (cur : list bool) (bs : list bool) : list N :=
  match bs with
  | [] => []
  | b :: r =>
      let cur' := cur ++ [b] in
      if Nat.eqb (length cur') 7 then of_bits cur' :: unpack_bits [] r else unpack_bits cur' r
  end.
Definition unpack_septets (src : bytes) : list N := unpack_bits [] (flat_map (bits_of 8) src).

(* the decoding loop of gsm7Decoder.Transform; Err EDecode is ErrInvalidByte *)
Fixpoint dec_septets (ss : list N) : outcome (list N) :=
  match ss with
  | [] => Ok []
  | s :: rest =>
      if (s <=? 0x7F) && negb (s =? esc) then
        match nth_error reverse_lookup (N.to_nat s) with   (* reverseLookup[septet] *)
        | None => Panic
        | Some r => do rs <- dec_septets rest; Ok (r :: rs)
        end
      else
        match rest with
        | [] => Err EDecode
        | c :: rest' =>
            match reverse_escape c with
            | None => Err EDecode
            | Some r => do rs <- dec_septets rest'; Ok (r :: rs)
            end
        end
  end.

Definition utf8_len (r : N) : nat :=
  if r <? 0x80 then 1%nat else if r <? 0x800 then 2%nat else if r <? 0x10000 then 3%nat else 4%nat.
Definition utf8_total (rs : list N) : nat := fold_right (fun r a => (utf8_len r + a)%nat) 0%nat rs.

(* after fix D15: n := len(septets); n > 0 && n%8 == 0 && septets[n-1] == cr  =>  nDst-- *)
Definition filler_present (ss : list N) : outcome bool :=
  let n := length ss in
  if Nat.ltb 0 n && Nat.eqb (n mod 8) 0 then
    match nth_error ss (n - 1) with            (* septets[n-1] *)
    | None => Panic
    | Some s => Ok (s =? cr)
    end
  else Ok false.

(* nDst-- removes the last OCTET of the UTF-8 buffer; that is a whole character
   only if the last rune is below U+0080.  Err EOther marks "would cut inside a
   multi-octet character"; Proofs/Gsm7Proofs.v shows it cannot happen. *)
Definition drop_last_octet (rs : list N) : outcome (list N) :=
  match rev rs with
  | [] => Err EOther
  | r :: before => if r <? 0x80 then Ok (rev before) else Err EOther
  end.

Definition dec_finish (ss rs : list N) : outcome (list N) :=
  do f <- filler_present ss;
  if f then drop_last_octet rs else Ok rs.

(* gsm7Decoder.Transform with len(dst) = dstlen; result: the runes of dst[:nDst] *)
Definition dec_transform (dstlen : nat) (src : bytes) : outcome (list N) :=
  match src with
  | [] => Ok []
  | _ =>
      let ss := unpack_septets src in
      do rs <- dec_septets ss;
      if Nat.ltb dstlen (utf8_total rs) then Err ESize else dec_finish ss rs
  end.

(* what Decoder.Bytes returns (dst large enough) *)
Definition decode (src : bytes) : outcome (list N) :=
  match src with
  | [] => Ok []
  | _ => let ss := unpack_septets src in do rs <- dec_septets ss; dec_finish ss rs
  end.

(* --- the transform.Transformer contract (both transformers, after the fix:
   commits "report the source octets consumed", "clear the destination",
   "ErrShortSrc until atEOF") ------------------------------------------------
   A call Transform(dst, src, atEOF) is modelled with the destination AS THE
   CALLER LEFT IT (any octets), and returns the whole destination after the
   call, nDst, nSrc and the error.  len(src) is a separate argument so that the
   same function serves a text (srclen = its UTF-8 length) and raw octets that
   are not UTF-8 (srclen = their number, the runes are what Go's range yields). *)
Inductive xerr := XNil | XShortDst | XShortSrc | XInvalid.
Record xres := mkx { x_dst : bytes; x_ndst : nat; x_nsrc : nat; x_err : xerr }.

(* for i := range dst[:n] { dst[i] = 0 }   (n <= len(dst) is checked before) *)
Definition clear_prefix (n : nat) (dst : bytes) : outcome bytes :=
  if Nat.ltb (length dst) n then Panic (* dst[:n] with n > len(dst) *) else Ok (repeat 0 n ++ skipn n dst).

Definition enc_xf (dst : bytes) (t : list N) (srclen : nat) (ateof : bool) : outcome xres :=
  match t with
  | [] => Ok (mkx dst 0 0 XNil)                                  (* if len(src) == 0 { return } *)
  | _ =>
      if negb ateof then Ok (mkx dst 0 0 XShortSrc) else
      match to_septets t with
      | Panic => Panic
      | Err _ => Ok (mkx dst 0 0 XInvalid)
      | Ok s =>
          let ndst := blocks (7 * length s) in
          if Nat.ltb (length dst) ndst then Ok (mkx dst 0 0 XShortDst)
          else do d0 <- clear_prefix ndst dst; do d <- pack_septets d0 s; Ok (mkx d ndst srclen XNil)
      end
  end.

(* Go's UTF-8 encoding of a rune (buf.WriteRune in the decoder) *)
Definition utf8_enc (r : N) : bytes :=
  if r <? 0x80 then [r]
  else if r <? 0x800 then [0xC0 + r / 64; 0x80 + r mod 64]
  else if r <? 0x10000 then [0xE0 + r / 4096; 0x80 + (r / 64) mod 64; 0x80 + r mod 64]
  else [0xF0 + r / 262144; 0x80 + (r / 4096) mod 64; 0x80 + (r / 64) mod 64; 0x80 + r mod 64].
Definition utf8_bytes (rs : list N) : bytes := flat_map utf8_enc rs.

(* what `for _, r := range string(src)` yields: utf8.DecodeRune on every position,
   U+FFFD with width 1 for every octet that does not start a well-formed sequence *)
Definition cont (b : N) : bool := (0x80 <=? b) && (b <=? 0xBF).
Fixpoint utf8_dec (s : bytes) : list N :=
  match s with
  | [] => []
  | b0 :: r0 =>
      if b0 <? 0x80 then b0 :: utf8_dec r0
      else if (0xC2 <=? b0) && (b0 <=? 0xDF) then
        match r0 with
        | b1 :: r1 => if cont b1 then ((b0 mod 32) * 64 + b1 mod 64) :: utf8_dec r1 else 0xFFFD :: utf8_dec r0
        | [] => 0xFFFD :: utf8_dec r0
        end
      else if (0xE0 <=? b0) && (b0 <=? 0xEF) then
        match r0 with
        | b1 :: b2 :: r2 =>
            if ((if b0 =? 0xE0 then 0xA0 else 0x80) <=? b1) && (b1 <=? (if b0 =? 0xED then 0x9F else 0xBF)) && cont b2
            then (((b0 mod 16) * 64 + b1 mod 64) * 64 + b2 mod 64) :: utf8_dec r2
            else 0xFFFD :: utf8_dec r0
        | _ => 0xFFFD :: utf8_dec r0
        end
      else if (0xF0 <=? b0) && (b0 <=? 0xF4) then
        match r0 with
        | b1 :: b2 :: b3 :: r3 =>
            if ((if b0 =? 0xF0 then 0x90 else 0x80) <=? b1) && (b1 <=? (if b0 =? 0xF4 then 0x8F else 0xBF)) && cont b2 && cont b3
            then ((((b0 mod 8) * 64 + b1 mod 64) * 64 + b2 mod 64) * 64 + b3 mod 64) :: utf8_dec r3
            else 0xFFFD :: utf8_dec r0
        | _ => 0xFFFD :: utf8_dec r0
        end
      else 0xFFFD :: utf8_dec r0
  end.

(* gsm7Encoder.Transform on raw source octets *)
Definition enc_xfb (dst src : bytes) (ateof : bool) : outcome xres := enc_xf dst (utf8_dec src) (length src) ateof.

(* gsm7Decoder.Transform: the whole UTF-8 buffer is copied into dst (the filler CR
   included), then nDst-- drops the filler from what is claimed *)
Definition dec_xf (dst src : bytes) (ateof : bool) : outcome xres :=
  match src with
  | [] => Ok (mkx dst 0 0 XNil)
  | _ =>
      if negb ateof then Ok (mkx dst 0 0 XShortSrc) else
      let ss := unpack_septets src in
      match dec_septets ss with
      | Panic => Panic
      | Err _ => Ok (mkx dst 0 0 XInvalid)
      | Ok rs =>
          let buf := utf8_bytes rs in
          let n := length buf in
          if Nat.ltb (length dst) n then Ok (mkx dst 0 0 XShortDst)
          else do f <- filler_present ss;
               Ok (mkx (buf ++ skipn n dst) (if f then n - 1 else n) (length src) XNil)
      end
  end.

(* What the x/text drivers make of a transformer (transform.Bytes / String /
   Reader / Writer+Close all end in Transform(dst, whole src, true) with a
   destination that is large enough, or fail): the octets claimed, or the error. *)
Definition xf_value (x : outcome xres) : outcome bytes :=
  match x with
  | Panic => Panic
  | Err e => Err e
  | Ok r => match x_err r with
            | XNil => Ok (firstn (x_ndst r) (x_dst r))
            | XShortDst => Err ESize
            | XShortSrc => Err EOther
            | XInvalid => Err EText
            end
  end.

(* A caller that follows the x/text contract (transform.Writer, Reader, String) over a source that
   arrives in chunks: hand over what it has with atEOF=false; keep everything the transformer did
   not consume, append the next chunk; at the end call with atEOF=true.  [Err EOther]: the
   transformer consumed or produced something before atEOF - a streaming transformer, which
   neither of these two is. *)
Fixpoint feed (T : bytes -> bytes -> bool -> outcome xres) (d0 pending : bytes) (chunks : list bytes) : outcome bytes :=
  match chunks with
  | [] => xf_value (T d0 pending true)
  | c :: rest =>
      match T d0 (pending ++ c) false with
      | Ok r =>
          match x_err r with
          | XShortSrc | XNil =>
              if Nat.eqb (x_ndst r) 0 && Nat.eqb (x_nsrc r) 0 then feed T d0 (pending ++ c) rest else Err EOther
          | XShortDst => Err ESize
          | XInvalid => Err EText
          end
      | Err e => Err e
      | Panic => Panic
      end
  end.


(* --- observables used by the generated cases ---------------------------- *)
Definition beq_runes := beq_bytes.
(* cls: 0 value returned, 1 error, 2 panic, 3 transform.ErrShortDst *)
Definition out_is {A} (eq : A -> A -> bool) (x : outcome A) (cls : N) (v : A) : bool :=
  match x with
  | Ok a => (cls =? 0) && eq a v
  | Err ESize => cls =? 3
  | Err _ => cls =? 1
  | Panic => cls =? 2
  end.

Definition is_nil {A} (l : list A) : bool := match l with [] => true | _ => false end.

(* the one case in which C08 leaves the encoder and the decoder a choice:
   the septet count is a multiple of 8 and the text ends in CR *)
Definition ambiguous (t : list N) : bool :=
  match to_septets t with
  | Ok s => negb (is_nil t) && Nat.eqb (length s mod 8) 0 && (last t 0 =? 13)
  | _ => false
  end.
Definition eq_mod_cr (a b : list N) : bool :=
  beq_runes a b || beq_runes (a ++ [13]) b || beq_runes a (b ++ [13]).

(* Encoder.Bytes observed (cls, out) against the model: equal, or - only in the
   ambiguous case - followed by the optional further octet holding the second CR *)
Definition enc_obs_ok (t : list N) (cls : N) (out : bytes) : bool :=
  match encode t with
  | Ok o => (cls =? 0) && (beq_bytes o out || (ambiguous t && beq_bytes (o ++ [cr]) out))
  | Err _ => cls =? 1
  | Panic => cls =? 2
  end.
(* Decoder.Bytes on the encoder's output: equal; in the ambiguous case up to one trailing CR *)
Definition dec_rt_ok (t : list N) (out : bytes) (cls : N) (rs : list N) : bool :=
  match decode out with
  | Ok a => (cls =? 0) && (beq_runes a rs || (ambiguous t && eq_mod_cr a rs))
  | Err _ => cls =? 1
  | Panic => cls =? 2
  end.
(* one text through encoder, decoder and detector *)
Definition text_case (t : list N) (ecls : N) (eout : bytes) (dcls : N) (drs : list N) (v : bool) : bool :=
  enc_obs_ok t ecls eout && (negb (ecls =? 0) || dec_rt_ok t eout dcls drs) && Bool.eqb (validate t) v.
(* Decoder.Bytes on arbitrary octets: C08 only demands "a value or an error, no
   panic"; a decoder that is more lenient about malformed escapes is not wrong,
   so value-vs-error is not compared, the value is (up to the trailing-CR rule) *)
Definition dec_obs_ok (src : bytes) (cls : N) (rs : list N) : bool :=
  match decode src with
  | Ok a => (cls =? 1) || ((cls =? 0) && eq_mod_cr a rs)
  | Err _ => (cls =? 0) || (cls =? 1)
  | Panic => cls =? 2
  end.

(* Transform called directly with a given destination capacity.  C08 observes the
   codec at Encoder.Bytes / Decoder.Bytes; at this level it only demands "no panic",
   and whatever is returned must be what Bytes returns.  Reporting ErrShortDst
   (cls 3) although the output would fit merely makes transform.Bytes retry, so
   it is tolerated; octets returned into too small a destination are not. *)
Definition cap_obs_ok {A} (eq : A -> A -> bool) (x : outcome A) (cls : N) (v : A) : bool :=
  (cls =? 3) && negb (is_panic x) || out_is eq x cls v.
(* the decoder asks for room for the filler CR before it drops it; one that checks afterwards returns
   the text where the model says ErrShortDst - the same text Bytes returns, and it fits: not a mismatch *)
Definition dcap_obs_ok (dstlen : nat) (src : bytes) (cls : N) (rs : list N) : bool :=
  cap_obs_ok beq_runes (dec_transform dstlen src) cls rs
  || match dec_transform dstlen src with
     | Err ESize => (cls =? 0) && out_is beq_runes (decode src) 0 rs && Nat.leb (utf8_total rs) dstlen
     | _ => false
     end.

(* One direct call Transform(dst, src, atEOF), observed as (cls, nDst, nSrc, dst[:nDst]) with
   cls 0 nil / 1 another error / 2 panic / 3 ErrShortDst / 4 ErrShortSrc, against the model.
   Exact where the x/text contract pins the answer.  Tolerated, because transform.Bytes / String /
   Reader / Writer then still deliver the same octets: ErrShortDst (nothing claimed) although the
   output would fit, as long as the destination is less than 8 octets larger than the output; and
   success where the model is short of room, provided the octets are the right ones, fit, and the
   whole source is consumed.  [amb] allows the optional further octet holding the second CR. *)
Definition slack : nat := 8.
Definition xf_obs_ok (lenient : bool) (m : outcome xres) (dstlen srclen : nat) (amb : unit -> bool) (whole : unit -> outcome bytes)
    (cls : N) (ndst nsrc : nat) (out : bytes) : bool :=
  match m with
  | Panic => cls =? 2
  | Err _ => false
  | Ok r =>
      match x_err r with
      | XNil =>
          ((cls =? 0) && Nat.eqb nsrc (x_nsrc r) && Nat.eqb ndst (length out) &&
             (beq_bytes out (firstn (x_ndst r) (x_dst r)) ||
              (beq_bytes out (firstn (x_ndst r) (x_dst r) ++ [cr]) && Nat.leb ndst dstlen && amb tt)))
          || ((cls =? 3) && Nat.eqb ndst 0 && Nat.eqb nsrc 0 && Nat.ltb dstlen (x_ndst r + slack))
      | XShortDst =>
          ((cls =? 3) && Nat.eqb ndst 0 && Nat.eqb nsrc 0)
          || ((cls =? 0) && Nat.eqb nsrc srclen && Nat.eqb ndst (length out) && Nat.leb ndst dstlen &&
              match whole tt with
              | Ok o => beq_bytes out o || (beq_bytes out (o ++ [cr]) && amb tt)
              | _ => false
              end)
      | XShortSrc => (cls =? 4) && Nat.eqb ndst 0 && Nat.eqb nsrc 0
      | XInvalid => (cls =? 1) || ((cls =? 3) && Nat.eqb ndst 0 && Nat.eqb nsrc 0 && Nat.ltb dstlen (srclen + slack))
                    (* [lenient] (decoder, arbitrary octets): C08 asks for "a value or an error"; a decoder that shows
                       something for a lone ESC / an unknown escape code is not wrong, its counts must still be consistent *)
                    || (lenient && (cls =? 0) && Nat.eqb nsrc srclen && Nat.eqb ndst (length out) && Nat.leb ndst dstlen)
      end
  end.

(* encoder: destination d0 as the caller left it, raw source octets *)
Definition enc_call_ok (d0 src : bytes) (ateof : bool) (cls : N) (ndst nsrc : nat) (out : bytes) : bool :=
  let t := utf8_dec src in
  xf_obs_ok false (enc_xfb d0 src ateof) (length d0) (length src) (fun _ => ambiguous t) (fun _ => encode t) cls ndst nsrc out.
(* decoder: out is UTF-8; in the ambiguous reading (8k septets, the last one CR) C08 lets the
   decoder keep or drop that CR *)
Definition dec_value (src : bytes) : outcome bytes := do rs <- decode src; Ok (utf8_bytes rs).
Definition dec_call_ok (d0 src : bytes) (ateof : bool) (cls : N) (ndst nsrc : nat) (out : bytes) : bool :=
  xf_obs_ok true (dec_xf d0 src ateof) (length d0) (length src)
    (fun _ => match filler_present (unpack_septets src) with Ok f => f | _ => false end) (fun _ => dec_value src) cls ndst nsrc out.

(* The other public entry points of the same objects (Encoder.String, transform.Writer + Close under any
   chunking of the Write calls, transform.Reader under any chunking of the source, one Encoder object
   used again): every one ends in Transform(dst, whole source, true), so what it returns must be what
   Bytes returns: cls 0 with the same octets, or cls 1 exactly when Bytes fails.  cls 5 = did not return. *)
Definition enc_entry_ok (src : bytes) (cls : N) (out : bytes) : bool :=
  let t := utf8_dec src in
  match xf_value (enc_xfb (repeat 0xFF (needed t)) src true) with
  | Ok o => (cls =? 0) && (beq_bytes out o || (beq_bytes out (o ++ [cr]) && ambiguous t))
  | Err _ => cls =? 1
  | Panic => cls =? 2
  end.
Definition dec_entry_ok (src : bytes) (cls : N) (out : bytes) : bool :=
  match dec_value src with
  | Ok o => (cls =? 1) || ((cls =? 0) && (beq_bytes out o || beq_bytes (out ++ [cr]) o || beq_bytes out (o ++ [cr])))
  | Err _ => (cls =? 0) || (cls =? 1)
  | Panic => cls =? 2
  end.

(* transform.Writer fed with the given chunks (one Write each), then Close *)
Definition enc_feed_ok (chunks : list bytes) (cls : N) (out : bytes) : bool :=
  let t := utf8_dec (List.concat chunks) in
  match feed enc_xfb (repeat 0xFF (needed t)) [] chunks with
  | Ok o => (cls =? 0) && (beq_bytes out o || (beq_bytes out (o ++ [cr]) && ambiguous t))
  | Err _ => cls =? 1
  | Panic => cls =? 2
  end.
Definition dec_feed_ok (chunks : list bytes) (cls : N) (out : bytes) : bool :=
  let src := List.concat chunks in
  match feed dec_xf (repeat 0xFF (3 * length (unpack_septets src))) [] chunks with
  | Ok o => (cls =? 1) || ((cls =? 0) && (beq_bytes out o || beq_bytes (out ++ [cr]) o || beq_bytes out (o ++ [cr])))
  | Err _ => (cls =? 0) || (cls =? 1)
  | Panic => cls =? 2
  end.
