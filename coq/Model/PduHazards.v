(* The "Go hazards" layer of the Marshal model (pdu/marshal.go:63-119,
   pdu/message.go:40-60, pdu/udh.go:52-77): the same computation as
   [Model.Pdu.marshal], but written the way the Go code is written — a private
   buffer threaded through the field walk, the in-place patches done by
   bounds-checked index / slice operations that CAN yield [Panic], the
   [goto write] exit, and an explicit destination writer whose state (octets
   held before the call, Write calls received, remaining capacity) is part of
   the input and of the result.  No proofs in this file.

   Nothing here is defined from the result of [marshal]: that the two agree,
   that the hazardous operations are never reached out of bounds, and that the
   destination is untouched on an encoding error are theorems
   (Proofs/PduHazardProofs.v), and the function is evaluated by the check on
   destinations other than a fresh recording writer (harness/c12.go). *)
From V Require Export Model.Pdu.
Open Scope N_scope.

(* ------------------------------------------------ Go operations that can panic *)
(* data[i] = v : index out of range when i >= len(data) *)
Definition go_set (buf : bytes) (i v : N) : outcome bytes :=
  if i <? len buf
  then Ok (firstn (N.to_nat i) buf ++ v :: skipn (S (N.to_nat i)) buf)
  else Panic.

(* binary.BigEndian.PutUint32(data[0:4], v): the slice expression data[0:4] needs four octets
   (checked against the capacity in Go; a buffer shorter than four octets is treated as the
   panic it is for the empty buffer — the pre-repair D2 crash) *)
Definition go_put32_at0 (buf : bytes) (v : N) : outcome bytes :=
  if 4 <=? len buf then Ok (be32 (v mod 4294967296) ++ skipn 4 buf) else Panic.

(* ------------------------------------------------ the destination io.Writer *)
(* [w_got]: every octet the destination holds (what it held before the call included);
   [w_calls]: the Write calls it received, in order; [w_room]: None = accepts everything
   (a *bytes.Buffer, a recording writer), Some k = accepts k more octets, then reports an error. *)
Record wstate := { w_got : bytes; w_calls : list bytes; w_room : option N }.

(* one w.Write(p): new state, octets accepted, error reported? *)
Definition dest_write (w : wstate) (p : bytes) : wstate * N * bool :=
  match w_room w with
  | None => ({| w_got := w_got w ++ p; w_calls := w_calls w ++ [p]; w_room := None |}, len p, false)
  | Some k =>
    let m := N.min k (len p) in
    ({| w_got := w_got w ++ firstn (N.to_nat m) p; w_calls := w_calls w ++ [p]; w_room := Some (k - m) |},
     m, m <? len p)
  end.

(* result of one Marshal call as its caller sees it *)
Inductive mres :=
| MOk (n : N)             (* n, nil *)
| MErr (e : err)          (* 0, an encoding error: nothing was handed to the destination *)
| MWriteErr (n : N)       (* n, the error of the destination (or io.ErrShortWrite) *)
| MPanic.

(* bytes.Buffer.WriteTo(w): nothing at all for an empty buffer, otherwise ONE Write with the whole content *)
Definition buffer_write_to (buf : bytes) (w : wstate) : mres * wstate :=
  if len buf =? 0 then (MOk 0, w)
  else let '(w', m, failed) := dest_write w buf in
       if failed || negb (m =? len buf) then (MWriteErr m, w') else (MOk m, w').

(* ------------------------------------------------ field encoders with in-place patches *)
(* UserDataHeader.WriteTo on a non-nil map: buf.WriteByte(0); the elements in ascending key order,
   leaving with ErrDataTooLarge at the first value over 255 octets; data[0] = byte(len(data)) - 1 *)
Fixpoint udh_elems (s : kvs) (buf : bytes) : outcome bytes :=
  match s with
  | [] => Ok buf
  | (id, d) :: r =>
    if 255 <? len d then Err ESize
    else udh_elems r (buf ++ [id; len d mod 256] ++ d)
  end.
Definition enc_udh_h (u : kvs) : outcome bytes :=
  do buf <- udh_elems (kv_sort u) [0];
  go_set buf 0 ((len buf mod 256 + 255) mod 256).

(* ShortMessage.WriteTo: [start] is where the sm_length octet sits; it is patched after the
   header and the message are in the buffer: length := len(data) - 1 - start (Go int arithmetic) *)
Definition enc_short_h (m : shortmsg) : outcome bytes :=
  if MaxShortMessageLength <? len (sm_msg m) then Err ESize else
  let buf1 := (if sm_dc m =? NoCoding then [] else [sm_dc m]) ++ [sm_dflt m] in
  let start := len buf1 in
  do u <- match sm_udh m with None => Ok [] | Some u => enc_udh_h u end;
  let data := (buf1 ++ [0]) ++ u ++ sm_msg m in
  let length := (Z.of_N (len data) - 1 - Z.of_N start)%Z in
  if (255 <? length)%Z then Err ESize
  else go_set data start (Z.to_N (length mod 256)).

Definition enc_field_h (lay : layout) (udhi : bool) (k : fkind) (v : fval) : outcome bytes :=
  match k, v with
  | FShortMsg, VShort m => enc_short_h (prepare lay udhi m)
  | _, _ => enc_field lay udhi k v
  end.

(* the field loop: every encoder appends to Marshal's private buffer or makes Marshal return *)
Fixpoint walk_h (lay : layout) (udhi : bool) (ks : list fkind) (vs : list fval) (buf : bytes) : outcome bytes :=
  match ks, vs with
  | [], [] => Ok buf
  | k :: ks', v :: vs' =>
    do b <- enc_field_h lay udhi k v;
    walk_h lay udhi ks' vs' (buf ++ b)
  | _, _ => Err EOther
  end.

(* Marshal(w, packet) *)
Definition marshal_io (lay : layout) (vs : list fval) (w : wstate) : mres * wstate :=
  match l_fields lay, vs with
  | FHeader :: ks, VHeader h :: vs' =>
    if (h_seq h <=? 0)%Z then (MErr EInvalidSeq, w)
    else
      let buf := enc_header (h_len h) (l_id lay) (h_status h) (h_seq h) in
      match (if negb (h_status h =? 0) then Ok buf          (* goto write *)
             else walk_h lay (udhi_of vs') ks vs' buf) with
      | Ok buf' =>
        (* write: data := buf.Bytes(); PutUint32(data[0:4], uint32(buf.Len())); return buf.WriteTo(w) *)
        match go_put32_at0 buf' (len buf') with
        | Ok data => buffer_write_to data w
        | Err e => (MErr e, w)
        | Panic => (MPanic, w)
        end
      | Err e => (MErr e, w)
      | Panic => (MPanic, w)
      end
  | _, _ => (MErr EOther, w)
  end.

(* ------------------------------------------------ what Marshal leaves in its argument *)
(* Marshal writes the type's command_id into the caller's Header (marshal.go:88) and
   ShortMessage.Prepare rewrites the caller's ShortMessage (UDHeader = {} when the indicator is set
   and the map is nil; DataCoding = 0xBF for replace_sm).  [arg_after]: the argument after a call
   that reached the end of the walk (success, or the header-only exit for a non-zero status). *)
Definition touch (lay : layout) (udhi : bool) (v : fval) : fval :=
  match v with VShort m => VShort (prepare lay udhi m) | _ => v end.
Definition arg_after (lay : layout) (vs : list fval) : list fval :=
  match l_fields lay, vs with
  | FHeader :: _, VHeader h :: vs' =>
    let h' := {| h_len := h_len h; h_id := l_id lay; h_status := h_status h; h_seq := h_seq h |} in
    if negb (h_status h =? 0) then VHeader h' :: vs'
    else VHeader h' :: map (touch lay (udhi_of vs')) vs'
  | _, _ => vs
  end.

(* ------------------------------------------------ comparison used by the generated cases *)
Definition beq_mres (a b : mres) : bool :=
  match a, b with
  | MOk x, MOk y => x =? y
  | MErr _, MErr _ => true            (* which error is not compared *)
  | MWriteErr _, MWriteErr _ => true  (* the count returned with a destination error is not compared *)
  | MPanic, MPanic => true
  | _, _ => false
  end.
(* a destination holding [held], accepting everything / [room] more octets *)
Definition dest (held : bytes) (room : option N) : wstate := {| w_got := held; w_calls := []; w_room := room |}.
(* model result = observed result and observed content of the destination.  The NUMBER of Write calls is
   deliberately not compared: C12 speaks of the octets the destination received (C14 cares about single
   writes on the transport). *)
Definition io_agrees (r : mres * wstate) (res : mres) (got : bytes) : bool :=
  beq_mres (fst r) res && beq_bytes (w_got (snd r)) got.

(* ------------------------------------------------ histories of Marshal calls *)
(* One call = (layout, value, destination: a fresh writer accepting everything / [room] octets).  A history is a list
   of calls made one after the other by the same process.  The Go code keeps nothing between calls (the scratch
   buffers are locals of each call), so the model of a history is the list of the models of its calls: that the
   implementation behaves like this — that a call that FAILED (a refusal by any field encoder at any field position,
   a destination that gave up after k octets) leaves nothing behind for the next one — is what the generated history
   cases compare (harness/pdu_corpus.go: sandwich / historyCase). *)
Definition call : Type := layout * list fval * option N.
Definition run_call (c : call) : mres * bytes :=
  let '(lay, vs, room) := c in
  let r := marshal_io lay vs (dest [] room) in (fst r, w_got (snd r)).
Definition run_calls (cs : list call) : list (mres * bytes) := map run_call cs.
