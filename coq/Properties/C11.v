(* C11 — No PDU accepted from the network can crash its consumer.
   Statements only; every proof is [exact lemma].

   Models: Model/Accessors.v, Model/Combiner.v (explicit [Panic] for every
   index and slice expression), the decoder model Model/Pdu.v ([read_pdu]).
   "Returns normally" is [<> Panic] / [= Ok _]; no statement below carries a
   size bound or a well-formedness hypothesis on the PDU content. *)
(* Model.AccessorsRun: the glue the generated cases evaluate, built with this file *)
From V Require Import Model.Accessors Model.AccessorsRun Model.CombinerRun Gen.AccessorTables Spec.CombinerSpec
  Proofs.CombinerProofs Proofs.AccessorsProofs Proofs.AccessorTables Proofs.CombinerRound5.
Open Scope N_scope.

(* Every accessor on every value ReadPDU can return, for any transport content
   and read schedule: sequence number, status, Resp(), and per field
   MessageState/Address text, ConcatenatedHeader(), Parse() (hex branch);
   a deliver_sm can be fed to the combiner in any registry state. *)
Theorem C11_accessors : forall pairs has_dec layouts st lay vs n st',
  read_pdu layouts st = (RpOk lay vs, n, st') ->
  (exists o, run_accessors pairs has_dec lay vs = Ok o) /\
  (forall id d r, dsm_of id vs = Some d -> cstep r d <> Panic).
Proof. exact accessors_on_read_pdu. Qed.

(* ConcatenatedHeader for user data headers with elements of any length *)
Theorem C11_concat_total : forall u, exists o, concatenated_header u = Ok o.
Proof. exact concatenated_header_ok. Qed.

(* the combiner on every history of arbitrary deliver_sm values — any
   (total, sequence), totals mixed under one key — from any registry *)
Theorem C11_combiner_total : forall r h, crun r h <> Panic.
Proof. exact crun_total. Qed.
Theorem C11_combiner_step_total : forall r p, cstep r p <> Panic.
Proof. exact cstep_total. Qed.
(* ... in particular on any history of PDUs each returned by some ReadPDU call *)
Theorem C11_combiner_on_read_pdus : forall layouts (reads : list (stream * list fval)),
  (forall s vs, In (s, vs) reads -> exists lay n s', read_pdu layouts s = (RpOk lay vs, n, s')) ->
  forall h, h = flat_map (fun sv => match dsm_of 0 (snd sv) with Some d => [d] | None => [] end) reads ->
  forall r, crun r h <> Panic.
Proof. exact combiner_on_read_pdus. Qed.

(* "a segment number of zero or above the announced total ... yields an ignored segment": such a
   segment leaves the registry exactly as it was and makes no callback, in any registry state; so does a
   run of ANY length of them (any totals, one key or many), and what follows is handled as if the run
   had not happened — no counter, no record of them exists to overflow.  The generated runs
   ([ignored_segs], the histories of the chk_ignored cases) are of that kind. *)
Theorem C11_ignored_segment : forall r p, ill_numbered p -> cstep r p = Ok (r, []).
Proof. exact cstep_ill_numbered. Qed.
Theorem C11_ignored_run : forall r h, Forall ill_numbered h -> crun r h = Ok (r, map (fun _ => []) h).
Proof. exact crun_ill_numbered. Qed.
Theorem C11_after_ignored_run : forall r h1 h2, Forall ill_numbered h1 ->
  crun r (h1 ++ h2) = match crun r h2 with
                      | Ok (r', outs) => Ok (r', map (fun _ => []) h1 ++ outs)
                      | Err e => Err e | Panic => Panic end.
Proof. exact crun_after_ill_numbered. Qed.
Theorem C11_generated_runs_are_ignored : forall form src dst rm tm km lo n, lo < 65536 ->
  Forall ill_numbered (ignored_segs form src dst rm tm km lo n).
Proof. exact ignored_segs_ill. Qed.

(* MessageState.String for every value *)
Theorem C11_msgstate : forall b, exists s, message_state_string b = Ok s.
Proof. exact message_state_string_ok. Qed.
(* ... and of the running code: its complete table has one row per octet, none
   is a panic, and on none does the model panic (C11 is about returning, not
   about the names: the text is not compared) *)
Theorem C11_msgstate_code :
  map (fun r => fst (fst r)) message_state_rows = all256 /\
  (forall b, b < 256 -> exists s, In (b, 0, s) message_state_rows) /\
  (forall b cls s, In (b, cls, s) message_state_rows -> cls = 0 /\ exists s', message_state_string b = Ok s').
Proof. exact (conj message_state_rows_complete (conj message_state_code_total message_state_code)). Qed.

(* CommandStatus.String / Error (what %v of a header, of a PDU and of an
   unsuccess record prints): total in the model, and of the running code: for
   every status in 0..0x4FF and the corners of the 32-bit range the dumped table
   has no panic row, and the model returns on each (texts are not compared) *)
Theorem C11_command_status : forall named s, exists t, command_status_string named s = Ok t.
Proof. exact command_status_string_ok. Qed.
Theorem C11_command_status_code :
  (firstn 1280 (map (fun r => fst (fst (fst r))) command_status_rows) = map N.of_nat (seq 0 1280) /\
   existsb (N.eqb 4294967295) (map (fun r => fst (fst (fst r))) command_status_rows) = true) /\
  (forall s c1 c2 t, In (s, c1, c2, t) command_status_rows ->
     c1 = 0 /\ c2 = 0 /\ exists t', command_status_string command_status_named s = Ok t').
Proof. exact (conj command_status_rows_complete command_status_code). Qed.

(* every text route of an address (String(), %v, %+v, %s, %#v, JSON, inside an unsuccess record and a
   destination list) of the running code, on the complete grid TON 0..7 x NPI 0..15 x the loaded numbers
   ("", "0", "00", "000", "+", "+0", "00x", long digit strings, letters ...): one row per grid point, none is a
   panic, and the model of Address.String returns on each *)
Theorem C11_address_code :
  beq_list beq_grid (map (fun r : N * N * N * bytes * N * bytes => let '(_, ton, npi, no, _, _) := r in (ton, npi, no)) address_rows) address_grid = true /\
  (existsb (beq_bytes [48; 48]) address_numbers = true /\ existsb (beq_bytes []) address_numbers = true /\ existsb (beq_bytes [43]) address_numbers = true) /\
  (forall n ton npi no cls s, In (n, ton, npi, no, cls, s) address_rows ->
     cls = 0 /\ exists s', address_string {| a_ton := ton; a_npi := npi; a_no := no |} = Ok s').
Proof. exact (conj address_rows_complete (conj address_numbers_loaded address_code)). Qed.

(* Address.String, Parse, ReadSequence, ReadCommandStatus, Resp *)
Theorem C11_address_string : forall a, exists s, address_string a = Ok s.
Proof. exact address_string_ok. Qed.
Theorem C11_parse : forall encoding m,
  (forall d, encoding (sm_dc m) = Some d -> d (sm_msg m) <> Panic) -> parse encoding m <> Panic.
Proof. exact parse_total. Qed.
Theorem C11_parse_hex : forall encoding m, encoding (sm_dc m) = None -> parse encoding m = Ok (hex_string (sm_msg m)).
Proof. exact parse_no_decoder. Qed.
(* ... with nothing assumed about the decoder where it is the GSM 7-bit one: the decoder model of
   Model/Gsm7.v (C08) plugged in, for the data_codings the running code routes to gsm7bit.Packed
   (0x00, 0xD0-0xDF, 0xF0-0xF3, 0xF8-0xFB: the dumped list) and every message octets *)
Theorem C11_parse_gsm7 : forall utf8 (encoding : N -> option decoder) m,
  encoding (sm_dc m) = Some (gsm7_decoder utf8) -> parse encoding m <> Panic.
Proof. exact parse_gsm7_total. Qed.
Theorem C11_parse_gsm7_code : (forall m, parse encoding_gsm7 m <> Panic) /\
  existsb (N.eqb 0) data_coding_gsm7 = true /\ existsb (N.eqb 240) data_coding_gsm7 = true.
Proof. exact (conj parse_encoding_gsm7_total data_coding_gsm7_nonempty). Qed.

(* ReadSequence / ReadCommandStatus go through reflect (getHeader): NumField, Field(i).Addr(), Interface().
   [get_header_reflect] returns or panics depending on what reflect sees of the argument. *)
(* on a non-nil pointer to a struct it panics exactly when an unexported field precedes every Header *)
Theorem C11_get_header_pointer : forall fs,
  get_header_reflect (ShPtrStruct fs) = Panic <->
  exists pre post, fs = pre ++ KUnexported :: post /\ Forall (fun k => k = KExported) pre.
Proof. exact scan_fields_panic_iff. Qed.
(* it returns only on a non-nil pointer to a struct (or the empty struct) ... *)
Theorem C11_get_header_needs_pointer : forall s, get_header_reflect s <> Panic ->
  (exists fs, s = ShPtrStruct fs) \/ s = ShStruct [].
Proof. exact get_header_not_pointer. Qed.
(* ... a PDU struct passed by value panics (not what ReadPDU returns; noted, outside C11) *)
Theorem C11_get_header_by_value_refuted : exists s, s = ShStruct [KHeader; KExported] /\ get_header_reflect s = Panic.
Proof. exact get_header_value_refuted. Qed.
(* of the running code: for every registered PDU type — field kinds dumped by reflect — as ReadPDU
   returns it (pointer to the struct), the loop finds the Header; ReadSequence and ReadCommandStatus return *)
Theorem C11_read_sequence_code : forall id kinds vs, In (id, kinds) pdu_shapes ->
  get_header_reflect (ShPtrStruct (map kind_of kinds)) = Ok true /\
  (exists z, read_sequence_go (ShPtrStruct (map kind_of kinds)) vs = Ok z) /\
  (exists st, read_status_go (ShPtrStruct (map kind_of kinds)) vs = Ok st).
Proof. exact read_sequence_on_pdus. Qed.
Theorem C11_read_sequence : forall vs, exists s, read_sequence vs = Ok s.
Proof. exact read_sequence_ok. Qed.
Theorem C11_read_status : forall vs, exists s, read_status vs = Ok s.
Proof. exact read_status_ok. Qed.

(* formatting the octet-valued fields as text — ESMClass, RegisteredDelivery, InterfaceVersion, DataCoding
   (String, GoString, MessageWaitingInfo, MessageClass, Encoding, Splitter), DataCoding.Validate,
   MessageState; String(), fmt verbs, JSON text — of the running code, on EVERY octet value:
   the dumped table has one row per kind and octet and none is a panic *)
Theorem C11_enum_strings_code :
  (forall k b, In k enum_kinds -> b < 256 -> In (k, b, 0) enum_string_rows) /\
  (forall k b cls, In (k, b, cls) enum_string_rows -> cls = 0).
Proof. exact (conj enum_string_code_total enum_string_code). Qed.
Theorem C11_resp : forall pairs lay vs, exists o, resp pairs lay vs = Ok o.
Proof. exact resp_ok. Qed.

(* the repaired defects, each refuted on the pre-repair model *)
Theorem C11_msgstate_legacy_refuted : exists m, m < 256 /\ message_state_string_legacy m = Panic.
Proof. exact message_state_string_legacy_refuted. Qed.
Theorem C11_concat_legacy_refuted :
  exists u1 u2, concatenated_header_legacy u1 = Panic /\ concatenated_header_legacy u2 = Panic.
Proof. exact concatenated_header_legacy_refuted. Qed.
Theorem C11_combiner_legacy_refuted :
  exists h1 h2 h3, crun_legacy [] h1 = Panic /\ crun_legacy [] h2 = Panic /\ crun_legacy [] h3 = Panic.
Proof. exact legacy_combiner_panics_refuted. Qed.

(* non-vacuity: a decoded deliver_sm with a too-short concatenation element,
   an out-of-range message_state, and a history mixing totals under one key *)
Example C11_example :
  concatenated_header (Some [(0, [1; 2])]) = Ok None /\
  message_state_string 10 = Ok [49; 48] /\
  run_ids [seg8 0 (a_ 0 0 []) (a_ 0 0 []) 7 2 1; seg8 0 (a_ 0 0 []) (a_ 0 0 []) 7 3 3;
           seg8 0 (a_ 0 0 []) (a_ 0 0 []) 7 2 0; seg8 0 (a_ 0 0 []) (a_ 0 0 []) 7 2 2] = Ok [[]; []; []; [[1; 4]]].
Proof. exact (conj eq_refl (conj eq_refl eq_refl)). Qed.
