(* C18 — SMS TPDU decoding is total on arbitrary octets.
   Statements only; every proof is [exact lemma].  The functions are the model
   of package sms instantiated with the struct layouts regenerated from the
   running code (Model/TpduRun.v); the harness evaluates exactly these functions
   on every input the implementation ran (harness/c18.go). *)
From V Require Import Model.TpduRun Proofs.TpduTotal.
Open Scope N_scope.

(* For every octet list (no size bound, no assumption on the octets), for every
   environment of struct layouts whose 7-bit table has its 128 entries:
   the decoder never panics. *)
Theorem C18_unmarshal_never_panics_any_layouts :
  forall E, env_ok E -> forall bs : bytes, unmarshal E bs <> Panic.
Proof. exact unmarshal_never_panics. Qed.

(* The decoder of the shipped code: never Panic; the result is an error or one of
   the eight TPDU structures, with one value per field of that structure's
   generated layout, each of the shape the field's kind prescribes. *)
Theorem C18_unmarshal_total :
  forall bs : bytes,
    sms_unmarshal bs <> Panic /\
    ((exists e, sms_unmarshal bs = Err e) \/
     (exists name l vs, sms_unmarshal bs = Ok (name, vs) /\ In name struct_names /\
        find_layout tpdu_layouts name = Some l /\
        Forall2 (fun f v => val_fits (f_dkind f) v) (tl_fields l) vs)).
Proof. exact sms_unmarshal_total. Qed.

(* Re-encoding any structure the decoder returned returns normally — in fact with Ok:
   neither a panic (EnhancedDuration.WriteTo's make([]byte, 7-len) stays non-negative
   because a decoded hh:mm:ss period is below 1000 h) nor an error. *)
Theorem C18_remarshal_total :
  forall bs p, sms_unmarshal bs = Ok p -> exists out, sms_marshal p = Ok out.
Proof. exact sms_remarshal_total. Qed.
Theorem C18_remarshal_total_any_layouts :
  forall E bs p, env_coherent E -> unmarshal E bs = Ok p -> exists out, marshal E p = Ok out.
Proof. exact remarshal_ok. Qed.

(* The generated environment satisfies the side conditions, every struct the switch
   of Unmarshal names has a layout, and the switch as modelled is the dispatch the
   running code showed on all 32 (SC present, type bits, next octet 00/7F/80/FF) combinations. *)
Theorem C18_environment :
  env_ok sms_env /\ env_coherent sms_env /\
  forallb (fun n => match find_layout tpdu_layouts n with Some _ => true | None => false end) struct_names = true /\
  forallb dispatch_row_ok tpdu_dispatch = true /\ List.length tpdu_dispatch = 32%nat.
Proof. exact (conj sms_env_ok (conj sms_env_coherent (conj tpdu_layouts_complete tpdu_dispatch_ok))). Qed.

(* D18 (repaired by a fix: commit): the decoder before the repair panics on a time
   stamp / an hh:mm:ss validity period containing a filler nibble; after it, an error. *)
Theorem C18_unmarshal_legacy_refuted :
  sms_unmarshal_legacy d18_witness_scts = Panic /\ sms_unmarshal d18_witness_scts = Err EDecode /\
  sms_unmarshal_legacy d18_witness_vp = Panic /\ sms_unmarshal d18_witness_vp = Err EDecode.
Proof. exact unmarshal_legacy_refuted. Qed.

(* non-vacuity: a captured SMS-DELIVER decodes to a 7-field value and is re-encoded
   octet for octet; its 20-octet prefix is an error *)
Example C18_example :
  (exists vs, sms_unmarshal sample_deliver = Ok ("Deliver"%string, vs) /\ List.length vs = 7%nat) /\
  sms_remarshal sample_deliver = Ok sample_deliver /\
  (exists e, sms_unmarshal (firstn 20 sample_deliver) = Err e).
Proof. exact sample_deliver_roundtrip. Qed.
