(* C18 — SMS TPDU decoding is total on arbitrary octets.
   Statements only; every proof is [exact lemma].  The functions are the model
   of package sms instantiated with the struct layouts regenerated from the
   running code (Model/TpduRun.v); the harness evaluates exactly these functions
   on every input the implementation ran (harness/c18.go). *)
From V Require Import Model.TpduRun Proofs.TpduTotal Model.TpduReader Model.TpduReaderRun Proofs.TpduReader Proofs.TpduReaderCompose.
Open Scope N_scope.

(* For every octet list (no size bound, no assumption on the octets), for every
   environment of struct layouts whose 7-bit table has its 128 entries:
   the decoder never panics. *)
Theorem C18_unmarshal_never_panics_any_layouts :
  forall E, env_ok E -> forall bs : bytes, unmarshal E bs <> Panic.
Proof. exact unmarshal_never_panics. Qed.

(* The decoder of the shipped code: never Panic; the result is an error or one of
   the eight TPDU structures, with one value per field of that structure's
   generated layout, each of the shape the field's kind prescribes. *)
Theorem C18_unmarshal_total :
  forall bs : bytes,
    sms_unmarshal bs <> Panic /\
    ((exists e, sms_unmarshal bs = Err e) \/
     (exists name l vs, sms_unmarshal bs = Ok (name, vs) /\ In name struct_names /\
        find_layout tpdu_layouts name = Some l /\
        Forall2 (fun f v => val_fits (f_dkind f) v) (tl_fields l) vs)).
Proof. exact sms_unmarshal_total. Qed.

(* Re-encoding any structure the decoder returned returns normally — in fact with Ok:
   neither a panic (EnhancedDuration.WriteTo's make([]byte, 7-len) stays non-negative
   because a decoded hh:mm:ss period is below 1000 h) nor an error. *)
Theorem C18_remarshal_total :
  forall bs p, sms_unmarshal bs = Ok p -> exists out, sms_marshal p = Ok out.
Proof. exact sms_remarshal_total. Qed.
Theorem C18_remarshal_total_any_layouts :
  forall E bs p, env_coherent E -> unmarshal E bs = Ok p -> exists out, marshal E p = Ok out.
Proof. exact remarshal_ok. Qed.

(* The generated environment satisfies the side conditions, every struct the switch
   of Unmarshal names has a layout, and the switch as modelled is the dispatch the
   running code showed on all 32 (SC present, type bits, next octet 00/7F/80/FF) combinations. *)
Theorem C18_environment :
  env_ok sms_env /\ env_coherent sms_env /\
  forallb (fun n => match find_layout tpdu_layouts n with Some _ => true | None => false end) struct_names = true /\
  forallb dispatch_row_ok tpdu_dispatch = true /\ List.length tpdu_dispatch = 32%nat.
Proof. exact (conj sms_env_ok (conj sms_env_coherent (conj tpdu_layouts_complete tpdu_dispatch_ok))). Qed.

(* D18 (repaired by a fix: commit): the decoder before the repair panics on a time
   stamp / an hh:mm:ss validity period containing a filler nibble; after it, an error. *)
Theorem C18_unmarshal_legacy_refuted :
  sms_unmarshal_legacy d18_witness_scts = Panic /\ sms_unmarshal d18_witness_scts = Err EDecode /\
  sms_unmarshal_legacy d18_witness_vp = Panic /\ sms_unmarshal d18_witness_vp = Err EDecode.
Proof. exact unmarshal_legacy_refuted. Qed.

(* non-vacuity: a captured SMS-DELIVER decodes to a 7-field value and is re-encoded
   octet for octet; its 20-octet prefix is an error *)
Example C18_example :
  (exists vs, sms_unmarshal sample_deliver = Ok ("Deliver"%string, vs) /\ List.length vs = 7%nat) /\
  sms_remarshal sample_deliver = Ok sample_deliver /\
  (exists e, sms_unmarshal (firstn 20 sample_deliver) = Err e).
Proof. exact sample_deliver_roundtrip. Qed.

(* ---- "For every byte sequence": what is claimed about the io.Reader the octets come from.
   sms.Unmarshal decodes from ONE bufio.Reader over its argument, with four primitives: ReadByte, readFull (a
   multi-octet field), Peek (message type detection) and Discard (enhanced validity period).  Model/TpduReader.v
   models that bufio.Reader over a reader which hands out the octets in pieces of ANY positive sizes (a schedule:
   down to one octet per Read) and then io.EOF, with the last piece or on the next call, and writes the whole
   decoder over it ([unmarshal_gen_on]: getType, the struct switch, the field walk with every field decoder, the
   reader state - buffer, pending error, rest of the source and of the schedule - threaded through; [unmarshal_reader
   E data sched eofd] = that decoder on bufio.NewReader of the reader given by data / sched / eofd).

   THE COMPOSED STATEMENT (proved): for every environment of struct layouts, every octet string, every two schedules
   of read sizes and both ways of delivering io.EOF, the decoder returns the same outcome - the same structure and
   field values, or the same error, (or Panic alike) - and that outcome is the one of the list decoder of Model/Tpdu.v
   all other theorems of C18 / C19 speak about.  So the decoder is a function of the octets, not of how the reader
   hands them out, and every theorem about [unmarshal] / [sms_unmarshal] holds behind every such reader.
   [octets data] (every element < 256) is what makes the list a string of OCTETS; it is used for the first one only
   (getType peeks first octet + 3 octets, bufio can peek 4096) and cannot be dropped for lists of arbitrary numbers
   (C18_reader_octets_needed).  Proof: simulation, the per-primitive theorems below as base cases, induction over the
   field walk with the invariant [inv b] /\ "octets still to come of the reader = rest of the list" (Proofs/TpduReaderCompose.v). *)
Theorem C18_reader_independence :
  forall (E : env) (data : bytes), octets data ->
  forall (sched1 sched2 : list nat) (eofd1 eofd2 : bool),
    unmarshal_reader E data sched1 eofd1 = unmarshal_reader E data sched2 eofd2 /\
    unmarshal_reader E data sched1 eofd1 = unmarshal E data.
Proof. exact reader_independence. Qed.
(* the same for a bufio.Reader in ANY state satisfying the invariant (octets already buffered, schedule partly used,
   io.EOF pending), also for the decoder before the D18 fix: it decodes the octets still to come as the list decoder does *)
Theorem C18_reader_independence_any_state :
  forall (legacy : bool) (E : env) (b : breader), inv b -> octets (content b) ->
    unmarshal_gen_on legacy E b = unmarshal_gen legacy E (content b).
Proof. exact reader_independence_any_state. Qed.
(* the shipped code; and C18 itself transferred to every reader *)
Theorem C18_reader_independence_shipped :
  forall data sched eofd, octets data -> sms_unmarshal_reader data sched eofd = sms_unmarshal data.
Proof. exact sms_unmarshal_reader_eq. Qed.
(* sharper: only the first octet is looked at - [peekable data]: the list is empty or its first element + 3 <= 4096 *)
Theorem C18_reader_independence_first_octet :
  forall (legacy : bool) (E : env) (data : bytes) (sched : list nat) (eofd : bool), peekable data ->
    unmarshal_gen_on legacy E (new_reader data sched eofd) = unmarshal_gen legacy E data.
Proof. exact unmarshal_gen_new_reader_eq. Qed.
Theorem C18_unmarshal_never_panics_any_reader :
  forall E, env_ok E -> forall data sched eofd, octets data -> unmarshal_reader E data sched eofd <> Panic.
Proof. exact unmarshal_reader_never_panics. Qed.
Theorem C18_unmarshal_total_any_reader :
  forall data sched eofd, octets data ->
    sms_unmarshal_reader data sched eofd <> Panic /\
    ((exists e, sms_unmarshal_reader data sched eofd = Err e) \/
     (exists name l vs, sms_unmarshal_reader data sched eofd = Ok (name, vs) /\ In name struct_names /\
        find_layout tpdu_layouts name = Some l /\
        Forall2 (fun f v => val_fits (f_dkind f) v) (tl_fields l) vs)).
Proof. exact sms_unmarshal_reader_total. Qed.
(* a list whose first element is 5000 is not an octet string: bufio cannot peek 5003 octets, the list model can *)
Theorem C18_reader_octets_needed :
  let data := 5000 :: repeat 0 (N.to_nat 5100) in
  unmarshal_reader sms_env data [] false = Err EEOF /\ is_ok (unmarshal sms_env data) = true.
Proof. exact octets_hypothesis_needed. Qed.
(* non-vacuity: the captured SMS-DELIVER (an octet string) read one octet per call with io.EOF afterwards, in pieces of
   3, 1, 7, 2, 100 octets with io.EOF together with the last piece, and as a list: the same 7-field Deliver; its
   20-octet prefix through two schedules and as a list: the same error *)
Example C18_reader_example :
  octets sample_deliver /\
  exists vs, List.length vs = 7%nat /\
    sms_unmarshal_reader sample_deliver [] false = Ok ("Deliver"%string, vs) /\
    sms_unmarshal_reader sample_deliver [3; 1; 7; 2; 100]%nat true = Ok ("Deliver"%string, vs) /\
    sms_unmarshal sample_deliver = Ok ("Deliver"%string, vs) /\
    (exists e, sms_unmarshal_reader (firstn 20 sample_deliver) [] false = Err e /\
               sms_unmarshal_reader (firstn 20 sample_deliver) [19; 1]%nat true = Err e /\
               sms_unmarshal (firstn 20 sample_deliver) = Err e).
Proof. exact (conj sample_deliver_octets sample_deliver_two_schedules). Qed.

(* The simulation steps: for every reader state satisfying [inv] (a pending io.EOF means the source is exhausted; at
   most 4096 octets buffered) every primitive returns what the list primitive of Model/Tpdu.v returns on the octets
   still to come ([content]) and leaves a reader whose octets still to come are the list's rest.  (Was
   C18_reader_independence_partial while the composed statement above was open.) *)
Theorem C18_reader_primitives_independent :
  forall b : breader, inv b ->
    (match read_byte (content b) with
     | Ok (x, rest) => exists b', br_read_byte b = Ok (x, b') /\ content b' = rest /\ inv b'
     | Err _ => br_read_byte b = Err EEOF
     | Panic => False end) /\
    (forall n, match read_n n (content b) with
     | Ok (l, rest) => exists b', br_read_full n b = Ok (l, b') /\ content b' = rest /\ inv b'
     | Err _ => br_read_full n b = Err EEOF
     | Panic => False end) /\
    (forall n, (n <= 4096)%nat ->
       if blen (content b) <? N.of_nat n then br_peek n b = Err EEOF
       else exists b', br_peek n b = Ok (firstn n (content b), b') /\ content b' = content b /\ inv b') /\
    (forall n, match discard n (content b) with
     | Ok rest => exists b', br_discard n b = Ok b' /\ content b' = rest /\ inv b'
     | Err _ => br_discard n b = Err EEOF
     | Panic => False end).
Proof.
  exact (fun b H => conj (read_byte_independent b H) (conj (fun n => read_full_independent n b H)
          (conj (fun n Hn => peek_independent n b H Hn) (fun n => discard_independent n b H)))).
Qed.
Theorem C18_new_reader : forall data sched eofd,
  inv (new_reader data sched eofd) /\ content (new_reader data sched eofd) = data.
Proof. exact new_reader_ok. Qed.
(* The defect repaired by fix 0373e10 (one Read per field, count ignored): behind a reader that hands out one octet
   per call a three-octet field reads 01 00 00 and leaves 02 03 to the next field; readFull reads 01 02 03 as the
   list does. *)
Theorem C18_single_read_refuted :
  let b := new_reader [1; 2; 3] [] false in
  (exists b', br_read_once 3 b = Ok ([1; 0; 0], b') /\ content b' = [2; 3]) /\
  read_n 3 (content b) = Ok ([1; 2; 3], []) /\
  (exists b', br_read_full 3 b = Ok ([1; 2; 3], b') /\ content b' = []).
Proof. exact read_once_refuted. Qed.

(* ---- histories.  The MODEL has no state (sms_unmarshal / sms_remarshal are functions of the octets), so for the
   model the statement "the result for a TPDU does not depend on what the process decoded before" holds by
   construction - stated here so that the claim is visible; its content is on the implementation side: the harness
   decodes every ordered pair (and some longer sequences) of a corpus with a well-formed and a malformed instance of
   each of the eight structures / report flavours / directions / validity-period formats / address types in FRESH
   processes and compares each observation with the same input decoded first (failure classes history/…,
   history-panic/…). *)
Theorem C18_history_independent :
  forall (before after : list bytes) (x : bytes),
    nth_error (run_history (before ++ x :: after)) (List.length before) = Some (sms_unmarshal x, sms_remarshal x).
Proof. exact history_independent. Qed.
