(* C15 — Connection teardown wakes every caller and stops every loop, without
   panics.  Statements only; every proof is [exact lemma].

   Model: Model/ConnLTS.v, variant [fixed].  Terminating events: the transport
   reports EOF / an error / a read timeout ([PeerEnd], after the octets made
   readable so far), Close finishes ([CloseFinish], after its unbind was
   answered — ROk — or not — RErr, e.g. by its one-second timeout [CancelCtx]),
   the parent context is cancelled ([CancelParent]), the keep-alive's
   enquire_link fails.  They may occur at ANY point of ANY trace: the theorems
   are invariants over all reachable states, or statements about every state.
   "Returns promptly" is stated as enabledness plus existence of a finishing
   run made of the thread's own steps; that the Go scheduler runs an enabled
   goroutine and how long it takes is outside the model (the harness measures
   the 1 s bound). *)
From V Require Import Model.Base Model.Pdu Gen.PduLayouts Model.ConnLTS Model.ConnRun
  Proofs.ConnBase Proofs.ConnC14 Proofs.ConnC16 Proofs.ConnC05 Proofs.ConnC15.
From V Require Import Proofs.ConnSched.
Open Scope N_scope.

(* No timing of the teardown makes Watch panic (send on a closed channel) or
   block inside a waiter's callback. *)
Theorem C15_no_panic : forall s, reachable fixed s -> wpc s <> WPanicked /\ wpc s <> WStuck.
Proof. exact (fun s R => conj (proj2 (watch_sane s R)) (proj1 (watch_sane s R))). Qed.
(* the queue is closed only by Watch on its way out *)
Theorem C15_queue_closed_by_sender : forall s, reachable fixed s -> queue_closed s = true -> wpc s = WExited.
Proof. exact queue_inv. Qed.

(* Done() never re-opens; the parent's cancel and the end of Close close it;
   an answered Close also closes the transport; a returned Watch has closed it. *)
Theorem C15_done_stable : forall v s e s', step v s e = Some s' -> done s = true -> done s' = true.
Proof. exact done_stable. Qed.
Theorem C15_cancel_parent : forall v s, exists s', step v s CancelParent = Some s' /\ done s' = true.
Proof. exact cancel_parent_done. Qed.
Theorem C15_close_finishes : forall v s c r, c_pc (callers s c) = PClosing r ->
  exists s', step v s (CloseFinish c) = Some s' /\ done s' = true /\ c_pc (callers s' c) = PReturned r /\
             (forall m, r = ROk m -> transport_closed s' = true).
Proof. exact close_finish_done. Qed.
Theorem C15_watch_exited : forall s, reachable fixed s -> wpc s = WExited -> done s = true /\ queue_closed s = true.
Proof. exact exited_inv. Qed.

(* When the transport has reported its end, or Close has closed it, Watch
   reaches its return — whatever it was doing, however many frames are still
   unread, given an application that receives what it is offered — and Done()
   is closed. *)
Theorem C15_watch_exit : forall s, reachable fixed s -> ended s ->
  exists t s', run fixed s t = Some s' /\ wpc s' = WExited /\ done s' = true /\ Forall watch_event t.
Proof. exact watch_finishes. Qed.

(* A Submit blocked in its select returns an error as soon as Done() is closed,
   and as soon as its own context is done: both steps are enabled. *)
Theorem C15_wake : forall v s c, c_pc (callers s c) = PWaiting -> done s = true ->
  exists s1 s2, step v s (WakeDone c) = Some s1 /\ step v s1 (Unregister c) = Some s2 /\
                c_pc (callers s2 c) = after_call (callers s c) RErr /\ done s2 = true.
Proof. exact wake_done. Qed.
Theorem C15_own_context : forall v s c, c_pc (callers s c) = PWaiting -> c_ctx (callers s c) = true ->
  exists s1 s2, step v s (WakeCtx c) = Some s1 /\ step v s1 (Unregister c) = Some s2 /\
                c_pc (callers s2 c) = after_call (callers s c) RErr.
Proof. exact wake_ctx. Qed.
(* Every call in progress at the teardown — wherever it is — runs to its return
   by its own steps (the transport letting its Write return). *)
Theorem C15_every_call_returns : forall s c, reachable fixed s -> done s = true -> live s c ->
  exists t s', run fixed s t = Some s' /\ is_returned (c_pc (callers s' c)) = true /\ Forall (own_event c) t.
Proof. exact caller_finishes. Qed.

(* The keep-alive loop: waiting for a tick with Done() closed it can return; and
   whenever it waits on a ticker it stopped itself, Done() IS closed (D28). *)
Theorem C15_keepalive_exit : forall s, ka s = KWaitTick -> done s = true ->
  exists s', step fixed s KaSeeDone = Some s' /\ ka s' = KExited.
Proof. exact ka_exit_enabled. Qed.
Theorem C15_keepalive_after_failure : forall s, reachable fixed s -> ka s = KWaitTick -> ticker_stopped s = true ->
  exists s', step fixed s KaSeeDone = Some s' /\ ka s' = KExited.
Proof. exact ka_can_exit. Qed.

(* The pre-repair code violates the property (each witness replayed on the
   implementation by the harness, first in every run): *)
(* D27 — Close closes the queue while Watch sends on it: panic *)
Theorem C15_legacy_refuted_D27 : exists s, run legacy_D27 init d27_trace = Some s /\ wpc s = WPanicked.
Proof. exact d27_refuted. Qed.
(* D28 — after a failed enquire_link the loop waits on its stopped ticker forever *)
Theorem C15_legacy_refuted_D28 :
  exists s, run legacy_D28 init d28_trace = Some s /\ done s = true /\ ka s = KWaitTick /\
    forall t s', run legacy_D28 s t = Some s' -> ka s' = KWaitTick.
Proof. exact d28_refuted. Qed.
(* D32 — a repeated response blocks Watch forever; no EOF, no cancel gets it out *)
Theorem C15_legacy_refuted_D32 :
  exists s, run legacy_D32 init d32_trace = Some s /\ wpc s = WStuck /\
    forall t s', run legacy_D32 s t = Some s' -> wpc s' = WStuck.
Proof. exact d32_refuted. Qed.

(* Non-vacuity: two Submits in progress (one blocked in its select, one inside
   the transport Write), an unsolicited PDU in Watch's hand, the transport at
   EOF: Watch returns, Done() closes, both calls run to an error. *)
Example C15_example :
  exists s, reachable fixed s /\ ended s /\ wpc s = WSending (5, 100%Z) /\ done s = false /\
            c_pc (callers s 0%nat) = PWaiting /\ c_pc (callers s 1%nat) = PWriting /\
   exists t s', run fixed s t = Some s' /\ wpc s' = WExited /\ done s' = true /\ Forall watch_event t /\
   exists t1 s1, run fixed s' t1 = Some s1 /\ c_pc (callers s1 0%nat) = PReturned RErr /\ Forall (own_event 0) t1 /\
   exists t2 s2, run fixed s1 t2 = Some s2 /\ c_pc (callers s2 1%nat) = PReturned RErr /\ Forall (own_event 1) t2.
Proof. exact c15_example. Qed.

(* The tie between this model and the implementation.  Every forced schedule the
   harness runs on the real Conn is evaluated as [sched_admits fixed auto groups
   snapshots final] (for C05: [sched_env_admits]: additionally within the hypotheses of C05).
   What a [true] means: SOME trace of [step] from [init] — one resolution of the
   internal choices no property decides (R1 a select with two ready cases, R2 the
   order in which waiting senders reach the transport, R3 a hand-over racing
   Done()) — ends in a state showing exactly what the implementation showed
   (results of all calls, PDU() deliveries, every transport Write with its octets,
   Watch / Done() / keep-alive).  The search that finds the trace is not trusted. *)
Theorem C15_tie_sound : forall v auto groups snaps final,
  sched_admits v auto groups snaps final = true ->
  exists tr s, run v init tr = Some s /\ reachable v s /\ beq_obs (observe s) final = true.
Proof. exact sched_admits_sound. Qed.

Print Assumptions C15_no_panic.
Print Assumptions C15_watch_exit.
Print Assumptions C15_every_call_returns.
Print Assumptions C15_keepalive_after_failure.
Print Assumptions C15_legacy_refuted_D28.
Print Assumptions C15_tie_sound.

(* ------------------------------------------------------------------ the keep-alive loop from every state (run-existence) *)
From V Require Import Proofs.ConnLive.

(* Once Done() is closed the keep-alive loop reaches its return from EVERY state
   it can be in ([ka s <> KOff]: EnquireLink was started): about to send an
   enquire_link (KReady), inside that Submit wherever the call is (KInPing),
   about to call Close after a failure (KNeedClose), inside that Close
   (KInClose), waiting for the tick (KWaitTick).  The run consists of
   [ka_event]s only:
     KaNext, KaSeeDone                   the loop's own steps;
     Start _ KPing / Start _ KKaClose    the loop issues its enquire_link / its Close.  In this model the
                                         issue of ANY call is a [Start] event, i.e. formally an event of the
                                         environment: exit from KReady / KNeedClose is therefore not derivable
                                         from KaNext / KaSeeDone alone.  The theorem holds whatever sequence
                                         numbers qp, qc and frames fp, fc these two calls get;
     Register, WireWrite, SendFail, WriteReturn, WakeDone, Unregister, CloseFinish
                                         of calls of kind KPing / KKaClose (not [visible]): the steps of those
                                         calls; [WriteReturn] = the transport lets the call's Write return, the
                                         only thing needed from outside.
   No timer is needed: with Done() closed every select of these calls has a ready case. *)
Theorem C15_keepalive_exit_any : forall s (qp : Z) (fp : outcome bytes) (qc : Z) (fc : outcome bytes),
  reachable fixed s -> done s = true -> ka s <> KOff ->
  exists t s', run fixed s t = Some s' /\ ka s' = KExited /\ Forall (ka_event s') t.
Proof. exact ka_exit_any. Qed.

(* After a failed enquire_link (the loop has stopped its ticker), WHETHER OR NOT
   Done() is closed: from the point where the loop is about to call Close, or is
   inside that Close wherever the call is, it reaches its return, and Done() is
   closed then.  Besides the [ka_event]s above the run needs, from outside, the
   one-second context of that Close expiring ([CancelCtx] of the call, followed
   by its select taking that case, [WakeCtx]): [ka_event_t].  No answer of the
   peer is needed. *)
Theorem C15_keepalive_exit_failed : forall s (qc : Z) (fc : outcome bytes), reachable fixed s ->
  (ka s = KNeedClose \/ exists c, ka s = KInClose c) ->
  exists t s', run fixed s t = Some s' /\ ka s' = KExited /\ done s' = true /\ Forall (ka_event_t s') t.
Proof. exact ka_exit_failed. Qed.

(* Non-vacuity: Done() closed by the parent while the loop is inside its
   enquire_link, itself inside the transport Write; and: the enquire_link timed
   out, the loop stopped its ticker and is about to call Close, Done() open. *)
Example C15_keepalive_example :
  exists s, reachable fixed s /\ done s = true /\ ka s = KInPing 0 /\ c_pc (callers s 0%nat) = PWriting /\
            ticker_stopped s = false.
Proof. exact ka_example. Qed.
Example C15_keepalive_failed_example :
  exists s, reachable fixed s /\ done s = false /\ ka s = KNeedClose /\ ticker_stopped s = true /\
            c_pc (callers s 0%nat) = PReturned RErr.
Proof. exact ka_failed_example. Qed.

(* ------------------------------------------------------------------ Watch and the consumer of PDU() *)
(* [C15_watch_exit] above lets the application receive ([AppRecv] is a
   [watch_event]).  That hypothesis cannot be dropped: "the transport reports EOF
   ... Watch returns" holds with a draining application only.  Watch blocked in
   its send on the unbuffered queue leaves it only by a receive or, Done()
   closed, by giving the send up: *)
Theorem C15_sending_step : forall s e s' p, wpc s = WSending p -> step fixed s e = Some s' ->
  wpc s' = WSending p \/ e = AppRecv \/ (e = WatchSeeDone /\ done s = true).
Proof. exact sending_step. Qed.
(* hence with NO consumer it stays there, Done() open, whatever else happens —
   EOF, errors, timeouts of the transport included — until the parent is
   cancelled or a Close finishes; *)
Theorem C15_watch_needs_consumer : forall t s s' p,
  wpc s = WSending p -> done s = false -> run fixed s t = Some s' ->
  Forall (fun e => e <> AppRecv /\ no_teardown e) t -> wpc s' = WSending p /\ done s' = false.
Proof. exact watch_needs_consumer. Qed.
(* after which it gives the send up, closes the queue and returns. *)
Theorem C15_sending_gives_up : forall s p, wpc s = WSending p -> done s = true ->
  exists s', step fixed s WatchSeeDone = Some s' /\ wpc s' = WExited /\ queue_closed s' = true /\ done s' = true.
Proof. exact sending_gives_up. Qed.
(* What holds with no consumer after the transport reported its end: by its own
   steps alone Watch either returns, Done() closed, or ends up blocked in the
   send of an unsolicited PDU that was still readable. *)
Theorem C15_watch_exit_no_consumer : forall s, reachable fixed s -> ended s ->
  exists t s', run fixed s t = Some s' /\ Forall watch_own t /\
               ((wpc s' = WExited /\ done s' = true) \/ exists p, wpc s' = WSending p).
Proof. exact watch_alone. Qed.
Example C15_sending_example :
  exists s, reachable fixed s /\ ended s /\ wpc s = WSending (5, 100%Z) /\ done s = false.
Proof. exact sending_example. Qed.

Print Assumptions C15_keepalive_exit_any.
Print Assumptions C15_keepalive_exit_failed.
Print Assumptions C15_watch_needs_consumer.
Print Assumptions C15_watch_exit_no_consumer.
