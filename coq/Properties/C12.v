(* C12 — Marshal is all-or-nothing and never panics.  Statements only; every
   proof is [exact lemma].  The model [marshal] is evaluated by the check on
   every value the implementation marshalled in the run (harness/c12.go). *)
From V Require Import Model.Pdu Model.PduHazards Gen.PduLayouts Proofs.PduMarshalProofs Proofs.PduHazardProofs.
Open Scope N_scope.

(* ===== The Go-hazards layer (Model/PduHazards.v): Marshal written as the Go code is written — private buffer
   threaded through the walk, in-place patches by bounds-checked index / slice operations that CAN yield Panic,
   the [goto write] exit, and an explicit destination (what it held before the call, the Write calls it gets, how
   many more octets it accepts).  [marshal_io] is evaluated by the check on pre-filled *bytes.Buffer destinations,
   on writers that give up, and [arg_after] on what a call leaves in its argument (harness/c12.go). *)

(* For EVERY layout, value list and destination — whatever the destination already holds, however little it
   accepts — Marshal returns normally: no patch is ever out of bounds. *)
Theorem C12_io_never_panics : forall lay vs w, fst (marshal_io lay vs w) <> MPanic.
Proof. exact marshal_io_not_panic. Qed.

(* On an encoding error the destination is exactly as it was: same octets, no Write call, same capacity.
   (A result that is neither success nor an error of the destination itself is an encoding error, and then
   the state is unchanged.) *)
Theorem C12_io_error_writes_nothing : forall lay vs w r w',
  marshal_io lay vs w = (r, w') -> (forall n, r <> MOk n) -> (forall n, r <> MWriteErr n) ->
  w' = w /\ exists e, r = MErr e /\ marshal lay vs = Err e.
Proof. exact marshal_io_error_untouched. Qed.

(* On success, on a destination that accepts everything and already holds ANY octets: it now holds those followed
   by exactly one frame f, handed over in one Write; the returned count is len f; and the first four octets of f
   state len f — the octets written by this call, not what the destination holds in total. *)
Theorem C12_io_success : forall lay vs f w,
  marshal lay vs = Ok f -> w_room w = None ->
  marshal_io lay vs w = (MOk (len f), {| w_got := w_got w ++ f; w_calls := w_calls w ++ [f]; w_room := None |}) /\
  16 <= len f /\ firstn 4 f = be32 (len f mod 4294967296) /\
  (len f < 4294967296 -> exists a b c d r, f = a :: b :: c :: d :: r /\ de32 a b c d = len f).
Proof. exact marshal_io_success. Qed.

(* A destination that gives up after k octets has received the first k octets of the frame; Marshal reports the
   error (and, by C12_io_never_panics, does not panic).  With room for the whole frame it succeeds. *)
Theorem C12_io_failing_writer : forall lay vs f w k,
  marshal lay vs = Ok f -> w_room w = Some k -> k < len f ->
  marshal_io lay vs w = (MWriteErr k, {| w_got := w_got w ++ firstn (N.to_nat k) f; w_calls := w_calls w ++ [f]; w_room := Some 0 |}).
Proof. exact marshal_io_failing_writer. Qed.
Theorem C12_io_roomy_writer : forall lay vs f w k,
  marshal lay vs = Ok f -> w_room w = Some k -> len f <= k ->
  marshal_io lay vs w = (MOk (len f), {| w_got := w_got w ++ f; w_calls := w_calls w ++ [f]; w_room := Some (k - len f) |}).
Proof. exact marshal_io_roomy_writer. Qed.

(* never more than one Write call per Marshal, whatever the destination and the outcome *)
Theorem C12_io_at_most_one_write : forall lay vs w r w',
  marshal_io lay vs w = (r, w') -> exists l, w_calls w' = w_calls w ++ l /\ (List.length l <= 1)%nat.
Proof. exact marshal_io_calls. Qed.

(* the hazards layer computes the functional model used by C01 C02 C13 *)
Theorem C12_io_refines : forall lay vs w,
  marshal_io lay vs w = match marshal lay vs with Ok f => buffer_write_to f w | Err e => (MErr e, w) | Panic => (MPanic, w) end.
Proof. exact marshal_io_refines. Qed.

(* Marshal rewrites its argument (command_id; ShortMessage.Prepare): a second Marshal of the same pointer has the
   same outcome, and leaves the argument as the first did. *)
Theorem C12_second_call : forall lay vs,
  marshal lay (arg_after lay vs) = marshal lay vs /\ arg_after lay (arg_after lay vs) = arg_after lay vs.
Proof. exact (fun lay vs => conj (marshal_again lay vs) (arg_after_idem lay vs)). Qed.

(* non-vacuity of the destination clauses: a submit_sm marshalled into a buffer already holding 3 octets *)
Example C12_io_inhabited :
  exists f, marshal_io (nth 3 layouts (hd_layout)) C12_example_value (dest [9; 9; 9] None)
            = (MOk 45, {| w_got := [9; 9; 9] ++ f; w_calls := [f]; w_room := None |}) /\ firstn 4 f = [0; 0; 0; 45].
Proof. eexists. split; vm_compute; reflexivity. Qed.

(* ===== The functional layer *)

(* For EVERY layout (a fortiori the 33 regenerated from the code) and EVERY value
   list — no domain restriction: any int32 sequence, any status, any container
   sizes — Marshal returns normally; on success the destination received exactly
   one Write carrying the whole frame, at least 16 octets long, whose first four
   octets are the big-endian frame length (which is also the returned count,
   [len f]); on error it received nothing. *)
Theorem C12_all_or_nothing : forall lay vs,
  marshal lay vs <> Panic /\
  (forall f, marshal lay vs = Ok f ->
     marshal_writes lay vs = [f] /\
     16 <= len f /\ firstn 4 f = be32 (len f mod 4294967296) /\
     (len f < 4294967296 -> exists a b c d r, f = a :: b :: c :: d :: r /\ de32 a b c d = len f)) /\
  (forall e, marshal lay vs = Err e -> marshal_writes lay vs = []).
Proof. exact marshal_all_or_nothing. Qed.

(* never more than one Write call, whatever the outcome *)
Theorem C12_at_most_one_write : forall lay vs, (List.length (marshal_writes lay vs) <= 1)%nat.
Proof. exact marshal_writes_le1. Qed.

(* a non-positive sequence number is refused whatever the command_status (the D2 combination included) *)
Theorem C12_invalid_sequence : forall lay h ks vs,
  l_fields lay = FHeader :: ks -> (h_seq h <= 0)%Z ->
  marshal lay (VHeader h :: vs) = Err EInvalidSeq /\ marshal_writes lay (VHeader h :: vs) = [].
Proof.
  exact (fun lay h ks vs Hl Hs =>
    conj (marshal_invalid_seq lay h ks vs Hl Hs)
         (marshal_writes_err _ _ _ (marshal_invalid_seq lay h ks vs Hl Hs))).
Qed.

(* the table regenerated from the code: every registered type starts with its Header and has no other *)
Theorem C12_layouts_header_first :
  forall l, In l layouts -> exists ks, l_fields l = FHeader :: ks /\ ~ In FHeader ks.
Proof. exact layouts_header_first. Qed.

(* non-vacuity: a submit_sm value with TLVs marshals to a 16+ octet frame; a value the wire cannot carry is an error *)
Example C12_inhabited :
  exists f, marshal (nth 3 layouts (hd_layout)) C12_example_value = Ok f /\ len f = 45.
Proof. exact C12_example_ok. Qed.
Example C12_error_inhabited :
  marshal (nth 3 layouts (hd_layout)) C12_example_oversize = Err ESize.
Proof. exact C12_example_err. Qed.

Print Assumptions C12_io_never_panics.
Print Assumptions C12_io_error_writes_nothing.
Print Assumptions C12_io_success.
Print Assumptions C12_io_failing_writer.
Print Assumptions C12_io_roomy_writer.
Print Assumptions C12_io_at_most_one_write.
Print Assumptions C12_io_refines.
Print Assumptions C12_second_call.
Print Assumptions C12_all_or_nothing.
Print Assumptions C12_at_most_one_write.
Print Assumptions C12_invalid_sequence.
Print Assumptions C12_layouts_header_first.
