(* C12 — Marshal is all-or-nothing and never panics.  Statements only; every
   proof is [exact lemma].  The model [marshal] is evaluated by the check on
   every value the implementation marshalled in the run (harness/c12.go). *)
From V Require Import Model.Pdu Gen.PduLayouts Proofs.PduMarshalProofs.
Open Scope N_scope.

(* For EVERY layout (a fortiori the 33 regenerated from the code) and EVERY value
   list — no domain restriction: any int32 sequence, any status, any container
   sizes — Marshal returns normally; on success the destination received exactly
   one Write carrying the whole frame, at least 16 octets long, whose first four
   octets are the big-endian frame length (which is also the returned count,
   [len f]); on error it received nothing. *)
Theorem C12_all_or_nothing : forall lay vs,
  marshal lay vs <> Panic /\
  (forall f, marshal lay vs = Ok f ->
     marshal_writes lay vs = [f] /\
     16 <= len f /\ firstn 4 f = be32 (len f mod 4294967296) /\
     (len f < 4294967296 -> exists a b c d r, f = a :: b :: c :: d :: r /\ de32 a b c d = len f)) /\
  (forall e, marshal lay vs = Err e -> marshal_writes lay vs = []).
Proof. exact marshal_all_or_nothing. Qed.

(* never more than one Write call, whatever the outcome *)
Theorem C12_at_most_one_write : forall lay vs, (List.length (marshal_writes lay vs) <= 1)%nat.
Proof. exact marshal_writes_le1. Qed.

(* a non-positive sequence number is refused whatever the command_status (the D2 combination included) *)
Theorem C12_invalid_sequence : forall lay h ks vs,
  l_fields lay = FHeader :: ks -> (h_seq h <= 0)%Z ->
  marshal lay (VHeader h :: vs) = Err EInvalidSeq /\ marshal_writes lay (VHeader h :: vs) = [].
Proof.
  exact (fun lay h ks vs Hl Hs =>
    conj (marshal_invalid_seq lay h ks vs Hl Hs)
         (marshal_writes_err _ _ _ (marshal_invalid_seq lay h ks vs Hl Hs))).
Qed.

(* the table regenerated from the code: every registered type starts with its Header and has no other *)
Theorem C12_layouts_header_first :
  forall l, In l layouts -> exists ks, l_fields l = FHeader :: ks /\ ~ In FHeader ks.
Proof. exact layouts_header_first. Qed.

(* non-vacuity: a submit_sm value with TLVs marshals to a 16+ octet frame; a value the wire cannot carry is an error *)
Example C12_inhabited :
  exists f, marshal (nth 3 layouts (hd_layout)) C12_example_value = Ok f /\ len f = 45.
Proof. exact C12_example_ok. Qed.
Example C12_error_inhabited :
  marshal (nth 3 layouts (hd_layout)) C12_example_oversize = Err ESize.
Proof. exact C12_example_err. Qed.

Print Assumptions C12_all_or_nothing.
Print Assumptions C12_at_most_one_write.
Print Assumptions C12_invalid_sequence.
Print Assumptions C12_layouts_header_first.
