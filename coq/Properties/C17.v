(* C17 - Text octets match the standard charset named by data_coding.
   Statements only; every proof is [exact lemma].

   enc_runs_* / dec_* / dc_table are the tables regenerated on every run from
   the running code (all 1,112,064 scalar values through each encoder, every
   code of the decoders, all 256 data_coding values); [encode]/[decode] are the
   model functions the harness evaluates against the implementation on whole
   texts.  Spec.* is written from the standards. *)
From V Require Import Model.Base Model.IntervalMap Spec.Iso8859 Spec.Utf16 Gen.Charsets Model.Charset
  Proofs.CharsetProofs.
Open Scope N_scope.

(* --- one-character texts, every code point -------------------------------
   [conforms (spec_class p r) o]:  r in the code of ISO/IEC 8859-p => o is
   exactly its octet; r a C1 control (U+0080..U+009F, not defined by 8859) =>
   rejected or the identical octet; any other r => rejected (None), never
   substituted.  Holds for every r : N, in particular every scalar value. *)
Theorem C17_exact_latin1 : forall r, conforms (spec_class P1 r) (enc_rune_t enc_runs_latin1 r).
Proof. exact (sb_exact P1 enc_runs_latin1 latin1_A latin1_B). Qed.
Theorem C17_exact_cyrillic : forall r, conforms (spec_class P5 r) (enc_rune_t enc_runs_cyrillic r).
Proof. exact (sb_exact P5 enc_runs_cyrillic cyrillic_A cyrillic_B). Qed.
Theorem C17_exact_hebrew : forall r, conforms (spec_class P8 r) (enc_rune_t enc_runs_hebrew r).
Proof. exact (sb_exact P8 enc_runs_hebrew hebrew_A hebrew_B). Qed.
(* UCS-2: every scalar value is accepted and its octets are UTF-16BE, no BOM *)
Theorem C17_exact_ucs2 : forall r, scalar r -> enc_rune_t enc_runs_ucs2 r = Some (utf16be r).
Proof. exact ucs2_exact. Qed.
(* ASCII / IA5: identity on U+0000..U+007F (nothing claimed beyond) *)
Theorem C17_ascii : forall r, r <= 127 -> enc_rune_t enc_runs_ascii r = Some [r].
Proof. exact ascii_exact. Qed.

(* --- whole texts (induction over the text, no length bound) ---------------
   octets: whatever is accepted is, octet for octet, the standard's encoding;
   accepts: every text over the standard's repertoire is accepted with exactly
            the standard's octets;
   rejects: a text with a character outside the code is an error. *)
Theorem C17_text_latin1_octets : forall rs bs, encode CLatin1 rs = Ok bs ->
  Forall2 (fun r b => spec_code P1 r = Some b) rs bs.
Proof. exact (sb_text_octets P1 enc_runs_latin1 latin1_A latin1_B). Qed.
Theorem C17_text_latin1_accepts : forall rs bs, spec_encode P1 rs = Some bs -> encode CLatin1 rs = Ok bs.
Proof. exact (sb_text_accepts P1 enc_runs_latin1 latin1_A latin1_B). Qed.
Theorem C17_text_latin1_rejects : forall rs, Exists (fun r => spec_class P1 r = Reject) rs ->
  exists e, encode CLatin1 rs = Err e.
Proof. exact (sb_text_rejects P1 enc_runs_latin1 latin1_A latin1_B). Qed.

Theorem C17_text_cyrillic_octets : forall rs bs, encode CCyrillic rs = Ok bs ->
  Forall2 (fun r b => spec_code P5 r = Some b) rs bs.
Proof. exact (sb_text_octets P5 enc_runs_cyrillic cyrillic_A cyrillic_B). Qed.
Theorem C17_text_cyrillic_accepts : forall rs bs, spec_encode P5 rs = Some bs -> encode CCyrillic rs = Ok bs.
Proof. exact (sb_text_accepts P5 enc_runs_cyrillic cyrillic_A cyrillic_B). Qed.
Theorem C17_text_cyrillic_rejects : forall rs, Exists (fun r => spec_class P5 r = Reject) rs ->
  exists e, encode CCyrillic rs = Err e.
Proof. exact (sb_text_rejects P5 enc_runs_cyrillic cyrillic_A cyrillic_B). Qed.

Theorem C17_text_hebrew_octets : forall rs bs, encode CHebrew rs = Ok bs ->
  Forall2 (fun r b => spec_code P8 r = Some b) rs bs.
Proof. exact (sb_text_octets P8 enc_runs_hebrew hebrew_A hebrew_B). Qed.
Theorem C17_text_hebrew_accepts : forall rs bs, spec_encode P8 rs = Some bs -> encode CHebrew rs = Ok bs.
Proof. exact (sb_text_accepts P8 enc_runs_hebrew hebrew_A hebrew_B). Qed.
Theorem C17_text_hebrew_rejects : forall rs, Exists (fun r => spec_class P8 r = Reject) rs ->
  exists e, encode CHebrew rs = Err e.
Proof. exact (sb_text_rejects P8 enc_runs_hebrew hebrew_A hebrew_B). Qed.

Theorem C17_text_ucs2 : forall rs, Forall scalar rs -> encode CUcs2 rs = Ok (utf16be_text rs).
Proof. exact ucs2_text. Qed.
Theorem C17_text_ascii : forall rs, Forall (fun r => r <= 127) rs -> encode CAscii rs = Ok rs.
Proof. exact ascii_text. Qed.

(* --- multi-octet codings: decode (encode t) = t for every accepted text ----
   from two facts checked run by run over the complete tables - every code
   decodes back to its rune, and the lead octet determines the code length -
   and an induction over the text *)
Theorem C17_roundtrip_sjis : forall rs bs, encode CSjis rs = Ok bs -> decode CSjis bs = Ok rs.
Proof. exact (mb_roundtrip lead_lens_sjis dec_runs_sjis enc_runs_sjis sjis_M). Qed.
Theorem C17_roundtrip_eucjp : forall rs bs, encode CEucjp rs = Ok bs -> decode CEucjp bs = Ok rs.
Proof. exact (mb_roundtrip lead_lens_eucjp dec_runs_eucjp enc_runs_eucjp eucjp_M). Qed.
Theorem C17_roundtrip_euckr : forall rs bs, encode CEuckr rs = Ok bs -> decode CEuckr bs = Ok rs.
Proof. exact (mb_roundtrip lead_lens_euckr dec_runs_euckr enc_runs_euckr euckr_M). Qed.
(* ISO-2022-JP: three-state encoder and decoder; texts free of ESC (SO and SI
   need no exclusion: the codec passes them through as ASCII controls) *)
Theorem C17_roundtrip_iso2022jp : forall rs bs, ~ In 27 rs ->
  encode CIso2022jp rs = Ok bs -> decode CIso2022jp bs = Ok rs.
Proof. exact (fun rs bs => jp_roundtrip rs 0 bs (or_introl eq_refl)). Qed.

(* the running decoder on every accepted one-character text (observed while the
   tables were dumped): no rune comes back different; in ISO-2022-JP ESC (reserved by RFC 1468, excluded by the
   property) is the only one that may *)
Theorem C17_single_character_decode_observed :
  rt_bad_ascii = [] /\ rt_bad_latin1 = [] /\ rt_bad_cyrillic = [] /\ rt_bad_hebrew = [] /\ rt_bad_ucs2 = [] /\
  rt_bad_sjis = [] /\ rt_bad_eucjp = [] /\ rt_bad_euckr = [] /\ (forall r, In r rt_bad_iso2022jp -> r = 27) /\ unparsed_iso2022jp = [].
Proof. exact rt_observed. Qed.

(* --- every data_coding value with an encoder has a decoder and a splitter -- *)
Theorem C17_availability : forall dc, dc < 256 ->
  has_encoder dc = true -> has_decoder dc = true /\ has_splitter dc = true.
Proof. exact availability. Qed.

(* ... and they are the decoder and the splitter of the SAME coding: encoder, decoder and splitter of each of the 256
   values were classified separately by behaviour over every scalar value (dc_closure: smallest table constant that
   behaves alike; 255 none, 254 like no table constant); a value with an encoder has a decoder and a splitter and
   all three are those of one table constant b *)
Theorem C17_dc_closed : forall dc, dc < 256 -> has_encoder dc = true ->
  dec_class dc <> 255 /\ spl_class dc <> 255 /\
  exists b, In b table_constants /\ enc_class dc = b /\ enc_class b = b /\
            dec_class dc = dec_class b /\ spl_class dc = spl_class b.
Proof. exact dc_closed. Qed.

Theorem C17_encode_never_panics : forall c rs, encode c rs <> Panic.
Proof. exact encode_no_panic. Qed.

(* non-vacuity: the hypotheses are inhabited by non-trivial values *)
Example C17_examples :
  spec_class P5 1046 = Must 182 /\ spec_class P5 150 = May 150 /\ spec_class P5 233 = Reject /\
  encode CCyrillic [1046; 97; 8470] = Ok [182; 97; 240] /\
  spec_encode P8 [1488; 215; 8207] = Some [224; 170; 254] /\
  encode CUcs2 [97; 128138] = Ok (hx "0061d83ddc8a") /\
  encode CSjis [26085; 26412; 65398; 97] = Ok (hx "93fa967bb661") /\
  encode CIso2022jp [97; 26085; 65398; 10] = Ok (hx "611b2442467c1b2849361b28420a") /\
  decode CIso2022jp (hx "611b2442467c1b2849361b28420a") = Ok [97; 26085; 65398; 10] /\
  has_encoder 8 = true /\ has_encoder 244 = true /\ has_encoder 2 = false /\
  closure_row 240 = Some (240, 0, 0, 0) /\ closure_row 244 = Some (244, 8, 8, 8) /\ closure_row 224 = Some (224, 8, 8, 8) /\
  closure_row 6 = Some (6, 6, 6, 1) /\ closure_row 192 = Some (192, 255, 255, 255).
Proof. vm_compute. repeat split; reflexivity. Qed.
