(* C07 — Multipart composition: every segment fits, is labelled, and loses
   nothing.  Statements only; every proof is [exact lemma].

   Vocabulary (Model/Splitter.v, Model/Compose.v, after the fix: commits):
     total w s / text_len w t    bits / octets Splitter charges (Splitter.Len)
     split w limit t             Splitter.Split(t, limit): Ok segments | Err EFuel (the Go loop diverges
                                 when one character is wider than the limit)
     compose P plen w enc ref t  ComposeMultipartShortMessage for a coding with width function w and
                                 encoder enc (payloads of type P, plen = length in octets):
                                 Ok parts | Err ECount (more than 254) | Err ESize (a part over 140) | the encoder's error
     hdr_len ref, concat_ie ref total seq, udh_len, concat_of_udh
                                 ConcatenatedHeader.Len / Set, UserDataHeader.Len / ConcatenatedHeader()
   The theorems of the first block hold for EVERY width function with positive
   widths and EVERY encoder: they cover all ten codings at once.  The per-coding
   blocks use Gen/Widths.v (all 1,112,064 scalar values per coding, regenerated
   from the running code). *)
From V Require Import Model.Base Model.Gsm7 Model.Splitter Model.Compose Gen.Widths
  Model.IntervalMap Gen.Charsets Model.Charset Model.ComposeText
  Proofs.Gsm7Proofs Proofs.SplitterProofs Proofs.ComposeProofs Proofs.ComposeInst Proofs.CharsetRoundtrip Proofs.ComposeText Proofs.TablesAgree.
Open Scope nat_scope.
Local Notation length := List.length.
Local Notation concat := List.concat.

(* ---- the splitter, any width function, any limit, any text ----------------- *)
Theorem C07_split_concat : forall w, (forall r, 0 < w r) -> forall limit rs segs,
  split w limit rs = Ok segs -> concat segs = rs.
Proof. exact split_concat. Qed.
Theorem C07_split_fits : forall w limit rs segs,
  split w limit rs = Ok segs -> Forall (fun s => total w s <= 8 * limit) segs.
Proof. exact split_fits. Qed.
Theorem C07_split_nonempty : forall w limit rs segs,
  split w limit rs = Ok segs -> Forall (fun s => s <> []) segs.
Proof. exact split_nonempty. Qed.
Theorem C07_split_maximal : forall w, (forall r, 0 < w r) -> forall limit rs segs,
  split w limit rs = Ok segs -> maximal w (8 * limit) segs.
Proof. exact split_maximal. Qed.
Theorem C07_split_terminates : forall w limit rs,
  Forall (fun r => w r <= 8 * limit) rs -> exists segs, split w limit rs = Ok segs.
Proof. exact split_terminates. Qed.

(* ---- composition, any coding ------------------------------------------------ *)
(* every part: user-data header plus payload at most 140 octets *)
Theorem C07_fits : forall P plen w enc, (forall r, 0 < w r) -> forall ref t parts,
  compose P plen w enc ref t = Ok parts ->
  Forall (fun pt => udh_len (pt_udh pt) + plen (pt_payload pt) <= 140) parts.
Proof. exact compose_fits. Qed.

(* one part without header, or 2..254 parts each with exactly one concatenation element that
   decodes to (the caller's reference, N, i) for i = 1..N in order; 8-bit form iff ref <= 255 *)
Theorem C07_labels : forall P plen w enc, (forall r, 0 < w r) -> forall ref t parts,
  (ref < 65536)%N -> compose P plen w enc ref t = Ok parts ->
  (exists p, parts = [mkpart [] p]) \/
  (2 <= length parts <= 254 /\
   forall i pt, nth_error parts i = Some pt ->
     exists ie, pt_udh pt = [ie] /\
       concat_of_udh (pt_udh pt) = Some (ref, N.of_nat (length parts), N.of_nat (i + 1)) /\
       fst ie = (if (ref <=? 255)%N then 0 else 8)%N).
Proof. exact compose_labels. Qed.

(* the payloads are the encodings (fresh encoder each) of consecutive non-empty pieces of the text
   that join to the text: nothing dropped, duplicated, reordered; cuts only between characters *)
Theorem C07_segments : forall P plen w enc, (forall r, 0 < w r) -> forall ref t parts,
  compose P plen w enc ref t = Ok parts ->
  exists segs, concat segs = t /\ Forall2 (fun pt s => enc s = Ok (pt_payload pt)) parts segs /\
    (length segs = 1 \/ Forall (fun s => s <> []) segs).
Proof. exact compose_segments. Qed.

(* hence with any decoder that inverts the encoder on segments the joined decodings are the text *)
(* maximality: the next character would not have fitted (by the width function; in octets when
   Splitter.Len is exact, i.e. for fixed-width alphabets) - uses D11 repaired: the limit is 140 minus
   the header actually written *)
Theorem C07_maximal : forall P plen w enc, (forall r, 0 < w r) -> forall ref t parts,
  (ref < 65536)%N -> compose P plen w enc ref t = Ok parts -> 140 < text_len w t ->
  exists segs, concat segs = t /\ Forall2 (fun pt s => enc s = Ok (pt_payload pt)) parts segs /\
    forall i pt s r s', nth_error parts i = Some pt -> nth_error segs i = Some s -> nth_error segs (S i) = Some (r :: s') ->
      140 < udh_len (pt_udh pt) + (total w (s ++ [r]) + 7) / 8.
Proof. exact compose_maximal_octets. Qed.

(* more than 254 segments: refused; success means 1..254 parts *)
Theorem C07_too_many : forall P plen w enc, (forall r, 0 < w r) -> forall ref t segs, 140 < text_len w t ->
  split w (140 - 1 - hdr_len ref) t = Ok segs -> 254 < length segs -> compose P plen w enc ref t = Err ECount.
Proof. exact compose_too_many. Qed.
Theorem C07_at_most_254 : forall P plen w enc, (forall r, 0 < w r) -> forall ref t parts,
  compose P plen w enc ref t = Ok parts -> 1 <= length parts <= 254.
Proof. exact compose_at_most_254. Qed.

(* the header: for all 65536 references the running code's Len() is the model's and equals the size of
   the element Set() writes (id 0x00 + 3 octets up to 255, id 0x08 + 4 octets above) *)
Theorem C07_header_code : forall ref, (ref < 65536)%N ->
  exists lo hi hl id dl, In (lo, hi, hl, id, dl) wd_header_runs /\ (lo <= ref <= hi)%N /\
    N.of_nat (hdr_len ref) = hl /\ hl = (dl + 2)%N /\ fst (concat_ie ref 7 3) = id /\
    N.of_nat (length (snd (concat_ie ref 7 3))) = dl.
Proof. exact header_code_is_model. Qed.

(* the DATA octets of the element: for every reference (total 7, sequence 3) the element Set() writes has the model's id,
   length and big-endian data value (hence every octet); and at the references 0, 255, 256, 65535 for EVERY (total,
   sequence) pair *)
Theorem C07_header_data : forall ref, (ref < 65536)%N ->
  exists lo hi id dl v0, In (lo, hi, id, dl, v0) wd_header_data_runs /\ (lo <= ref <= hi)%N /\
    fst (concat_ie ref 7 3) = id /\ N.of_nat (length (snd (concat_ie ref 7 3))) = dl /\
    be_val (snd (concat_ie ref 7 3)) = (v0 + 65536 * (ref - lo))%N.
Proof. exact header_data_is_model. Qed.
Theorem C07_header_total_seq : forall ref total seq, In ref [0; 255; 256; 65535]%N -> (total < 256)%N -> (seq < 256)%N ->
  exists id dl v0, In (ref, 0, 65535, id, dl, v0)%N wd_header_ts_runs /\
    fst (concat_ie ref total seq) = id /\ N.of_nat (length (snd (concat_ie ref total seq))) = dl /\
    be_val (snd (concat_ie ref total seq)) = (v0 + (256 * total + seq))%N.
Proof. exact header_ts_is_model. Qed.

(* exact widths: single-octet charsets, UCS-2 (BMP and supplementary planes) and EUC-JP are charged exactly 8 bits per
   octet emitted, for every accepted scalar value - for them "could have held one more character" is in octets *)
Theorem C07_width_exact : width_exact wd_ascii /\ width_exact wd_latin1 /\ width_exact wd_cyrillic /\ width_exact wd_hebrew /\
  width_exact wd_ucs2 /\ width_exact wd_eucjp.
Proof. exact width_exact_all. Qed.

(* ---- width_sound: the splitter never charges an accepted character less than the encoder emits,
        per coding, on the tables regenerated from the running code (the obligation D12 broke) ---- *)
Theorem C07_width_sound :
  width_sound wd_ascii w_1byte /\ width_sound wd_latin1 w_1byte /\ width_sound wd_cyrillic w_1byte /\
  width_sound wd_hebrew w_1byte /\ width_sound wd_shiftjis w_multibyte /\ width_sound wd_euckr w_multibyte /\
  width_sound wd_ucs2 w_utf16 /\ width_sound wd_eucjp (w_measured wd_eucjp).
Proof. exact width_sound_all. Qed.
Theorem C07_width_gsm7_code : forall r n wd, wd_find r wd_gsm7 = Some (n, wd) -> w_7bit r = N.to_nat wd.
Proof. exact width_code_gsm7. Qed.
Theorem C07_width_gsm7 : forall t S, to_septets t = Ok S -> total w_7bit t = 7 * septet_count t.
Proof. exact total_w_7bit. Qed.
(* ISO-2022-JP: false, on purpose; there the size check (Err ESize) is what keeps C07_fits true *)
Theorem C07_width_sound_iso2022jp_refuted : ~ width_sound wd_iso2022jp w_multibyte.
Proof. exact width_sound_iso2022jp_refuted. Qed.

(* consequence: for these codings the size check never fires - an encodable text of at most 254
   parts is composed, never refused for size *)
Theorem C07_no_size_refusal : forall ref t,
  compose_gsm7 ref t <> Err ESize /\
  compose_len w_1byte (enc_len_stateless wd_ascii) ref t <> Err ESize /\
  compose_len w_1byte (enc_len_stateless wd_latin1) ref t <> Err ESize /\
  compose_len w_1byte (enc_len_stateless wd_cyrillic) ref t <> Err ESize /\
  compose_len w_1byte (enc_len_stateless wd_hebrew) ref t <> Err ESize /\
  compose_len w_multibyte (enc_len_stateless wd_shiftjis) ref t <> Err ESize /\
  compose_len w_multibyte (enc_len_stateless wd_euckr) ref t <> Err ESize /\
  compose_len w_utf16 (enc_len_stateless wd_ucs2) ref t <> Err ESize /\
  compose_len (w_measured wd_eucjp) (enc_len_stateless wd_eucjp) ref t <> Err ESize.
Proof. exact no_esize_all. Qed.

(* ---- GSM 7-bit: reassembly modulo the trailing-CR rule of C08, no panic, no divergence ---- *)
Theorem C07_gsm7_lossless : forall ref t parts, compose_gsm7 ref t = Ok parts ->
  exists segs, concat segs = t /\ Forall2 (fun pt s => gsm_segment_decodes (pt_payload pt) s) parts segs.
Proof. exact compose_gsm7_lossless. Qed.
Theorem C07_gsm7_total : forall ref t, compose_gsm7 ref t <> Panic /\ compose_gsm7 ref t <> Err EFuel.
Proof. exact compose_gsm7_no_panic. Qed.

(* ---- the nine table codings at PAYLOAD level: compose_cs c = ComposeMultipartShortMessage with the encoder of
        Model/Charset.v (the per-character tables of Gen/Charsets.v, every scalar value, regenerated from the running
        code); the generated cases compare header entries and payload OCTETS of every part.
        Reassembly: decoding the payloads with the same coding and joining them in order reproduces the text - the
        parts are the encodings of consecutive non-empty pieces of the text, so no character is dropped, duplicated
        or cut inside a multi-octet, surrogate-pair or escape sequence.  Scope (cs_scope): ISO-2022-JP texts free of
        ESC (reserved by RFC 1468, as in C17), UCS-2 texts of scalar values. ---- *)
Theorem C07_cs_lossless : forall c ref t parts, cs_scope c t -> compose_cs c ref t = Ok parts ->
  exists segs, concat segs = t /\ Forall2 (fun pt s => decode c (pt_payload pt) = Ok s) parts segs /\
    (length segs = 1 \/ Forall (fun s => s <> []) segs).
Proof. exact compose_cs_lossless. Qed.
Theorem C07_cs_reassembles : forall c ref t parts, cs_scope c t -> compose_cs c ref t = Ok parts ->
  decode_parts c parts = Ok t.
Proof. exact compose_cs_reassembles. Qed.
(* no panic and no divergence for any of the nine codings, any reference, any text *)
Theorem C07_cs_total : forall c ref t, compose_cs c ref t <> Panic /\ compose_cs c ref t <> Err EFuel.
Proof. exact compose_cs_total. Qed.

(* the two independent dumps of the encoders agree (Gen/Widths.v octet counts = length of the octets in Gen/Charsets.v, every
   scalar value, accepted sets equal), hence the length-only encoder of compose_len is the length of what compose_cs encodes.
   C07_tables_agree_partial: the point-by-point check, in the build for the four single-octet charsets only (5 min 46 s for
   Shift-JIS, EUC-JP, EUC-KR).  SUPERSEDED by C07_tables_agree at the end of this file (run-wise check, all eight stateless
   table codings); kept because it is an independent checker for the four small tables. *)
Theorem C07_tables_agree_partial : forall c, single_octet c -> forall t,
  match enc_len_stateless (wd_of c) t, encode c t with
  | Ok n, Ok bs => n = length bs
  | Err _, Err _ => True
  | _, _ => False
  end.
Proof. exact enc_len_is_length. Qed.

(* ---- what is returned TOGETHER WITH AN ERROR (the Go function has named results; the property is conditional on success).
        Single-part path: one part (whatever the encoder returned) next to the error.  Multi-part path: the parts appended
        before the loop stopped, compose_returned_multi.  They are exactly what a successful composition of the first k
        segments returns (same reference and total, sequence 1..k), hence each fits 140 octets and is labelled as
        C07_fits / C07_labels say; on success they are the parts.  A caller that ignores the error sends an incomplete
        message, never a malformed one. ---- *)
Theorem C07_returned_with_error : forall P plen w enc, (forall r, 0 < w r) -> forall ref t segs,
  split w (140 - 1 - hdr_len ref) t = Ok segs -> length segs <= 254 ->
  exists k, compose_parts P plen enc ref (N.of_nat (length segs) mod 256) 0 (firstn k segs)
            = Ok (compose_returned_multi P plen w enc ref t).
Proof. exact compose_returned_multi_prefix. Qed.
Theorem C07_returned_on_success : forall P plen w enc, (forall r, 0 < w r) -> forall ref t parts,
  compose P plen w enc ref t = Ok parts -> 140 < text_len w t -> compose_returned_multi P plen w enc ref t = parts.
Proof. exact compose_returned_multi_ok. Qed.

(* ---- non-vacuity -------------------------------------------------------------- *)
(* 200 x 'a', reference 255 (the D11 case): 8-bit element, first part full with 153 septets = 134 octets *)
Example C07_example_gsm7 :
  option_map (map (fun pt => (pt_udh pt, length (pt_payload pt)))) (match compose_gsm7 255 (rep 200 97) with Ok l => Some l | _ => None end)
  = Some [([(0, [255; 2; 1])]%N, 134); ([(0, [255; 2; 2])]%N, 42)].
Proof. vm_compute. reflexivity. Qed.
(* 200 euro signs (the D12 case), 16-bit reference: 76 + 76 + 48 characters, 133 + 133 + 84 octets *)
Example C07_example_gsm7_extension :
  option_map (map (fun pt => (pt_udh pt, length (pt_payload pt)))) (match compose_gsm7 256 (rep 200 8364) with Ok l => Some l | _ => None end)
  = Some [([(8, [1; 0; 3; 1])]%N, 133); ([(8, [1; 0; 3; 2])]%N, 133); ([(8, [1; 0; 3; 3])]%N, 84)].
Proof. vm_compute. reflexivity. Qed.
(* ISO-2022-JP, alternating kana / ASCII: refused for size rather than emitted oversize *)
Example C07_example_iso2022jp_refused :
  compose_len w_multibyte (enc_len_2022 wd_iso2022jp JAscii) 1 (List.concat (repeat [0x3042; 97]%N 60)) = Err ESize.
Proof. exact iso2022jp_size_check_fires. Qed.
(* Shift-JIS, 70 kanji + 'a' + 70 kanji, reference 255: three parts; decoding the payloads and joining gives the text back *)
Example C07_example_cs_roundtrip :
  let t := (rep 70 26085 ++ [97] ++ rep 70 26412)%N in
  match compose_cs CSjis 255 t with Ok l => decode_parts CSjis l = Ok t /\ length l = 3 | _ => False end.
Proof. vm_compute. split; reflexivity. Qed.

(* ---- C07_tables_agree, COMPLETE (round 7, builder textproof): Gen/Widths.v and Gen/Charsets.v - two dumps of the same
        encoders by different dumpers - agree for ALL EIGHT stateless table codings (ASCII, Latin-1, Cyrillic, Hebrew, UCS-2,
        Shift-JIS, EUC-JP, EUC-KR), at every scalar value: a value is accepted in one table iff it is in the other, and the octet
        count recorded in Gen/Widths.v is the length of the octets recorded in Gen/Charsets.v.  Run-wise kernel check
        (Proofs/TablesAgree.v: one linear merge over the two ascending run lists comparing run boundaries and per-run octet
        counts; < 4 s for the eight tables instead of 5 min 46 s point by point).  Hence the length-only encoder of compose_len
        is the length of what compose_cs encodes, for every text.
        ISO-2022-JP is outside by nature: its encoder is stateful (Model/Charset.v encode_jp over a 5-column table), and
        wd_iso2022jp records the length of the one-character TEXT including escape sequences; there the tie between
        compose_len and compose_cs stays the generated cases. ---- *)
Theorem C07_tables_agree_rune : forall c, c <> CIso2022jp -> forall r,
  match wd_find r (wd_of c), enc_rune_t (enc_runs c) r with
  | Some (n, _), Some b => N.of_nat (length b) = n
  | None, None => True
  | _, _ => False
  end.
Proof. exact tables_agree_table. Qed.
Theorem C07_tables_agree : forall c, c <> CIso2022jp -> forall t,
  match enc_len_stateless (wd_of c) t, encode c t with
  | Ok n, Ok bs => n = length bs
  | Err _, Err _ => True
  | _, _ => False
  end.
Proof. exact enc_len_is_length_table. Qed.
(* U+65E5: two octets in both Shift-JIS tables; the euro sign in neither; U+4E02: three octets in both EUC-JP tables *)
Example C07_tables_agree_examples :
  wd_find 26085%N wd_shiftjis = Some (2, 16)%N /\ enc_rune_t enc_runs_sjis 26085%N = Some [147; 250]%N /\
  wd_find 8364%N wd_shiftjis = None /\ enc_rune_t enc_runs_sjis 8364%N = None /\
  option_map fst (wd_find 19970%N wd_eucjp) = Some 3%N /\ option_map (@length N) (enc_rune_t enc_runs_eucjp 19970%N) = Some 3 /\
  enc_len_stateless wd_euckr [44032; 97]%N = Ok 3.
Proof. exact tables_agree_examples. Qed.
