(* C13 — Re-encoding a decoded PDU is stable and deterministic.  Statements
   only.  [unmarshal] / [marshal] are the models of ReadPDU's decoder and of
   Marshal; the check evaluates both on the non-canonical frames the
   implementation accepted in the run (harness/c13.go). *)
From V Require Import Model.Pdu Model.PduHazards Gen.PduLayouts Proofs.PduRoundtripProofs Proofs.PduStableProofs Proofs.PduHazardProofs.
From Coq Require Import Permutation.
Open Scope N_scope.

(* For EVERY octet string b that decodes (zero status) to a value v not using the
   reserved data_coding 0xBF: if Marshal accepts v, producing b' (acceptable to
   ReadPDU's header check), then decoding b' gives [received lay v] — v with the
   length/id ReadPDU fills in and empty-valued TLVs absent — and encoding that
   again gives b' again. *)
Theorem C13_stable : forall lay b vs b',
  lay_ok lay = true -> octetsb b = true -> unmarshal lay b = Ok vs ->
  (match vs with VHeader h :: vs' => h_status h = 0 /\ no_nocoding lay vs' | _ => False end) ->
  marshal lay vs = Ok b' -> len b' <= 65536 ->
  unmarshal lay b' = Ok (received lay vs) /\ marshal lay (received lay vs) = Ok b'.
Proof. exact reencode_stable. Qed.

(* the same for a decoded header-only PDU (non-zero command_status) *)
Theorem C13_stable_status : forall lay b h vs b',
  lay_ok lay = true -> octetsb b = true -> unmarshal lay b = Ok (VHeader h :: vs) -> h_status h <> 0 ->
  marshal lay (VHeader h :: vs) = Ok b' ->
  exists ks, l_fields lay = FHeader :: ks /\
  unmarshal lay b' = Ok (VHeader {| h_len := 16; h_id := l_id lay; h_status := h_status h; h_seq := h_seq h |} :: map zero_val ks) /\
  vs = map zero_val ks /\
  marshal lay (VHeader {| h_len := 16; h_id := l_id lay; h_status := h_status h; h_seq := h_seq h |} :: map zero_val ks) = Ok b'.
Proof. exact reencode_stable_status. Qed.

(* every registered layout qualifies *)
Theorem C13_layouts : forall l, In l layouts -> lay_ok l = true.
Proof. exact layouts_ok. Qed.

(* what the decoder returns is always in canonical, re-encodable form *)
Theorem C13_decoded_wf : forall lay b vs,
  lay_ok lay = true -> octetsb b = true -> unmarshal lay b = Ok vs ->
  match vs with
  | VHeader h :: vs' => h_status h = 0 -> (0 < h_seq h)%Z -> no_nocoding lay vs' -> wf_vals lay vs
  | _ => False
  end.
Proof. exact unmarshal_wf. Qed.

(* Determinism: a Go map's entries (unique keys) reach the encoder in an arbitrary
   order; the octets depend only on the set of entries. *)
Theorem C13_deterministic_tlvs : forall t t', NoDup (map fst t) -> Permutation t t' -> enc_tags t = enc_tags t'.
Proof. exact enc_tags_perm. Qed.
Theorem C13_deterministic_udh : forall u u', NoDup (map fst u) -> Permutation u u' -> enc_udh u = enc_udh u'.
Proof. exact enc_udh_perm. Qed.
Theorem C13_canonical_form : forall t, NoDup (map fst t) ->
  sorted_keys (kv_sort t) = true /\ forall e, In e (kv_sort t) <-> In e t.
Proof. exact kv_sort_canonical. Qed.

(* "Encoding the same value twice": literally the same pointer — Marshal rewrites its argument (command_id,
   ShortMessage.Prepare); what it leaves there ([arg_after], compared with the Go argument after every successful call
   by the check of C12) encodes to the same outcome, for every layout and value. *)
Theorem C13_same_pointer_twice : forall lay vs, marshal lay (arg_after lay vs) = marshal lay vs.
Proof. exact marshal_again. Qed.

(* Histories: Marshal keeps nothing between calls.  In the model a history of calls — each with its own layout, value
   and destination, including calls that FAIL (refused by a field encoder, destination giving up after k octets) —
   is the list of the models of its calls, so the result of a call does not depend on what was marshalled before it.
   The check compares this with the implementation on histories "Marshal v; a failing call of every refusal kind at
   every field position / every writer failure; Marshal v again" (cases [run_calls …], classes …/after-failed-marshal/…). *)
Theorem C13_history_free : forall pre c post,
  nth_error (run_calls (pre ++ c :: post)) (List.length pre) = Some (run_call c).
Proof. exact history_free. Qed.
Theorem C13_same_value_around_a_failed_call : forall lay vs bad,
  exists r, run_calls [(lay, vs, None); bad; (lay, vs, None)] = [r; run_call bad; r].
Proof. exact sandwich_same. Qed.

(* non-vacuity: a non-canonical deliver_sm_resp frame (TLVs unsorted, one duplicated, one empty) decodes, re-encodes to different octets, and is stable from there *)
Example C13_inhabited :
  exists vs b', unmarshal (lay_of 2147483653) C13_ex_frame = Ok vs /\ marshal (lay_of 2147483653) vs = Ok b' /\
                b' <> C13_ex_frame /\ unmarshal (lay_of 2147483653) b' = Ok (received (lay_of 2147483653) vs).
Proof. exact C13_example. Qed.

Print Assumptions C13_stable.
Print Assumptions C13_stable_status.
Print Assumptions C13_decoded_wf.
Print Assumptions C13_deterministic_tlvs.
Print Assumptions C13_deterministic_udh.
Print Assumptions C13_canonical_form.
Print Assumptions C13_same_pointer_twice.
Print Assumptions C13_history_free.
Print Assumptions C13_same_value_around_a_failed_call.
