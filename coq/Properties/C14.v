(* C14 — Concurrent senders never interleave or tear frames on the wire.
   Statements only; every proof is [exact lemma].

   Model: Model/ConnLTS.v.  A transport Write call is the atomic event
   [WireWrite c] (the net.Conn contract the property assumes); [wire s] lists
   the Write calls in the order the transport saw them; [c_frame] of a call is
   what pdu.Marshal yields for its packet ([Model.Pdu.marshal], see
   [frame_of] in Model/ConnRun.v); a goroutine g issues its calls one after
   the other ([gor_free]).  All theorems hold for every variant [v] of the
   model (the repaired code and each pre-repair switch), for any number of
   goroutines and calls and any trace. *)
From V Require Import Model.Base Model.Pdu Model.ConnLTS Model.ConnRun Proofs.ConnBase Proofs.ConnC14.
From V Require Import Proofs.ConnSched.
Open Scope N_scope.

(* A frame reaches the transport in ONE Write call carrying the whole Marshal
   encoding of the call's packet, appended contiguously to the octet stream. *)
Theorem C14_single_write : forall v s c s',
  step v s (WireWrite c) = Some s' ->
  exists f, c_frame (callers s c) = Ok f /\ wire s' = wire s ++ [WCall c f] /\
            call_stream s' = call_stream s ++ f.
Proof. exact c14_single_write. Qed.

(* No other event of any thread adds, removes or changes octets of callers' frames. *)
Theorem C14_no_other_writer : forall v s e s',
  step v s e = Some s' -> (forall c, e <> WireWrite c) -> call_stream s' = call_stream s.
Proof. exact c14_others_do_not_write. Qed.

(* In every reachable state the Write calls of callers are: at most one per call;
   each the Marshal encoding of the packet of an issued call with a positive
   sequence number; and every call that got past Send (is inside or behind the
   transport Write: waiting, returned nil, returned a response) has its frame there. *)
Theorem C14_stream : forall v s, reachable v s ->
  NoDup (wire_callers s) /\
  (forall c f, In (c, f) (wire_calls (wire s)) ->
     In c (started s) /\ c_frame (callers s c) = Ok f /\ (0 < c_seq (callers s c))%Z) /\
  (forall c, ~ unwritten_pc (c_pc (callers s c)) -> In c (wire_callers s)).
Proof. exact c14_stream. Qed.

(* Frames of one goroutine appear in its call order: the wire, restricted to
   goroutine g, is the list of g's calls in issue order restricted to those
   that reached the transport. *)
Theorem C14_order : forall v s, reachable v s ->
  forall g, filter (in_gor s g) (wire_callers s) = filter (wrote s) (gor_seq s g).
Proof. exact order_inv. Qed.

(* A call with a non-positive sequence number, or whose packet Marshal refuses,
   contributes no octets and can only return an error. *)
Theorem C14_invalid_seq : forall v s c, reachable v s ->
  (c_seq (callers s c) <= 0)%Z \/ is_ok (c_frame (callers s c)) = false ->
  ~ In c (wire_callers s) /\ unwritten_pc (c_pc (callers s c)).
Proof. exact c14_refused. Qed.
Theorem C14_refused_returns_error : forall p r, unwritten_pc p -> p = PReturned r -> r = RErr.
Proof. exact unwritten_returned. Qed.

(* The codec side (Model/Pdu.v): Marshal itself refuses non-positive sequence
   numbers, and hands a frame to its destination in at most one Write. *)
Theorem C14_marshal_refuses_nonpositive : forall lay h vs,
  (h_seq h <= 0)%Z -> is_ok (marshal lay (VHeader h :: vs)) = false.
Proof. exact marshal_refuses_nonpositive. Qed.
Theorem C14_marshal_one_write : forall lay vs,
  (List.length (marshal_writes lay vs) <= 1)%nat /\
  forall f, marshal lay vs = Ok f -> marshal_writes lay vs = [f].
Proof. exact marshal_one_write. Qed.

(* Non-vacuity: two goroutines, three calls (one refused), Writes interleaved
   between the goroutines; the theorems' hypotheses are inhabited by this trace. *)
Example C14_example :
  exists s, reachable fixed s /\ wire_callers s = [0; 2; 1]%nat /\
            call_stream s = [1; 2; 5; 6; 3; 4] /\ unwritten_pc (c_pc (callers s 3%nat)) /\
            filter (in_gor s 7) (wire_callers s) = [0; 1]%nat.
Proof. exact c14_example. Qed.

(* The tie between this model and the implementation.  Every forced schedule the
   harness runs on the real Conn is evaluated as [sched_admits fixed auto groups
   snapshots final] (for C05: [sched_env_admits]: additionally within the hypotheses of C05).
   What a [true] means: SOME trace of [step] from [init] — one resolution of the
   internal choices no property decides (R1 a select with two ready cases, R2 the
   order in which waiting senders reach the transport, R3 a hand-over racing
   Done()) — ends in a state showing exactly what the implementation showed
   (results of all calls, PDU() deliveries, every transport Write with its octets,
   Watch / Done() / keep-alive).  The search that finds the trace is not trusted. *)
Theorem C14_tie_sound : forall v auto groups snaps final,
  sched_admits v auto groups snaps final = true ->
  exists tr s, run v init tr = Some s /\ reachable v s /\ beq_obs (observe s) final = true.
Proof. exact sched_admits_sound. Qed.

Print Assumptions C14_single_write.
Print Assumptions C14_stream.
Print Assumptions C14_order.
Print Assumptions C14_invalid_seq.
Print Assumptions C14_tie_sound.
