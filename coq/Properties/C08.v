(* C08 — GSM 7-bit packed codec: exact alphabet, exact packing, lossless round
   trip.  Statements only; every proof is [exact lemma].

   Vocabulary (Model/Gsm7.v, following coding/gsm7bit after the fix: commits):
     rune_septets r        septets toSeptets produces for rune r, None = ErrInvalidCharacter
     to_septets t          the septets of a text, Err EText on the first foreign rune
     enc_transform n t     gsm7Encoder.Transform with len(dst) = n (zeroed): Ok dst[:nDst] | Err ESize
                           (ErrShortDst) | Err EText | Panic (an index out of range in packSeptets)
     encode t              Encoder.Bytes: the transform at the tightest capacity that is not short
     dec_transform n src   gsm7Decoder.Transform, decode src = Decoder.Bytes
     validate t            coding.GSM7BitCoding.Validate
     get_bit out p         bit (p mod 8) of octet p/8
   Gen/Gsm7Tables.v (g7_runs, g7_dec_single, g7_dec_escape) is the exhaustive
   tabulation of the running code regenerated on every run; g7_find r g7_runs is
   the row describing what the code did with the one-character text r. *)
From V Require Import Model.Base Model.Gsm7 Spec.Gsm0338 Gen.Gsm7Tables
  Proofs.Gsm7Bits Proofs.Gsm7Proofs Proofs.Gsm7Code Proofs.Gsm7Xf.
Open Scope N_scope.
Local Notation length := List.length.

(* ---- exact alphabet ------------------------------------------------------ *)
(* On EVERY Unicode scalar value the running code is the model: encoder outcome
   class, septets, octets, detector verdict. *)
Theorem C08_code_is_model : forall r, scalar r ->
  exists x, g7_find r g7_runs = Some x /\ row_lo x <= r <= row_hi x /\ row_beh x = model_beh r.
Proof. exact g7_code_is_model. Qed.

(* On every scalar value except U+00C7 / U+00E7 the running code accepts r iff
   GSM 03.38 has it (class 0), produces exactly the septet(s) the standard
   assigns (ESC + code for the extension table), and otherwise returns an error
   (class 1: not a panic, not a substitute). *)
Theorem C08_alphabet : forall r, scalar r -> r <> 0xC7 -> r <> 0xE7 ->
  exists x, g7_find r g7_runs = Some x /\ row_lo x <= r <= row_hi x /\
    row_cls x = (match spec_septets r with Some _ => 0 | None => 1 end) /\
    row_septets x = (match spec_septets r with Some s => s | None => [] end).
Proof. exact g7_code_alphabet. Qed.

(* Full-strength statement (no exclusion) is FALSE of the code: D16, known finding.
     forall r, scalar r -> exists x, g7_find r g7_runs = Some x /\ row_cls x = (match spec_septets r with Some _ => 0 | None => 1 end) *)
Theorem C08_alphabet_full_refuted : exists r x, scalar r /\ g7_find r g7_runs = Some x /\
  row_cls x <> (match spec_septets r with Some _ => 0 | None => 1 end).
Proof. exact g7_code_alphabet_refuted. Qed.
(* ... and the deviation is exactly: U+00C7 refused, U+00E7 sent as septet 0x09 *)
Theorem C08_alphabet_known_D16 :
  (exists x, g7_find 0xC7 g7_runs = Some x /\ row_cls x = 1 /\ spec_septets 0xC7 = Some [9]) /\
  (exists x, g7_find 0xE7 g7_runs = Some x /\ row_cls x = 0 /\ row_septets x = [9] /\ spec_septets 0xE7 = None).
Proof. exact g7_code_d16. Qed.

(* texts: accepted iff every character is accepted; otherwise an error *)
Theorem C08_rejects : forall t r, In r t -> rune_septets r = None -> exists e, encode t = Err e.
Proof. exact encode_rejects. Qed.
Theorem C08_accepts : forall t, Forall (fun r => rune_septets r <> None) t -> exists out, encode t = Ok out.
Proof. exact encode_accepts. Qed.
Theorem C08_model_alphabet : forall r, r <> 0xC7 -> r <> 0xE7 -> rune_septets r = spec_septets r.
Proof. exact model_alphabet_is_spec. Qed.

(* decoder side, every septet and every ESC+septet, running code vs standard and vs model:
   where GSM 03.38 has a character at that position (has_char) the running decoder returns exactly
   it; where it has none (a lone ESC, ESC + a code without an extension character) C08 asks for
   "a value or an error" and nothing more (GSM 03.38 6.2.1.1 itself lets a receiver show the
   default-table character or a space there) *)
Theorem C08_decode_single : forall s src cls rs, In (s, src, cls, rs) g7_dec_single -> s <> 9 ->
  (has_char [] s = true -> (cls, rs) = spec_single s) /\ (has_char [] s = false -> cls = 0 \/ cls = 1).
Proof. exact g7_dec_single_spec. Qed.
Theorem C08_decode_escape : forall s src cls rs, In (s, src, cls, rs) g7_dec_escape ->
  (has_char [gsm_esc] s = true -> (cls, rs) = spec_escape s) /\ (has_char [gsm_esc] s = false -> cls = 0 \/ cls = 1).
Proof. exact g7_dec_escape_spec. Qed.
(* has_char is not vacuous: all 127 default positions and the 10 extension positions *)
Theorem C08_decode_positions :
  length (filter (has_char []) (nat_seq_N 128)) = 127%nat /\ length (filter (has_char [gsm_esc]) (nat_seq_N 128)) = 10%nat.
Proof. exact has_char_counts. Qed.
Theorem C08_decode_tables_complete :
  map (fun x => fst (fst (fst x))) g7_dec_single = nat_seq_N 128 /\
  map (fun x => fst (fst (fst x))) g7_dec_escape = nat_seq_N 128.
Proof. exact (conj g7_dec_single_keys g7_dec_escape_keys). Qed.
Theorem C08_decode_single_model : forall s src cls rs, In (s, src, cls, rs) g7_dec_single ->
  if has_char [] s then out_is beq_runes (decode src) cls rs = true else dec_obs_ok src cls rs = true.
Proof. exact g7_dec_single_model_row. Qed.
Theorem C08_decode_escape_model : forall s src cls rs, In (s, src, cls, rs) g7_dec_escape ->
  if has_char [gsm_esc] s then out_is beq_runes (decode src) cls rs = true else dec_obs_ok src cls rs = true.
Proof. exact g7_dec_escape_model_row. Qed.

(* ---- exact packing ------------------------------------------------------- *)
(* ceil(7n/8) octets, n = septets of the text counting extension characters twice
   (spec_septet_count is defined from the GSM 03.38 extension table) *)
Theorem C08_len : forall t S out, to_septets t = Ok S -> encode t = Ok out ->
  length out = ((7 * spec_septet_count t + 7) / 8)%nat.
Proof. exact encode_length_spec. Qed.

(* septet i sits least-significant-bit first at bit offset 7i *)
Theorem C08_bit_layout : forall t S out i j, to_septets t = Ok S -> encode t = Ok out ->
  (i < length S)%nat -> (j < 7)%nat -> get_bit out (7 * i + j) = N.testbit (nth i S 0) (N.of_nat j).
Proof. exact encode_bit_layout. Qed.

(* a CR filler septet exactly when seven bits would be spare; otherwise fewer
   than seven spare bits, all zero; never a further octet *)
Theorem C08_filler : forall t S out, to_septets t = Ok S -> encode t = Ok out -> t <> [] ->
  ((length S mod 8 = 7)%nat ->
     (8 * length out = 7 * (length S + 1))%nat /\
     forall j, (j < 7)%nat -> get_bit out (7 * length S + j) = N.testbit cr (N.of_nat j)) /\
  ((length S mod 8 <> 7)%nat ->
     (8 * length out < 7 * (length S + 1))%nat /\
     forall q, (7 * length S <= q)%nat -> get_bit out q = false).
Proof. exact encode_filler. Qed.

(* ---- lossless round trip -------------------------------------------------- *)
Theorem C08_roundtrip : forall t S, to_septets t = Ok S ->
  exists out t', encode t = Ok out /\ decode out = Ok t' /\
    (t' = t \/ ((length S mod 8 = 0)%nat /\ t = t' ++ [13])).
Proof. exact roundtrip. Qed.
(* exactly which of the two *)
Theorem C08_roundtrip_exact : forall t S, to_septets t = Ok S ->
  exists out, encode t = Ok out /\
    decode out = Ok (if Nat.eqb (length S mod 8) 0 && ends_cr t then removelast t else t).
Proof. exact roundtrip_exact. Qed.

(* ---- totality ------------------------------------------------------------- *)
(* for EVERY destination capacity, including the exact-fit one that exposed D14 *)
Theorem C08_encode_total : forall dstlen t, enc_transform dstlen t <> Panic.
Proof. exact enc_transform_total. Qed.
Theorem C08_encode_any_capacity : forall dstlen t, is_ok (to_septets t) = true ->
  enc_transform dstlen t = if (dstlen <? needed t)%nat then Err ESize else encode t.
Proof. exact enc_transform_any_dst. Qed.
(* arbitrary octet strings (no hypothesis on src at all) *)
Theorem C08_decode_total : forall dstlen src,
  dec_transform dstlen src <> Panic /\ dec_transform dstlen src <> Err EOther.
Proof. exact dec_transform_total. Qed.
Theorem C08_decode_any_capacity : forall dstlen src,
  dec_transform dstlen src = decode src \/ dec_transform dstlen src = Err ESize.
Proof. exact dec_transform_any_dst. Qed.

(* ---- the Transformer contract: "return a value or an error" at every entry point ---------- *)
(* Vocabulary: enc_xf d0 t srclen ateof / enc_xfb d0 src ateof / dec_xf d0 src ateof model one call
   Transform(dst, src, atEOF) with the destination AS THE CALLER LEFT IT (d0: any octets, any length)
   and return the whole destination after the call, nDst, nSrc and the error (XNil, XShortDst,
   XShortSrc, XInvalid).  xf_value = what transform.Bytes / String / Reader / Writer+Close deliver. *)

(* One equation for the encoder: for EVERY prior destination content, size, source length and atEOF,
   the call returns exactly: nothing for an empty source; ErrShortSrc, nothing claimed, before atEOF;
   the error for a text [encode] refuses; ErrShortDst, nothing claimed, iff the destination is shorter
   than the octets of [encode]; otherwise those octets at the front of the destination, the rest of
   the destination untouched, nDst = their number, nSrc = len(src). *)
Theorem C08_encoder_contract : forall d0 t srclen ateof, octets d0 ->
  enc_xf d0 t srclen ateof = Ok (enc_xf_result d0 t srclen ateof).
Proof. exact enc_xf_contract. Qed.

Theorem C08_encoder_success : forall d0 t srclen ateof r, octets d0 ->
  enc_xf d0 t srclen ateof = Ok r -> x_err r = XNil -> t <> [] ->
  ateof = true /\ x_nsrc r = srclen /\ (x_ndst r <= length d0)%nat /\ length (x_dst r) = length d0 /\
  encode t = Ok (firstn (x_ndst r) (x_dst r)) /\ skipn (x_ndst r) (x_dst r) = skipn (x_ndst r) d0.
Proof. exact enc_xf_success. Qed.

Theorem C08_encoder_no_partial_claim : forall d0 t srclen ateof r, octets d0 ->
  enc_xf d0 t srclen ateof = Ok r -> x_err r <> XNil -> x_ndst r = 0%nat /\ x_nsrc r = 0%nat /\ x_dst r = d0.
Proof. exact enc_xf_no_partial_claim. Qed.

Theorem C08_encoder_short : forall d0 t srclen ateof r, octets d0 -> enc_xf d0 t srclen ateof = Ok r ->
  (x_err r = XShortDst <-> t <> [] /\ ateof = true /\ exists out, encode t = Ok out /\ (length d0 < length out)%nat) /\
  (x_err r = XShortSrc <-> t <> [] /\ ateof = false).
Proof. exact enc_xf_short. Qed.

(* the octets delivered do not depend on what the destination held (the zeroed destination of
   C08_encode_any_capacity is one instance: C08_encode_zeroed_is_instance) *)
Theorem C08_encoder_any_destination : forall d0 t srclen, octets d0 ->
  xf_value (enc_xf d0 t srclen true) =
    match encode t with
    | Ok out => if (length d0 <? length out)%nat then Err ESize else Ok out
    | Err _ => Err EText
    | Panic => Panic
    end.
Proof. exact enc_value_any_destination. Qed.
Theorem C08_encode_zeroed_is_instance : forall dstlen t, is_ok (to_septets t) = true ->
  enc_transform dstlen t = xf_value (enc_xf (repeat 0 dstlen) t (utf8_total t) true).
Proof. exact enc_transform_is_xf. Qed.

(* the UTF-8 layer: ARBITRARY source octets never panic; if octets come back, the source was the
   UTF-8 form of a text of accepted characters (Go's range turns every ill-formed octet into U+FFFD,
   which is refused), the octets are [encode] of that text, and the whole source is consumed *)
Theorem C08_encoder_source_total : forall d0 src ateof, octets d0 -> enc_xfb d0 src ateof <> Panic.
Proof. exact enc_xfb_total. Qed.
Theorem C08_encoder_source_is_utf8 : forall d0 src r, octets d0 -> enc_xfb d0 src true = Ok r -> x_err r = XNil -> src <> [] ->
  let t := utf8_dec src in
  utf8_bytes t = src /\ Forall (fun c => rune_septets c <> None) t /\
  encode t = Ok (firstn (x_ndst r) (x_dst r)) /\ x_nsrc r = length src.
Proof. exact enc_xfb_sound. Qed.
Theorem C08_utf8_faithful : forall src, ~ In 0xFFFD (utf8_dec src) -> utf8_bytes (utf8_dec src) = src.
Proof. exact utf8_dec_faithful. Qed.

(* the decoder: arbitrary source octets, arbitrary destination: always an answer; success consumes
   the whole source and dst[:nDst] is the UTF-8 form of [decode src] whatever the destination held;
   every other answer claims nothing and leaves the destination alone; ErrShortDst only if the
   destination is smaller than the text plus one octet (the filler CR is copied before it is dropped) *)
Theorem C08_decoder_answers : forall d0 src ateof, exists r, dec_xf d0 src ateof = Ok r.
Proof. exact dec_xf_total. Qed.
Theorem C08_decoder_success : forall d0 src ateof r, dec_xf d0 src ateof = Ok r -> x_err r = XNil -> src <> [] ->
  ateof = true /\ x_nsrc r = length src /\ (x_ndst r <= length d0)%nat /\ length (x_dst r) = length d0 /\
  exists t, decode src = Ok t /\ firstn (x_ndst r) (x_dst r) = utf8_bytes t.
Proof. exact dec_xf_success. Qed.
Theorem C08_decoder_no_partial_claim : forall d0 src ateof r,
  dec_xf d0 src ateof = Ok r -> x_err r <> XNil -> x_ndst r = 0%nat /\ x_nsrc r = 0%nat /\ x_dst r = d0.
Proof. exact dec_xf_no_partial_claim. Qed.
Theorem C08_decoder_short : forall d0 src ateof r, dec_xf d0 src ateof = Ok r -> x_err r = XShortDst ->
  exists t, decode src = Ok t /\ (length d0 < length (utf8_bytes t) + 1)%nat.
Proof. exact dec_xf_short. Qed.

(* any chunking: a caller that follows the x/text contract ([feed]: atEOF=false while chunks arrive,
   what was not consumed is presented again, atEOF=true at the end) gets, over EVERY chunking of the
   source, what the single call on the whole source gives *)
Theorem C08_encoder_any_chunking : forall d0 chunks, octets d0 ->
  feed enc_xfb d0 [] chunks = xf_value (enc_xfb d0 (List.concat chunks) true).
Proof. exact enc_feed_any_chunking. Qed.
Theorem C08_decoder_any_chunking : forall d0 chunks,
  feed dec_xf d0 [] chunks = xf_value (dec_xf d0 (List.concat chunks) true).
Proof. exact dec_feed_any_chunking. Qed.

(* ---- detector ------------------------------------------------------------- *)
Theorem C08_detector : forall t, validate t = is_ok (encode t).
Proof. exact detector_iff. Qed.
Theorem C08_detector_code : forall r, scalar r ->
  exists x, g7_find r g7_runs = Some x /\ row_lo x <= r <= row_hi x /\ (row_validate x = true <-> row_cls x = 0).
Proof. exact g7_code_detector. Qed.

(* ---- non-vacuity ----------------------------------------------------------- *)
(* "1234567": seven septets, CR filler, the repository's own test vector *)
Example C08_example_filler :
  to_septets [49; 50; 51; 52; 53; 54; 55] = Ok [49; 50; 51; 52; 53; 54; 55] /\
  encode [49; 50; 51; 52; 53; 54; 55] = Ok (hx "31d98c56b3dd1a") /\
  decode (hx "31d98c56b3dd1a") = Ok [49; 50; 51; 52; 53; 54; 55].
Proof. vm_compute. repeat split. Qed.
(* "12345[6]": extension characters count twice; "abcdefg\r": the ambiguous case loses its CR *)
Example C08_example_escape_and_ambiguous :
  to_septets [49; 50; 51; 52; 53; 91; 54; 93] = Ok [49; 50; 51; 52; 53; 27; 60; 54; 27; 62] /\
  encode [49; 50; 51; 52; 53; 91; 54; 93] = Ok (hx "31d98c56dbf06c1b1f") /\
  (exists o, encode [97; 98; 99; 100; 101; 102; 103; 13] = Ok o /\ decode o = Ok [97; 98; 99; 100; 101; 102; 103]) /\
  encode [97; 0xA0] = Err EText /\ validate [97; 0xA0] = false /\ validate [0x20AC; 64] = true.
Proof. vm_compute. repeat split. eexists. split; reflexivity. Qed.
(* "abc" into a destination the caller left full of 0xFF: three octets, none of the 0xFF bits kept, the
   rest untouched, nSrc = 3; the same source in two chunks; a destination one octet short; an
   ill-formed source octet *)
Example C08_example_transformer :
  enc_xfb (hx "ffffffffff") (hx "616263") true = Ok (mkx (hx "61f118ffff") 3 3 XNil) /\
  feed enc_xfb (hx "ffffffffff") [] [hx "61"; hx "6263"] = Ok (hx "61f118") /\
  enc_xfb (hx "ffff") (hx "616263") true = Ok (mkx (hx "ffff") 0 0 XShortDst) /\
  enc_xfb (hx "ffffffffff") (hx "616263") false = Ok (mkx (hx "ffffffffff") 0 0 XShortSrc) /\
  enc_xfb (hx "ffffffffff") (hx "61c3") true = Ok (mkx (hx "ffffffffff") 0 0 XInvalid) /\
  dec_xf (hx "ffffffffffffffffff") (hx "31d98c56b3dd1a") true = Ok (mkx (hx "313233343536370dff") 7 7 XNil).
Proof. vm_compute. repeat split. Qed.
