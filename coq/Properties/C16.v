(* C16 — Unsolicited PDUs are delivered once and in order; bad PDUs are NACKed,
   not fatal.  Statements only; every proof is [exact lemma].

   Model: Model/ConnLTS.v, variant [fixed] (conn.go after the fix: commits).
   [injected s] is every ReadPDU result the peer's octets amount to, in arrival
   order (the harness computes each item from the octets with the PDU codec
   model, [frame_item] in Model/ConnRun.v); [taken s] is what Watch consumed so
   far, each with the flag "a waiter took it" (decided by the pending table at
   that moment); [app s] is what the application received from PDU();
   [sending s] the PDU Watch is handing over right now. *)
From V Require Import Model.Base Model.ConnLTS Model.ConnRun Proofs.ConnBase Proofs.ConnC16 Proofs.ConnFrag.
From V Require Import Proofs.ConnSched.
Open Scope N_scope.

(* In every reachable state, for any trace, any number of callers:
   - the inbound stream is consumed in order, nothing skipped or repeated;
   - the application received exactly the consumed well-formed PDUs that no
     waiter took, in arrival order, each once (the last one may still be in
     Watch's hand; it is lost only if the connection ends meanwhile);
   - the generic_nacks written are exactly the consumed undecodable frames
     with a positive sequence number, same sequence numbers, in order, each once. *)
Theorem C16_dispatch : forall s, reachable fixed s ->
  map fst (taken s) ++ inbound s = injected s /\
  (exists rest, unmatched (taken s) = app s ++ rest /\
                (wpc s <> WExited -> rest = sending s) /\ (List.length rest <= 1)%nat) /\
  wire_nacks (wire s) = nackable (taken s).
Proof. exact dispatch_inv. Qed.

(* Watch is never blocked inside a waiter's callback and never panics. *)
Theorem C16_watch_sane : forall s, reachable fixed s -> wpc s <> WStuck /\ wpc s <> WPanicked.
Proof. exact watch_sane. Qed.

(* One unmatched well-formed PDU: Watch offers it, the application receives exactly it. *)
Theorem C16_deliver : forall v s p rest,
  wpc s = WReading -> transport_closed s = false -> inbound s = IPdu p :: rest ->
  pending s (snd p) = None -> queue_closed s = false ->
  exists s1 s2, step v s WatchStep = Some s1 /\ wpc s1 = WSending p /\ app s1 = app s /\ wire s1 = wire s /\
    step v s1 AppRecv = Some s2 /\ app s2 = app s ++ [p] /\ wpc s2 = WTop /\ inbound s2 = rest.
Proof. exact c16_deliver_step. Qed.

(* An undecodable frame (intact framing, registered id): the very next
   transport Write is generic_nack with its sequence number if that is
   positive; nothing is delivered; no caller, no pending entry, no flag
   changes; Watch is back at its loop top: the connection goes on. *)
Theorem C16_nack : forall v s q rest,
  wpc s = WReading -> transport_closed s = false -> inbound s = IBad q :: rest ->
  exists s', step v s WatchStep = Some s' /\
    wire s' = wire s ++ (if (0 <? q)%Z then [WNack q] else []) /\
    app s' = app s /\ wpc s' = WTop /\ inbound s' = rest /\ done s' = done s /\
    callers s' = callers s /\ pending s' = pending s /\ in_end s' = in_end s /\
    queue_closed s' = queue_closed s /\ transport_closed s' = false /\ started s' = started s /\
    ka s' = ka s /\ ticker_stopped s' = ticker_stopped s.
Proof. exact c16_nack_step. Qed.

(* ... and every continuation runs as if the frame had never been in the stream. *)
Theorem C16_continue : forall v s q rest,
  wpc s = WReading -> transport_closed s = false -> inbound s = IBad q :: rest ->
  exists s', step v s WatchStep = Some s' /\
    let s0 := set_wpc (set_inbound s rest) WTop in
    core s' = core s0 /\ wire_calls (wire s') = wire_calls (wire s0) /\
    forall t s1, run v s' t = Some s1 ->
      exists s2, run v s0 t = Some s2 /\ core s1 = core s2 /\ wire_calls (wire s1) = wire_calls (wire s2).
Proof. exact c16_continue. Qed.

(* All fragmentations of the inbound stream: the item Watch obtains for the
   octets of a frame (PDU codec model, Model/Pdu.v) is the same however the
   transport cuts them into Read results — so every theorem above, stated over
   items, holds for every fragmentation of the same octets. *)
Theorem C16_fragmentation : forall data cuts1 cuts2, frame_item data cuts1 = frame_item data cuts2.
Proof. exact frame_item_indep. Qed.

(* Non-vacuity: an outstanding request, two unsolicited PDUs, its response and
   two undecodable frames (sequence 8 and 0) in between. *)
Example C16_example :
  exists s, reachable fixed s /\ app s = [(5, 100%Z); (5, 101%Z)] /\ wire_nacks (wire s) = [8%Z] /\
            c_mail (callers s 0%nat) = Some (2147483652, 7%Z) /\ wpc s = WTop /\ inbound s = [].
Proof. exact c16_example. Qed.

(* The tie between this model and the implementation.  Every forced schedule the
   harness runs on the real Conn is evaluated as [sched_admits fixed auto groups
   snapshots final] (for C05: [sched_env_admits]: additionally within the hypotheses of C05).
   What a [true] means: SOME trace of [step] from [init] — one resolution of the
   internal choices no property decides (R1 a select with two ready cases, R2 the
   order in which waiting senders reach the transport, R3 a hand-over racing
   Done()) — ends in a state showing exactly what the implementation showed
   (results of all calls, PDU() deliveries, every transport Write with its octets,
   Watch / Done() / keep-alive).  The search that finds the trace is not trusted. *)
Theorem C16_tie_sound : forall v auto groups snaps final,
  sched_admits v auto groups snaps final = true ->
  exists tr s, run v init tr = Some s /\ reachable v s /\ beq_obs (observe s) final = true.
Proof. exact sched_admits_sound. Qed.

Print Assumptions C16_dispatch.
Print Assumptions C16_nack.
Print Assumptions C16_continue.
Print Assumptions C16_fragmentation.
Print Assumptions C16_tie_sound.
