(* C02 — Marshal and ReadPDU agree with the SMPP v5 wire layout, field by
   field.  Statements only.  Spec/Smpp5.v is written from the specification's
   syntax tables (sections 4.1-4.6), not from the Go structs; [layouts] and
   [field_names] are regenerated from the running code on every run. *)
From V Require Import Model.Pdu Spec.Smpp5 Gen.PduLayouts Proofs.PduRoundtripProofs Proofs.PduStableProofs Proofs.PduSpecProofs Proofs.PduConverseProofs.
From Coq Require Import Permutation.
Open Scope N_scope.

(* 1. Structure: the parameter list of every registered type is the one its SMPP v5 table
   prescribes, in order (kinds: C-octet string / 1-octet integer / destination list /
   unsuccess list / sm_length+short_message / TLVs).  Exceptions, computed, not assumed:
   query_sm_resp lacks the error_code octet (finding D5); enquire_link and generic_nack
   additionally tolerate TLVs (identical octets when there are none). *)
Theorem C02_layouts_match : forall l, In l layouts ->
  if l_id l =? 2147483651 then conformance l = MissingParams [PInt1] else is_conform (conformance l) = true.
Proof. exact layouts_conform. Qed.
(* ... and the Go fields sit under the specification's parameter names (protocol_id before
   priority_flag, source before destination, ...) *)
Theorem C02_names_match : forallb names_conform field_names = true /\ map fst field_names = map l_id layouts.
Proof. exact names_all_conform. Qed.

(* ... and the registry is complete: the command_ids registered by the running code are EXACTLY the 33 operations of
   SMPP v5 (section 4.7.5 table 4-42, transcribed independently of the syntax tables above) — every operation has a
   registered type that its id finds, every registered type is an operation with a syntax table, and no other id
   is accepted.  (The harness sends a minimal frame of each of the 33 ids, from its own literal list, through ReadPDU.) *)
Theorem C02_registry_complete :
  map l_id layouts = spec_command_ids /\
  List.length layouts = 33%nat /\
  (forall id, In id spec_command_ids -> exists l, In l layouts /\ l_id l = id /\ find_layout layouts id = Some l) /\
  (forall l, In l layouts -> In (l_id l) spec_command_ids /\ exists o, find_op smpp5_ops (l_id l) = Some o) /\
  (forall id, ~ In id spec_command_ids -> find_layout layouts id = None).
Proof. exact registry_complete. Qed.

(* ... and where the UDH indicator applies is pinned by the specification, not taken from the code: the table's flags
   l_has_esm / l_replace are observed from what ShortMessage.Prepare does for each type; for every registered type they are what
   the syntax tables say — the indicator governs the short message exactly of submit_sm, deliver_sm, submit_multi (ids 4, 5, 33:
   esm_class and short_message both present), data_coding is absent exactly in replace_sm (id 7). *)
Theorem C02_udhi_applies : forall lay, In lay layouts ->
  (existsb is_short (l_fields lay) && l_has_esm lay) = spec_has_udhi (l_id lay) /\
  l_replace lay = spec_is_replace (l_id lay) /\
  existsb is_short (l_fields lay) = (match find_op0 smpp5_ops (l_id lay) with Some o => op_has_short o | None => false end).
Proof. exact udhi_applies. Qed.
Theorem C02_udhi_operations :
  filter spec_has_udhi spec_command_ids = [4; 5; 33] /\ filter spec_is_replace spec_command_ids = [7].
Proof. exact spec_udhi_ops. Qed.

(* 2. Octets: for EVERY layout and every well-formed value, the frame Marshal writes is the
   specification's layout of that value: 16-octet big-endian header with command_length =
   frame size and the type's command_id, then each parameter (NUL-terminated strings, one-octet
   integers at the SMPP bit positions, sm_length counting UDH plus message, dest_flag-tagged
   destinations, 4-octet error codes), then the TLVs (tag, length, value). *)
Theorem C02_marshal_is_spec : forall lay vs f,
  wf_vals lay vs -> marshal lay vs = Ok f -> len f <= 65536 ->
  exists h body, hd_error vs = Some (VHeader h) /\
    lay_params (erase lay) (to_spec lay vs) = Some body /\
    f = spec_frame (l_id lay) 0 (u32_of_i32 (h_seq h)) body.
Proof. exact marshal_is_spec. Qed.

(* 3. Conversely a frame laid out from the specification decodes to exactly the values laid out *)
Theorem C02_spec_frame_decodes : forall lay vs f,
  lay_ok lay = true -> wf_vals lay vs -> marshal lay vs = Ok f -> len f <= 65536 ->
  exists h body, hd_error vs = Some (VHeader h) /\
    lay_params (erase lay) (to_spec lay vs) = Some body /\
    unmarshal lay (spec_frame (l_id lay) 0 (u32_of_i32 (h_seq h)) body) = Ok (received lay vs).
Proof. exact spec_frame_decodes. Qed.
(* ... with the TLVs in ANY transmission order ("in some order") *)
Theorem C02_tlvs_any_order : forall l b,
  forallb tlv_ok l = true -> lay_all lay_tlv l = Some b -> dec_tags b = Ok (kv_sort l).
Proof. exact dec_tags_any_order. Qed.
Theorem C02_tlv_order_irrelevant : forall l l' b b',
  NoDup (map fst l) -> Permutation l l' -> forallb tlv_ok l = true -> forallb tlv_ok l' = true ->
  lay_all lay_tlv l = Some b -> lay_all lay_tlv l' = Some b' -> dec_tags b = dec_tags b'.
Proof. exact dec_tags_order_irrelevant. Qed.
(* ... whole PDUs: a frame laid out from the specification whose TLV section carries the value's
   TLVs in ANY permutation decodes to exactly the values laid out *)
Theorem C02_spec_frame_any_tlv_order : forall lay ks h vs0 t l body0 tlvs,
  l_fields lay = FHeader :: ks ++ [FTags] -> existsb is_tags ks = false ->
  lay_ok lay = true -> wf_vals lay (VHeader h :: vs0 ++ [VTags t]) ->
  enc_fields lay (udhi_of (vs0 ++ [VTags t])) ks vs0 = Ok body0 ->
  Permutation (filter nonempty t) l -> forallb tlv_ok l = true -> lay_all lay_tlv l = Some tlvs ->
  16 + len body0 + len tlvs <= 65536 ->
  unmarshal lay (spec_frame (l_id lay) 0 (u32_of_i32 (h_seq h)) (body0 ++ tlvs))
  = Ok (VHeader {| h_len := 16 + len body0 + len tlvs; h_id := l_id lay; h_status := 0; h_seq := h_seq h |}
        :: map norm_val vs0 ++ [VTags (filter nonempty t)]).
Proof. exact spec_frame_any_tlv_order. Qed.
(* ... and dest_address entries of both kinds in ANY order *)
Theorem C02_dests_any_order : forall l b rest,
  forallb dest_ok l = true -> lay_param PDests (SDests l) = Some b ->
  dec_dests (b ++ rest) = Ok (smes_of l, dls_of l, rest).
Proof. exact dec_dests_any_order. Qed.

(* ... and WITHOUT any hypothesis about Marshal — frames a conforming peer may send that Marshal never produces:
   a TLV section laid out from the specification with ANY tags in ANY order, duplicates, and values of 0..65535
   octets (a zero-length value included) decodes to the map holding per tag the last value sent; *)
Theorem C02_spec_tlvs_decode : forall l b,
  forallb tlv_ok0 l = true -> lay_all lay_tlv l = Some b -> dec_tags b = Ok (kv_sort l).
Proof. exact dec_tags_spec. Qed.
(* the short-message region laid out from the specification — [data_coding] sm_default_msg_id sm_length short_message,
   short_message = user data header (indicator set) then message — decodes to exactly those values for EVERY
   sm_length 0..255 (141..255 included, which Marshal refuses to produce), followed by ANY further octets. *)
Theorem C02_spec_short_message_decodes : forall (rep : bool) (dc dflt : N) (u : option kvs) (msg rest : bytes),
  (rep = true -> u = None) ->
  match u with Some u' => wf_udh u' = true | None => True end ->
  let o := (match u with Some u' => spec_udh u' | None => [] end) ++ msg in
  len o <= 255 ->
  dec_short rep (match u with Some _ => true | None => false end)
            ((if rep then [] else [dc]) ++ [dflt; len o] ++ o ++ rest)
  = Ok ({| sm_dflt := dflt; sm_dc := (if rep then NoCoding else dc); sm_udh := u; sm_msg := msg |}, rest).
Proof. exact spec_short_decodes. Qed.
(* THE WHOLE-PDU CONVERSE, no hypothesis about Marshal.  Specification-level values [xval] (Proofs/PduConverseProofs.v):
   C-octet strings, one-octet integers, destination entries in transmission order (kinds interleaved), unsuccess records,
   a short message = optional user data header + message with ANY sm_length 0..255, TLVs in transmission order (any
   order, duplicates, zero-length values).  [flat] maps them to the values of Spec/Smpp5.v, [lay_params (erase lay)] lays
   them out with the specification encoder, [of_x_fields] says what the decoder returns: the values laid out, booleans
   as (octet = 1), flag octets split at the SMPP bit positions, destinations split by kind, the user data header present
   exactly when the esm_class octet laid out earlier has the indicator set, and for TLVs the map holding per tag the LAST
   value sent (empty values included).  For EVERY registered type (= every operation of spec_command_ids, by
   C02_registry_complete), every such value list, every sequence number, every read schedule and whatever follows the frame: *)
Theorem C02_spec_converse : forall lay ks xs vs body q,
  In lay layouts -> l_fields lay = FHeader :: ks ->
  of_x_fields lay ks xs false = Some vs ->
  lay_params (erase lay) (map flat xs) = Some body ->
  16 + len body <= 65536 -> q < 4294967296 ->
  forall rest sched, exists sched',
    read_pdu layouts {| st_data := spec_frame (l_id lay) 0 q body ++ rest; st_sched := sched |}
    = (RpOk lay (VHeader {| h_len := 16 + len body; h_id := l_id lay; h_status := 0; h_seq := i32_of_u32 q |} :: vs),
       16 + len body, {| st_data := rest; st_sched := sched' |}).
Proof. exact spec_converse_registered. Qed.
(* ... the decoder statement for ANY layout with a leading header (not only the registered ones) *)
Theorem C02_spec_converse_any_layout : forall lay ks xs vs body q,
  l_fields lay = FHeader :: ks -> l_id lay < 4294967296 ->
  of_x_fields lay ks xs false = Some vs ->
  lay_params (erase lay) (map flat xs) = Some body ->
  16 + len body <= 65536 -> q < 4294967296 ->
  unmarshal lay (spec_frame (l_id lay) 0 q body)
  = Ok (VHeader {| h_len := 16 + len body; h_id := l_id lay; h_status := 0; h_seq := i32_of_u32 q |} :: vs).
Proof. exact spec_converse. Qed.
(* Restriction that remains (said here, not hidden): the information elements of a user data header are laid out in
   ascending identifier order without repeats ([wf_udh]); for TLVs and destinations any order is covered.
   Non-vacuity: TLVs unsorted / repeated / empty; a submit_sm with a user data header and sm_length 200. *)
Example C02_spec_converse_inhabited :
  of_x_fields (lay_of 2147483653) [FCStr; FTags] conv_ex_resp false
    = Some [VStr [109; 49]; VTags [(5, [9]); (7, []); (1060, [3])]] /\
  match of_x_fields (lay_of 4) (tl (l_fields (lay_of 4))) conv_ex_submit false,
        lay_params (erase (lay_of 4)) (map flat conv_ex_submit) with
  | Some vs, Some body => (len body =? 223) && (nth 18 body 0 =? 200) && (N.of_nat (List.length vs) =? 12)
  | _, _ => false
  end = true.
Proof. exact converse_examples. Qed.

(* 4. No misstatement: for any Go value (octets are octets; flag structs with ANY sub-field values;
   UDH present exactly when the indicator is set; data_coding <> 0xBF; skipped field zero), if Marshal
   succeeds then the value is well formed — NUL-free strings, counts and lengths that fit their
   fields — so by (2) the frame states exactly that value; otherwise Marshal reports an error. *)
Theorem C02_no_misstatement : forall lay h vs f,
  match l_fields lay with FHeader :: ks => pre_fields lay (udhi_of vs) ks vs = true | _ => False end ->
  h_status h = 0 -> (h_seq h < 2147483648)%Z ->
  marshal lay (VHeader h :: vs) = Ok f -> wf_vals lay (VHeader h :: vs).
Proof. exact marshal_ok_expressible. Qed.

(* ... in particular a flag sub-field wider than its bit field is refused (after the fix: commits; it used to be masked) *)
Theorem C02_flag_width_refused : forall lay u,
  (forall e, esm_fits e = false -> enc_field lay u FEsm (VEsm e) = Err ESize) /\
  (forall r, regdel_fits r = false -> enc_field lay u FRegDel (VRegDel r) = Err ESize).
Proof. exact flag_width_refused. Qed.

(* non-vacuity: the submit_sm of C01's example, laid out by the specification encoder *)
Example C02_inhabited : exists body, lay_params (erase (lay_of 4)) (to_spec (lay_of 4) C01_example_value) = Some body /\ len body = 40.
Proof. eexists. split; vm_compute; reflexivity. Qed.

Print Assumptions C02_layouts_match.
Print Assumptions C02_names_match.
Print Assumptions C02_registry_complete.
Print Assumptions C02_udhi_applies.
Print Assumptions C02_udhi_operations.
Print Assumptions C02_marshal_is_spec.
Print Assumptions C02_spec_frame_decodes.
Print Assumptions C02_tlvs_any_order.
Print Assumptions C02_tlv_order_irrelevant.
Print Assumptions C02_spec_frame_any_tlv_order.
Print Assumptions C02_dests_any_order.
Print Assumptions C02_spec_tlvs_decode.
Print Assumptions C02_spec_short_message_decodes.
Print Assumptions C02_spec_converse.
Print Assumptions C02_spec_converse_any_layout.
Print Assumptions C02_no_misstatement.
Print Assumptions C02_flag_width_refused.
