(* C06 — Documented concurrent use of Conn is free of data races.
   Statements only; every proof is [exact lemma].

   What is proved here is the lock-protocol part: Model/LockProto.v interleaves
   any number of threads, each executing any sequence of the routines that
   touch Conn.pending, action by action, with NO guard on map accesses.  The
   routines are not typed in: Gen/ConnLocks.v is regenerated from conn.go on
   every run (go/ast: lock, unlock, map read, map write in source order per
   function), so a change of the locking in the source re-opens
   [C06_code_routines_well_locked].

   What is NOT proved here and is checked dynamically on every run instead:
   that the compiled code performs exactly these accesses (the extraction is
   syntactic), every access to state other than the pending table (context,
   channels, net.Conn, the NextSequence callback: Go's documented guarantees),
   and the Go memory model itself.  The harness runs the README workload and
   the forced schedules of C05/C15 under `go build -race`; a report with a frame
   inside go-smpp, or a runtime "concurrent map" abort, is the failing input. *)
From V Require Import Model.Base Model.LockProto Gen.ConnLocks Proofs.ConnC06.
Open Scope N_scope.

(* Every function of package smpp that touches the pending table takes the free
   mutex first, touches the map only while holding it, and releases it. *)
Theorem C06_code_routines_well_locked :
  forallb (fun x => routine_ok (snd x)) conn_routines = true /\ conn_routines <> [].
Proof. exact conn_routines_ok. Qed.

(* Threads running routines of conn.go — any number of threads, any sequences — form a well-locked system. *)
Theorem C06_code_programs : forall s,
  holder s = None -> (forall t, uses_conn_routines (progs s t)) -> well_locked s.
Proof. exact conn_programs_well_locked. Qed.

(* In a well-locked system, under every schedule: *)
(* a map access is executed only by the thread holding the mutex (mutual exclusion: the holder is one thread); *)
Theorem C06_guarded : forall s t s' w, linv s -> lstep s t = Some (s', AMap w) -> holder s = Some t.
Proof. exact guarded. Qed.
Theorem C06_mutex_invariant : forall s t s' a, linv s -> lstep s t = Some (s', a) -> linv s'.
Proof. exact lstep_inv. Qed.
(* the executed trace obeys the lock discipline, contains no two adjacent conflicting accesses of
   different threads, and any two map accesses of different threads are separated by the first
   thread's Unlock followed by the second thread's Lock — the release/acquire pair through which
   the Go memory model orders them. *)
Theorem C06_race_free : forall s sched s' tr,
  well_locked s -> lrun s sched = Some (s', tr) ->
  trace_ok tr = true /\ has_adjacent_race tr = false /\
  forall pre t1 w1 mid t2 w2 post, tr = pre ++ (t1, AMap w1) :: mid ++ (t2, AMap w2) :: post -> t1 <> t2 ->
    exists m1 m2 m3, mid = m1 ++ (t1, AUnlock) :: m2 ++ (t2, ALock) :: m3.
Proof. exact race_free. Qed.

(* The pre-repair routines (plain map accesses in Watch and Submit) do race. *)
Theorem C06_legacy_refuted :
  let s := mkL None (fun t => match t with 0%nat => legacy_register | 1%nat => legacy_lookup | _ => [] end) in
  exists s' tr, lrun s [0%nat; 1%nat] = Some (s', tr) /\ has_adjacent_race tr = true /\ trace_ok tr = false /\
                routine_ok legacy_register = false.
Proof. exact legacy_races. Qed.

(* Non-vacuity: three threads running routines of conn.go, interleaved. *)
Example C06_example :
  exists reg unreg take, In reg (map snd conn_routines) /\ In unreg (map snd conn_routines) /\ In take (map snd conn_routines) /\
  let s := mkL None (fun t => match t with 0%nat => reg ++ unreg | 1%nat => take ++ take | 2%nat => reg | _ => [] end) in
  well_locked s /\
  exists s' tr, lrun s [0; 0; 0; 1; 1; 1; 1; 2; 2; 2; 0; 0; 0; 1; 1; 1; 1]%nat = Some (s', tr) /\
                List.length (filter (fun x => match snd x with AMap _ => true | _ => false end) tr) = 7%nat.
Proof. exact c06_example. Qed.

Print Assumptions C06_code_routines_well_locked.
Print Assumptions C06_race_free.
Print Assumptions C06_legacy_refuted.
