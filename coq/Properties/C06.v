(* C06 — Documented concurrent use of Conn is free of data races.
   Statements only; every proof is [exact lemma].

   What is proved here is the lock-protocol part, for ANY table (Model/LockTable.v): a table is, per
   README role (Watch, EnquireLink, Submit, Send, Close, Done, PDU — and whatever they start), the control-flow
   graph of lock operations and accesses to EVERY location of the connection state, each node with the set of
   mutexes held when it is reached.  The system interleaves any number of threads, each calling any sequence
   of the entries its role permits and taking any branch; accesses have NO guard in the semantics.  A data race
   is a reachable state in which two different threads are both about to perform conflicting accesses (same
   location, at least one write, not both atomic) — nothing orders them.

   The table of the code, [conn_table] (Gen/ConnLocks.v), is regenerated from the source on every run
   (harness/c06_extract.go: go/ast + go/types, callees, closures and defers inlined, path-sensitive in the held
   set and the registered defers, aliases followed, locations classified by their Go type).  No theorem below
   mentions a field, function or mutex name, and none is proved by evaluating [conn_table] at compile time:
   the hypotheses [table_wf conn_table = true] and [loc_ok conn_table l = true] of [C06_code] are evaluated
   by the kernel in the generated cases of every run, one per location, against the verdict the harness
   computed; a location for which [loc_ok] is false is reported with the two access sites as the failing
   input.

   What is NOT proved here and is checked dynamically on every run instead: that the graph is a faithful
   reading of the source (the translation is trusted; its lock events are observed on the running code through
   the runtime's mutex-contention profile); state that is not a location of Conn (variables captured by
   closures); roles the extraction could not interpret ([conn_unanalysed]); the Go memory model itself.  The
   harness runs the README roles under `go build -race`, one child process per configuration (see
   harness/c06_dyn.go); a report with a frame inside go-smpp, or a runtime "concurrent map" abort, is the
   failing input. *)
From Coq Require Import String.
From V Require Import Model.Base Model.LockTable Gen.ConnLocks Proofs.ConnC06.
Open Scope N_scope.

(* The invariant — a thread at a node holds what the node's certificate claims and runs an entry of its role;
   every mutex is held by one writer or by readers only — is preserved by every step of a checked table. *)
Theorem C06_invariant : forall T roles s tid c s' ev,
  table_wf T = true -> tinv T roles s -> tstep T roles s tid c = Some (s', ev) -> tinv T roles s'.
Proof. exact tstep_inv. Qed.

(* Mutual exclusion: in a state satisfying the invariant, a mutex that one thread holds exclusively according to
   its node's certificate is not held, in any mode, by another thread. *)
Theorem C06_mutual_exclusion : forall T roles s t1 t2 n1 n2 nd1 nd2 m e,
  tinv T roles s -> t1 <> t2 ->
  pc s t1 = Some n1 -> find_node T n1 = Some nd1 -> In (m, true) (n_ls nd1) ->
  pc s t2 = Some n2 -> find_node T n2 = Some nd2 -> In (m, e) (n_ls nd2) -> False.
Proof. exact mutual_exclusion. Qed.

(* Any number of threads, any schedule, any branches: for every location whose conflicting access pairs all
   share a mutex (held exclusively by one of the two at least), no reachable state is a race state. *)
Theorem C06_race_free : forall T roles sched s tr,
  table_wf T = true -> roles_ok T roles -> trun T roles tinit sched = Some (s, tr) ->
  forall l, loc_ok T l = true -> ~ race_state T s l.
Proof. exact race_free. Qed.

(* Trace form (the shape of a race report): two conflicting accesses by different threads are never adjacent
   in an executed trace, unless the checker has refused their location. *)
Theorem C06_no_adjacent_race : forall T roles sched s tr,
  table_wf T = true -> roles_ok T roles -> trun T roles tinit sched = Some (s, tr) ->
  forall pre t1 n1 l m1 t2 n2 m2 post,
    tr = pre ++ EAct t1 n1 (AAcc l m1) :: EAct t2 n2 (AAcc l m2) :: post ->
    t1 <> t2 -> conflict m1 m2 = true -> loc_ok T l = false.
Proof. exact no_adjacent_race. Qed.

(* The code under test: the two boolean hypotheses are evaluated on the regenerated table in the cases of every run. *)
Theorem C06_code : forall roles sched s tr,
  table_wf conn_table = true -> roles_ok conn_table roles -> trun conn_table roles tinit sched = Some (s, tr) ->
  forall l, loc_ok conn_table l = true -> ~ race_state conn_table s l.
Proof. exact (race_free conn_table). Qed.

(* A flag tested and set without a lock by an entry that two goroutines run (the shape of an unguarded
   "closed" or "deadline" field): the checker refuses exactly that location, and a race state is reachable. *)
Theorem C06_unguarded_refuted :
  table_wf unguarded_table = true /\ loc_ok unguarded_table 1 = false /\ loc_ok unguarded_table 0 = true /\
  exists s tr, trun unguarded_table (default_roles unguarded_table) tinit
                 (map (fun p => (fst p, N.of_nat (snd p))) [(0, 2); (1, 2); (0, 0)]%nat) = Some (s, tr) /\
               race_state unguarded_table s 1.
Proof. exact unguarded_refuted. Qed.

(* Non-vacuity: the miniature passes the checker, and three threads (two running the any-number entry, thread 0
   the single-goroutine one) interleave and perform four accesses. *)
Example C06_example_checked : table_wf sample_table = true /\ loc_ok sample_table 0 = true.
Proof. exact sample_ok. Qed.
Example C06_example_runs :
  roles_ok sample_table (default_roles sample_table) /\
  exists s tr, trun sample_table (default_roles sample_table) tinit
                 (map (fun p => (fst p, N.of_nat (snd p))) [(1, 0); (0, 1); (1, 0); (1, 0); (1, 0); (0, 0); (0, 0); (2, 0); (0, 0); (0, 0); (2, 0); (2, 0); (2, 0); (1, 0); (0, 0)]%nat) = Some (s, tr) /\
               List.length (filter (fun e => match e with EAct _ _ (AAcc _ _) => true | _ => false end) tr) = 4%nat.
Proof. exact sample_runs. Qed.

Print Assumptions C06_invariant.
Print Assumptions C06_race_free.
Print Assumptions C06_no_adjacent_race.
Print Assumptions C06_code.
Print Assumptions C06_unguarded_refuted.
