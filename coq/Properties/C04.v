(* C04 — ReadPDU is total and memory-bounded on arbitrary bytes.  Statements
   only.  [read_pdu] is the model of pdu.ReadPDU over a transport that hands out
   ARBITRARY data under an ARBITRARY read schedule. *)
From V Require Import Model.Pdu Model.PduAlloc Gen.PduLayouts Proofs.PduStreamProofs Proofs.PduAllocProofs.
Open Scope N_scope.

(* For every byte sequence and every fragmentation: no panic, no exhausted fuel
   (the loops terminate on their own), at most 65536 octets taken — and exactly
   those octets are gone from the transport —, and the result is either an
   error or a PDU of a registered type decoded from exactly the consumed octets
   (never neither). *)
Theorem C04_total : forall s sched,
  let '(r, c, st') := read_pdu layouts {| st_data := s; st_sched := sched |} in
  r <> RpPanic /\ r <> RpFuel /\ c <= 65536 /\ c <= len s /\
  st_data st' = skipn (N.to_nat c) s /\
  (rp_is_error r = true \/
   exists lay vs, r = RpOk lay vs /\ In lay layouts /\ unmarshal lay (firstn (N.to_nat c) s) = Ok vs).
Proof. exact (read_pdu_total layouts). Qed.

(* A header announcing fewer than 16 or more than 65536 octets is rejected after
   exactly 16 octets, before anything else is read (or allocated: see C04_alloc). *)
Theorem C04_header_reject : forall s sched a b c d,
  (16 <= List.length s)%nat -> firstn 4 s = [a; b; c; d] ->
  (de32 a b c d < 16 \/ 65536 < de32 a b c d) ->
  exists sched', read_pdu layouts {| st_data := s; st_sched := sched |}
                 = (RpBadLen, 16, {| st_data := skipn 16 s; st_sched := sched' |}).
Proof. exact (read_pdu_header_reject layouts). Qed.

(* the decoders' own loops never run out of fuel: fuel is a proof device, not a behaviour *)
Theorem C04_no_fuel_error : forall lay f, unmarshal lay f <> Err EFuel.
Proof. exact unmarshal_no_fuel. Qed.

(* Memory.  [read_pdu_alloc] adds up the octets the library requests with make([]byte, n)
   during one call — body buffer, every TLV value, every UDH element, the message buffer — with
   n taken from the wire BEFORE the octets are read.  For ALL octet strings and schedules the
   sum is at most five times the frame limit (65520 body + 66046 short message + 131071 TLVs:
   every TLV value but the last is backed by octets actually present in the frame). *)
Theorem C04_alloc : forall s sched, octetsb s = true ->
  read_pdu_alloc layouts {| st_data := s; st_sched := sched |} <= 5 * 65536.
Proof. exact read_pdu_alloc_bound. Qed.
(* ... and nothing at all is requested for a rejected header *)
Theorem C04_alloc_reject : forall s sched a b c d,
  firstn 4 s = [a; b; c; d] -> (de32 a b c d < 16 \/ 65536 < de32 a b c d) ->
  read_pdu_alloc layouts {| st_data := s; st_sched := sched |} = 0.
Proof. exact (read_pdu_alloc_reject layouts). Qed.

Example C04_inhabited :
  fst (fst (read_pdu layouts {| st_data := [0;0;0;16; 0;0;0;21; 0;0;0;0; 0;0;0;1; 9]; st_sched := [3]%nat |})) <> RpEOF.
Proof. vm_compute. discriminate. Qed.

Print Assumptions C04_total.
Print Assumptions C04_header_reject.
Print Assumptions C04_no_fuel_error.
Print Assumptions C04_alloc.
Print Assumptions C04_alloc_reject.
