(* C04 — ReadPDU is total and memory-bounded on arbitrary bytes.  Statements
   only.  [read_pdu] is the model of pdu.ReadPDU over a transport that hands out
   ARBITRARY data under an ARBITRARY read schedule. *)
From V Require Import Model.Pdu Model.PduAlloc Model.PduReadHazards Gen.PduLayouts Proofs.PduStreamProofs Proofs.PduAllocProofs Proofs.PduReadHazardProofs.
Open Scope N_scope.

(* For every byte sequence and every fragmentation: no panic, no exhausted fuel
   (the loops terminate on their own), at most 65536 octets taken — and exactly
   those octets are gone from the transport —, and the result is either an
   error or a PDU of a registered type decoded from exactly the consumed octets
   (never neither). *)
Theorem C04_total : forall s sched,
  let '(r, c, st') := read_pdu layouts {| st_data := s; st_sched := sched |} in
  r <> RpPanic /\ r <> RpFuel /\ c <= 65536 /\ c <= len s /\
  st_data st' = skipn (N.to_nat c) s /\
  (rp_is_error r = true \/
   exists lay vs, r = RpOk lay vs /\ In lay layouts /\ unmarshal lay (firstn (N.to_nat c) s) = Ok vs).
Proof. exact (read_pdu_total layouts). Qed.

(* A header announcing fewer than 16 or more than 65536 octets is rejected after
   exactly 16 octets, before anything else is read (or allocated: see C04_alloc). *)
Theorem C04_header_reject : forall s sched a b c d,
  (16 <= List.length s)%nat -> firstn 4 s = [a; b; c; d] ->
  (de32 a b c d < 16 \/ 65536 < de32 a b c d) ->
  exists sched', read_pdu layouts {| st_data := s; st_sched := sched |}
                 = (RpBadLen, 16, {| st_data := skipn 16 s; st_sched := sched' |}).
Proof. exact (read_pdu_header_reject layouts). Qed.

(* the decoders' own loops never run out of fuel: fuel is a proof device, not a behaviour *)
Theorem C04_no_fuel_error : forall lay f, unmarshal lay f <> Err EFuel.
Proof. exact unmarshal_no_fuel. Qed.

(* Memory.  [read_pdu_alloc] adds up the octets the library requests with make([]byte, n)
   during one call — body buffer, every TLV value, every UDH element, the message buffer — with
   n taken from the wire BEFORE the octets are read.  For ALL octet strings and schedules the
   sum is at most five times the frame limit (65520 body + 66046 short message + 131071 TLVs:
   every TLV value but the last is backed by octets actually present in the frame). *)
Theorem C04_alloc : forall s sched, octetsb s = true ->
  read_pdu_alloc layouts {| st_data := s; st_sched := sched |} <= 5 * 65536.
Proof. exact read_pdu_alloc_bound. Qed.
(* ... and nothing at all is requested for a rejected header *)
Theorem C04_alloc_reject : forall s sched a b c d,
  firstn 4 s = [a; b; c; d] -> (de32 a b c d < 16 \/ 65536 < de32 a b c d) ->
  read_pdu_alloc layouts {| st_data := s; st_sched := sched |} = 0.
Proof. exact (read_pdu_alloc_reject layouts). Qed.

(* ===== The Go-hazards layer of the decoder (Model/PduReadHazards.v).  [read_pdu] above cannot produce RpPanic by
   construction; [read_pdu_io] is ReadPDU written as the Go code is written — make([]byte, n) with n computed from the
   wire in the integer type of the source (uint32 command_length-16, byte sm_length-byte(UDH length), int UDH index,
   uint16 TLV length), value[0:len(value)-1] of readCString, reflect.New on the looked-up type — each an operation that
   CAN yield Panic.  It is evaluated by the check on a slice of the malformed stream (harness/c04.go, cases run_read_io). *)

(* For every octet string and every fragmentation: no make, slice or reflect.New is out of range — no panic —, no
   exhausted fuel, at most 65536 octets taken, exactly those gone from the transport, an error or a PDU of a registered type. *)
Theorem C04_io_total : forall s sched,
  let '(r, c, st') := read_pdu_io layouts {| st_data := s; st_sched := sched |} in
  r <> RpPanic /\ r <> RpFuel /\ c <= 65536 /\ c <= len s /\
  st_data st' = skipn (N.to_nat c) s /\
  (rp_is_error r = true \/
   exists lay vs, r = RpOk lay vs /\ In lay layouts /\ unmarshal lay (firstn (N.to_nat c) s) = Ok vs).
Proof. exact (read_pdu_io_total layouts). Qed.

(* The layer computes [read_pdu], for ANY registry, octets and schedule: every theorem about read_pdu
   (C01 C03 C04 C11 C13) is a theorem about read_pdu_io.  The proof is where the ranges are established:
   16 <= command_length <= 65536 before the body buffer, the byte subtraction stays in 0..255, the string
   returned by ReadString(0) ends in its delimiter, reflect.New only behind the registry's ok. *)
Theorem C04_io_agrees : forall ls st, read_pdu_io ls st = read_pdu ls st.
Proof. exact read_pdu_io_eq. Qed.
Theorem C04_io_decoder_agrees : forall lay f, unmarshal_h lay f = unmarshal lay f.
Proof. exact unmarshal_h_eq. Qed.

(* The layer CAN panic: three historical defects, written as variants of its functions, with witnesses.
   (a) seeded C04-m1: message size in int arithmetic — sm_length 1 in front of a 5-octet user data header;
   (b) seeded C04-x1: end := 4 + length in uint16 — a TLV announcing 65533 octets;
   (c) seeded C04-h1 / x2: reflect.New before the registry lookup's ok — an unregistered command_id.
   On the same inputs the layer as the code is returns an error. *)
Theorem C04_io_legacy_refuted :
  dec_short_m1 false true [0; 0; 1; 4; 0; 2; 7; 7] = Panic /\
  dec_short_h false true [0; 0; 1; 4; 0; 2; 7; 7] = Err EUnexpectedEOF /\
  dec_tags_x1 [0; 5; 255; 253; 1; 2; 3; 4] = Panic /\
  dec_tags_h [0; 5; 255; 253; 1; 2; 3; 4] = Err EUnexpectedEOF /\
  fst (fst (read_pdu_unchecked [] {| st_data := [0;0;0;16; 0;0;11;173; 0;0;0;0; 0;0;0;1]; st_sched := [] |})) = RpPanic.
Proof.
  exact (conj dec_short_m1_refuted (conj dec_short_same_input_ok (conj dec_tags_x1_refuted (conj dec_tags_same_input_ok read_pdu_unchecked_refuted)))).
Qed.

Example C04_inhabited :
  fst (fst (read_pdu layouts {| st_data := [0;0;0;16; 0;0;0;21; 0;0;0;0; 0;0;0;1; 9]; st_sched := [3]%nat |})) <> RpEOF.
Proof. vm_compute. discriminate. Qed.

Print Assumptions C04_total.
Print Assumptions C04_io_total.
Print Assumptions C04_io_agrees.
Print Assumptions C04_io_decoder_agrees.
Print Assumptions C04_io_legacy_refuted.
Print Assumptions C04_header_reject.
Print Assumptions C04_no_fuel_error.
Print Assumptions C04_alloc.
Print Assumptions C04_alloc_reject.
