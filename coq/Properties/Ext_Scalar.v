(* Extension of the scalar engine, OUTSIDE property C20 (which fixes the JSON round trip of
   interface_version, not its text): the text form of the running code is "major.minor" in decimal, quoted,
   for all 256 octets, and the model's reader [ifver_of_json] reads every one of these texts back.
   This file is not among C20's proof files: if the text form changes while the round trip holds, C20
   stays quiet and the driver reports a note ("extension theorems no longer build"). *)
From V Require Import Model.Flags Gen.Octets.
Open Scope N_scope.

Definition ifver_row_text (row : N * bytes * option N) : bool :=
  let '(b, js, back) := row in beq_bytes js (ifver_to_json b) && beq_opt N.eqb (ifver_of_json js) back.
Theorem Ext_ifver_text_form : forallb ifver_row_text ifver_table = true.
Proof. vm_compute. reflexivity. Qed.
Print Assumptions Ext_ifver_text_form.
