(* C03 — A PDU stream is re-framed correctly under any fragmentation.
   Statements only.  [read_many] is the model of successive ReadPDU calls on a
   transport that hands out its octets according to an ARBITRARY schedule
   (Model/Pdu.v: stream, readfull, read_pdu); the check runs the same streams
   and schedules through pdu.ReadPDU and through this model (harness/c03.go). *)
From V Require Import Model.Pdu Gen.PduLayouts Proofs.PduStreamProofs Proofs.PduRoundtripProofs.
Open Scope N_scope.

(* Any list of frames with acceptable headers stating their own length, written
   back to back, under EVERY schedule of read sizes: the calls return the
   per-frame results in order, each consuming exactly that frame's octets
   (whether it decodes, fails to decode or has an unknown id), then io.EOF. *)
Theorem C03_reframe : forall fs, Forall well_framed fs -> forall sched fuel,
  read_many (List.length fs + S fuel) layouts {| st_data := List.concat fs; st_sched := sched |}
  = map (fun f => (decode_frame layouts f, len f)) fs ++ [(RpEOF, 0)].
Proof. exact (reframe layouts). Qed.

(* ... and what each valid PDU's frame decodes to is that PDU (C01): so the
   stream returns exactly the PDUs written, in order. *)
Theorem C03_reframe_pdus : forall pdus : list (layout * list fval), Forall valid_pdu pdus -> forall sched fuel,
  map fst (read_many (List.length pdus + S fuel) layouts
             {| st_data := List.concat (map frame_of pdus); st_sched := sched |})
  = map (fun p => RpOk (fst p) (received (fst p) (snd p))) pdus ++ [RpEOF].
Proof. exact reframe_pdus. Qed.

(* exact consumption, on the stream itself: acceptable header, enough octets *)
Theorem C03_exact_consumption : forall s sched h r,
  dec_header (firstn 16 s) = Ok (h, r) -> h_len h <= len s ->
  snd (fst (read_pdu layouts {| st_data := s; st_sched := sched |})) = h_len h.
Proof. exact (read_pdu_exact_consumption layouts). Qed.

(* a stream that ends inside a PDU: the complete frames, then an error — never a PDU *)
Theorem C03_truncation : forall fs f, Forall well_framed fs -> well_framed f -> forall k sched fuel,
  (0 < k < List.length f)%nat ->
  read_many (List.length fs + S fuel) layouts {| st_data := List.concat fs ++ firstn k f; st_sched := sched |}
  = map (fun f => (decode_frame layouts f, len f)) fs ++ [(RpTruncated, N.of_nat k)].
Proof. exact (reframe_truncated layouts). Qed.

(* non-vacuity: a two-frame stream read one, three, then five octets at a time *)
Example C03_inhabited :
  Forall well_framed [C03_ex_f1; C03_ex_f2] /\
  map snd (read_many 5 layouts {| st_data := C03_ex_f1 ++ C03_ex_f2; st_sched := [1; 3; 5; 5; 5; 2]%nat |}) = [18; 16; 0].
Proof. exact C03_example. Qed.

Print Assumptions C03_reframe.
Print Assumptions C03_reframe_pdus.
Print Assumptions C03_exact_consumption.
Print Assumptions C03_truncation.
