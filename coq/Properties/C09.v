(* C09 - The auto-detected data coding can always represent the text.
   Statements only; every proof is [exact lemma].

   [best] / [best_safe] model coding.BestCoding / BestSafeCoding over the
   Validate tables dumped from the running code for all 1,112,064 scalar values;
   [encode_l] / [decode_l] are the per-rune encoder tables and decoder models of
   C17 plus the GSM 7-bit packing model; [represents l rs] says that the encoder
   of l accepts the text rs and decoding the octets with l returns rs.
   [known_bad_of l] is read from the committed files known/C09-D17-<coding>.ranges
   (finding D17: the alphabet tables admit runes the encoder rejects).  The proofs
   check, inside the kernel, that the set of runes Validate admits is included in
   accepted-by-the-encoder U known-bad: one new bad code point breaks them. *)
From V Require Import Model.Gsm7 Proofs.DetectGsm7Agree.
From V Require Import Model.Base Model.IntervalMap Gen.Charsets Model.Charset Model.Splitter Model.Compose
  Gen.Detect Gen.KnownBad Model.Detect Model.ComposePipeline Proofs.DetectProofs Proofs.ComposePipeline Proofs.PipelineFull.
Open Scope N_scope.

(* FULL STATEMENT (false of the code, see the _refuted theorems below):
     forall rs, Forall scalar rs -> represents (best rs) rs
   Proved with the exact exclusions: runes of the known-bad set of the returned
   coding, and - for GSM 7-bit - texts of 8k septets ending in CR. *)

(* every scalar value as a one-character text *)
Theorem C09_rune : forall r, scalar r ->
  mem r (known_bad_of (best [r])) = false -> represents (best [r]) [r].
Proof. exact best_rune. Qed.
Theorem C09_rune_safe : forall r, scalar r -> represents (best_safe [r]) [r].
Proof. exact best_safe_rune. Qed.

(* the label tables dumped from BestCoding / BestSafeCoding on every one-character
   text are total on scalar values and agree with the model *)
Theorem C09_label_tables : forall r, scalar r ->
  (exists dc, lookup3 r best_runs = Some dc) /\ (exists dc, lookup3 r best_safe_runs = Some dc).
Proof. exact label_tables_total. Qed.
Theorem C09_label_best : forall r dc, lookup3 r best_runs = Some dc -> dc_of_label (best [r]) = dc.
Proof. exact best_table. Qed.
Theorem C09_label_best_safe : forall r dc, lookup3 r best_safe_runs = Some dc -> dc_of_label (best_safe [r]) = dc.
Proof. exact best_safe_table. Qed.

(* every text (induction over the text, no length bound) *)
Theorem C09_text : forall rs, Forall scalar rs ->
  (forall r, In r rs -> mem r (known_bad_of (best rs)) = false) ->
  (best rs = LGsm7 -> g7_clear rs) ->
  represents (best rs) rs.
Proof. exact best_text. Qed.
Theorem C09_text_safe : forall rs, Forall scalar rs ->
  (best_safe rs = LGsm7 -> g7_clear rs) ->
  represents (best_safe rs) rs.
Proof. exact best_safe_text. Qed.

(* Compose then Parse of one short message: either the text does not fit
   (ErrShortMessageTooLarge), or the stored label and octets parse back to the
   text; in particular Compose never fails for lack of an encoding *)
Theorem C09_compose : forall rs, Forall scalar rs ->
  (forall r, In r rs -> mem r (known_bad_of (best rs)) = false) ->
  (best rs = LGsm7 -> g7_clear rs) ->
  compose rs = Err ESize \/
  exists bs, compose rs = Ok (dc_of_label (best rs), bs) /\ parse (dc_of_label (best rs), bs) = Ok rs.
Proof. exact compose_parse. Qed.

(* The generated Compose cases compare what the running code answered with [compose_obs_ok] - what C09 lets ANY
   implementation answer (stored label = the detector's and octets = its encoder's output; a refusal for size only if
   the text does not fit 140 octets by the splitter's estimate or by its encoded length; an encoder error only if the
   encoder rejects the text).  The model [compose] the theorems above speak about is one such implementation: *)
Theorem C09_compose_obs_model : forall rs, compose_obs_ok rs (compose rs) = true.
Proof. exact compose_obs_model. Qed.

(* Compose on a REUSED ShortMessage value m (filled in before by an earlier
   Compose or by decoding a PDU): either the text does not fit and m is left
   alone, or label and octets are both replaced and parse back to the text -
   independently of what m held *)
Theorem C09_compose_reused : forall m rs, Forall scalar rs ->
  (forall r, In r rs -> mem r (known_bad_of (best rs)) = false) ->
  (best rs = LGsm7 -> g7_clear rs) ->
  (snd (compose_step m rs) = 1 /\ fst (compose_step m rs) = m) \/
  (snd (compose_step m rs) = 0 /\ fst (fst (compose_step m rs)) = dc_of_label (best rs) /\
   parse (fst (compose_step m rs)) = Ok rs).
Proof. exact compose_step_parse. Qed.

(* The PIPELINE  text -> BestCoding -> ComposeMultipartShortMessage(text, detected coding, ref)  for texts of any length
   (pipeline = Model/Compose.v's compose instantiated with the detected label, the splitter widths tabulated for every
   scalar value and the label's encoder): it never fails for lack of an encoding (no encoder error, whatever the
   length and wherever a segment boundary falls), never panics, and on success the parts are the encodings of
   consecutive pieces of the text, each of which decodes back to its piece (GSM 7-bit: unless that piece is in the
   8k-septets-ending-in-CR class).
   FULL STATEMENT wanted in addition:  forall e, pipeline ref rs = Err e -> e = ECount  (the only refusal is "more than
   254 parts").  Proved here: e <> EText and no Panic; MISSING: e <> ESize (needs "8 * octets <= width" for every
   accepted scalar value between Gen/Charsets.v and the width_<c> tables of Gen/Detect.v, and the packed length of GSM
   7-bit) and e <> EFuel (no width above 8*133) - both hold on every generated case (the cases compare the outcome). *)
Theorem C09_pipeline_partial : forall ref rs, Forall scalar rs ->
  (forall r, In r rs -> mem r (known_bad_of (best rs)) = false) ->
  pipeline ref rs <> Err EText /\ pipeline ref rs <> Panic /\
  forall parts, pipeline ref rs = Ok parts ->
    exists segs, List.concat segs = rs /\
      Forall2 (fun pt s => encode_l (best rs) s = Ok (pt_payload pt) /\
                           ((best rs = LGsm7 -> g7_clear s) -> decode_l (best rs) (pt_payload pt) = Ok s)) parts segs.
Proof. exact pipeline_best. Qed.
Theorem C09_pipeline_safe_partial : forall ref rs, Forall scalar rs ->
  pipeline_safe ref rs <> Err EText /\ pipeline_safe ref rs <> Panic /\
  forall parts, pipeline_safe ref rs = Ok parts ->
    exists segs, List.concat segs = rs /\
      Forall2 (fun pt s => encode_l (best_safe rs) s = Ok (pt_payload pt) /\
                           ((best_safe rs = LGsm7 -> g7_clear s) -> decode_l (best_safe rs) (pt_payload pt) = Ok s)) parts segs.
Proof. exact pipeline_best_safe. Qed.

(* the alphabet table of each coding of the priority list is inside the set its
   encoder accepts, up to the committed known-bad set *)
Theorem C09_alphabets_included :
  incl_check LGsm7 = true /\ incl_check (LCs CAscii) = true /\ incl_check (LCs CLatin1) = true /\
  incl_check (LCs CCyrillic) = true /\ incl_check (LCs CHebrew) = true /\ incl_check (LCs CSjis) = true /\
  incl_check (LCs CEuckr) = true.
Proof. exact (conj incl_gsm7 (conj incl_ascii (conj incl_latin1 (conj incl_cyrillic (conj incl_hebrew (conj incl_sjis incl_euckr)))))). Qed.

(* ... and the exclusion is TIGHT: every rune of the committed known-bad set of a coding is admitted by that coding's
   Validate table and rejected by its encoder (validate \ accept, not more).  A stale known/*.ranges file (after an
   upstream repair) or an enlarged one breaks this theorem instead of silently weakening the ones above. *)
Theorem C09_known_bad_tight : forall l r, mem r (known_bad_of l) = true ->
  mem r (validate_ranges l) = true /\ mem r (accept_ranges l) = false.
Proof. exact known_bad_tight. Qed.

(* --- the unrestricted statement is false: witnesses, replayable on the code --- *)
(* D17: U+0100 is labelled Latin-1, whose encoder rejects it *)
Theorem C09_full_refuted : exists r, scalar r /\ encode_l (best [r]) [r] = Err EText.
Proof. exact best_rune_refuted. Qed.
(* rune-wise detection does not decide texts: "€" and "日" are each represented,
   "€日" is labelled Shift-JIS and rejected *)
Theorem C09_runewise_refuted :
  exists a b, scalar a /\ scalar b /\
    (exists bs, encode_l (best [a]) [a] = Ok bs) /\ (exists bs, encode_l (best [b]) [b] = Ok bs) /\
    encode_l (best [a; b]) [a; b] = Err EText.
Proof. exact best_runewise_refuted. Qed.
(* GSM 03.38 6.1.2.3.1: "abcdefg\r" (8 septets) comes back as "abcdefg" *)
Theorem C09_gsm7_cr_refuted :
  exists rs bs, best rs = LGsm7 /\ encode_l (best rs) rs = Ok bs /\
    decode_l (best rs) bs = Ok (removelast rs) /\ removelast rs <> rs.
Proof. exact best_gsm7_cr_refuted. Qed.

(* non-vacuity *)
Example C09_examples :
  best [1046; 97] = LCs CCyrillic /\ best [26085; 26412] = LCs CSjis /\ best [128138] = LCs CUcs2 /\
  best [97; 8364] = LGsm7 /\ best_safe [1046] = LCs CUcs2 /\
  mem 256 (known_bad_of (best [256])) = true /\ mem 233 (known_bad_of (best [233])) = false /\
  encode_l LGsm7 [104; 101; 108; 108; 111; 8364] = Ok (hx "e8329bfdde941b") /\
  decode_l LGsm7 (hx "e8329bfdde941b") = Ok [104; 101; 108; 108; 111; 8364] /\
  compose [1046; 97] = Ok (6, [182; 97]) /\ parse (6, [182; 97]) = Ok [1046; 97].
Proof. vm_compute. repeat split; reflexivity. Qed.

(* ---- the pipeline, COMPLETE (round 7, builder textproof): C09_pipeline / C09_pipeline_safe without _partial ----
   For every text of scalar values free of the committed known-bad runes of the detected coding, any reference:
   ComposeMultipartShortMessage(text, BestCoding(text), ref)
     - never panics;
     - is refused ONLY with ErrMultipartTooMuch (ECount), and then the text does not fit one message and the splitter
       really cuts it into more than 254 segments - never for size (ESize: no part can exceed 140 octets when the coding
       is the detected one), never by divergence of Split (EFuel), never for lack of an encoding (EText), never otherwise;
     - on success returns 1..254 parts of at most 140 octets (header + payload) whose payloads are the encodings of
       consecutive pieces of the text that join to it, and each payload decodes back (same coding) to its piece
       (GSM 7-bit: unless that piece is in the 8k-septets-ending-in-CR class, C09_gsm7_cr_refuted).
   The two statements that were missing in C09_pipeline_partial:
     e <> ESize  from C09_width_tables (for each of the 8 labels the detector can return, every run of the encoder's
                 accept table against the splitter width table of Gen/Detect.v: 8 * octets <= bits charged, GSM 7-bit
                 7 * septets <= bits charged; run-wise in the kernel), the packed length of GSM 7-bit text and the
                 splitter's limit theorem (C07_split_fits);
     e <> EFuel  no width table charges more than 32 bits per character.
   ISO-2022-JP (where width soundness is refuted, C07_width_sound_iso2022jp_refuted, and the size check does refuse) and
   EUC-JP are never returned by either detector: C09_detector_never_stateful. *)
Theorem C09_pipeline : forall ref rs, Forall scalar rs ->
  (forall r, In r rs -> mem r (known_bad_of (best rs)) = false) ->
  pipeline ref rs <> Panic /\
  (forall e, pipeline ref rs = Err e ->
     e = ECount /\ (140 < text_len (w_label (best rs)) rs)%nat /\
     exists segs, split (w_label (best rs)) (140 - 1 - hdr_len ref) rs = Ok segs /\ (254 < List.length segs)%nat) /\
  (forall parts, pipeline ref rs = Ok parts ->
     (1 <= List.length parts <= 254)%nat /\
     Forall (fun pt => (udh_len (pt_udh pt) + List.length (pt_payload pt) <= 140)%nat) parts /\
     exists segs, List.concat segs = rs /\
       Forall2 (fun pt s => encode_l (best rs) s = Ok (pt_payload pt) /\
                            ((best rs = LGsm7 -> g7_clear s) -> decode_l (best rs) (pt_payload pt) = Ok s)) parts segs).
Proof. exact pipeline_full. Qed.
Theorem C09_pipeline_safe : forall ref rs, Forall scalar rs ->
  pipeline_safe ref rs <> Panic /\
  (forall e, pipeline_safe ref rs = Err e ->
     e = ECount /\ (140 < text_len (w_label (best_safe rs)) rs)%nat /\
     exists segs, split (w_label (best_safe rs)) (140 - 1 - hdr_len ref) rs = Ok segs /\ (254 < List.length segs)%nat) /\
  (forall parts, pipeline_safe ref rs = Ok parts ->
     (1 <= List.length parts <= 254)%nat /\
     Forall (fun pt => (udh_len (pt_udh pt) + List.length (pt_payload pt) <= 140)%nat) parts /\
     exists segs, List.concat segs = rs /\
       Forall2 (fun pt s => encode_l (best_safe rs) s = Ok (pt_payload pt) /\
                            ((best_safe rs = LGsm7 -> g7_clear s) -> decode_l (best_safe rs) (pt_payload pt) = Ok s)) parts segs).
Proof. exact pipeline_safe_full. Qed.

(* the detectors' candidates are GSM 7-bit, ASCII, Latin-1, Cyrillic, Hebrew, Shift-JIS, EUC-KR, UCS-2: never the
   stateful ISO-2022-JP, never EUC-JP *)
Theorem C09_detector_never_stateful : forall rs,
  best rs <> LCs CIso2022jp /\ best rs <> LCs CEucjp /\ best_safe rs <> LCs CIso2022jp /\ best_safe rs <> LCs CEucjp.
Proof. exact detector_never_stateful. Qed.

(* width soundness between the encoder tables and the splitter width tables, every label a detector can return:
   a character the encoder accepts is charged at least the bits it occupies (need_of: 8 per octet; GSM 7-bit 7 per septet) *)
Theorem C09_width_tables : forall l, detectable l ->
  forall r n x, lookup r (acc_runs l) = Some (n, x) -> need_of l n <= width l r.
Proof. exact (fun l Hd => width_check_sound l (width_check_detectable l Hd)). Qed.
(* hence Splitter.Len bounds the encoder's output for every text, and neither the size check nor the divergence of Split
   is reachable with a detectable coding *)
Theorem C09_len_bounds_encoder : forall l, detectable l -> forall s p, encode_l l s = Ok p ->
  (List.length p <= text_len (w_label l) s)%nat.
Proof. exact encode_l_len_sound. Qed.
Theorem C09_pipeline_no_size_refusal : forall l ref rs, detectable l ->
  compose_label l ref rs <> Err ESize /\ compose_label l ref rs <> Err EFuel.
Proof. exact (fun l ref rs Hd => conj (compose_label_no_esize l ref rs Hd) (compose_label_no_efuel l ref rs)). Qed.

(* audit item A/B4: what a successful Compose of ONE short message stores is at most 140 octets *)
Theorem C09_compose_fits : forall rs dc bs, compose rs = Ok (dc, bs) -> (List.length bs <= 140)%nat.
Proof. exact compose_stores_at_most_140. Qed.

(* non-vacuity: 300 x U+65E5 is labelled Shift-JIS and composed into 5 parts; 40000 x 'a' (GSM 7-bit) and 40000 x U+0416
   through BestSafeCoding (UCS-2) are refused for the number of parts *)
Example C09_pipeline_examples :
  parts_count (pipeline 7 (rept 300 [26085])) = Some 5%nat /\
  pipeline 7 (rept 40000 [97]) = Err ECount /\
  pipeline_safe 300 (rept 40000 [1046]) = Err ECount.
Proof. exact pipeline_examples. Qed.

(* Compose on a value that CARRIES A USER-DATA HEADER (a part made by ComposeMultipartShortMessage, a decoded segment): the
   state is (data_coding, header, octets); the header is neither read nor written, label and octets are those of
   compose_step on (data_coding, octets) - hence C09_compose_reused applies whatever header the value holds (Parse does
   not look at the header either).  The direct test also reads the octets WriteTo produces back with the header
   indicator the value implies.  Outside C09: header + text may exceed 140 octets (Compose fits the text alone). *)
Theorem C09_compose_reused_header : forall (H : Type) (dc : N) (u : H) (o : bytes) rs,
  let r := compose_step_u (dc, u, o) rs in
  snd (fst (fst r)) = u /\
  (fst (fst (fst r)), snd (fst r)) = fst (compose_step (dc, o) rs) /\ snd r = snd (compose_step (dc, o) rs).
Proof. exact @compose_step_u_spec. Qed.

(* The two hand-written models of the GSM 7-bit encoder are ONE function: Model/Gsm7.v (coding/gsm7bit transcribed statement
   by statement - C07 and C08 speak about it) and the table model of Model/Detect.v (per-rune septets regenerated from the
   running code, bit-list packing - the theorems above speak about it): equal septets for every rune, for every text, and
   equal octets for every text (g7_pack has the bit layout that characterises Gsm7.encode).  So C08's statements about
   Gsm7.encode and C09's about encode_l LGsm7 are about the same octets.  (Decoders: each model proves its own round trip on
   these octets - Gsm7Proofs.roundtrip_exact, g7_roundtrip - so they agree on every encoder output outside the CR class;
   not packaged as one statement.) *)
Theorem C09_gsm7_models_agree :
  (forall r, Gsm7.rune_septets r = g7_rune r) /\
  (forall t, Gsm7.to_septets t = g7_septets t) /\
  (forall t, Gsm7.encode t = encode_l LGsm7 t).
Proof. exact (conj rune_agree (conj septets_agree gsm7_encoders_agree)). Qed.
