(* Extension of the sms engine, OUTSIDE properties C18 / C19 (C19 speaks of SMS-DELIVER and SMS-SUBMIT only): the other
   TPDU types, over the struct layouts regenerated from the running code.  Not among the proof files of C18 / C19: if
   one of these statements stops holding while C18 / C19 hold, their checks stay quiet and the driver reports a note
   ("extension theorems no longer build").  Statements only; proofs in Proofs/TpduExt.v. *)
From V Require Import Model.TpduRun Spec.Gsm0340 Proofs.TpduRoundtrip Proofs.TpduExt.
Open Scope N_scope.

(* SMS-STATUS-REPORT (GSM 03.40 9.2.2.3: SC address, first octet, TP-MR, TP-RA, TP-SCTS, TP-DT, TP-ST), every
   well-formed value: the decoded structure carries the standard's values ... *)
Theorem Ext_status_report_values :
  forall t : s_status,
    status_wf t -> addr_ok (r_ra t) ->
    exists sc fl ra ts dt,
      sms_unmarshal (layout_status t) =
        Ok ("StatusReport"%string, [TVAddr sc; TVFlags fl; TVByte (r_mr t); TVSkip; TVAddr ra; TVTime ts; TVTime dt; TVByte (r_st t)]) /\
      sc = {| a_npi := sa_npi (r_sc t); a_ton := sa_ton (r_sc t); a_no := ascii_digits (digits_of (r_sc t)) |} /\
      flag_get FF fl "MessageType"%string = 4 /\
      ra = {| a_npi := sa_npi (r_ra t); a_ton := sa_ton (r_ra t); a_no := addr_text_spec (r_ra t) |} /\
      time_civil ts = ((2000 + Z.of_N (t_yy (r_scts t)))%Z, Z.of_N (t_mo (r_scts t)), Z.of_N (t_dd (r_scts t)),
                       Z.of_N (t_hh (r_scts t)), Z.of_N (t_mi (r_scts t)), Z.of_N (t_ss (r_scts t)), time_offset_q (r_scts t)) /\
      time_civil dt = ((2000 + Z.of_N (t_yy (r_dt t)))%Z, Z.of_N (t_mo (r_dt t)), Z.of_N (t_dd (r_dt t)),
                       Z.of_N (t_hh (r_dt t)), Z.of_N (t_mi (r_dt t)), Z.of_N (t_ss (r_dt t)), time_offset_q (r_dt t)).
Proof. exact status_values. Qed.
(* ... and Unmarshal then Marshal gives the TPDU back except for the first-octet bits other than TP-MTI
   (TP-MMS, TP-SRQ: the Flags structure has the message type only; observation, not a C19 finding) *)
Theorem Ext_status_report_remarshal :
  forall t : s_status, status_wf t -> addr_ok (r_ra t) ->
    sms_remarshal (layout_status t) = Ok (layout_status_with 2 t).
Proof. exact status_remarshal. Qed.
Theorem Ext_status_report_roundtrip :
  forall t : s_status, status_wf t -> addr_ok (r_ra t) -> r_mms t = false -> r_srq t = false ->
    sms_remarshal (layout_status t) = Ok (layout_status t).
Proof. exact status_roundtrip. Qed.
Theorem Ext_status_report_first_octet_refuted :
  status_wf w_status /\ nth 8 (layout_status w_status) 0 = 38 /\
  exists out, sms_remarshal (layout_status w_status) = Ok out /\ nth 8 out 0 = 2 /\ out <> layout_status w_status.
Proof. exact status_first_octet_refuted. Qed.

(* SMS-COMMAND, SMS-DELIVER-REPORT, the error flavours and SMS-SUBMIT-REPORT: witnesses of what round-trips and of
   what does not (TP-SRR lost; absent optional parameters written back; TP-FCS never decoded; TP-SCTS of a
   SUBMIT-REPORT skipped and written back as the zero time) *)
Theorem Ext_command :
  sms_remarshal w_command = Ok w_command /\
  (exists vs, sms_unmarshal w_command = Ok ("Command"%string, vs) /\
     vs = [TVAddr addr0; TVFlags [5]; TVByte 38; TVSkip; TVByte 0; TVByte 1; TVByte 5; TVAddr (addr_val w_oa); TVBytes [1; 2; 3]]) /\
  sms_remarshal (hx "002226000105" ++ tp_addr w_oa ++ hx "03010203") = Ok w_command.
Proof. exact command_witness. Qed.
Theorem Ext_deliver_report :
  sms_remarshal (hx "00000741040241e1") = Ok (hx "00000741040241e1") /\
  sms_remarshal (hx "00000141") = Ok (hx "000001410000") /\
  sms_remarshal (hx "000000") = Ok (hx "000000000000").
Proof. exact deliver_report_witness. Qed.
Theorem Ext_report_errors_refuted :
  sms_remarshal (hx "0000c400") = Ok (hx "0000") /\
  (exists out, sms_remarshal (hx "0191010042208062917314080000") = Ok out /\
               out <> hx "0191010042208062917314080000" /\ List.length out = 15%nat).
Proof. exact report_errors_refuted. Qed.
Print Assumptions Ext_status_report_values.
Print Assumptions Ext_status_report_remarshal.
