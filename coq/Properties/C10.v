(* C10 — Multipart reassembly delivers each message once, complete and
   unmixed.  Statements only; every proof is [exact lemma].

   Model: Model/Combiner.v ([cstep]/[crun] mirror pdu/message_multipart.go
   after the D8/D9 repairs, [sstep]/[srun] is the single-message reference).
   Vocabulary: Spec/CombinerSpec.v.  A history is any [list dsm]: segments of
   any number of messages in any interleaving and order, duplicates,
   non-concatenated PDUs, malformed segments.  [crun r h] returns, per input,
   the callbacks made during that call (position = timing). *)
(* Model.CombinerRun: the glue the generated cases evaluate, built with this file *)
From V Require Import Model.Combiner Model.CombinerRun Model.Compose Model.Splitter Model.ComposeBridge Model.ComposeCombineRun
  Spec.CombinerSpec Spec.CombinerSetSpec
  Proofs.CombinerProofs Proofs.CombinerSetProofs Proofs.CombinerOnce Proofs.ComposeCombine Proofs.CombinerRound5.
From Coq Require Import Permutation.
Open Scope N_scope.

(* the combiner returns normally on every history of arbitrary PDUs, from any registry *)
Theorem C10_total : forall r h, exists r' outs, crun r h = Ok (r', outs) /\ List.length outs = List.length h.
Proof. exact crun_ok. Qed.

(* a PDU without concatenation element: exactly one callback, at once, holding it alone; registry untouched *)
Theorem C10_plain : forall r p, hdr p = None -> cstep r p = Ok (r, [[Some p]]).
Proof. exact cstep_plain. Qed.

(* Unmixed, over all interleavings: for every key k, the callbacks made at the
   steps whose input carries k, and the state stored for k, are exactly those
   of the single-message reference on the sub-history of k. *)
Theorem C10_projection : forall k h r r' outs, crun r h = Ok (r', outs) ->
  outputs_at k h outs = snd (srun (lookup beq_key k r) (hist_key k h)) /\
  lookup beq_key k r' = fst (srun (lookup beq_key k r) (hist_key k h)).
Proof. exact projection. Qed.
(* ... and a step emits nothing that does not contain the PDU that just arrived *)
Theorem C10_no_foreign_delivery : forall r p r1 out cb, cstep r p = Ok (r1, out) -> In cb out -> In (Some p) cb.
Proof. exact cstep_out_own. Qed.

(* registry invariant after every history: slot i of the array under key k
   holds only an arrived PDU with key k, sequence i+1 and the array's total;
   no stored array is complete *)
Theorem C10_registry_invariant : forall h r outs, Forall seq_octet h -> crun [] h = Ok (r, outs) ->
  registry_inv (rev h) r.
Proof. exact registry_invariant. Qed.

(* never incomplete, never mixed, in order: every callback made at any point
   of any history is either the non-concatenated arriving PDU alone, or N
   arrived segments with the key of the arriving one, entry i carrying
   sequence i+1 and total N, the arriving PDU among them *)
Theorem C10_complete : forall h1 p h2 r outs, Forall seq_octet (h1 ++ p :: h2) ->
  crun [] (h1 ++ p :: h2) = Ok (r, outs) ->
  forall cb, In cb (nth (List.length h1) outs []) -> callback_ok (p :: rev h1) p cb.
Proof. exact deliveries_complete. Qed.

(* exactly when the last missing segment arrives: at any arrival in any
   history, a concatenated delivery is made iff the arriving segment is well
   numbered and every slot but its own — in the array built by the sub-history
   of its key alone — is filled; then exactly one callback, the completed
   array, and its own slot was empty before; otherwise no callback *)
Theorem C10_when : forall h1 p h2 r outs, Forall seq_octet (h1 ++ p :: h2) ->
  crun [] (h1 ++ p :: h2) = Ok (r, outs) ->
  let out := nth (List.length h1) outs [] in
  match hdr p with
  | None => out = [[Some p]]
  | Some c =>
    let k := key_of p c in
    let cur := cur_of (fst (srun None (hist_key k h1))) c in
    (last_missing c cur ->
       out = [put_pure (slot_ix c) p cur] /\
       delivery_ok (p :: rev h1) k p (put_pure (slot_ix c) p cur) /\
       nth_error cur (slot_ix c) = Some None) /\
    (~ last_missing c cur -> out = [])
  end.
Proof. exact when_on_history. Qed.
(* the same, as a step theorem under the invariant, with the entry dropped after delivery (once) *)
Theorem C10_step : forall seen r p r1 out, registry_inv seen r -> seq_octet p -> cstep r p = Ok (r1, out) ->
  match hdr p with
  | None => out = [[Some p]] /\ r1 = r
  | Some c =>
    let k := key_of p c in
    let cur := cur_of (lookup beq_key k r) c in
    (last_missing c cur ->
       out = [put_pure (slot_ix c) p cur] /\ lookup beq_key k r1 = None /\
       delivery_ok (p :: seen) k p (put_pure (slot_ix c) p cur) /\
       nth_error cur (slot_ix c) = Some None) /\
    (~ last_missing c cur -> out = [])
  end.
Proof. exact cstep_when. Qed.

(* C10 in one statement, against a specification written without slot arrays
   (Spec/CombinerSetSpec.v): on every interleaved history, the callbacks made at
   the arrivals of key k are exactly those of the set-style specification on
   the sub-history of k — a delivery exactly when the sequence numbers accepted
   since the last delivery first cover 1..N, holding for each number the most
   recent accepted segment, in order; nothing otherwise. *)
Theorem C10_set_spec : forall k h r outs, Forall seq_octet h -> crun [] h = Ok (r, outs) ->
  outputs_at k h outs = snd (espec_run [] (hist_key k h)).
Proof. exact combiner_is_set_spec. Qed.

(* ---------------------------------------------------------------- once *)
(* No arrival is delivered twice.  On any history of pairwise different PDUs
   (the arrival position is part of a PDU's identity: [number_from] makes any
   history such), if a PDU q occurs in a callback made at position j1 and in a
   callback made at position j2, these are the same position and the same
   callback.  (Each call makes at most one callback: [C10_at_most_one_callback].) *)
Theorem C10_at_most_once : forall h r outs, NoDup h -> Forall seq_octet h -> crun [] h = Ok (r, outs) ->
  forall j1 j2 cb1 cb2 q, In cb1 (nth j1 outs []) -> In cb2 (nth j2 outs []) ->
  In (Some q) cb1 -> In (Some q) cb2 -> j1 = j2 /\ cb1 = cb2.
Proof. exact at_most_once. Qed.
Theorem C10_at_most_one_callback : forall r p r1 out, cstep r p = Ok (r1, out) -> (List.length out <= 1)%nat.
Proof. exact at_most_one_callback. Qed.
Theorem C10_numbered_histories_are_nodup : forall n h, NoDup (number_from n h).
Proof. exact number_from_nodup. Qed.
(* the invariant behind it: what is still stored has arrived and has not been
   delivered; what has been delivered has arrived *)
Theorem C10_once_invariant : forall h r outs, NoDup h -> Forall seq_octet h -> crun [] h = Ok (r, outs) ->
  (forall q, stored r q -> In q h /\ ~ delivered outs q) /\
  (forall q, delivered outs q -> In q h).
Proof. exact once_invariant. Qed.
(* At most once per completion: a delivery drops the entry of its key; traffic
   of other keys leaves it absent; a later duplicate of a segment of the
   delivered message (N >= 2) then does not fire — it starts a fresh entry that
   holds only itself and is incomplete (or, if ill numbered, stores nothing). *)
Theorem C10_delivery_drops_entry : forall r p r1 out c, cstep r p = Ok (r1, out) -> hdr p = Some c -> out <> [] ->
  lookup beq_key (key_of p c) r1 = None.
Proof. exact delivery_drops_entry. Qed.
Theorem C10_other_traffic_keeps_absent : forall k h r r' outs, crun r h = Ok (r', outs) -> hist_key k h = [] ->
  lookup beq_key k r = None -> lookup beq_key k r' = None.
Proof. exact other_traffic_keeps_absent. Qed.
Theorem C10_duplicate_after_delivery : forall r p r1 out c,
  lookup beq_key (key_of p c) r = None -> hdr p = Some c -> 2 <= c_total c -> cstep r p = Ok (r1, out) ->
  out = [] /\
  (accept c (fresh c) = true ->
     lookup beq_key (key_of p c) r1 = Some (put_pure (slot_ix c) p (fresh c)) /\
     full (put_pure (slot_ix c) p (fresh c)) = false) /\
  (accept c (fresh c) = false -> lookup beq_key (key_of p c) r1 = None).
Proof. exact duplicate_starts_fresh. Qed.

(* ---------------------------------------------------------- end to end *)
(* compose -> combine, across the engines of builders gsm7 (Model/Compose.v,
   Proofs/ComposeProofs.v) and comb.  Generic in the coding (payload type P,
   its length, the splitter width w, the encoder enc).  [bridge base src dst
   parts] are the parts as deliver_sm PDUs from src to dst. *)

(* A text composed into N > 1 parts; the parts arrive in ANY order, interleaved
   with ARBITRARY other traffic (whatever is not filed under (src, dst, ref):
   the hypothesis only says that the arrivals of that key are a permutation of
   the parts).  Then at the first N-1 arrivals of parts no callback is made and
   at the last one exactly one: the N parts in sequence order 1..N. *)
Theorem C10_compose_then_combine : forall P plen w enc, (forall r, (0 < w r)%nat) ->
  forall ref t parts base src dst h r outs,
  ref < 65536 -> compose P plen w enc ref t = Ok parts -> (2 <= List.length parts)%nat ->
  Forall seq_octet h ->
  Permutation (hist_key (message_key src dst ref) h) (bridge base src dst parts) ->
  crun [] h = Ok (r, outs) ->
  outputs_at (message_key src dst ref) h outs =
    repeat [] (List.length parts - 1) ++ [[map Some (bridge base src dst parts)]].
Proof. exact compose_then_combine. Qed.
(* ... and no other callback of the whole run holds any of the parts *)
Theorem C10_compose_then_combine_unique : forall P plen w enc, (forall r, (0 < w r)%nat) ->
  forall ref t parts base src dst h r outs,
  ref < 65536 -> compose P plen w enc ref t = Ok parts -> (2 <= List.length parts)%nat ->
  NoDup h -> Forall seq_octet h ->
  Permutation (hist_key (message_key src dst ref) h) (bridge base src dst parts) ->
  crun [] h = Ok (r, outs) ->
  forall j cb m, In cb (nth j outs []) -> In m (bridge base src dst parts) -> In (Some m) cb ->
    cb = map Some (bridge base src dst parts).
Proof. exact compose_then_combine_unique. Qed.
(* hence reassembly: the delivered PDUs paired with their payloads, in delivery
   order, are the encodings of consecutive pieces whose concatenation is the text *)
Theorem C10_delivered_payloads_are_the_text : forall P plen w enc, (forall r, (0 < w r)%nat) ->
  forall ref t parts base src dst, compose P plen w enc ref t = Ok parts ->
  exists segs, List.concat segs = t /\
    Forall2 (fun (o : option dsm * P) s => enc s = Ok (snd o))
            (combine (map Some (bridge base src dst parts)) (map pt_payload parts)) segs.
Proof. exact delivered_payloads_are_the_text. Qed.
(* N = 1 (no header): the single PDU is delivered at once, alone, whatever the registry holds *)
Theorem C10_compose_single_then_combine : forall P plen w enc, (forall r, (0 < w r)%nat) ->
  forall ref t parts id src dst, compose P plen w enc ref t = Ok parts -> (text_len w t <= max_sm_len)%nat ->
  exists p, parts = [mkpart [] p] /\
    forall r, cstep r (dsm_of_part id src dst (mkpart [] p)) = Ok (r, [[Some (dsm_of_part id src dst (mkpart [] p))]]).
Proof. exact compose_single_then_combine. Qed.
(* the combiner half on its own: any n segments numbered 1..n of total n under
   one key, in any order among any other traffic *)
Theorem C10_combine_numbered : forall k n ms h r outs, (1 <= n)%nat -> numbered n ms ->
  Forall seq_octet h -> Permutation (hist_key k h) ms -> crun [] h = Ok (r, outs) ->
  outputs_at k h outs = repeat [] (n - 1) ++ [[map Some ms]].
Proof. exact combine_numbered. Qed.

(* the hypothesis [seq_octet] holds of every PDU whose UDH values are octets *)
Theorem C10_seq_octet : forall p, udh_octets (d_udh p) -> seq_octet p.
Proof. exact seq_octet_of_udh. Qed.

(* [hdr] (used throughout the statements above) IS what ConcatenatedHeader returns: the model of
   the extraction never panics and never fails, so no statement silently reads a panicking
   header as "not concatenated" *)
Theorem C10_hdr_faithful : forall p, concatenated_header (d_udh p) = Ok (hdr p).
Proof. exact concatenated_header_hdr. Qed.

(* "8- and 16-bit reference forms": both elements yield a uint16 reference number and the key
   holds that number, not the form.  An 8-bit reference r and the 16-bit reference 0x00rr ARE the
   same reference number: segments carrying them between the same addresses are filed under one key
   (intended: C10 separates messages by reference NUMBER; 3GPP TS 23.040 has one sender use one form) *)
Theorem C10_reference_forms_one_number : forall r t s, r < 256 ->
  concatenated_header (Some [(0, [r; t; s])]) = concatenated_header (Some [(8, [0; r; t; s])]).
Proof. exact forms_same_header. Qed.
Theorem C10_reference_forms_one_key : forall src dst ref total s1 s2, ref < 256 ->
  seg_key (segf 0 src dst ref total s1) = seg_key (segf 1 src dst ref total s2).
Proof. exact forms_same_key. Qed.
Example C10_mixed_forms_delivered_together :
  run_ids [segf 0 (a_ 1 1 [49]) (a_ 1 1 [50]) 5 2 1; segf 1 (a_ 1 1 [49]) (a_ 1 1 [50]) 5 2 2] = Ok [[]; [[1; 2]]].
Proof. exact mixed_forms_delivered. Qed.

(* what is handed to the callback has no empty slot, and nothing the registry still holds after any
   history is such an array (every stored array has an empty slot): the combiner keeps no array it has
   handed out.  (Value level; that the Go slice is not written to afterwards is the direct test
   combine/delivered-slice-changed-after-callback.) *)
Theorem C10_delivered_full : forall r p r1 out cb, cstep r p = Ok (r1, out) -> In cb out -> full cb = true.
Proof. exact cstep_out_full. Qed.
Theorem C10_delivered_not_stored : forall h r outs, Forall seq_octet h -> crun [] h = Ok (r, outs) ->
  forall k l, lookup beq_key k r = Some l -> full l = false.
Proof. exact delivered_not_stored. Qed.

(* key equality is equality of (source, destination, reference) *)
Theorem C10_key_injective : forall p c q c',
  beq_key (key_of p c) (key_of q c') = true <->
  d_src p = d_src q /\ d_dst p = d_dst q /\ c_ref c = c_ref c'.
Proof. exact key_injective. Qed.
(* the key before the D9 repair was not injective, and mixed deliveries followed *)
Theorem C10_legacy_key_refuted :
  exists src d1 d2 r1 r2, d1 <> d2 /\ legacy_key src d1 r1 = legacy_key src d2 r2.
Proof. exact legacy_key_collision_refuted. Qed.
Theorem C10_legacy_mixed_delivery_refuted :
  exists h outs r cb q1 q2, crun_legacy [] h = Ok (r, outs) /\ In cb (List.concat outs) /\
    In (Some q1) cb /\ In (Some q2) cb /\ d_dst q1 <> d_dst q2.
Proof. exact legacy_mixed_delivery_refuted. Qed.
(* before the D8 repair an incomplete message could be delivered *)
Theorem C10_legacy_incomplete_delivery_refuted :
  exists h r outs cb, crun_legacy [] h = Ok (r, outs) /\ In cb (List.concat outs) /\ In None cb.
Proof. exact legacy_incomplete_delivery_refuted. Qed.

(* non-vacuity: two interleaved messages whose legacy keys collide, a
   duplicate, a malformed segment and a plain PDU; the hypotheses of the
   theorems above hold of this history *)
Example C10_example :
  Forall seq_octet ex_history /\
  run_ids ex_history = Ok [[]; []; [[3]]; []; []; [[6; 4]]; [[2; 7]]] /\
  run_ids d9_history = Ok [[]; []].
Proof. exact (conj ex_history_octets (conj ex_history_trace d9_history_fixed)). Qed.
