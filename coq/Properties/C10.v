(* C10 — Multipart reassembly delivers each message once, complete and
   unmixed.  Statements only; every proof is [exact lemma].

   Model: Model/Combiner.v ([cstep]/[crun] mirror pdu/message_multipart.go
   after the D8/D9 repairs, [sstep]/[srun] is the single-message reference).
   Vocabulary: Spec/CombinerSpec.v.  A history is any [list dsm]: segments of
   any number of messages in any interleaving and order, duplicates,
   non-concatenated PDUs, malformed segments.  [crun r h] returns, per input,
   the callbacks made during that call (position = timing). *)
(* Model.CombinerRun: the glue the generated cases evaluate, built with this file *)
From V Require Import Model.Combiner Model.CombinerRun Spec.CombinerSpec Spec.CombinerSetSpec Proofs.CombinerProofs Proofs.CombinerSetProofs.
Open Scope N_scope.

(* the combiner returns normally on every history of arbitrary PDUs, from any registry *)
Theorem C10_total : forall r h, exists r' outs, crun r h = Ok (r', outs) /\ List.length outs = List.length h.
Proof. exact crun_ok. Qed.

(* a PDU without concatenation element: exactly one callback, at once, holding it alone; registry untouched *)
Theorem C10_plain : forall r p, hdr p = None -> cstep r p = Ok (r, [[Some p]]).
Proof. exact cstep_plain. Qed.

(* Unmixed, over all interleavings: for every key k, the callbacks made at the
   steps whose input carries k, and the state stored for k, are exactly those
   of the single-message reference on the sub-history of k. *)
Theorem C10_projection : forall k h r r' outs, crun r h = Ok (r', outs) ->
  outputs_at k h outs = snd (srun (lookup beq_key k r) (hist_key k h)) /\
  lookup beq_key k r' = fst (srun (lookup beq_key k r) (hist_key k h)).
Proof. exact projection. Qed.
(* ... and a step emits nothing that does not contain the PDU that just arrived *)
Theorem C10_no_foreign_delivery : forall r p r1 out cb, cstep r p = Ok (r1, out) -> In cb out -> In (Some p) cb.
Proof. exact cstep_out_own. Qed.

(* registry invariant after every history: slot i of the array under key k
   holds only an arrived PDU with key k, sequence i+1 and the array's total;
   no stored array is complete *)
Theorem C10_registry_invariant : forall h r outs, Forall seq_octet h -> crun [] h = Ok (r, outs) ->
  registry_inv (rev h) r.
Proof. exact registry_invariant. Qed.

(* never incomplete, never mixed, in order: every callback made at any point
   of any history is either the non-concatenated arriving PDU alone, or N
   arrived segments with the key of the arriving one, entry i carrying
   sequence i+1 and total N, the arriving PDU among them *)
Theorem C10_complete : forall h1 p h2 r outs, Forall seq_octet (h1 ++ p :: h2) ->
  crun [] (h1 ++ p :: h2) = Ok (r, outs) ->
  forall cb, In cb (nth (List.length h1) outs []) -> callback_ok (p :: rev h1) p cb.
Proof. exact deliveries_complete. Qed.

(* exactly when the last missing segment arrives: at any arrival in any
   history, a concatenated delivery is made iff the arriving segment is well
   numbered and every slot but its own — in the array built by the sub-history
   of its key alone — is filled; then exactly one callback, the completed
   array, and its own slot was empty before; otherwise no callback *)
Theorem C10_when : forall h1 p h2 r outs, Forall seq_octet (h1 ++ p :: h2) ->
  crun [] (h1 ++ p :: h2) = Ok (r, outs) ->
  let out := nth (List.length h1) outs [] in
  match hdr p with
  | None => out = [[Some p]]
  | Some c =>
    let k := key_of p c in
    let cur := cur_of (fst (srun None (hist_key k h1))) c in
    (last_missing c cur ->
       out = [put_pure (slot_ix c) p cur] /\
       delivery_ok (p :: rev h1) k p (put_pure (slot_ix c) p cur) /\
       nth_error cur (slot_ix c) = Some None) /\
    (~ last_missing c cur -> out = [])
  end.
Proof. exact when_on_history. Qed.
(* the same, as a step theorem under the invariant, with the entry dropped after delivery (once) *)
Theorem C10_step : forall seen r p r1 out, registry_inv seen r -> seq_octet p -> cstep r p = Ok (r1, out) ->
  match hdr p with
  | None => out = [[Some p]] /\ r1 = r
  | Some c =>
    let k := key_of p c in
    let cur := cur_of (lookup beq_key k r) c in
    (last_missing c cur ->
       out = [put_pure (slot_ix c) p cur] /\ lookup beq_key k r1 = None /\
       delivery_ok (p :: seen) k p (put_pure (slot_ix c) p cur) /\
       nth_error cur (slot_ix c) = Some None) /\
    (~ last_missing c cur -> out = [])
  end.
Proof. exact cstep_when. Qed.

(* C10 in one statement, against a specification written without slot arrays
   (Spec/CombinerSetSpec.v): on every interleaved history, the callbacks made at
   the arrivals of key k are exactly those of the set-style specification on
   the sub-history of k — a delivery exactly when the sequence numbers accepted
   since the last delivery first cover 1..N, holding for each number the most
   recent accepted segment, in order; nothing otherwise. *)
Theorem C10_set_spec : forall k h r outs, Forall seq_octet h -> crun [] h = Ok (r, outs) ->
  outputs_at k h outs = snd (espec_run [] (hist_key k h)).
Proof. exact combiner_is_set_spec. Qed.

(* the hypothesis [seq_octet] holds of every PDU whose UDH values are octets *)
Theorem C10_seq_octet : forall p, udh_octets (d_udh p) -> seq_octet p.
Proof. exact seq_octet_of_udh. Qed.

(* key equality is equality of (source, destination, reference) *)
Theorem C10_key_injective : forall p c q c',
  beq_key (key_of p c) (key_of q c') = true <->
  d_src p = d_src q /\ d_dst p = d_dst q /\ c_ref c = c_ref c'.
Proof. exact key_injective. Qed.
(* the key before the D9 repair was not injective, and mixed deliveries followed *)
Theorem C10_legacy_key_refuted :
  exists src d1 d2 r1 r2, d1 <> d2 /\ legacy_key src d1 r1 = legacy_key src d2 r2.
Proof. exact legacy_key_collision_refuted. Qed.
Theorem C10_legacy_mixed_delivery_refuted :
  exists h outs r cb q1 q2, crun_legacy [] h = Ok (r, outs) /\ In cb (List.concat outs) /\
    In (Some q1) cb /\ In (Some q2) cb /\ d_dst q1 <> d_dst q2.
Proof. exact legacy_mixed_delivery_refuted. Qed.
(* before the D8 repair an incomplete message could be delivered *)
Theorem C10_legacy_incomplete_delivery_refuted :
  exists h r outs cb, crun_legacy [] h = Ok (r, outs) /\ In cb (List.concat outs) /\ In None cb.
Proof. exact legacy_incomplete_delivery_refuted. Qed.

(* non-vacuity: two interleaved messages whose legacy keys collide, a
   duplicate, a malformed segment and a plain PDU; the hypotheses of the
   theorems above hold of this history *)
Example C10_example :
  Forall seq_octet ex_history /\
  run_ids ex_history = Ok [[]; []; [[3]]; []; []; [[6; 4]]; [[2; 7]]] /\
  run_ids d9_history = Ok [[]; []].
Proof. exact (conj ex_history_octets (conj ex_history_trace d9_history_fixed)). Qed.
