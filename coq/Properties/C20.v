(* C20 — Scalar field codecs are exact inverses and follow the SMPP bit and
   time layouts.  This file contains statements only; every proof is
   [exact lemma]. *)
From V Require Import Model.Flags Proofs.FlagsProofs Gen.Octets Proofs.OctetTables.
Open Scope N_scope.

(* esm_class: decode then encode is the identity on all 256 octets (model) *)
Theorem C20_esm_roundtrip : forall b, b < 256 -> esm_to_byte (esm_of_byte b) = b.
Proof. exact esm_roundtrip. Qed.
(* ... each field sits at the bit positions SMPP v5 4.7.12 assigns *)
Theorem C20_esm_bits : forall b, b < 256 -> esm_of_byte b = spec_esm b.
Proof. exact esm_model_is_spec. Qed.
Theorem C20_esm_spec_is_positional : forall b, b < 256 -> spec_esm_byte (spec_esm b) = b.
Proof. exact esm_spec_byte. Qed.
(* The same two facts about the running code, through its complete table. *)
Theorem C20_esm_code :
  map (fun r => fst (fst r)) esm_table = all256 /\
  forall b f c, In (b, f, c) esm_table ->
    c = b /\ f = (e_mode (spec_esm b), e_type (spec_esm b), e_udhi (spec_esm b), e_reply (spec_esm b)).
Proof. exact (conj esm_table_complete esm_code_roundtrip). Qed.

Theorem C20_regdel_roundtrip : forall b, b < 256 -> regdel_to_byte (regdel_of_byte b) = b.
Proof. exact regdel_roundtrip. Qed.
Theorem C20_regdel_bits : forall b, b < 256 -> regdel_of_byte b = spec_regdel b.
Proof. exact regdel_model_is_spec. Qed.
Theorem C20_regdel_spec_is_positional : forall b, b < 256 -> spec_regdel_byte (spec_regdel b) = b.
Proof. exact regdel_spec_byte. Qed.
Theorem C20_regdel_code :
  map (fun r => fst (fst r)) regdel_table = all256 /\
  forall b f c, In (b, f, c) regdel_table ->
    c = b /\ f = (r_mc (spec_regdel b), r_sme (spec_regdel b), r_inter (spec_regdel b), r_rsv (spec_regdel b)).
Proof. exact (conj regdel_table_complete regdel_code_roundtrip). Qed.

(* interface_version survives its JSON text form for all 256 values *)
Theorem C20_ifver_roundtrip : forall b, b < 256 -> ifver_of_json (ifver_to_json b) = Some b.
Proof. exact ifver_roundtrip. Qed.
Theorem C20_ifver_code :
  map (fun r => fst (fst r)) ifver_table = all256 /\
  forall b js back, In (b, js, back) ifver_table -> back = Some b.
Proof. exact (conj ifver_table_complete ifver_code_roundtrip). Qed.

(* non-vacuity: a non-trivial octet exercises every field *)
Example C20_esm_example : esm_of_byte 195 = {| e_mode := 3; e_type := 0; e_udhi := true; e_reply := true |}
  /\ In (195, (3, 0, true, true), 195) esm_table.
Proof. split; [reflexivity | vm_compute; tauto]. Qed.
