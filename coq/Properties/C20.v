(* C20 — Scalar field codecs are exact inverses and follow the SMPP bit and
   time layouts.  This file contains statements only; every proof is
   [exact lemma]. *)
From V Require Import Model.Flags Proofs.FlagsProofs Gen.Octets Proofs.OctetTables.
From V Require Import Model.SmppTime Spec.SmppTimeSpec Proofs.SmppTimeProofs Proofs.SmppTimeEdge.
Open Scope N_scope.

(* esm_class: decode then encode is the identity on all 256 octets (model) *)
Theorem C20_esm_roundtrip : forall b, b < 256 -> esm_to_byte (esm_of_byte b) = b.
Proof. exact esm_roundtrip. Qed.
(* ... each field sits at the bit positions SMPP v5 4.7.12 assigns *)
Theorem C20_esm_bits : forall b, b < 256 -> esm_of_byte b = spec_esm b.
Proof. exact esm_model_is_spec. Qed.
Theorem C20_esm_spec_is_positional : forall b, b < 256 -> spec_esm_byte (spec_esm b) = b.
Proof. exact esm_spec_byte. Qed.
(* The same two facts about the running code, through its complete table. *)
Theorem C20_esm_code :
  map (fun r => fst (fst r)) esm_table = all256 /\
  forall b f c, In (b, f, c) esm_table ->
    c = b /\ f = (e_mode (spec_esm b), e_type (spec_esm b), e_udhi (spec_esm b), e_reply (spec_esm b)).
Proof. exact (conj esm_table_complete esm_code_roundtrip). Qed.

Theorem C20_regdel_roundtrip : forall b, b < 256 -> regdel_to_byte (regdel_of_byte b) = b.
Proof. exact regdel_roundtrip. Qed.
Theorem C20_regdel_bits : forall b, b < 256 -> regdel_of_byte b = spec_regdel b.
Proof. exact regdel_model_is_spec. Qed.
Theorem C20_regdel_spec_is_positional : forall b, b < 256 -> spec_regdel_byte (spec_regdel b) = b.
Proof. exact regdel_spec_byte. Qed.
Theorem C20_regdel_code :
  map (fun r => fst (fst r)) regdel_table = all256 /\
  forall b f c, In (b, f, c) regdel_table ->
    c = b /\ f = (r_mc (spec_regdel b), r_sme (spec_regdel b), r_inter (spec_regdel b), r_rsv (spec_regdel b)).
Proof. exact (conj regdel_table_complete regdel_code_roundtrip). Qed.

(* interface_version survives its JSON text form for all 256 values *)
Theorem C20_ifver_roundtrip : forall b, b < 256 -> ifver_of_json (ifver_to_json b) = Some b.
Proof. exact ifver_roundtrip. Qed.
Theorem C20_ifver_code :
  map (fun r => fst (fst r)) ifver_table = all256 /\
  forall b js back, In (b, js, back) ifver_table -> back = Some b.
Proof. exact (conj ifver_table_complete ifver_code_roundtrip). Qed.

(* ---- "exact inverses", the other direction: encode, then decode, over EVERY field value (finite domain:
   4 x 16 x 2 x 2 resp. 4 x 4 x 2 x 8 values); the octet written is the positional one *)
Theorem C20_esm_encode_decode : forall e, e_mode e < 4 -> e_type e < 16 ->
  esm_of_byte (esm_to_byte e) = e /\ esm_to_byte e < 256 /\ esm_to_byte e = spec_esm_byte e.
Proof. exact esm_encode_decode. Qed.
Theorem C20_regdel_encode_decode : forall r, r_mc r < 4 -> r_sme r < 4 -> r_rsv r < 8 ->
  regdel_of_byte (regdel_to_byte r) = r /\ regdel_to_byte r < 256 /\ regdel_to_byte r = spec_regdel_byte r.
Proof. exact regdel_encode_decode. Qed.
(* ... and of the running code: one row per field value, in octet order; the octet ReadByte returned is the
   positional one and WriteByte of it (into a variable that held the complement) gives the fields back *)
Theorem C20_esm_code_inverse :
  map (fun r => esm_of4 (fst (fst r))) esm_enc_table = all_esm /\
  (forall e, e_mode e < 4 -> e_type e < 16 -> In e all_esm) /\
  forall f c back, In (f, c, back) esm_enc_table -> c = spec_esm_byte (esm_of4 f) /\ esm_of4 back = esm_of4 f.
Proof. exact (conj esm_enc_table_complete (conj all_esm_spec esm_enc_code)). Qed.
Theorem C20_regdel_code_inverse :
  map (fun r => regdel_of4 (fst (fst r))) regdel_enc_table = all_regdel /\
  (forall r, r_mc r < 4 -> r_sme r < 4 -> r_rsv r < 8 -> In r all_regdel) /\
  forall f c back, In (f, c, back) regdel_enc_table -> c = spec_regdel_byte (regdel_of4 f) /\ regdel_of4 back = regdel_of4 f.
Proof. exact (conj regdel_enc_table_complete (conj all_regdel_spec regdel_enc_code)). Qed.

(* ---- receivers.  WriteByte / UnmarshalJSON are methods on a pointer; decoding INTO a variable that already
   holds a value gives the same result as decoding into a fresh one: after any history of octets written into
   one variable, the last octet is read back (model), and the running code does so for every octet written over
   an all-ones, a zero and the complement value (complete table) *)
Theorem C20_esm_receiver : forall e0 bs b, b < 256 ->
  esm_write e0 b = spec_esm b /\ esm_to_byte (fold_left esm_write (bs ++ [b]) e0) = b.
Proof. exact (fun e0 bs b Hb => conj (eq_trans (esm_write_any_receiver e0 b) (esm_model_is_spec b Hb)) (esm_write_history e0 bs b Hb)). Qed.
Theorem C20_regdel_receiver : forall r0 bs b, b < 256 ->
  regdel_write r0 b = spec_regdel b /\ regdel_to_byte (fold_left regdel_write (bs ++ [b]) r0) = b.
Proof. exact (fun r0 bs b Hb => conj (eq_trans (regdel_write_any_receiver r0 b) (regdel_model_is_spec b Hb)) (regdel_write_history r0 bs b Hb)). Qed.
Theorem C20_esm_code_receiver :
  map (fun r => (fst (fst r), snd (fst r))) esm_reuse_table = flat_map (fun b => map (fun p => (p, b)) (reuse_priors b)) all256 /\
  forall prior b after, In (prior, b, after) esm_reuse_table -> esm_of4 after = spec_esm b.
Proof. exact (conj esm_reuse_table_complete esm_reuse_code). Qed.
Theorem C20_regdel_code_receiver :
  map (fun r => snd (fst r)) regdel_reuse_table = flat_map (fun b => [b; b; b]) all256 /\
  forall prior b after, In (prior, b, after) regdel_reuse_table -> regdel_of4 after = spec_regdel b.
Proof. exact (conj regdel_reuse_table_octets regdel_reuse_code). Qed.
Theorem C20_ifver_receiver : forall v0 b, b < 256 -> ifver_unmarshal v0 (ifver_to_json b) = (b, true).
Proof. exact ifver_unmarshal_any_receiver. Qed.
Theorem C20_ifver_code_receiver :
  map (fun r => (fst (fst r), snd (fst r))) ifver_reuse_table = flat_map (fun b => [(255, b); (255 - b, b); (15, b)]) all256 /\
  forall v0 b back, In (v0, b, back) ifver_reuse_table -> back = Some b.
Proof. exact (conj ifver_reuse_table_complete ifver_reuse_code). Qed.
(* content: a WriteByte that ORs into its receiver passes every fresh-variable test and fails this *)
Theorem C20_write_or_refuted :
  exists e0 c, c < 256 /\ esm_to_byte (esm_write_or e0 c) <> c /\ esm_write_or (esm_of_byte 0) c = esm_of_byte c.
Proof. exact esm_write_or_refuted. Qed.

(* non-vacuity: a non-trivial octet exercises every field *)
Example C20_esm_example : esm_of_byte 195 = {| e_mode := 3; e_type := 0; e_udhi := true; e_reply := true |}
  /\ nth_error esm_table 195 = Some (195, (3, 0, true, true), 195).
Proof. split; vm_compute; reflexivity. Qed.

(* ======================================================================== *)
(* The time half: pdu.Time ("YYMMDDhhmmsstnnp") and pdu.Duration
   ("YYMMDDhhmmsst00R").  [time_parse]/[time_format]/[dur_parse]/[dur_format]
   (Model/SmppTime.v) are the models of Time.From / Time.String /
   Duration.From / Duration.String; [valid_abs_time], [abs_denotes],
   [valid_rel_time], [rel_denotes], [neg_zero_offset] (Spec/SmppTimeSpec.v)
   are written from SMPP v5 4.7.23.4/5.  An absolute time value is (t, q):
   t = tenths of a second since 2000-01-01T00:00:00Z, q = zone offset in
   quarter hours; a period is a number of tenths of a second.  Strings are
   lists of octets. *)
Local Open Scope Z_scope.

(* Formatting then parsing returns the same instant and the same offset, for
   EVERY instant at 0.1 s resolution and EVERY quarter-hour offset within
   +-12 h such that the local civil time in that zone lies in
   2000-01-01T00:00:00.0 .. 2099-12-31T23:59:59.9 (36,525 days; the two-digit
   year is the local year).  The string produced is a valid 16-character
   absolute time of the standard and denotes exactly (t, q). *)
Theorem C20_time_fmt_parse : forall t q : Z,
  -48 <= q <= 48 -> 0 <= t + q * 9000 < 36525 * 864000 ->
  exists s, time_format (t, q) = Ok s /\ List.length s = 16%nat /\ valid_abs_time s = true /\
            abs_denotes s = Some (t, q) /\ time_parse s = Ok (t, q).
Proof. exact (fun t q Hq Hl => time_fmt_parse t q (conj Hq Hl)). Qed.

(* Parsing then formatting returns the same 16 characters, for EVERY valid
   absolute time string (fifteen digits, real calendar date of 2000..2099,
   hh <= 23, mm <= 59, ss <= 59, nn <= 48, sign + or -) except exactly the
   class of the known finding D29 (nn = 00 written with "-"); the value parsed
   is the one the standard says the string denotes. *)
Theorem C20_time_parse_fmt : forall s : list N,
  valid_abs_time s = true -> neg_zero_offset s = false ->
  exists v, time_parse s = Ok v /\ abs_denotes s = Some v /\ time_domain (fst v) (snd v) /\ time_format v = Ok s.
Proof. exact time_parse_fmt. Qed.

(* The full-strength statement (without the exclusion) is FALSE of the faithful
   model; the witness "020610233429000-" replayed on the implementation is D29. *)
Theorem C20_time_neg_zero_refuted :
  exists s, valid_abs_time s = true /\
            exists v s', time_parse s = Ok v /\ time_format v = Ok s' /\ s' <> s.
Proof. exact time_neg_zero_refuted. Qed.
(* ... and the excluded class is exactly as wide as the defect: every valid
   string with nn = 00 and "-" comes back with "+" and is otherwise unchanged *)
Theorem C20_time_neg_zero_class : forall s : list N,
  valid_abs_time s = true -> neg_zero_offset s = true ->
  exists v s', time_parse s = Ok v /\ time_format v = Ok s' /\ s' = firstn 15 s ++ [sym_plus] /\ s' <> s.
Proof. exact time_neg_zero_class. Qed.

(* Formatting then parsing a relative period returns the same duration, for
   EVERY multiple of 0.1 s from 1 s to just under 100 * 8760 h. *)
Theorem C20_duration : forall d : Z,
  10 <= d < 100 * 8760 * 36000 ->
  exists s, dur_format d = Ok s /\ List.length s = 16%nat /\ valid_rel_time s = true /\
            rel_denotes s = Some d /\ dur_parse s = Ok d.
Proof. exact dur_fmt_parse. Qed.

(* Rejected strings: Time.From / Duration.From never panic (the length test
   guards the slice expressions), accept exactly "" and sixteen octets ending
   in the right symbol, and every rejection is ErrUnparseableTime. *)
Theorem C20_time_parse_total : forall s : list N,
  time_parse s <> Panic /\ dur_parse s <> Panic /\
  is_ok (time_parse s) = accepted_shape [ch_plus; ch_minus] s /\
  is_ok (dur_parse s) = accepted_shape [ch_R] s /\
  (forall e, time_parse s = Err e -> e = EDecode).
Proof.
  exact (fun s => conj (time_parse_no_panic s) (conj (dur_parse_no_panic s)
          (conj (time_parse_accepts s) (conj (dur_parse_accepts s) (time_parse_err s))))).
Qed.

(* A domain fact (not a finding): the two-digit year is the local year, so
   an instant whose local civil time falls in the day before 2000-01-01 or in
   the day after 2099-12-31 -- in particular instants of 2000..2099 within
   12 h of either end, seen from a suitable zone -- has no valid 16-character
   form: the domain of C20_time_fmt_parse cannot be extended at its edges. *)
Theorem C20_time_domain_edge : forall t q : Z,
  -48 <= q <= 48 ->
  (-864000 <= t + q * 9000 < 0 \/ 36525 * 864000 <= t + q * 9000 < 36526 * 864000) ->
  exists s, time_format (t, q) = Ok s /\ valid_abs_time s = false.
Proof. exact time_domain_edge. Qed.

(* Receivers: Time.From / Duration.From on a variable that already holds a value.  The variable afterwards and
   the error class are those of a fresh variable: the value parsed, or the zero value after "" and after a
   rejected string; so is every history of calls on one variable.  Without the first statement of either
   method this is false (a reused Duration accumulates; a reused Time survives From("")). *)
Theorem C20_time_receiver : forall (v0 : Z * Z) (ss : list (list N)) (s : list N),
  time_from v0 s = match time_parse s with
                   | Ok v => (v, Ok tt) | Err e => ((zero_instant, 0), Err e) | Panic => ((zero_instant, 0), Panic) end /\
  fst (fold_left (fun v x => fst (time_from v x)) (ss ++ [s]) v0) = fst (fst (time_from v0 s)).
Proof. exact (fun v0 ss s => conj (time_from_spec v0 s) (time_from_history v0 ss s)). Qed.
Theorem C20_duration_receiver : forall (d0 : Z) (ss : list (list N)) (s : list N),
  dur_from d0 s = match dur_parse s with Ok d => (d, Ok tt) | Err e => (0, Err e) | Panic => (0, Panic) end /\
  fold_left (fun d x => fst (dur_from d x)) (ss ++ [s]) d0 = fst (dur_from d0 s).
Proof. exact (fun d0 ss s => conj (dur_from_spec d0 s) (dur_from_history d0 ss s)). Qed.
Theorem C20_from_noreset_refuted :
  (exists d0 s, valid_rel_time s = true /\ fst (dur_from_gen false d0 s) <> fst (dur_from d0 s)) /\
  (exists v0, fst (time_from_gen false v0 []) <> fst (time_from v0 [])).
Proof. exact from_noreset_refuted. Qed.

(* ---- which instants C20_time_fmt_parse covers, and the century edge exactly (audit C20-A2).
   The property says "every instant in 2000-2099 ... every quarter-hour offset within +-12 hours".  The theorem's domain is
   the set of (instant, offset) whose LOCAL civil time lies in 2000-01-01T00:00:00.0 .. 2099-12-31T23:59:59.9, because the
   two-digit year of the format is the local year.  The two sets differ only within 12 h of either end of the century:
     (a) UTC instants of 2000-01-01T00:00 .. 11:59:59.9 seen from an offset -nn that moves the local time into 1999:
         Time.String prints the year as "-1" - sixteen characters, NOT a valid absolute time of SMPP v5 4.7.23.4 - and
         Time.From reads that string back to the same value (strconv.ParseInt reads "-1"), see the witnesses;
     (b) UTC instants of 2099-12-31T12:15 .. 23:59:59.9 seen from an offset +nn that moves the local time into 2100:
         Time.String prints the year as "100" - SEVENTEEN characters - and Time.From rejects the string.
   Conversely local times of the century whose UTC instant lies in 1999 / 2100 (up to 12 h outside) ARE covered.
   INTERPRETATION NOTE: read literally (UTC instants x all offsets) the property is false in case (b) and holds only with
   a non-standard string in case (a); no implementation can do better, the format has two year digits of LOCAL time.  The
   property is therefore read over local civil time; the harness treats (a) and (b) as outside the quantifier (advisory
   model cases) and this theorem states the exact behaviour there. *)
Theorem C20_time_century_edge : forall t q : Z,
  -48 <= q <= 48 ->
  (-864000 <= t + q * 9000 < 0 ->
     exists s, time_format (t, q) = Ok s /\ List.length s = 16%nat /\ firstn 6 s = [45; 49; 49; 50; 51; 49]%N /\   (* "-11231" *)
               valid_abs_time s = false) /\
  (36525 * 864000 <= t + q * 9000 < 36526 * 864000 ->
     exists s, time_format (t, q) = Ok s /\ List.length s = 17%nat /\ firstn 7 s = [49; 48; 48; 48; 49; 48; 49]%N /\  (* "1000101" *)
               valid_abs_time s = false /\ time_parse s = Err EDecode).
Proof. exact time_century_edge. Qed.
Theorem C20_time_century_edge_witnesses :
  (exists s, time_format (0, -1) = Ok s /\ time_parse s = Ok (0, -1) /\ valid_abs_time s = false) /\          (* 2000-01-01T00:00Z at -00:15 *)
  (exists s, time_format (431999, -48) = Ok s /\ time_parse s = Ok (431999, -48) /\ valid_abs_time s = false) /\ (* 2000-01-01T11:59:59.9Z at -12:00 *)
  (exists s, time_format (36525 * 864000 - 9000, 1) = Ok s /\ time_parse s = Err EDecode).                       (* 2099-12-31T23:45Z at +00:15 *)
Proof. exact time_century_edge_witnesses. Qed.

(* non-vacuity: "991231235959948-" is valid, is not in the excluded class and denotes
   2100-01-01T11:59:59.9Z at -48 quarter hours; 875043 h 34 min 29 s is a period in range *)
Example C20_time_example :
  let s := [57; 57; 49; 50; 51; 49; 50; 51; 53; 57; 53; 57; 57; 52; 56; 45]%N in
  valid_abs_time s = true /\ neg_zero_offset s = false /\
  time_parse s = Ok (31557599999 + 48 * 9000, -48) /\ time_format (31557599999 + 48 * 9000, -48) = Ok s /\
  dur_format 31501568690 = Ok [57; 57; 49; 48; 50; 53; 48; 51; 51; 52; 50; 57; 48; 48; 48; 82]%N.
Proof. vm_compute. repeat split. Qed.
