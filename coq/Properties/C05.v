(* C05 — Submit returns exactly its own response under every schedule.
   Statements only; every proof is [exact lemma].

   Model: Model/ConnLTS.v, variant [fixed].  The hypotheses of the property
   ("distinct positive sequence numbers", "a peer that answers each request
   once, at any moment after the request's octets reached the transport —
   even before the transport's write call has returned —, interleaved with
   unsolicited PDUs") are the predicate [env_ok] on the next event; [ereach]
   are the states reachable by traces all of whose events satisfy it.  The
   generated cases check [env_okb] (which implies [env_ok], theorem
   C05_env_executable) on every schedule the harness runs.  Any number of
   callers, any interleaving of their steps with Watch, the peer and the
   application. *)
From V Require Import Model.Base Model.Pdu Gen.PduLayouts Model.ConnLTS Model.ConnRun Proofs.ConnBase Proofs.ConnC14 Proofs.ConnC16 Proofs.ConnC05.
From V Require Import Proofs.ConnSched.
Open Scope N_scope.

(* Whatever reaches a Submit call — the value in its channel, the value it
   returns — carries its own sequence number.  (No hypothesis on the peer.) *)
Theorem C05_own_response : forall s, reachable fixed s ->
  forall c m, (c_mail (callers s c) = Some m \/ resp_of (c_pc (callers s c)) = Some m) ->
    snd m = c_seq (callers s c).
Proof. exact own_response. Qed.

(* A returned Submit returned its own response, or an error whose cause is its
   own context, the end of the connection, or a Send that did not reach the transport. *)
Theorem C05_returns : forall s, ereach s ->
  forall c r, sub s c -> c_pc (callers s c) = PReturned r ->
    (exists m, r = ROk m /\ snd m = c_seq (callers s c)) \/
    (r = RErr /\ (c_ctx (callers s c) = true \/ done s = true \/ c_wrote (callers s c) = false)).
Proof. exact returns_own. Qed.

(* No response to an outstanding request is delivered on PDU(): every PDU the
   application received or is being offered carries the sequence number of no
   Submit call other than calls that had already returned an error. *)
Theorem C05_no_leak : forall s, ereach s ->
  forall p, In p (app s ++ sending s) ->
    answered s (snd p) /\ forall c, sub s c -> c_seq (callers s c) = snd p -> gave_up s c.
Proof. exact no_leak. Qed.

(* The response is never lost and exists once: after the peer sent it, it is
   still readable, or in its caller's hands, or the caller had given up; and
   "readable" plus "in the caller's hands" count at most one. *)
Theorem C05_not_lost : forall s, ereach s ->
  forall c, sub s c -> answered s (c_seq (callers s c)) ->
    (0 < qitems (c_seq (callers s c)) (inbound s))%nat \/ got s c = true \/ gave_up s c.
Proof. exact not_lost. Qed.
Theorem C05_once : forall s, ereach s ->
  forall c, sub s c -> (qitems (c_seq (callers s c)) (inbound s) + (if got s c then 1 else 0) <= 1)%nat.
Proof. exact once_inv. Qed.

(* Between registration and the arrival of its response a Submit is in the
   pending table under its own sequence number (the D25 repair: registration
   precedes the transport Write). *)
Theorem C05_inv : forall s, ereach s ->
  forall c, sub s c -> registered_pc (c_pc (callers s c)) -> got s c = false ->
    pending s (c_seq (callers s c)) = Some c.
Proof. exact registered_inv. Qed.

(* With no teardown and no cancelled context a Submit whose request reached the
   transport has not failed, and once Watch has consumed its response it holds it ... *)
Theorem C05_succeeds : forall s, ereach s ->
  forall c, sub s c -> done s = false -> c_ctx (callers s c) = false -> c_wrote (callers s c) = true ->
    ~ failed (c_pc (callers s c)) /\
    (answered s (c_seq (callers s c)) -> qitems (c_seq (callers s c)) (inbound s) = 0%nat -> got s c = true).
Proof. exact submit_succeeds. Qed.
(* ... and can then return it: both remaining steps are enabled (liveness as
   enabledness; that the Go scheduler runs the goroutine is outside the model). *)
Theorem C05_no_stuck : forall v s c m,
  c_pc (callers s c) = PWaiting -> c_mail (callers s c) = Some m -> c_kind (callers s c) = KSubmit ->
  exists s1 s2, step v s (WakeResp c) = Some s1 /\ step v s1 (Unregister c) = Some s2 /\
                c_pc (callers s2 c) = PReturned (ROk m) /\ pending s2 (c_seq (callers s c)) = None.
Proof. exact wake_enabled. Qed.

(* Resp(): for all 15 request types of the table regenerated from the running
   code, the response id is the request id with the top bit set, both types are
   registered, and the sequence number is copied. *)
Theorem C05_resp_pairs :
  List.length resp_pairs = 15%nat /\
  forall req resp copies, In (req, resp, copies) resp_pairs ->
    resp = N.lor req 2147483648 /\ copies = true /\
    exists lr lq, find_layout layouts req = Some lq /\ find_layout layouts resp = Some lr.
Proof. exact (conj (proj2 resp_pairs_ok) resp_pairs_all). Qed.

(* The executable form of the hypotheses, evaluated on every generated schedule, implies them. *)
Theorem C05_env_executable : forall t s s', ereach s -> erunb fixed s t = Some s' -> ereach s'.
Proof. exact erunb_sound. Qed.

(* The pre-repair order (waiter registered after Send returned) violates the
   property: the response dispatched while the Write is still open goes to the
   application, and the caller then waits with no wake-up enabled. *)
Theorem C05_legacy_refuted :
  exists s, run legacy_D25 init d25_trace = Some s /\
    app s = [(2147483669, 7%Z)] /\ c_pc (callers s 0%nat) = PWaiting /\ c_mail (callers s 0%nat) = None /\
    inbound s = [] /\ done s = false /\ c_wrote (callers s 0%nat) = true /\
    step legacy_D25 s (WakeResp 0) = None /\ step legacy_D25 s (WakeDone 0) = None /\ step legacy_D25 s (WakeCtx 0) = None.
Proof. exact d25_refuted. Qed.

(* Non-vacuity: the same schedule on the repaired order lies within the
   hypotheses; the caller returns its response, the unsolicited PDU behind it is delivered. *)
Example C05_example :
  exists s, ereach s /\ c_pc (callers s 0%nat) = PReturned (ROk (2147483669, 7%Z)) /\
            app s = [(5, 99%Z)] /\ pending s 7%Z = None /\ sub s 0%nat /\ answered s 7%Z.
Proof. exact ereach_example. Qed.

(* The tie between this model and the implementation.  Every forced schedule the
   harness runs on the real Conn is evaluated as [sched_admits fixed auto groups
   snapshots final] (C05: [sched_env_admits]: additionally within the hypotheses of C05).
   What a [true] means: SOME trace of [step] from [init] — one resolution of the
   internal choices no property decides (R1 a select with two ready cases, R2 the
   order in which waiting senders reach the transport, R3 a hand-over racing
   Done()) — ends in a state showing exactly what the implementation showed
   (results of all calls, PDU() deliveries, every transport Write with its octets,
   Watch / Done() / keep-alive).  The search that finds the trace is not trusted. *)
Theorem C05_tie_sound : forall v auto groups snaps final,
  sched_admits v auto groups snaps final = true ->
  exists tr s, run v init tr = Some s /\ reachable v s /\ beq_obs (observe s) final = true.
Proof. exact sched_admits_sound. Qed.
Theorem C05_tie_within_hypotheses : forall v auto groups snaps final,
  sched_env_admits v auto groups snaps final = true ->
  exists tr s s', run v init tr = Some s /\ erunb v init tr = Some s' /\ beq_obs (observe s) final = true.
Proof. exact sched_env_admits_sound. Qed.

Print Assumptions C05_own_response.
Print Assumptions C05_no_leak.
Print Assumptions C05_not_lost.
Print Assumptions C05_returns.
Print Assumptions C05_resp_pairs.
Print Assumptions C05_legacy_refuted.
Print Assumptions C05_tie_sound.

(* ------------------------------------------------------------------ composed liveness (run-existence) *)
From V Require Import Proofs.ConnC15 Proofs.ConnLive.

(* "Every Submit call returns, without error, the PDU whose sequence number
   equals that of its own request", as the existence of a run of the model.
   From ANY state reachable under the hypotheses of the property, for ANY call c
   of Submit in progress — wherever it is: about to register its waiter, about to
   hand its frame to the transport, inside the transport Write, in its select,
   on its way out — provided that
     Done() is open and c's own context is not done   (else it returns an error: C15),
     c's frame is one Marshal produced and the transport is not closed,
     the peer has sent c's response,
     that response is with c already ([got]: in its channel or taken), or it is
       readable and none of the frames readable BEFORE it makes Watch give up
       ([clear_to]: no [IFatal] — bad length, unknown id, truncated frame — in front of
       it; however many unsolicited PDUs, responses to other calls and undecodable
       frames with a registered id precede it, and whatever follows it),
   there is a finite run made ONLY of c's own steps ([sub_event]: Register,
   WireWrite, WriteReturn — the transport letting the Write return —, WakeResp,
   Unregister, and CloseFinish when c is the Submit inside Close), of the steps of
   Watch, and of an application that receives what Watch offers it ([watch_event]:
   WatchLoop, WatchStep, AppRecv), after which c has returned [ROk m] with the
   sequence number of its own request.  No other caller, no event of the peer,
   no timer is needed.  (That the Go scheduler runs these enabled steps is
   outside the model.)  [~ In IFatal (inbound s)] implies the last hypothesis
   (C05_no_fatal_clear). *)
Theorem C05_live : forall s c,
  ereach s -> sub s c -> done s = false -> c_ctx (callers s c) = false ->
  is_ok (c_frame (callers s c)) = true -> transport_closed s = false ->
  answered s (c_seq (callers s c)) ->
  (got s c = true \/ clear_to (c_seq (callers s c)) (inbound s)) ->
  exists t s' m, run fixed s t = Some s' /\ Forall (live_event c) t /\
                 c_pc (callers s' c) = PReturned (ROk m) /\ snd m = c_seq (callers s c).
Proof. exact submit_live. Qed.
Theorem C05_no_fatal_clear : forall q l, ~ In IFatal l -> clear_to q l.
Proof. exact no_fatal_clear. Qed.

(* The same from a state where the peer has NOT answered yet and the inbound
   stream has not ended: c's own steps take its request to the transport (t1),
   the peer sends the response — exactly one event of the peer, any PDU p that
   carries c's sequence number; it lies within the hypotheses of the property —,
   then steps of c, Watch and the application (t2) lead c to its return. *)
Theorem C05_live_unanswered : forall s c p,
  ereach s -> sub s c -> done s = false -> c_ctx (callers s c) = false ->
  is_ok (c_frame (callers s c)) = true -> transport_closed s = false ->
  ~ answered s (c_seq (callers s c)) -> in_end s = false -> ~ In IFatal (inbound s) ->
  snd p = c_seq (callers s c) ->
  exists t1 t2 s' m, run fixed s (t1 ++ PeerFrame (IPdu p) :: t2) = Some s' /\
                 Forall (sub_event c) t1 /\ Forall (live_event c) t2 /\
                 c_pc (callers s' c) = PReturned (ROk m) /\ snd m = c_seq (callers s c).
Proof. exact submit_live_unanswered. Qed.

(* Non-vacuity.  C05_live: a reachable state within the hypotheses where call 1
   is inside the transport Write and its response is readable behind an
   unsolicited PDU and an undecodable frame, and a frame at which Watch will give
   up FOLLOWS it.  C05_live_unanswered: call 0 has registered, not yet sent, and
   is unanswered, three frames being readable. *)
Example C05_live_example :
  exists s, ereach s /\ sub s 1%nat /\ done s = false /\ c_ctx (callers s 1%nat) = false /\
            is_ok (c_frame (callers s 1%nat)) = true /\ transport_closed s = false /\
            answered s (c_seq (callers s 1%nat)) /\
            (got s 1%nat = true \/ clear_to (c_seq (callers s 1%nat)) (inbound s)) /\
            c_pc (callers s 1%nat) = PWriting /\ wpc s = WReading /\
            inbound s = [IPdu (5, 99%Z); IBad 3%Z; IPdu (2147483652, 8%Z); IFatal].
Proof. exact submit_live_example. Qed.
Example C05_live_unanswered_example :
  exists s, ereach s /\ sub s 0%nat /\ done s = false /\ c_ctx (callers s 0%nat) = false /\
            is_ok (c_frame (callers s 0%nat)) = true /\ transport_closed s = false /\
            ~ answered s (c_seq (callers s 0%nat)) /\ in_end s = false /\ ~ In IFatal (inbound s) /\
            c_pc (callers s 0%nat) = PRegistered /\
            inbound s = [IPdu (5, 99%Z); IBad 3%Z; IPdu (2147483652, 8%Z)].
Proof. exact submit_live_unanswered_example. Qed.

Print Assumptions C05_live.
Print Assumptions C05_live_unanswered.
Print Assumptions C05_live_example.
Print Assumptions C05_live_unanswered_example.
