(* C01 — Every PDU survives Marshal -> ReadPDU unchanged.  Statements only.
   [layouts] is the table regenerated from the running code on this run; the
   model functions [marshal] and [read_pdu] are evaluated by the check on the
   values / frames the implementation produced (harness/c01.go). *)
From V Require Import Model.Pdu Gen.PduLayouts Proofs.PduStreamProofs Proofs.PduRoundtripProofs.
Open Scope N_scope.

(* For each registered type and every field assignment of the representable
   domain [dom] (positive sequence number, zero status, NUL-free C-strings, octet
   fields, at most 255 destinations / records — implied by Marshal's success —,
   TLV values of 1..65534 octets, message <= 140 octets with a UDH present exactly
   when the indicator is set, data_coding <> 0xBF, frame <= 64 KiB): whenever
   Marshal succeeds, ReadPDU on the produced octets — handed out by the transport
   in ANY division into reads, and followed by ANY further octets — returns a PDU
   of the same type whose every field equals the original; the header carries the
   type's command_id and the exact frame length; exactly the frame is consumed. *)
Theorem C01_roundtrip : forall lay vs f,
  In lay layouts -> dom lay vs -> marshal lay vs = Ok f -> len f <= 65536 ->
  forall rest sched, exists sched',
    read_pdu layouts {| st_data := f ++ rest; st_sched := sched |}
    = (RpOk lay (with_header lay (len f) vs), len f, {| st_data := rest; st_sched := sched' |}).
Proof. exact marshal_readpdu. Qed.

(* With a non-zero command_status the header fields (id, status, sequence) survive the same trip. *)
Theorem C01_status : forall lay h vs, In lay layouts ->
  (0 < h_seq h < 2147483648)%Z -> 0 < h_status h < 4294967296 ->
  exists f ks, marshal lay (VHeader h :: vs) = Ok f /\ len f = 16 /\ l_fields lay = FHeader :: ks /\
    forall rest sched, exists sched',
      read_pdu layouts {| st_data := f ++ rest; st_sched := sched |}
      = (RpOk lay (VHeader {| h_len := 16; h_id := l_id lay; h_status := h_status h; h_seq := h_seq h |} :: map zero_val ks),
         16, {| st_data := rest; st_sched := sched' |}).
Proof. exact marshal_readpdu_status. Qed.

(* The underlying codec statement, for EVERY layout of the right shape (not only the
   33 registered ones) and with empty-valued TLVs allowed (they are dropped): used by C13. *)
Theorem C01_codec : forall lay vs f,
  lay_ok lay = true -> wf_vals lay vs -> marshal lay vs = Ok f -> len f <= 65536 ->
  unmarshal lay f = Ok (received lay vs).
Proof. exact roundtrip. Qed.

(* every registered layout has that shape, and its id finds it *)
Theorem C01_layouts_ok : forall l, In l layouts -> lay_ok l = true /\ find_layout layouts (l_id l) = Some l.
Proof. exact (fun l H => conj (layouts_ok l H) (layouts_find l H)). Qed.

(* Known finding D5 (query_sm_resp.error_code is handled by neither walk): the only
   conjunct of [dom] that is not in the property text is "a skipped field is zero".
   It is necessary: a non-zero value does not survive. *)
Theorem C01_skipped_field_refuted :
  exists lay vs f, In lay layouts /\ marshal lay vs = Ok f /\
    fst (fst (read_pdu layouts {| st_data := f; st_sched := [] |})) <> RpOk lay (with_header lay (len f) vs).
Proof. exact skipped_field_lost. Qed.

(* non-vacuity: a submit_sm with UDH and two TLVs is in the domain and marshals *)
Example C01_inhabited : In (lay_of 4) layouts /\ dom (lay_of 4) C01_example_value /\
  exists f, marshal (lay_of 4) C01_example_value = Ok f /\ len f = 56.
Proof. exact C01_example_dom. Qed.

Print Assumptions C01_roundtrip.
Print Assumptions C01_status.
Print Assumptions C01_codec.
Print Assumptions C01_layouts_ok.
Print Assumptions C01_skipped_field_refuted.
