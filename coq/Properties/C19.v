(* C19 — SMS-DELIVER / SMS-SUBMIT TPDUs decode to spec values and re-encode identically.
   Statements only; every proof is [exact lemma].

   [layout_deliver] / [layout_submit] (Spec/Gsm0340.v) are the GSM 03.40 9.2.2 layouts written
   from the standard; [sms_unmarshal] / [sms_remarshal] (Model/TpduRun.v) are the model of package
   sms over the struct layouts regenerated from the running code.  The harness (harness/c19.go)
   evaluates all of them in the kernel on every TPDU it ran through the implementation.

   FULL-STRENGTH STATEMENT (false of the code, kept visible):
     forall t, deliver_wf t -> sms_remarshal (layout_deliver t) = Ok (layout_deliver t)
     forall t, submit_wf t  -> sms_remarshal (layout_submit t)  = Ok (layout_submit t)
   After the repairs D19, D20, D21 (length octet), D22, D23, D24 the only exclusion left is
   [addr_ok] on the TP-OA / TP-DA, which is [True] for a numeric address and for an alphanumeric one
   (any text of the GSM 03.38 repertoire: default alphabet incl. CR, extension characters as ESC + code,
   1..11 septets) says
       septet count mod 8 <> 7                  (known: address/alphanumeric-8k+7-septets-…, the rest of D21)
       not (septet count mod 8 = 0 and last septet = CR)
                                                (known: address/alphanumeric-8-septets-ending-in-cr-…)
   Within 1..11 septets these are exactly: 7 septets; 8 septets ending in CR.  Both are refuted below.
   For the decoded TEXT of an alphanumeric address there is additionally D16 (code 0x09), stated as the
   hypothesis [~ In 9 ss] of C19_address_text_is_standard. *)
From V Require Import Model.TpduReaderRun Proofs.TpduReaderSpec.
From V Require Import Model.TpduRun Spec.Gsm0340 Gen.SmsOctets Proofs.SmsOctetTables Proofs.TpduAlnum Proofs.TpduRoundtrip Proofs.TpduFlags Proofs.TpduUserData Proofs.TpduMarshalEffect.
Open Scope N_scope.

(* ---- round trip, octet for octet: any first octet, any PID / DCS, any zone sign, any validity period
   format, user data of any content (trailing zero octets included) *)
Theorem C19_deliver_roundtrip :
  forall t : s_deliver,
    deliver_wf t -> addr_ok (d_oa t) ->
    sms_remarshal (layout_deliver t) = Ok (layout_deliver t).
Proof. exact deliver_roundtrip. Qed.

Theorem C19_submit_roundtrip :
  forall t : s_submit,
    submit_wf t -> addr_ok (s_da t) ->
    sms_remarshal (layout_submit t) = Ok (layout_submit t).
Proof. exact submit_roundtrip. Qed.

(* ---- behind every reader.  [sms_unmarshal_reader data sched eofd] is the decoder written over the bufio.Reader model
   (Model/TpduReader.v) on a reader that hands out the octets in pieces of the sizes [sched] (then one octet per call;
   any list: every way of chunking), io.EOF with the last piece iff [eofd]; [sms_remarshal_reader] re-encodes what it
   decoded.  On the TPDUs of this property they ARE [sms_unmarshal] / [sms_remarshal] (C18_reader_independence; a
   well-formed SC address is at most 11 octets long, which is all getType's Peek needs), so every theorem of this file
   about the decoded values and flags holds behind every such reader, and the round trip is stated outright. *)
Theorem C19_deliver_any_reader :
  forall (t : s_deliver) (sched : list nat) (eofd : bool), deliver_wf t ->
    sms_unmarshal_reader (layout_deliver t) sched eofd = sms_unmarshal (layout_deliver t) /\
    sms_remarshal_reader (layout_deliver t) sched eofd = sms_remarshal (layout_deliver t).
Proof. exact deliver_decode_any_reader. Qed.
Theorem C19_submit_any_reader :
  forall (t : s_submit) (sched : list nat) (eofd : bool),
    sms_unmarshal_reader (layout_submit t) sched eofd = sms_unmarshal (layout_submit t) /\
    sms_remarshal_reader (layout_submit t) sched eofd = sms_remarshal (layout_submit t).
Proof. exact submit_decode_any_reader. Qed.
Theorem C19_deliver_roundtrip_any_reader :
  forall (t : s_deliver) (sched : list nat) (eofd : bool),
    deliver_wf t -> addr_ok (d_oa t) ->
    sms_remarshal_reader (layout_deliver t) sched eofd = Ok (layout_deliver t).
Proof. exact deliver_roundtrip_any_reader. Qed.
Theorem C19_submit_roundtrip_any_reader :
  forall (t : s_submit) (sched : list nat) (eofd : bool),
    submit_wf t -> addr_ok (s_da t) ->
    sms_remarshal_reader (layout_submit t) sched eofd = Ok (layout_submit t).
Proof. exact submit_roundtrip_any_reader. Qed.

(* ---- the decoded structure carries the standard's values *)
Theorem C19_deliver_values :
  forall t : s_deliver,
    deliver_wf t -> addr_ok (d_oa t) ->
    exists fl sc oa ts ud,
      sms_unmarshal (layout_deliver t) =
        Ok ("Deliver"%string, [TVAddr sc; TVFlags fl; TVAddr oa; TVByte (d_pid t); TVByte (d_dcs t); TVTime ts; TVBytes ud]) /\
      sc = {| a_npi := sa_npi (d_sc t); a_ton := sa_ton (d_sc t); a_no := ascii_digits (digits_of (d_sc t)) |} /\
      oa = {| a_npi := sa_npi (d_oa t); a_ton := sa_ton (d_oa t); a_no := addr_text_spec (d_oa t) |} /\
      time_civil ts = ((2000 + Z.of_N (t_yy (d_scts t)))%Z, Z.of_N (t_mo (d_scts t)), Z.of_N (t_dd (d_scts t)),
                       Z.of_N (t_hh (d_scts t)), Z.of_N (t_mi (d_scts t)), Z.of_N (t_ss (d_scts t)), time_offset_q (d_scts t)) /\
      ud = ud_octets (d_ud t) ++ repeat 0 (N.to_nat (udl (d_ud t)) - List.length (ud_octets (d_ud t))).
Proof. exact deliver_values. Qed.

Theorem C19_submit_values :
  forall t : s_submit,
    submit_wf t -> addr_ok (s_da t) ->
    exists fl da v ud,
      sms_unmarshal (layout_submit t) =
        Ok ("Submit"%string, [TVAddr addr0; TVFlags fl; TVByte (s_mr t); TVAddr da; TVByte (s_pid t); TVByte (s_dcs t); TVVP v; TVBytes ud]) /\
      da = {| a_npi := sa_npi (s_da t); a_ton := sa_ton (s_da t); a_no := addr_text_spec (s_da t) |} /\
      vpf_of v = vpf_bits (s_vp t) /\ vp_decoded_seconds v = vp_seconds (s_vp t) /\
      (forall ts, s_vp t = VpAbsolute ts -> exists x, v = VPAbs x /\
          time_civil x = ((2000 + Z.of_N (t_yy ts))%Z, Z.of_N (t_mo ts), Z.of_N (t_dd ts), Z.of_N (t_hh ts), Z.of_N (t_mi ts), Z.of_N (t_ss ts), time_offset_q ts)) /\
      (forall e, s_vp t = VpEnhanced e -> v = VPEnh (enh_seconds e) (enh_indicator e)) /\
      ud = ud_octets (s_ud t) ++ repeat 0 (N.to_nat (udl (s_ud t)) - List.length (ud_octets (s_ud t))).
Proof. exact submit_values. Qed.

(* ---- the first-octet parameters BY NAME.  [DF] / [SF] are the field lists (names, declaration order) of
   DeliverFlags / SubmitFlags regenerated from the running code; [flag_get] looks a field up by its Go name.
   The decoded flag structure of every well-formed TPDU holds, under each name, the bit GSM 03.40 9.2.2.1 /
   9.2.2.2 assigns to the parameter of that name:
     SMS-DELIVER  MessageType = SMS-DELIVER, MoreMessagesToSend = TP-MMS (bit 2), StatusReportIndication = TP-SRI
                  (bit 5), TPUDHI = TP-UDHI (bit 6), TPRP = TP-RP (bit 7);
                  KNOWN FINDING deliver/flags/ReplyPath-and-UDHIndicator-fields-hold-unused-bits-3-4: the fields called
                  ReplyPath / UDHIndicator hold bits 3 / 4 (unused in SMS-DELIVER) - stated here as what they hold,
                  refuted below as what their names promise (TestFlags pins them there);
     SMS-SUBMIT   MessageType = SMS-SUBMIT, RejectDuplicates = TP-RD (bit 2), ValidityPeriodFormat = TP-VPF (bits 4..3),
                  StatusReportRequest = TP-SRR (bit 5), UserDataHeaderIndicator = TP-UDHI (bit 6), ReplyPath = TP-RP
                  (bit 7) - true since fix 922f91c; before it ReplyPath and StatusReportRequest were swapped. *)
Theorem C19_deliver_flags :
  forall t : s_deliver,
    deliver_wf t -> addr_ok (d_oa t) ->
    exists sc fl oa ts ud,
      sms_unmarshal (layout_deliver t) =
        Ok ("Deliver"%string, [TVAddr sc; TVFlags fl; TVAddr oa; TVByte (d_pid t); TVByte (d_dcs t); TVTime ts; TVBytes ud]) /\
      flag_get DF fl "MessageType"%string = 0 /\
      flag_get DF fl "MoreMessagesToSend"%string = b2n (d_mms t) /\
      flag_get DF fl "StatusReportIndication"%string = b2n (d_sri t) /\
      flag_get DF fl "TPUDHI"%string = b2n (d_udhi t) /\
      flag_get DF fl "TPRP"%string = b2n (d_rp t) /\
      flag_get DF fl "ReplyPath"%string = b2n (d_bit3 t) /\
      flag_get DF fl "UDHIndicator"%string = b2n (d_bit4 t).
Proof. exact deliver_flags_by_name. Qed.
Theorem C19_submit_flags :
  forall t : s_submit,
    submit_wf t -> addr_ok (s_da t) ->
    exists fl da v ud,
      sms_unmarshal (layout_submit t) =
        Ok ("Submit"%string, [TVAddr addr0; TVFlags fl; TVByte (s_mr t); TVAddr da; TVByte (s_pid t); TVByte (s_dcs t); TVVP v; TVBytes ud]) /\
      flag_get SF fl "MessageType"%string = 3 /\
      flag_get SF fl "RejectDuplicates"%string = b2n (s_rd t) /\
      flag_get SF fl "ValidityPeriodFormat"%string = vpf_bits (s_vp t) /\
      flag_get SF fl "StatusReportRequest"%string = b2n (s_srr t) /\
      flag_get SF fl "UserDataHeaderIndicator"%string = b2n (s_udhi t) /\
      flag_get SF fl "ReplyPath"%string = b2n (s_rp t).
Proof. exact submit_flags_by_name. Qed.
(* the known finding: a well-formed SMS-DELIVER with TP-UDHI and TP-RP set decodes with ReplyPath = UDHIndicator = 0 *)
Theorem C19_deliver_old_flag_fields_refuted :
  deliver_wf w_deliver /\ d_rp w_deliver = true /\ d_udhi w_deliver = true /\
  exists vs fl, sms_unmarshal (layout_deliver w_deliver) = Ok ("Deliver"%string, vs) /\ nth_error vs 1 = Some (TVFlags fl) /\
    flag_get DF fl "ReplyPath"%string = 0 /\ flag_get DF fl "UDHIndicator"%string = 0 /\
    flag_get DF fl "TPRP"%string = 1 /\ flag_get DF fl "TPUDHI"%string = 1.
Proof. exact deliver_old_flag_fields_refuted. Qed.
(* the repaired defect (fix 922f91c): with the field order before it, first octet 0x21 (TP-SRR only) shows ReplyPath *)
Theorem C19_submit_flag_names_legacy_refuted :
  flag_get submit_fields_legacy (unmarshal_flags submit_fields_legacy 33 0) "ReplyPath"%string = 1 /\
  flag_get submit_fields_legacy (unmarshal_flags submit_fields_legacy 33 0) "StatusReportRequest"%string = 0 /\
  flag_get SF (unmarshal_flags SF 33 0) "ReplyPath"%string = 0 /\
  flag_get SF (unmarshal_flags SF 33 0) "StatusReportRequest"%string = 1 /\
  marshal_flags submit_fields_legacy (unmarshal_flags submit_fields_legacy 33 0) 0 = 33.
Proof. exact submit_flag_names_legacy_refuted. Qed.

(* ---- the decoded user data, EXACTLY (audit C19-A2).  UserData holds TP-UDL octets: the user-data octets of the TPDU,
   then [ud_padding] zero octets.  For an octet-counted data coding scheme and for fewer than 8 septets the padding is
   empty and UserData IS the user data.  For 8 or more septets ([ud_padded]) it is longer than the user data by
   UDL - ceil(7 UDL / 8) zero octets: the slice length is the only place where the structure keeps TP-UDL.
   KNOWN FINDING value/user-data/septet-coded-8-or-more-septets-zero-padded-to-tp-udl-octets (not repaired: carrying TP-UDL
   otherwise needs a new field in Deliver / Submit and their reports, and Marshal reads TP-UDL from this length).  The
   class is exact: [ud_padding u = 0 <-> ~ ud_padded u]. *)
Theorem C19_deliver_user_data :
  forall t : s_deliver,
    deliver_wf t -> addr_ok (d_oa t) ->
    exists sc fl oa ts ud,
      sms_unmarshal (layout_deliver t) =
        Ok ("Deliver"%string, [TVAddr sc; TVFlags fl; TVAddr oa; TVByte (d_pid t); TVByte (d_dcs t); TVTime ts; TVBytes ud]) /\
      ud = ud_octets (d_ud t) ++ repeat 0 (ud_padding (d_ud t)) /\
      (~ ud_padded (d_ud t) -> ud = ud_octets (d_ud t)) /\
      (ud_padded (d_ud t) -> ud <> ud_octets (d_ud t) /\ List.length ud = N.to_nat (udl (d_ud t))).
Proof. exact deliver_user_data. Qed.
Theorem C19_submit_user_data :
  forall t : s_submit,
    submit_wf t -> addr_ok (s_da t) ->
    exists fl da v ud,
      sms_unmarshal (layout_submit t) =
        Ok ("Submit"%string, [TVAddr addr0; TVFlags fl; TVByte (s_mr t); TVAddr da; TVByte (s_pid t); TVByte (s_dcs t); TVVP v; TVBytes ud]) /\
      ud = ud_octets (s_ud t) ++ repeat 0 (ud_padding (s_ud t)) /\
      (~ ud_padded (s_ud t) -> ud = ud_octets (s_ud t)) /\
      (ud_padded (s_ud t) -> ud <> ud_octets (s_ud t) /\ List.length ud = N.to_nat (udl (s_ud t))).
Proof. exact submit_user_data. Qed.
Theorem C19_user_data_class_exact :
  forall u, (ud_padding u = 0%nat <-> ~ ud_padded u) /\
            (forall ss, u = UdSeptets ss -> ud_padding u = (List.length ss - (7 * List.length ss + 7) / 8)%nat).
Proof. exact (fun u => conj (ud_padding_zero_iff u) (fun ss E => eq_ind_r (fun u => ud_padding u = _) (ud_padding_septets ss) E)). Qed.
(* witness: eight septets -> seven user-data octets; the decoded UserData has eight (the octets round-trip) *)
Theorem C19_user_data_padding_refuted :
  submit_wf w_ud8 /\ ud_padded (s_ud w_ud8) /\ List.length (ud_octets (s_ud w_ud8)) = 7%nat /\
  exists vs ud, sms_unmarshal (layout_submit w_ud8) = Ok ("Submit"%string, vs) /\ nth_error vs 7 = Some (TVBytes ud) /\
    List.length ud = 8%nat /\ ud = ud_octets (s_ud w_ud8) ++ [0] /\ ud <> ud_octets (s_ud w_ud8) /\
    sms_remarshal (layout_submit w_ud8) = Ok (layout_submit w_ud8).
Proof. exact user_data_padding_refuted. Qed.

(* ---- what sms.Marshal may change in its argument (audit C19-D3).  Marshal writes flags.ValidityPeriodFormat into
   every SubmitFlags field of the packet it is given; [arg_after] is the packet after the call.
   (i) nothing a second Marshal can observe - for ANY environment and ANY packet, Marshal of the packet after the call
       is Marshal of the packet before it;
   (ii) nothing at all in the structure Unmarshal returned for a well-formed SMS-DELIVER / SMS-SUBMIT
       ([deliver_vals] / [submit_vals_list] are those structures: C19_deliver_values / C19_submit_values);
   (iii) content: a SUBMIT-REPORT with TP-VPF bits set IS changed (observation outside C19). *)
Theorem C19_marshal_twice : forall E p, marshal E (arg_after E p) = marshal E p.
Proof. exact marshal_after_marshal. Qed.
Theorem C19_marshal_leaves_decoded_value :
  (forall t, arg_after sms_env ("Deliver"%string, deliver_vals t) = ("Deliver"%string, deliver_vals t)) /\
  (forall t, arg_after sms_env ("Submit"%string, submit_vals_list t) = ("Submit"%string, submit_vals_list t)) /\
  (forall t, deliver_wf t -> addr_ok (d_oa t) -> sms_unmarshal (layout_deliver t) = Ok ("Deliver"%string, deliver_vals t)) /\
  (forall t, submit_wf t -> addr_ok (s_da t) -> sms_unmarshal (layout_submit t) = Ok ("Submit"%string, submit_vals_list t)).
Proof. exact (conj deliver_arg_unchanged (conj submit_arg_unchanged (conj deliver_decode submit_decode))). Qed.
Theorem C19_marshal_changes_submit_report :
  exists p, sms_unmarshal (hx "019119000000000000000000") = Ok p /\ arg_after sms_env p <> p.
Proof. exact marshal_changes_submit_report. Qed.

(* [addr_text_spec] reads an alphanumeric address in the tables of the running code; those give the
   standard's characters (GSM 03.38 6.2.1 default alphabet and 6.2.1.1 extension table) unless code
   0x09 occurs (D16: U+00E7 for U+00C7) *)
Theorem C19_address_text_is_standard :
  forall a, addr_wf a ->
    match sa_val a with
    | Digits ds => addr_text_spec a = ascii_digits ds
    | Alnum ss => ~ In 9 ss -> addr_text_spec a = gsm_text ss
    end.
Proof. exact addr_text_standard. Qed.
Theorem C19_alphabet_table : forall s, s < 128 -> s <> 9 -> s <> ESC -> g7_rune s = gsm_char s.
Proof. exact alphabet_table. Qed.
Theorem C19_extension_table : g7_esc g7_table = gsm_extension.
Proof. exact g7_esc_is_spec. Qed.
(* bit-level unpack / pack of the code against the arithmetic packing of the standard, any length *)
Theorem C19_unpack_pack7 : forall ss, Forall (fun s => s < 128) ss -> (List.length ss mod 8 <> 7)%nat -> ta_unpack (pack7 ss) = ss.
Proof. exact unpack_pack7. Qed.
Theorem C19_pack_is_pack7 : forall ss, Forall (fun s => s < 128) ss -> (List.length ss mod 8 <> 7)%nat -> ta_pack ss = pack7 ss.
Proof. exact pack_is_pack7. Qed.

(* time.Date is the identity on every real date of 2000..2099 (kernel sweep over 36,525 days) *)
Theorem C19_calendar :
  forall yy mo dd hh mi ss,
    yy < 100 -> 1 <= mo <= 12 -> 1 <= dd <= days_in_month yy mo -> hh < 24 -> mi < 60 -> ss < 60 ->
    go_date (2000 + Z.of_N yy) (Z.of_N mo) (Z.of_N dd) (Z.of_N hh) (Z.of_N mi) (Z.of_N ss) =
    ((2000 + Z.of_N yy)%Z, Z.of_N mo, Z.of_N dd, Z.of_N hh, Z.of_N mi, Z.of_N ss).
Proof. exact go_date_valid. Qed.

(* ---- complete tables from the running code *)
Theorem C19_vp_table :
  map (fun r => fst (fst (fst r))) rel_vp_table = oct256 /\
  forall b, b < 256 -> In (b, rel_seconds b, 0, b) rel_vp_table.
Proof. exact (conj rel_vp_table_complete rel_vp_table_spec). Qed.
Theorem C19_vp_model : forall b, b < 256 -> rel_dur b = rel_seconds b /\ rel_octet (rel_dur b) = b.
Proof. exact rel_model. Qed.

(* all 256 first octets through SubmitFlags and DeliverFlags of the running code: the standard's bit
   fields, written back unchanged *)
Theorem C19_first_octet_table :
  (forall b, b < 256 -> exists vals, In (b, vals, b) submit_flags_table /\
      vals = [2 * (b mod 4); (b / 4) mod 2; (b / 8) mod 4; (b / 32) mod 2; (b / 64) mod 2; (b / 128) mod 2]) /\
  (forall b, b < 256 -> exists vals, In (b, vals, b) deliver_flags_table /\
      vals = [2 * (b mod 4); (b / 4) mod 2; (b / 8) mod 2; (b / 16) mod 2; (b / 32) mod 2; (b / 64) mod 2; (b / 128) mod 2]).
Proof. exact first_octet_tables. Qed.
Theorem C19_first_octet_model :
  forallb (flag_row_ok fs_DeliverFlags 255) deliver_flags_table = true /\
  forallb (flag_row_ok fs_SubmitFlags 255) submit_flags_table = true /\
  forallb (flag_row_ok fs_Flags 3) flags_table = true /\
  forallb (flag_row_ok fs_ParameterIndicator 7) pi_table = true.
Proof. exact (conj deliver_flags_table_ok (conj submit_flags_table_ok (conj flags_table_ok pi_table_ok))). Qed.
(* all 256 data coding schemes: whether Marshal takes TP-UDL for a septet count is GSM 03.38 section 4 *)
Theorem C19_dcs_table :
  map fst dcs_table = oct256 /\ forall d, d < 256 -> In (d, dcs_counts_septets d) dcs_table.
Proof. exact (conj dcs_table_complete dcs_table_spec). Qed.

(* ---- witnesses for the known classes that remain (each a well-formed value of the quantifier) *)
Theorem C19_alnum_seven_septets_refuted :
  submit_wf w_d21 /\ nth 3 (layout_submit w_d21) 0 = 13 /\
  sms_remarshal (layout_submit w_d21) <> Ok (layout_submit w_d21) /\
  exists out vs, sms_remarshal (layout_submit w_d21) = Ok out /\ nth 3 out 0 = 14 /\
    sms_unmarshal (layout_submit w_d21) = Ok ("Submit"%string, vs) /\
    nth_error vs 3 = Some (TVAddr {| a_npi := 1; a_ton := 5; a_no := [109; 101; 115; 115; 97; 103; 101; 64] |}).
Proof. exact alnum_seven_septets_refuted. Qed.
Theorem C19_alnum_eight_septets_cr_refuted :
  submit_wf w_cr8 /\ ends_in_filler_cr [109; 101; 115; 115; 97; 103; 101; 13] /\
  sms_remarshal (layout_submit w_cr8) = Ok (layout_submit w_cr8) /\
  exists vs, sms_unmarshal (layout_submit w_cr8) = Ok ("Submit"%string, vs) /\
    nth_error vs 3 = Some (TVAddr {| a_npi := 1; a_ton := 5; a_no := [109; 101; 115; 115; 97; 103; 101] |}) /\
    gsm_text [109; 101; 115; 115; 97; 103; 101; 13] = [109; 101; 115; 115; 97; 103; 101; 13].
Proof. exact alnum_eight_septets_cr_refuted. Qed.
Theorem C19_alphabet_09_refuted : g7_rune 9 = 231 /\ gsm_char 9 = 199 /\ code_text [9] <> gsm_text [9].
Proof. exact alphabet_09_refuted. Qed.

(* ---- the repaired defects, on the pre-repair variants of the model *)
Theorem C19_zone_sign_legacy_refuted :            (* D19 *)
  zone_of true 10 (lo4 10 * 10 + hi4 10) = (false, 100) /\ zone_of false 10 (lo4 10 * 10 + hi4 10) = (true, 20).
Proof. exact zone_sign_legacy_refuted. Qed.
Theorem C19_trailing_zero_legacy_refuted :        (* D22 *)
  trim_right0 [65; 0] = [65] /\ ud_octets (UdOctets [65; 0]) = [65; 0].
Proof. exact trailing_zero_legacy_refuted. Qed.
Theorem C19_deliver_first_octet_legacy_refuted :  (* D24 *)
  marshal_flags deliver_fields_legacy (unmarshal_flags deliver_fields_legacy 64 0) 0 = 0 /\
  marshal_flags (fs_fields fs_DeliverFlags) (unmarshal_flags (fs_fields fs_DeliverFlags) 64 0) 0 = 64.
Proof. exact deliver_first_octet_legacy_refuted. Qed.
Theorem C19_alnum_length_legacy_refuted :         (* D21, length octet *)
  addr_write_legacy_len {| a_npi := 0; a_ton := 5; a_no := [73; 110; 102; 111] |} 4 = 8 /\
  hd 0 (addr_write g7_table {| a_npi := 0; a_ton := 5; a_no := [73; 110; 102; 111] |}) = 7 /\
  hd 0 (tp_addr {| sa_ton := 5; sa_npi := 0; sa_val := Alnum [73; 110; 102; 111] |}) = 7.
Proof. exact alnum_length_legacy_refuted. Qed.
Theorem C19_relative_vp_legacy_refuted :          (* D23 *)
  rel_octet_gen true (rel_dur 144) = 149 /\ rel_octet (rel_dur 144) = 144.
Proof. exact rel_octet_legacy_refuted. Qed.
Theorem C19_numeric_length_legacy_refuted :       (* D20 *)
  addr_write_legacy_len (addr_num_val w_oa (digits_of w_oa)) 5 = 9 /\
  hd 0 (addr_write g7_table (addr_num_val w_oa (digits_of w_oa))) = 10 /\ hd 0 (tp_addr w_oa) = 10.
Proof. exact numeric_length_legacy_refuted. Qed.

(* ---- non-vacuity: well-formed values INSIDE every class that was a known finding before the repairs
   (TP-UDHI and TP-RP set, zone -5 h, zone minus zero in an absolute VP, user data ending in 0x00) and an
   alphanumeric address with extension characters and a CR satisfy the hypotheses *)
Example C19_example_deliver :
  sms_remarshal (layout_deliver w_deliver) = Ok (layout_deliver w_deliver) /\
  layout_deliver w_deliver = hx "07911326040000F0E40A91009471008900004220923295850A09C8329BFD06DD0100".
Proof. exact w_deliver_example. Qed.
Example C19_example_submit :
  sms_remarshal (layout_submit w_submit) = Ok (layout_submit w_submit) /\
  layout_submit w_submit = hx "00DD070A91009471008900042080629173140803410000".
Proof. exact w_submit_example. Qed.
Example C19_example_alnum :
  sms_remarshal (layout_submit w_alnum_ok) = Ok (layout_submit w_alnum_ok) /\
  layout_submit w_alnum_ok = hx "0011070BD01B5EB0B129030004900401020304" /\
  exists vs, sms_unmarshal (layout_submit w_alnum_ok) = Ok ("Submit"%string, vs) /\
             nth_error vs 3 = Some (TVAddr {| a_npi := 0; a_ton := 5; a_no := [91; 65; 13; 8364] |}).
Proof. exact w_alnum_example. Qed.
