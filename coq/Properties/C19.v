(* C19 — SMS-DELIVER / SMS-SUBMIT TPDUs decode to spec values and re-encode identically.
   Statements only; every proof is [exact lemma].

   [layout_deliver] / [layout_submit] (Spec/Gsm0340.v) are the GSM 03.40 9.2.2 layouts written
   from the standard; [sms_unmarshal] / [sms_remarshal] (Model/TpduRun.v) are the model of package
   sms over the struct layouts regenerated from the running code.  The harness (harness/c19.go)
   evaluates all of them in the kernel on every TPDU it ran through the implementation.

   FULL-STRENGTH STATEMENT (false of the code, kept visible):
     forall t, deliver_wf t -> sms_remarshal (layout_deliver t) = Ok (layout_deliver t)
     forall t, submit_wf t  -> sms_remarshal (layout_submit t)  = Ok (layout_submit t)
   It is refuted by the witnesses C19_*_refuted below; the proved theorems carry exactly the
   exclusion predicates KNOWN_FINDINGS.txt lists:
     D24  d_udhi t = true \/ d_rp t = true                 (SMS-DELIVER bits 6, 7)
     D19  t_zneg (time stamp / absolute VP) = true          (negative zone)
     D22  ud_ends_in_zero (last user-data octet is 0x00)
     D21  alphanumeric address whose useful semi-octet count (7n+3)/4 is odd (n = 4..7 of 1..11)
   PARTIAL (what is missing): for ALPHANUMERIC addresses the theorems cover texts of the basic
   character table without CR and without the escape code ([plain]); alphanumeric addresses that
   contain CR or an extension-table character (ESC + code: [ ] { } \ ~ ^ | euro, form feed) are in
   the quantifier of C19 but not in these theorems.  (The harness compares model and code on
   alphanumeric addresses on every run.)  Numeric addresses: all of 1..20 digits, any TON <> 5, any NPI.
   [addr_rt_ok a] is [True] for a numeric address and [plain text /\ even useful-semi-octet count]
   for an alphanumeric one; [addr_dec_ok a] is [True] / [plain text /\ septet count mod 8 <> 7]. *)
From V Require Import Model.TpduRun Spec.Gsm0340 Gen.SmsOctets Proofs.SmsOctetTables Proofs.TpduAlnum Proofs.TpduRoundtrip.
Open Scope N_scope.

(* ---- round trip, octet for octet *)
Theorem C19_deliver_roundtrip_partial :
  forall t : s_deliver,
    deliver_wf t -> addr_rt_ok (d_oa t) ->         (* not D21 *)
    d_udhi t = false -> d_rp t = false ->          (* not D24 *)
    t_zneg (d_scts t) = false ->                   (* not D19 *)
    ~ ud_ends_in_zero (d_ud t) ->                  (* not D22 *)
    sms_remarshal (layout_deliver t) = Ok (layout_deliver t).
Proof. exact deliver_roundtrip. Qed.

Theorem C19_submit_roundtrip_partial :
  forall t : s_submit,
    submit_wf t -> addr_rt_ok (s_da t) ->          (* not D21 *)
    vp_known_ok (s_vp t) ->                        (* not D19: an absolute validity period has a non-negative zone *)
    ~ ud_ends_in_zero (s_ud t) ->                  (* not D22 *)
    sms_remarshal (layout_submit t) = Ok (layout_submit t).
Proof. exact submit_roundtrip. Qed.

(* ---- the decoded structure carries the standard's values (holds also inside D22 and D24) *)
Theorem C19_deliver_values_partial :
  forall t : s_deliver,
    deliver_wf t -> addr_dec_ok (d_oa t) -> t_zneg (d_scts t) = false ->
    exists fl sc oa ts ud,
      sms_unmarshal (layout_deliver t) =
        Ok ("Deliver"%string, [TVAddr sc; TVFlags fl; TVAddr oa; TVByte (d_pid t); TVByte (d_dcs t); TVTime ts; TVBytes ud]) /\
      sc = {| a_npi := sa_npi (d_sc t); a_ton := sa_ton (d_sc t); a_no := ascii_digits (digits_of (d_sc t)) |} /\
      oa = {| a_npi := sa_npi (d_oa t); a_ton := sa_ton (d_oa t); a_no := addr_text_spec (d_oa t) |} /\
      time_civil ts = ((2000 + Z.of_N (t_yy (d_scts t)))%Z, Z.of_N (t_mo (d_scts t)), Z.of_N (t_dd (d_scts t)),
                       Z.of_N (t_hh (d_scts t)), Z.of_N (t_mi (d_scts t)), Z.of_N (t_ss (d_scts t)), time_offset_q (d_scts t)) /\
      ud = ud_octets (d_ud t) ++ repeat 0 (N.to_nat (udl (d_ud t)) - List.length (ud_octets (d_ud t))).
Proof. exact deliver_values. Qed.

Theorem C19_submit_values_partial :
  forall t : s_submit,
    submit_wf t -> addr_dec_ok (s_da t) -> vp_known_ok (s_vp t) ->
    exists fl da v ud,
      sms_unmarshal (layout_submit t) =
        Ok ("Submit"%string, [TVAddr addr0; TVFlags fl; TVByte (s_mr t); TVAddr da; TVByte (s_pid t); TVByte (s_dcs t); TVVP v; TVBytes ud]) /\
      da = {| a_npi := sa_npi (s_da t); a_ton := sa_ton (s_da t); a_no := addr_text_spec (s_da t) |} /\
      vpf_of v = vpf_bits (s_vp t) /\ vp_decoded_seconds v = vp_seconds (s_vp t) /\
      (forall ts, s_vp t = VpAbsolute ts -> exists x, v = VPAbs x /\
          time_civil x = ((2000 + Z.of_N (t_yy ts))%Z, Z.of_N (t_mo ts), Z.of_N (t_dd ts), Z.of_N (t_hh ts), Z.of_N (t_mi ts), Z.of_N (t_ss ts), time_offset_q ts)) /\
      (forall e, s_vp t = VpEnhanced e -> v = VPEnh (enh_seconds e) (enh_indicator e)) /\
      ud = ud_octets (s_ud t) ++ repeat 0 (N.to_nat (udl (s_ud t)) - List.length (ud_octets (s_ud t))).
Proof. exact submit_values. Qed.

(* the address text of an alphanumeric address is read in the 7-bit table of the running code; that
   table is GSM 03.38 6.2.1 on every code except 0x09 (D16: U+00E7 for U+00C7) and the escape code *)
Theorem C19_alphabet_table : forall s, s < 128 -> s <> 9 -> s <> ESC -> g7_rune s = gsm_char s.
Proof. exact alphabet_table. Qed.
Theorem C19_alphabet_09_refuted : g7_rune 9 = 231 /\ gsm_char 9 = 199.
Proof. exact alphabet_09_refuted. Qed.
(* bit-level unpack / pack of the code against the arithmetic packing of the standard, any length *)
Theorem C19_unpack_pack7 : forall ss, Forall (fun s => s < 128) ss -> (List.length ss mod 8 <> 7)%nat -> ta_unpack (pack7 ss) = ss.
Proof. exact unpack_pack7. Qed.
Theorem C19_pack_is_pack7 : forall ss, Forall (fun s => s < 128) ss -> (List.length ss mod 8 <> 7)%nat -> ta_pack ss = pack7 ss.
Proof. exact pack_is_pack7. Qed.

(* time.Date is the identity on every real date of 2000..2099 (kernel sweep over 36,525 days) *)
Theorem C19_calendar :
  forall yy mo dd hh mi ss,
    yy < 100 -> 1 <= mo <= 12 -> 1 <= dd <= days_in_month yy mo -> hh < 24 -> mi < 60 -> ss < 60 ->
    go_date (2000 + Z.of_N yy) (Z.of_N mo) (Z.of_N dd) (Z.of_N hh) (Z.of_N mi) (Z.of_N ss) =
    ((2000 + Z.of_N yy)%Z, Z.of_N mo, Z.of_N dd, Z.of_N hh, Z.of_N mi, Z.of_N ss).
Proof. exact go_date_valid. Qed.

(* ---- complete tables from the running code *)
(* all 256 relative validity periods: the code's duration is the standard's (whole seconds) and
   the octet is written back unchanged; the table has one row per octet *)
Theorem C19_vp_table :
  map (fun r => fst (fst (fst r))) rel_vp_table = oct256 /\
  forall b, b < 256 -> In (b, rel_seconds b, 0, b) rel_vp_table.
Proof. exact (conj rel_vp_table_complete rel_vp_table_spec). Qed.
Theorem C19_vp_model : forall b, b < 256 -> rel_dur b = rel_seconds b /\ rel_octet (rel_dur b) = b.
Proof. exact rel_model. Qed.

(* all 256 first octets through SubmitFlags and DeliverFlags of the running code *)
Theorem C19_first_octet_table :
  (forall b, b < 256 -> exists vals, In (b, vals, b) submit_flags_table /\
      vals = [2 * (b mod 4); (b / 4) mod 2; (b / 8) mod 4; (b / 32) mod 2; (b / 64) mod 2; (b / 128) mod 2]) /\
  (forall b, b < 256 -> exists vals, In (b, vals, b mod 64) deliver_flags_table /\
      vals = [2 * (b mod 4); (b / 4) mod 2; (b / 8) mod 2; (b / 16) mod 2; (b / 32) mod 2]).
Proof. exact first_octet_tables. Qed.
(* the model reproduces every row of the four first-octet / indicator tables *)
Theorem C19_first_octet_model :
  forallb (flag_row_ok fs_DeliverFlags 63) deliver_flags_table = true /\
  forallb (flag_row_ok fs_SubmitFlags 255) submit_flags_table = true /\
  forallb (flag_row_ok fs_Flags 3) flags_table = true /\
  forallb (flag_row_ok fs_ParameterIndicator 7) pi_table = true.
Proof. exact (conj deliver_flags_table_ok (conj submit_flags_table_ok (conj flags_table_ok pi_table_ok))). Qed.

(* ---- witnesses for the known classes (each a well-formed value of the quantifier) *)
Theorem C19_deliver_udhi_refuted :      (* D24 *)
  deliver_wf w_d24 /\ d_udhi w_d24 = true /\ sms_remarshal (layout_deliver w_d24) <> Ok (layout_deliver w_d24) /\
  exists out, sms_remarshal (layout_deliver w_d24) = Ok out /\ nth 8 out 0 = 4 /\ nth 8 (layout_deliver w_d24) 0 = 68.
Proof. exact deliver_udhi_refuted. Qed.
Theorem C19_first_octet_table_refuted : exists vals, In (64, vals, 0) deliver_flags_table.   (* D24 on the code's own table *)
Proof. exact deliver_first_octet_refuted. Qed.
Theorem C19_negative_zone_refuted :     (* D19 *)
  deliver_wf (w_d19 20) /\ deliver_wf (w_d19 1) /\
  sms_remarshal (layout_deliver (w_d19 20)) <> Ok (layout_deliver (w_d19 20)) /\
  (exists vs x, sms_unmarshal (layout_deliver (w_d19 1)) = Ok ("Deliver"%string, vs) /\ nth_error vs 5 = Some (TVTime x) /\
     snd (time_civil x) = 81%Z /\ time_offset_q (d_scts (w_d19 1)) = (-1)%Z).
Proof. exact deliver_negative_zone_refuted. Qed.
Theorem C19_absolute_vp_negative_zone_refuted :
  submit_wf w_d19_vp /\ sms_remarshal (layout_submit w_d19_vp) <> Ok (layout_submit w_d19_vp).
Proof. exact submit_negative_zone_refuted. Qed.
Theorem C19_trailing_zero_refuted :     (* D22 *)
  submit_wf w_d22 /\ ud_ends_in_zero (s_ud w_d22) /\
  sms_remarshal (layout_submit w_d22) = Ok (removelast (layout_submit w_d22)).
Proof. exact trailing_zero_refuted. Qed.
Theorem C19_alnum_odd_refuted :         (* D21 *)
  submit_wf w_d21 /\ nth 3 (layout_submit w_d21) 0 = 7 /\
  exists out, sms_remarshal (layout_submit w_d21) = Ok out /\ nth 3 out 0 = 8.
Proof. exact alnum_odd_refuted. Qed.

(* ---- the repaired defects, on the pre-repair variants of the model *)
Theorem C19_relative_vp_legacy_refuted :   (* D23 *)
  rel_octet_gen true (rel_dur 144) = 149 /\ rel_octet (rel_dur 144) = 144.
Proof. exact rel_octet_legacy_refuted. Qed.
Theorem C19_numeric_length_legacy_refuted :   (* D20 *)
  addr_write_legacy_len (addr_num_val w_oa (digits_of w_oa)) 5 = 9 /\
  hd 0 (addr_write g7_table (addr_num_val w_oa (digits_of w_oa))) = 10 /\ hd 0 (tp_addr w_oa) = 10.
Proof. exact numeric_length_legacy_refuted. Qed.

(* ---- non-vacuity: well-formed values outside every known class (ten-digit address with leading
   zeros, leap day, 12 h 30 min relative validity period) satisfy the hypotheses *)
Example C19_example_deliver :
  sms_remarshal (layout_deliver w_deliver) = Ok (layout_deliver w_deliver) /\
  layout_deliver w_deliver = hx "07911326040000F0240A91009471008900004220923295858009C8329BFD06DDDF72".
Proof. exact w_deliver_example. Qed.
Example C19_example_alnum :
  sms_remarshal (layout_submit w_alnum_ok) = Ok (layout_submit w_alnum_ok) /\
  layout_submit w_alnum_ok = hx "0001070ED0D637396C7EBBCB00040401020304".
Proof. exact w_alnum_example. Qed.
Example C19_example_submit :
  sms_remarshal (layout_submit w_submit) = Ok (layout_submit w_submit) /\
  layout_submit w_submit = hx "00D5070A91009471008900049003010203".
Proof. exact w_submit_example. Qed.
