(* What C10 says about the combiner, in terms of the model's data: the
   vocabulary of the theorems in Properties/C10.v.  Definitions only. *)
From V Require Import Model.Combiner.
Open Scope N_scope.

(* the slot array an arriving segment with header [c] is checked against: the
   one stored for its key, or a fresh one sized by its total *)
Definition cur_of (s : option slots) (c : concat) : slots :=
  match s with Some l => l | None => fresh c end.

(* sequence numbers are octets (they are read from an octet string) *)
Definition seq_octet (p : dsm) : Prop := forall c, hdr p = Some c -> c_seq c < 256.
Definition udh_octets (u : option kvs) : Prop :=
  Forall (fun e : N * bytes => Forall (fun b => b < 256) (snd e)) (udh_map u).

(* slot i of the array stored under key k holds, if anything, a PDU that has
   arrived, carries key k, sequence number i+1 and the total the array was
   sized by *)
Definition slot_ok (seen : list dsm) (k : ckey) (n i : nat) (o : option dsm) : Prop :=
  match o with
  | None => True
  | Some q => In q seen /\ exists c, hdr q = Some c /\ key_of q c = k /\
              c_seq c = N.of_nat (S i) /\ c_total c = N.of_nat n
  end.
Definition slots_ok (seen : list dsm) (k : ckey) (l : slots) : Prop :=
  forall i o, nth_error l i = Some o -> slot_ok seen k (List.length l) i o.
(* a stored array is never complete (a complete one is delivered and dropped) *)
Definition st_inv (seen : list dsm) (k : ckey) (s : option slots) : Prop :=
  match s with None => True | Some l => slots_ok seen k l /\ full l = false end.
Definition registry_inv (seen : list dsm) (r : registry) : Prop :=
  forall k, st_inv seen k (lookup beq_key k r).

(* a concatenated delivery for key k triggered by p: N >= 1 entries, entry i
   (from 0) is a PDU that has arrived, with key k, sequence i+1 and total N;
   p itself is the entry at its sequence number *)
Definition delivery_ok (seen : list dsm) (k : ckey) (p : dsm) (cb : callback) : Prop :=
  (forall i o, nth_error cb i = Some o ->
     exists q c, o = Some q /\ In q seen /\ hdr q = Some c /\ key_of q c = k /\
                 c_seq c = N.of_nat (S i) /\ c_total c = N.of_nat (List.length cb)) /\
  (exists c, hdr p = Some c /\ nth_error cb (slot_ix c) = Some (Some p) /\ c_seq c = N.of_nat (S (slot_ix c))).

(* the arriving segment is well numbered and completes the message: every
   slot except its own is filled *)
Definition last_missing (c : concat) (cur : slots) : Prop :=
  accept c cur = true /\ forall j, nth_error cur j = Some None -> j = slot_ix c.

(* every callback is either a non-concatenated PDU alone, or a complete
   concatenated delivery *)
Definition callback_ok (seen : list dsm) (p : dsm) (cb : callback) : Prop :=
  (hdr p = None /\ cb = [Some p]) \/
  (exists c, hdr p = Some c /\ delivery_ok seen (key_of p c) p cb).
