(* A declarative, set-style specification of reassembly for ONE message key,
   written without slot arrays: the segments accepted since the last delivery
   are kept as a list (most recent first); a delivery happens when their
   sequence numbers first cover 1..N and consists, for each i in 1..N, of the
   most recent accepted segment numbered i.  Definitions only. *)
From V Require Import Model.Combiner.
Open Scope N_scope.

Definition seq_of (p : dsm) : N := match hdr p with Some c => c_seq c | None => 0 end.
Definition total_of (p : dsm) : N := match hdr p with Some c => c_total c | None => 0 end.

(* the most recent arrival carrying sequence number i *)
Fixpoint latest (i : N) (a : list dsm) : option dsm :=
  match a with
  | [] => None
  | q :: r => if seq_of q =? i then Some q else latest i r
  end.

Definition numbers (n : nat) : list N := map (fun i => N.of_nat (S i)) (seq 0 n).   (* 1 .. n *)
Definition assemble (n : nat) (a : list dsm) : slots := map (fun i => latest i a) (numbers n).
Definition covers (n : nat) (a : list dsm) : bool :=
  forallb (fun i => match latest i a with Some _ => true | None => false end) (numbers n).

(* the message in progress has the total its first accepted segment announced
   (every accepted segment announces the same) *)
Definition total_in_progress (a : list dsm) (p : dsm) : N :=
  match a with [] => total_of p | q :: _ => total_of q end.
Definition well_numbered (a : list dsm) (p : dsm) : bool :=
  negb (seq_of p =? 0) && (seq_of p <=? total_of p) && (total_of p =? total_in_progress a p).

Definition espec_step (a : list dsm) (p : dsm) : list dsm * list callback :=
  if well_numbered a p then
    let a' := p :: a in
    let n := N.to_nat (total_of p) in
    if covers n a' then ([], [assemble n a']) else (a', [])
  else (a, []).
Fixpoint espec_run (a : list dsm) (h : list dsm) : list dsm * list (list callback) :=
  match h with
  | [] => (a, [])
  | p :: t =>
    let '(a1, o1) := espec_step a p in
    let '(a2, o2) := espec_run a1 t in (a2, o1 :: o2)
  end.
