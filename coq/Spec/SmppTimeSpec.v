(* SMPP v5 section 4.7.23.4 (absolute time format) and 4.7.23.5 (relative
   time format), written from the standard, independently of the model of
   pdu/time.go.

     "YYMMDDhhmmsstnnp"
       YY  last two digits of the year (00-99)     MM  month (01-12)
       DD  day (01-31)                              hh  hour (00-23)
       mm  minute (00-59)                           ss  second (00-59)
       t   tenths of second (0-9)
       nn  time difference in quarter hours between local time (as expressed
           in the first 13 octets) and UTC (00-48)
       p   "+" local time is in quarter hours advanced in relation to UTC,
           "-" local time is in quarter hours retarded in relation to UTC,
           "R" local time is relative to the current SMSC time (then nn = 00)

   [abs_fields] reads the sixteen positions; [valid_abs_time] says which
   strings are valid absolute times (a real calendar date of 2000..2099 is
   required, as property C20 says); [abs_denotes] is the value a valid string
   denotes: the instant (tenths of a second since 2000-01-01T00:00:00Z) whose
   local civil time in the zone is the one written, and the zone offset in
   signed quarter hours. *)
From V Require Export Model.Base Model.Civil.
Local Open Scope Z_scope.

Definition dig (c : N) : option Z :=
  if ((48 <=? c) && (c <=? 57))%N then Some (Z.of_N c - 48) else None.
Definition dig2 (a b : N) : option Z :=
  match dig a, dig b with Some x, Some y => Some (10 * x + y) | _, _ => None end.

Record tfields := {
  f_yy : Z; f_mo : Z; f_dd : Z; f_hh : Z; f_mi : Z; f_ss : Z; f_t : Z; f_nn : Z; f_p : N
}.

(* the sixteen fixed positions; None unless the first fifteen are decimal digits *)
Definition abs_fields (s : list N) : option tfields :=
  match s with
  | [y1; y2; m1; m2; d1; d2; h1; h2; i1; i2; s1; s2; t1; n1; n2; p] =>
    match dig2 y1 y2, dig2 m1 m2, dig2 d1 d2, dig2 h1 h2, dig2 i1 i2, dig2 s1 s2, dig t1, dig2 n1 n2 with
    | Some yy, Some mo, Some dd, Some hh, Some mi, Some ss, Some t, Some nn =>
      Some {| f_yy := yy; f_mo := mo; f_dd := dd; f_hh := hh; f_mi := mi; f_ss := ss;
              f_t := t; f_nn := nn; f_p := p |}
    | _, _, _, _, _, _, _, _ => None
    end
  | _ => None
  end.

Definition sym_plus : N := 43%N.    (* "+" *)
Definition sym_minus : N := 45%N.   (* "-" *)
Definition sym_R : N := 82%N.       (* "R" *)

Definition valid_abs_fields (f : tfields) : bool :=
  valid_date (2000 + f_yy f) (f_mo f) (f_dd f) &&
  (f_hh f <=? 23) && (f_mi f <=? 59) && (f_ss f <=? 59) && (f_nn f <=? 48) &&
  ((f_p f =? sym_plus) || (f_p f =? sym_minus))%N.

Definition valid_abs_time (s : list N) : bool :=
  match abs_fields s with Some f => valid_abs_fields f | None => false end.

(* the class of finding D29: nn = 00 written with the sign "-" *)
Definition neg_zero_offset (s : list N) : bool :=
  match abs_fields s with Some f => (f_nn f =? 0) && (f_p f =? sym_minus)%N | None => false end.

(* signed zone offset in quarter hours *)
Definition f_offset (f : tfields) : Z := if (f_p f =? sym_minus)%N then - f_nn f else f_nn f.

(* (instant, offset) a valid absolute time string denotes *)
Definition fields_denote (f : tfields) : Z * Z :=
  let local := days2000 (2000 + f_yy f) (f_mo f) (f_dd f) * 864000
               + f_hh f * 36000 + f_mi f * 600 + f_ss f * 10 + f_t f in
  (local - f_offset f * 9000, f_offset f).
Definition abs_denotes (s : list N) : option (Z * Z) :=
  match abs_fields s with
  | Some f => if valid_abs_fields f then Some (fields_denote f) else None
  | None => None
  end.

(* The instants the 16-character form can represent in zone q: local civil
   time in [2000-01-01T00:00:00.0, 2100-01-01T00:00:00.0) -- the two-digit
   year is the LOCAL year.  t in tenths since 2000-01-01T00:00Z, q in quarter
   hours. *)
Definition time_domain (t q : Z) : Prop :=
  -48 <= q <= 48 /\ 0 <= t + q * 9000 < days_2000_2099 * 864000.

(* relative period: same positions, nn = 00, p = "R"; the value is
   years of 8760 h, months of 720 h, days, hours, minutes, seconds, tenths.
   ([pdu.Duration] defines the year and month lengths; the standard leaves
   them to the SMSC.) *)
Definition valid_rel_fields (f : tfields) : bool :=
  (f_mo f <=? 12) && (f_dd f <=? 31) && (f_hh f <=? 23) && (f_mi f <=? 59) && (f_ss f <=? 59) &&
  (f_nn f =? 0) && (f_p f =? sym_R)%N.
Definition valid_rel_time (s : list N) : bool :=
  match abs_fields s with Some f => valid_rel_fields f | None => false end.
Definition rel_denotes (s : list N) : option Z :=
  match abs_fields s with
  | Some f => if valid_rel_fields f then
      Some (((((f_yy f * 8760 + f_mo f * 720 + f_dd f * 24 + f_hh f) * 60 + f_mi f) * 60 + f_ss f) * 10) + f_t f)
    else None
  | None => None
  end.
(* periods property C20 quantifies over: 1 s <= d < 100 * 8760 h, in tenths *)
Definition dur_domain (d : Z) : Prop := 10 <= d < 100 * 8760 * 36000.
