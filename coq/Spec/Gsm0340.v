(* GSM 03.40 (ETSI TS 100 901 v7.x) layout of SMS-DELIVER and SMS-SUBMIT, written
   from the standard and NOT from the Go code: abstract TPDU values, the octet
   string section 9.2.2 lays out for them, and the values the standard assigns.
   Arithmetic (div / mod / +) only — no function of Model/*.v is used here.

   Sources, cited at each definition:
     9.1.2.3  semi-octet representation        9.1.2.5  address fields
     9.2.2.1  SMS-DELIVER                      9.2.2.2  SMS-SUBMIT
     9.2.3.1..9.2.3.24 parameter definitions   (MTI, MMS, VPF, SRI, SRR, MR, OA, DA,
                                                PID, DCS, SCTS, VP, UDL, RP, UDHI, UD)
     GSM 03.38 section 4 (DCS -> alphabet), 6.1.2.1.1 (septet packing)
   The service-centre address in front of the TPDU is the RP address element of
   GSM 04.11 8.2.5.1/8.2.5.2 as GSM 07.05 PDU mode prints it: length in octets of
   what follows (type + BCD number), type-of-address, BCD semi-octets. *)
From V Require Export Model.Base.
Open Scope N_scope.

(* ------------------------------------------------------------------ 9.1.2.3 semi-octets *)
(* "each octet holds two digits: digit 1 in bits 3..0, digit 2 in bits 7..4; if the number
   of digits is odd, bits 7..4 of the last octet are filled with 1111" *)
Fixpoint semi_octets (digits : list N) : bytes :=
  match digits with
  | [] => []
  | [d] => [d + 16 * 15]
  | d1 :: d2 :: r => (d1 + 16 * d2) :: semi_octets r
  end.
(* a two-digit decimal value (time-stamp component): tens digit first *)
Definition semi2 (v : N) : N := v / 10 + 16 * (v mod 10).

(* ------------------------------------------------------------------ 9.1.2.5 address fields *)
Inductive addr_value :=
| Digits (ds : list N)          (* each 0..9 *)
| Alnum (septets : list N).     (* GSM 03.38 default alphabet codes, each < 128 *)
Record s_addr := { sa_ton : N; sa_npi : N; sa_val : addr_value }.

(* type-of-address octet: bit 7 = 1, bits 6..4 type-of-number, bits 3..0 numbering plan *)
Definition toa_octet (a : s_addr) : N := 128 + 16 * sa_ton a + sa_npi a.

(* GSM 03.38 6.1.2.1.1: septet i occupies bits 7i .. 7i+6 of the octet string read as one
   little-endian number; the unused bits of the last octet are 0 *)
Fixpoint septets_value (ss : list N) : N :=
  match ss with [] => 0 | s :: r => s + 128 * septets_value r end.
Fixpoint le_octets (n : nat) (v : N) : bytes :=
  match n with O => [] | S k => (v mod 256) :: le_octets k (v / 256) end.
Definition packed_len (nseptets : nat) : nat := ((7 * nseptets + 7) / 8)%nat.
Definition pack7 (ss : list N) : bytes := le_octets (packed_len (List.length ss)) (septets_value ss).

Definition nlen {A} (l : list A) : N := N.of_nat (List.length l).

(* TP address (TP-OA, TP-DA): Address-Length = number of useful semi-octets of the value,
   then type-of-address, then the value *)
Definition tp_addr (a : s_addr) : bytes :=
  match sa_val a with
  | Digits ds => nlen ds :: toa_octet a :: semi_octets ds
  | Alnum ss => ((7 * nlen ss + 3) / 4) :: toa_octet a :: pack7 ss
  end.
(* RP service-centre address: length in octets of type + number *)
Definition sc_addr (a : s_addr) : bytes :=
  match sa_val a with
  | Digits ds => (1 + nlen (semi_octets ds)) :: toa_octet a :: semi_octets ds
  | Alnum ss => (1 + nlen (pack7 ss)) :: toa_octet a :: pack7 ss
  end.

(* ------------------------------------------------------------------ 9.2.3.11 TP-SCTS *)
(* year, month, day, hour, minute, second, time zone in quarters of an hour; "bit 3 of the
   seventh octet represents the algebraic sign of the difference (0: positive, 1: negative)".
   The zone is relative to GMT: local = GMT + zone. *)
Record s_time := { t_yy : N; t_mo : N; t_dd : N; t_hh : N; t_mi : N; t_ss : N;
                   t_zneg : bool; t_zq : N }.
Definition scts (t : s_time) : bytes :=
  [semi2 (t_yy t); semi2 (t_mo t); semi2 (t_dd t); semi2 (t_hh t); semi2 (t_mi t); semi2 (t_ss t);
   semi2 (t_zq t) + (if t_zneg t then 8 else 0)].

Definition leap (yy : N) : bool := yy mod 4 =? 0.            (* 2000..2099: every fourth year, 2000 included *)
Definition days_in_month (yy mo : N) : N :=
  if mo =? 2 then (if leap yy then 29 else 28)
  else if (mo =? 4) || (mo =? 6) || (mo =? 9) || (mo =? 11) then 30 else 31.
Definition time_wf (t : s_time) : Prop :=
  t_yy t < 100 /\ 1 <= t_mo t <= 12 /\ 1 <= t_dd t <= days_in_month (t_yy t) (t_mo t) /\
  t_hh t < 24 /\ t_mi t < 60 /\ t_ss t < 60 /\ t_zq t < 80.   (* tens digit of the zone has three bits *)
(* the value: civil date and time 2000+yy, and the signed offset in quarter hours *)
Definition time_offset_q (t : s_time) : Z := if t_zneg t then (- Z.of_N (t_zq t))%Z else Z.of_N (t_zq t).

(* ------------------------------------------------------------------ 9.2.3.12 TP-VP *)
(* 9.2.3.12.1 relative format: one octet *)
Definition rel_seconds (v : N) : N :=
  if v <=? 143 then (v + 1) * 5 * 60                      (* (VP + 1) x 5 minutes, up to 12 hours *)
  else if v <=? 167 then 12 * 3600 + (v - 143) * 30 * 60   (* 12 hours + (VP - 143) x 30 minutes *)
  else if v <=? 196 then (v - 166) * 86400                 (* (VP - 166) x 1 day *)
  else (v - 192) * 7 * 86400.                              (* (VP - 192) x 1 week *)

(* 9.2.3.12.3 enhanced format: seven octets; functionality indicator: bit 7 extension (0),
   bit 6 single shot, bits 5..3 reserved, bits 2..0 validity period format *)
Inductive enh_format :=
| EnhNone                       (* 000: no validity period specified *)
| EnhRelative (v : N)           (* 001: as the relative format, in the next octet *)
| EnhSeconds (n : N)            (* 010: relative period as integer 0..255 seconds *)
| EnhHMS (hh mm ss : N).        (* 011: semi-octet hh:mm:ss in the next three octets *)
Record s_enh := { en_single_shot : bool; en_reserved : N (* bits 5..3 *); en_fmt : enh_format }.
Definition enh_code (f : enh_format) : N :=
  match f with EnhNone => 0 | EnhRelative _ => 1 | EnhSeconds _ => 2 | EnhHMS _ _ _ => 3 end.
Definition enh_indicator (e : s_enh) : N :=
  (if en_single_shot e then 64 else 0) + 8 * en_reserved e + enh_code (en_fmt e).
Definition enh_octets (e : s_enh) : bytes :=
  enh_indicator e ::
  match en_fmt e with
  | EnhNone => [0; 0; 0; 0; 0; 0]
  | EnhRelative v => [v; 0; 0; 0; 0; 0]
  | EnhSeconds n => [n; 0; 0; 0; 0; 0]
  | EnhHMS hh mm ss => [semi2 hh; semi2 mm; semi2 ss; 0; 0; 0]
  end.
Definition enh_seconds (e : s_enh) : N :=
  match en_fmt e with
  | EnhNone => 0 | EnhRelative v => rel_seconds v | EnhSeconds n => n
  | EnhHMS hh mm ss => hh * 3600 + mm * 60 + ss
  end.
Definition enh_wf (e : s_enh) : Prop :=
  en_reserved e < 8 /\
  match en_fmt e with
  | EnhNone => True | EnhRelative v => v < 256 | EnhSeconds n => n < 256
  | EnhHMS hh mm ss => hh < 100 /\ mm < 60 /\ ss < 60
  end.

Inductive s_validity := VpAbsent | VpRelative (v : N) | VpEnhanced (e : s_enh) | VpAbsolute (t : s_time).
(* 9.2.3.3 TP-VPF: 00 absent, 10 relative, 01 enhanced, 11 absolute *)
Definition vpf_bits (v : s_validity) : N :=
  match v with VpAbsent => 0 | VpEnhanced _ => 1 | VpRelative _ => 2 | VpAbsolute _ => 3 end.
Definition vp_octets (v : s_validity) : bytes :=
  match v with
  | VpAbsent => [] | VpRelative x => [x] | VpEnhanced e => enh_octets e | VpAbsolute t => scts t
  end.

(* ------------------------------------------------------------------ 9.2.3.16 / 9.2.3.24 TP-UDL, TP-UD *)
(* GSM 03.38 section 4: does TP-UDL count septets (default alphabet, uncompressed)? *)
Definition dcs_counts_septets (dcs : N) : bool :=
  let group := dcs / 16 in
  if group <? 4 then                                   (* 00xx general data coding *)
    if (dcs / 32) mod 2 =? 1 then false                (* compressed: octets *)
    else let a := (dcs / 4) mod 4 in (a =? 0) || (a =? 3)   (* default alphabet; reserved -> default *)
  else if group <? 12 then true                        (* reserved coding groups -> default alphabet *)
  else if group <? 14 then true                        (* 1100 / 1101 message waiting, default alphabet *)
  else if group =? 14 then false                       (* 1110 message waiting, UCS2 *)
  else (dcs / 4) mod 2 =? 0.                           (* 1111: bit 2 = 0 default alphabet, 1 = 8-bit data *)

Inductive s_userdata :=
| UdSeptets (ss : list N)       (* default alphabet: UDL = number of septets, packed as 03.38 6.1.2.1.1 *)
| UdOctets (os : bytes).        (* 8-bit data / UCS2 / compressed: UDL = number of octets *)
Definition ud_octets (u : s_userdata) : bytes := match u with UdSeptets ss => pack7 ss | UdOctets os => os end.
Definition udl (u : s_userdata) : N := match u with UdSeptets ss => nlen ss | UdOctets os => nlen os end.
Definition ud_wf (dcs : N) (u : s_userdata) : Prop :=
  match u with
  | UdSeptets ss => dcs_counts_septets dcs = true /\ Forall (fun s => s < 128) ss /\ nlen ss <= 160
  | UdOctets os => dcs_counts_septets dcs = false /\ Forall (fun b => b < 256) os /\ nlen os <= 140
  end.

(* ------------------------------------------------------------------ 9.2.2.1 SMS-DELIVER *)
Record s_deliver := {
  d_sc : s_addr;                 (* service-centre address (RP-OA) *)
  d_mms : bool;                  (* bit 2  TP-MMS *)
  d_bit3 : bool; d_bit4 : bool;  (* bits 3, 4: not used in SMS-DELIVER (any value) *)
  d_sri : bool;                  (* bit 5  TP-SRI *)
  d_udhi : bool;                 (* bit 6  TP-UDHI *)
  d_rp : bool;                   (* bit 7  TP-RP *)
  d_oa : s_addr; d_pid : N; d_dcs : N; d_scts : s_time; d_ud : s_userdata }.
Definition b2n (b : bool) : N := if b then 1 else 0.
Definition deliver_first_octet (t : s_deliver) : N :=     (* TP-MTI = 00 *)
  0 + 4 * b2n (d_mms t) + 8 * b2n (d_bit3 t) + 16 * b2n (d_bit4 t) + 32 * b2n (d_sri t)
  + 64 * b2n (d_udhi t) + 128 * b2n (d_rp t).
Definition layout_deliver (t : s_deliver) : bytes :=
  sc_addr (d_sc t) ++ deliver_first_octet t :: tp_addr (d_oa t) ++ d_pid t :: d_dcs t ::
  scts (d_scts t) ++ udl (d_ud t) :: ud_octets (d_ud t).

(* ------------------------------------------------------------------ 9.2.2.2 SMS-SUBMIT *)
Record s_submit := {
  s_rd : bool;                   (* bit 2  TP-RD *)
  s_srr : bool;                  (* bit 5  TP-SRR *)
  s_udhi : bool;                 (* bit 6  TP-UDHI *)
  s_rp : bool;                   (* bit 7  TP-RP *)
  s_mr : N; s_da : s_addr; s_pid : N; s_dcs : N; s_vp : s_validity; s_ud : s_userdata }.
Definition submit_first_octet (t : s_submit) : N :=       (* TP-MTI = 01, TP-VPF bits 4..3 *)
  1 + 4 * b2n (s_rd t) + 8 * vpf_bits (s_vp t) + 32 * b2n (s_srr t) + 64 * b2n (s_udhi t) + 128 * b2n (s_rp t).
(* no service-centre address: the RP address element is empty (length 0) *)
Definition layout_submit (t : s_submit) : bytes :=
  0 :: submit_first_octet t :: s_mr t :: tp_addr (s_da t) ++ s_pid t :: s_dcs t ::
  vp_octets (s_vp t) ++ udl (s_ud t) :: ud_octets (s_ud t).

(* ------------------------------------------------------------------ GSM 03.38 6.2.1: text in 7-bit codes *)
(* extension table (6.2.1.1): code after the escape code 0x1B -> Unicode code point *)
Definition ESCAPE : N := 27.
Definition gsm_extension : list (N * N) :=
  [(10, 12);      (* form feed *)
   (20, 94);      (* ^ *)
   (40, 123);     (* { *)
   (41, 125);     (* } *)
   (47, 92);      (* backslash *)
   (60, 91);      (* [ *)
   (61, 126);     (* ~ *)
   (62, 93);      (* ] *)
   (64, 124);     (* | *)
   (101, 8364)].  (* euro sign *)
Fixpoint ext_lookup (x : N) (l : list (N * N)) : option N :=
  match l with [] => None | (c, r) :: t => if c =? x then Some r else ext_lookup x t end.

(* a septet string is a text when every escape code is followed by a code of the extension table;
   every other code < 128 is a character of the default alphabet (CR included).  An extension
   character therefore counts as two septets. *)
Fixpoint valid_text (ss : list N) : bool :=
  match ss with
  | [] => true
  | s :: r =>
    if s =? ESCAPE then
      match r with
      | [] => false
      | x :: r' => match ext_lookup x gsm_extension with Some _ => valid_text r' | None => false end
      end
    else (s <? 128) && valid_text r
  end.

(* ------------------------------------------------------------------ well-formedness *)
Definition addr_wf (a : s_addr) : Prop :=
  sa_npi a < 16 /\ sa_ton a < 8 /\
  match sa_val a with
  | Digits ds => sa_ton a <> 5 /\ Forall (fun d => d < 10) ds /\ 1 <= nlen ds <= 20
  | Alnum ss => sa_ton a = 5 /\ valid_text ss = true /\ 1 <= nlen ss <= 11
  end.
Definition sc_wf (a : s_addr) : Prop :=
  addr_wf a /\ match sa_val a with Digits _ => True | Alnum _ => False end.

Definition vp_wf (v : s_validity) : Prop :=
  match v with
  | VpAbsent => True | VpRelative x => x < 256 | VpEnhanced e => enh_wf e | VpAbsolute t => time_wf t
  end.

Definition deliver_wf (t : s_deliver) : Prop :=
  sc_wf (d_sc t) /\ addr_wf (d_oa t) /\ d_pid t < 256 /\ d_dcs t < 256 /\ time_wf (d_scts t) /\
  ud_wf (d_dcs t) (d_ud t).
Definition submit_wf (t : s_submit) : Prop :=
  s_mr t < 256 /\ addr_wf (s_da t) /\ s_pid t < 256 /\ s_dcs t < 256 /\ vp_wf (s_vp t) /\
  ud_wf (s_dcs t) (s_ud t).

(* ------------------------------------------------------------------ GSM 03.38 6.2.1 default alphabet *)
(* Unicode code point of each 7-bit code; 0x1B is the escape to the extension table (no character: 0) *)
Definition gsm_default_alphabet : list N :=
  [ 64; 163;  36; 165; 232; 233; 249; 236; 242; 199;  10; 216; 248;  13; 197; 229;    (* @ £ $ ¥ è é ù ì ò Ç LF Ø ø CR Å å *)
   916;  95; 934; 915; 923; 937; 928; 936; 931; 920; 926;   0; 198; 230; 223; 201;    (* Δ _ Φ Γ Λ Ω Π Ψ Σ Θ Ξ ESC Æ æ ß É *)
    32;  33;  34;  35; 164;  37;  38;  39;  40;  41;  42;  43;  44;  45;  46;  47;    (* 0x20..0x2F as ASCII except 0x24 = currency sign U+00A4 *)
    48;  49;  50;  51;  52;  53;  54;  55;  56;  57;  58;  59;  60;  61;  62;  63;    (* 0..9 : ; < = > ? *)
   161;  65;  66;  67;  68;  69;  70;  71;  72;  73;  74;  75;  76;  77;  78;  79;    (* ¡ A..O *)
    80;  81;  82;  83;  84;  85;  86;  87;  88;  89;  90; 196; 214; 209; 220; 167;    (* P..Z Ä Ö Ñ Ü § *)
   191;  97;  98;  99; 100; 101; 102; 103; 104; 105; 106; 107; 108; 109; 110; 111;    (* ¿ a..o *)
   112; 113; 114; 115; 116; 117; 118; 119; 120; 121; 122; 228; 246; 241; 252; 224 ].  (* p..z ä ö ñ ü à *)
Definition gsm_char (s : N) : N := nth (N.to_nat s) gsm_default_alphabet 0.

(* the characters of a text (Unicode code points) *)
Fixpoint gsm_text (ss : list N) : list N :=
  match ss with
  | [] => []
  | s :: r =>
    if s =? ESCAPE then
      match r with
      | [] => []
      | x :: r' => match ext_lookup x gsm_extension with Some c => c :: gsm_text r' | None => gsm_text r' end
      end
    else gsm_char s :: gsm_text r
  end.
