(* ISO/IEC 8859 parts 1, 5 and 8 and ISO/IEC 646 IRV (US-ASCII), written from
   the code tables of the standards - NOT from golang.org/x/text.

   An 8-bit code of ISO/IEC 8859-n consists of
     - the C0 set and DELETE (ISO/IEC 6429 / ISO/IEC 646: octets 00-1F, 7F),
       coded characters U+0000-U+001F, U+007F at the identical octet;
     - G0 = the 94 graphic characters of ISO/IEC 646 IRV plus SPACE
       (octets 20-7E = U+0020-U+007E);
     - G1 = the part's own table, octets A0-FF (table 2 of each part);
     - octets 80-9F are reserved for a C1 set which ISO/IEC 8859 itself does
       not define.  When the C1 set of ISO/IEC 6429 is used U+0080-U+009F sit
       at the identical octet; an implementation may also leave them out.

   Each row below is (first octet, last octet, UCS code point of the first
   octet); the UCS values are those printed in the standard's table for the
   position.  tools/check_spec_tables.py compares the three G1 tables with
   Python's independent codecs at development time (not part of the check). *)
From V Require Import Model.Base Model.IntervalMap.
Open Scope N_scope.

Definition seg := (N * N * N)%type.

(* ISO/IEC 6429 C0 set + DELETE, and ISO/IEC 646:1991 IRV graphic characters *)
Definition c0_del : list seg := [ (0, 31, 0); (127, 127, 127) ].
Definition g0_646 : list seg := [ (32, 126, 32) ].

(* ISO/IEC 8859-1:1998 table 2: A0-FF are U+00A0-U+00FF *)
Definition g1_8859_1 : list seg := [ (160, 255, 160) ].

(* ISO/IEC 8859-5:1999 table 2 (Latin/Cyrillic) *)
Definition g1_8859_5 : list seg := [
  (160, 160, 160);      (* A0    NO-BREAK SPACE                               *)
  (161, 172, 1025);     (* A1-AC CYRILLIC CAPITAL IO .. KJE    U+0401-U+040C  *)
  (173, 173, 173);      (* AD    SOFT HYPHEN                                  *)
  (174, 175, 1038);     (* AE-AF CAPITAL SHORT U, DZHE         U+040E-U+040F  *)
  (176, 207, 1040);     (* B0-CF CAPITAL A .. YA               U+0410-U+042F  *)
  (208, 239, 1072);     (* D0-EF SMALL A .. YA                 U+0430-U+044F  *)
  (240, 240, 8470);     (* F0    NUMERO SIGN                   U+2116         *)
  (241, 252, 1105);     (* F1-FC SMALL IO .. KJE               U+0451-U+045C  *)
  (253, 253, 167);      (* FD    SECTION SIGN                  U+00A7         *)
  (254, 255, 1118)      (* FE-FF SMALL SHORT U, DZHE           U+045E-U+045F  *)
].

(* ISO/IEC 8859-8:1999 table 2 (Latin/Hebrew); A1, BF-DE, FB-FC and FF are not used *)
Definition g1_8859_8 : list seg := [
  (160, 160, 160);      (* A0    NO-BREAK SPACE                               *)
  (162, 169, 162);      (* A2-A9 CENT SIGN .. COPYRIGHT SIGN   U+00A2-U+00A9  *)
  (170, 170, 215);      (* AA    MULTIPLICATION SIGN           U+00D7         *)
  (171, 185, 171);      (* AB-B9 LEFT GUILLEMET .. SUPERSCRIPT ONE U+00AB-U+00B9 *)
  (186, 186, 247);      (* BA    DIVISION SIGN                 U+00F7         *)
  (187, 190, 187);      (* BB-BE RIGHT GUILLEMET .. THREE QUARTERS U+00BB-U+00BE *)
  (223, 223, 8215);     (* DF    DOUBLE LOW LINE               U+2017         *)
  (224, 250, 1488);     (* E0-FA HEBREW LETTER ALEF .. TAV     U+05D0-U+05EA  *)
  (253, 254, 8206)      (* FD-FE LEFT-TO-RIGHT MARK, RIGHT-TO-LEFT MARK U+200E-U+200F (1999 edition) *)
].

Inductive part := P1 | P5 | P8.
Definition g1 (p : part) : list seg :=
  match p with P1 => g1_8859_1 | P5 => g1_8859_5 | P8 => g1_8859_8 end.

Fixpoint seg_dec (l : list seg) (b : N) : option N :=
  match l with
  | [] => None
  | (lo, hi, u) :: t => if (lo <=? b) && (b <=? hi) then Some (u + (b - lo)) else seg_dec t b
  end.

(* the character coded at octet b in the mandatory part of the code (C0, DEL, G0, G1) *)
Definition spec_dec (p : part) (b : N) : option N := seg_dec (c0_del ++ g0_646 ++ g1 p) b.

Definition octets256 : list N := map N.of_nat (seq 0 256).

Definition opt_is (o : option N) (r : N) : bool := match o with Some x => x =? r | None => false end.

(* the octet at which character r is coded, if the part has it *)
Definition spec_enc (p : part) (r : N) : option N := find (fun b => opt_is (spec_dec p b) r) octets256.

Definition is_c1 (r : N) : bool := (128 <=? r) && (r <=? 159).

(* What a conforming encoder does with the one-character text r:
   Must b  - r is in the code: the octet is b;
   May b   - r is a C1 control: rejected, or coded at the identical octet b = r;
   Reject  - r is not in the code: an error, never a substitute. *)
Inductive verdict := Must (b : N) | May (b : N) | Reject.
Definition spec_class (p : part) (r : N) : verdict :=
  match spec_enc p r with
  | Some b => Must b
  | None => if is_c1 r then May r else Reject
  end.

Definition conforms (v : verdict) (o : option bytes) : Prop :=
  match v with
  | Must b => o = Some [b]
  | May b => o = None \/ o = Some [b]
  | Reject => o = None
  end.

(* the octet a conforming encoder may produce for r, if any *)
Definition spec_code (p : part) (r : N) : option N :=
  match spec_class p r with Must b => Some b | May b => Some b | Reject => None end.

(* the standard's encoding of a whole text over the mandatory repertoire *)
Fixpoint spec_encode (p : part) (rs : list N) : option bytes :=
  match rs with
  | [] => Some []
  | r :: t =>
      match spec_enc p r, spec_encode p t with
      | Some b, Some bs => Some (b :: bs)
      | _, _ => None
      end
  end.

(* US-ASCII / IA5 (ISO/IEC 646 IRV): U+0000-U+007F at the identical octet *)
Definition ascii_enc (r : N) : option N := if r <=? 127 then Some r else None.
