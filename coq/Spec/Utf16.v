(* UTF-16 big-endian without byte-order mark ("UCS-2" in SMPP), written from
   The Unicode Standard section 3.9 (D91, table 3-5) / RFC 2781 section 2 -
   NOT from golang.org/x/text.

   A scalar value below 0x10000 is one 16-bit code unit equal to it.  A scalar
   value U >= 0x10000 is the pair  0xD800 + (U - 0x10000) div 0x400,
   0xDC00 + (U - 0x10000) mod 0x400.  Big-endian serialisation writes the high
   octet of each unit first (section 3.10, D96 UTF-16BE). *)
From V Require Import Model.Base Model.IntervalMap.
From Coq Require Import ZifyN ZifyNat ZifyBool.
Open Scope N_scope.

Definition utf16_units (r : N) : list N :=
  if r <? 65536 then [r]
  else let u := r - 65536 in [55296 + u / 1024; 56320 + u mod 1024].

Definition utf16be (r : N) : bytes := flat_map be16 (utf16_units r).

Definition utf16be_text (rs : list N) : bytes := flat_map utf16be rs.

(* decoding: code units from octet pairs, then scalar values from units;
   None for an odd number of octets or an unpaired surrogate (ill-formed) *)
Fixpoint units_of_bytes (bs : bytes) : option (list N) :=
  match bs with
  | [] => Some []
  | a :: b :: t => option_map (cons (a * 256 + b)) (units_of_bytes t)
  | [_] => None
  end.

Definition is_high (u : N) : bool := (55296 <=? u) && (u <? 56320).
Definition is_low (u : N) : bool := (56320 <=? u) && (u <? 57344).

Fixpoint scalars_of_units (us : list N) : option (list N) :=
  match us with
  | [] => Some []
  | u :: t =>
      if is_high u then
        match t with
        | l :: t' =>
            if is_low l
            then option_map (cons (65536 + (u - 55296) * 1024 + (l - 56320))) (scalars_of_units t')
            else None
        | [] => None
        end
      else if is_low u then None
      else option_map (cons u) (scalars_of_units t)
  end.

Definition utf16be_decode (bs : bytes) : option (list N) :=
  match units_of_bytes bs with
  | Some us => scalars_of_units us
  | None => None
  end.
