(* SMPP v5.0 (SMS Forum, 19 February 2003) section 4: the wire layout of every
   operation, transcribed from the specification's syntax tables — NOT from the
   Go structs.  Each entry cites its table.  Executable: [spec_frame] lays a PDU
   out from spec-level values. *)
From V Require Export Model.Base.
Open Scope N_scope.
Open Scope string_scope.

(* parameter kinds of section 3.1 / the syntax tables *)
Inductive sparam :=
| PCStr (max : N)   (* C-Octet String: ASCII octets terminated by NUL, at most [max] octets including the NUL *)
| PInt1             (* Integer, 1 octet *)
| PDests            (* number_of_dests (1) then that many dest_address entries: dest_flag 1 = SME address (ton, npi, C-string), 2 = distribution list name (C-string) — table 4-18/4-20/4-21 *)
| PUnsucc           (* no_unsuccess (1) then that many unsuccess_sme: ton, npi, C-string, error_status_code (Integer, 4) — table 4-19 *)
| PShort            (* sm_length (Integer, 1) then short_message (Octet String of sm_length octets) — 4.7.28 / 4.7.26 *)
| PTlvs.            (* optional parameters to the end of the PDU: tag (2), length (2), value — section 4.8.1, in any order *)

Definition op : Type := N * string * list (string * sparam).

Notation "a +++ b" := (@List.app (string * sparam) a b) (right associativity, at level 60).
Definition addr3 (p : string) (max : N) : list (string * sparam) :=
  [(p ++ "_ton", PInt1); (p ++ "_npi", PInt1); (p, PCStr max)].

Definition bind_body : list (string * sparam) :=
  [("system_id", PCStr 16); ("password", PCStr 9); ("system_type", PCStr 13); ("interface_version", PInt1);
   ("addr_ton", PInt1); ("addr_npi", PInt1); ("address_range", PCStr 41)].
Definition bind_resp_body : list (string * sparam) := [("system_id", PCStr 16); ("tlvs", PTlvs)].

Definition sm_body (tlvs : bool) : list (string * sparam) :=   (* submit_sm / deliver_sm, tables 4-14 and 4-22 *)
  [("service_type", PCStr 6)] +++ addr3 "source_addr" 21 +++
  [("dest_addr_ton", PInt1); ("dest_addr_npi", PInt1); ("destination_addr", PCStr 21);
   ("esm_class", PInt1); ("protocol_id", PInt1); ("priority_flag", PInt1);
   ("schedule_delivery_time", PCStr 17); ("validity_period", PCStr 17);
   ("registered_delivery", PInt1); ("replace_if_present_flag", PInt1);
   ("data_coding", PInt1); ("sm_default_msg_id", PInt1); ("short_message", PShort); ("tlvs", PTlvs)].

Definition smpp5_ops : list op := [
  (1,   "bind_receiver", bind_body);                                   (* table 4-3 *)
  (2,   "bind_transmitter", bind_body);                                (* table 4-1 *)
  (3,   "query_sm", [("message_id", PCStr 65)] +++ addr3 "source_addr" 21);   (* table 4-32 *)
  (4,   "submit_sm", sm_body true);                                    (* table 4-14 *)
  (5,   "deliver_sm", sm_body true);                                   (* table 4-22 *)
  (6,   "unbind", []);                                                 (* table 4-8 *)
  (7,   "replace_sm", [("message_id", PCStr 65)] +++ addr3 "source_addr" 21 +++     (* table 4-34 *)
          [("schedule_delivery_time", PCStr 17); ("validity_period", PCStr 17); ("registered_delivery", PInt1);
           ("sm_default_msg_id", PInt1); ("short_message", PShort); ("tlvs", PTlvs)]);
  (8,   "cancel_sm", [("service_type", PCStr 6); ("message_id", PCStr 65)] +++ addr3 "source_addr" 21 +++   (* table 4-30 *)
          [("dest_addr_ton", PInt1); ("dest_addr_npi", PInt1); ("destination_addr", PCStr 21)]);
  (9,   "bind_transceiver", bind_body);                                (* table 4-5 *)
  (11,  "outbind", [("system_id", PCStr 16); ("password", PCStr 9)]);  (* table 4-7 *)
  (21,  "enquire_link", []);                                           (* table 4-10 *)
  (33,  "submit_multi", [("service_type", PCStr 6)] +++ addr3 "source_addr" 21 +++    (* table 4-18 *)
          [("dest_address", PDests);
           ("esm_class", PInt1); ("protocol_id", PInt1); ("priority_flag", PInt1);
           ("schedule_delivery_time", PCStr 17); ("validity_period", PCStr 17);
           ("registered_delivery", PInt1); ("replace_if_present_flag", PInt1);
           ("data_coding", PInt1); ("sm_default_msg_id", PInt1); ("short_message", PShort); ("tlvs", PTlvs)]);
  (258, "alert_notification", addr3 "source_addr" 65 +++ addr3 "esme_addr" 65 +++ [("tlvs", PTlvs)]);   (* table 4-12 *)
  (259, "data_sm", [("service_type", PCStr 6)] +++ addr3 "source_addr" 65 +++                           (* table 4-16 *)
          [("dest_addr_ton", PInt1); ("dest_addr_npi", PInt1); ("destination_addr", PCStr 65);
           ("esm_class", PInt1); ("registered_delivery", PInt1); ("data_coding", PInt1); ("tlvs", PTlvs)]);
  (273, "query_broadcast_sm", [("message_id", PCStr 65)] +++ addr3 "source_addr" 21 +++ [("tlvs", PTlvs)]);   (* table 4-37 *)
  (274, "broadcast_sm", [("service_type", PCStr 6)] +++ addr3 "source_addr" 21 +++                      (* table 4-26 *)
          [("message_id", PCStr 65); ("priority_flag", PInt1);
           ("schedule_delivery_time", PCStr 17); ("validity_period", PCStr 17);
           ("replace_if_present_flag", PInt1); ("data_coding", PInt1); ("sm_default_msg_id", PInt1); ("tlvs", PTlvs)]);
  (275, "cancel_broadcast_sm", [("service_type", PCStr 6); ("message_id", PCStr 65)] +++ addr3 "source_addr" 21 +++ [("tlvs", PTlvs)]);  (* table 4-40 *)
  (2147483648, "generic_nack", []);                                    (* table 4-13 *)
  (2147483649, "bind_receiver_resp", bind_resp_body);                  (* table 4-4 *)
  (2147483650, "bind_transmitter_resp", bind_resp_body);               (* table 4-2 *)
  (2147483651, "query_sm_resp", [("message_id", PCStr 65); ("final_date", PCStr 17); ("message_state", PInt1); ("error_code", PInt1)]);  (* table 4-33 *)
  (2147483652, "submit_sm_resp", [("message_id", PCStr 65); ("tlvs", PTlvs)]);     (* table 4-15 *)
  (2147483653, "deliver_sm_resp", [("message_id", PCStr 65); ("tlvs", PTlvs)]);    (* table 4-23 *)
  (2147483654, "unbind_resp", []);                                     (* table 4-9 *)
  (2147483655, "replace_sm_resp", []);                                 (* table 4-35 *)
  (2147483656, "cancel_sm_resp", []);                                  (* table 4-31 *)
  (2147483657, "bind_transceiver_resp", bind_resp_body);               (* table 4-6 *)
  (2147483669, "enquire_link_resp", []);                               (* table 4-11 *)
  (2147483681, "submit_multi_resp", [("message_id", PCStr 65); ("unsuccess_sme", PUnsucc); ("tlvs", PTlvs)]);   (* table 4-19 *)
  (2147483907, "data_sm_resp", [("message_id", PCStr 65); ("tlvs", PTlvs)]);       (* table 4-17 *)
  (2147483921, "query_broadcast_sm_resp", [("message_id", PCStr 65); ("tlvs", PTlvs)]);   (* table 4-39: message_state, broadcast_area_identifier, broadcast_area_success are TLVs *)
  (2147483922, "broadcast_sm_resp", [("message_id", PCStr 65); ("tlvs", PTlvs)]);  (* table 4-27 *)
  (2147483923, "cancel_broadcast_sm_resp", [])                         (* table 4-41 *)
].

Close Scope string_scope.

(* SMPP v5.0 section 4.7.5, table 4-42 "command_id values": the operations of the protocol, transcribed a second
   time and independently of [smpp5_ops] (requests 0x000000xx, responses 0x800000xx; the values the table marks
   "reserved" are not operations).  The registry of the implementation must be exactly this set. *)
Definition spec_command_ids : list N := [
  0x00000001; 0x00000002; 0x00000003; 0x00000004; 0x00000005; 0x00000006; 0x00000007; 0x00000008; 0x00000009;
  0x0000000B; 0x00000015; 0x00000021; 0x00000102; 0x00000103; 0x00000111; 0x00000112; 0x00000113;
  0x80000000; 0x80000001; 0x80000002; 0x80000003; 0x80000004; 0x80000005; 0x80000006; 0x80000007; 0x80000008;
  0x80000009; 0x80000015; 0x80000021; 0x80000103; 0x80000111; 0x80000112; 0x80000113 ].
(* a response carries the id of its request with bit 31 set; generic_nack (0x80000000) answers nothing in particular *)
Definition resp_id (req : N) : N := req + 0x80000000.

(* Which operations the user-data-header indicator applies to, and which carry a short message without a data_coding —
   read off the syntax tables above (NOT off the code): the UDH indicator (esm_class bit 6, section 4.7.12) governs the
   short_message of an operation that has both parameters (submit_sm, deliver_sm, submit_multi; data_sm has esm_class but no
   short_message; replace_sm has short_message but neither esm_class nor data_coding). *)
Definition op_has_name (o : op) (n : string) : bool := existsb (fun p => String.eqb (fst p) n) (snd o).
Definition op_has_short (o : op) : bool := existsb (fun p => match snd p with PShort => true | _ => false end) (snd o).
Fixpoint find_op0 (ops : list op) (id : N) : option op :=
  match ops with [] => None | o :: r => if fst (fst o) =? id then Some o else find_op0 r id end.
Definition spec_has_udhi (id : N) : bool :=
  match find_op0 smpp5_ops id with Some o => op_has_name o "esm_class" && op_has_short o | None => false end.
Definition spec_is_replace (id : N) : bool :=
  match find_op0 smpp5_ops id with Some o => op_has_short o && negb (op_has_name o "data_coding") | None => false end.

Fixpoint find_op (ops : list op) (id : N) : option op :=
  match ops with
  | [] => None
  | o :: r => if fst (fst o) =? id then Some o else find_op r id
  end.

(* ------------------------------------------------------------ spec values *)
Record saddr := { s_ton : N; s_npi : N; s_addr : bytes }.
Inductive sdest := DSme (a : saddr) | DList (name : bytes).
Inductive sval :=
| SStr (s : bytes)
| SInt (n : N)
| SDests (l : list sdest)              (* in transmission order *)
| SUnsucc (l : list (saddr * N))
| SShort (octets : bytes)              (* the octets sm_length counts: user data header (if any) and message *)
| STlvs (l : list (N * bytes)).        (* in transmission order *)

(* big-endian integer of k octets (section 3.1: "MSB first") *)
Fixpoint be (k : nat) (n : N) : bytes :=
  match k with O => [] | S k' => be k' (n / 256) ++ [n mod 256] end.

Definition nul_free (s : bytes) : bool := forallb (fun b => negb (b =? 0) && (b <? 256)) s.
Definition slen (s : bytes) : N := N.of_nat (List.length s).

Definition lay_cstr (s : bytes) : option bytes := if nul_free s then Some (s ++ [0]) else None.
Definition lay_saddr (a : saddr) : option bytes :=
  if (s_ton a <? 256) && (s_npi a <? 256) then
    match lay_cstr (s_addr a) with Some c => Some ([s_ton a; s_npi a] ++ c) | None => None end
  else None.

Fixpoint lay_all {A} (f : A -> option bytes) (l : list A) : option bytes :=
  match l with
  | [] => Some []
  | x :: r => match f x, lay_all f r with Some a, Some b => Some (a ++ b) | _, _ => None end
  end.

Definition lay_dest (d : sdest) : option bytes :=
  match d with
  | DSme a => match lay_saddr a with Some b => Some (1 :: b) | None => None end      (* dest_flag = 1 *)
  | DList n => match lay_cstr n with Some b => Some (2 :: b) | None => None end      (* dest_flag = 2 *)
  end.
Definition lay_unsucc (e : saddr * N) : option bytes :=
  if snd e <? 4294967296 then
    match lay_saddr (fst e) with Some b => Some (b ++ be 4 (snd e)) | None => None end
  else None.
Definition lay_tlv (e : N * bytes) : option bytes :=
  if (fst e <? 65536) && (slen (snd e) <? 65536) then Some (be 2 (fst e) ++ be 2 (slen (snd e)) ++ snd e) else None.

(* one parameter laid out from its value; None = the value cannot be expressed in the field *)
Definition lay_param (p : sparam) (v : sval) : option bytes :=
  match p, v with
  | PCStr _, SStr s => lay_cstr s
  | PInt1, SInt n => if n <? 256 then Some [n] else None
  | PDests, SDests l =>
    if N.of_nat (List.length l) <=? 255
    then match lay_all lay_dest l with Some b => Some (N.of_nat (List.length l) :: b) | None => None end else None
  | PUnsucc, SUnsucc l =>
    if N.of_nat (List.length l) <=? 255
    then match lay_all lay_unsucc l with Some b => Some (N.of_nat (List.length l) :: b) | None => None end else None
  | PShort, SShort o => if slen o <=? 255 then Some (slen o :: o) else None
  | PTlvs, STlvs l => lay_all lay_tlv l
  | _, _ => None
  end.

Fixpoint lay_params (ps : list sparam) (vs : list sval) : option bytes :=
  match ps, vs with
  | [], [] => Some []
  | p :: ps', v :: vs' => match lay_param p v, lay_params ps' vs' with Some a, Some b => Some (a ++ b) | _, _ => None end
  | _, _ => None
  end.

(* section 4.7.4-4.7.6, 4.7.24: the 16-octet header, command_length = whole PDU *)
Definition spec_frame (id status seq : N) (body : bytes) : bytes :=
  be 4 (16 + slen body) ++ be 4 id ++ be 4 status ++ be 4 seq ++ body.
