(* C19 (audit D3): sms.Marshal WRITES into its argument: flags.ValidityPeriodFormat = validityPeriodFormat for every
   field of type SubmitFlags, nothing else.  [arg_after] is the packet after the call.  What Marshal may change:
     - nothing a second Marshal can observe: Marshal of the packet after the call writes the same octets (any packet);
     - nothing at all in a structure Unmarshal returned for a well-formed SMS-DELIVER / SMS-SUBMIT. *)
From V Require Import Model.TpduRun Spec.Gsm0340 Proofs.SmsOctetTables Proofs.TpduRoundtrip.
From Coq Require Import ZifyN ZifyNat ZifyBool.
Open Scope N_scope.
Local Open Scope string_scope.

Definition field_after (vpf : N) (f : tfield) (v : tval) : tval :=
  match f_ekind f, v with
  | KFlags fs, TVFlags vals =>
    if String.eqb (fs_name fs) "SubmitFlags" then TVFlags (flag_put (fs_fields fs) vals "ValidityPeriodFormat" vpf) else v
  | _, _ => v
  end.
Fixpoint fields_after (vpf : N) (fs : list tfield) (vs : list tval) : list tval :=
  match fs, vs with
  | f :: fr, v :: vr => field_after vpf f v :: fields_after vpf fr vr
  | _, _ => vs
  end.
Definition arg_after (E : env) (p : tpdu) : tpdu :=
  let '(name, vs) := p in
  match find_layout (e_layouts E) name with
  | None => p
  | Some l => (name, fields_after (vpf_scan (tl_fields l) vs 0) (tl_fields l) vs)
  end.

Lemma flag_put_idem fields : forall vals n x, flag_put fields (flag_put fields vals n x) n x = flag_put fields vals n x.
Proof.
  induction fields as [|[m k] r IH]; intros [|v vs] n x; cbn [flag_put]; try reflexivity.
  rewrite IH. destruct (String.eqb m n); reflexivity.
Qed.
Lemma field_write_after g vpf dcs f v : field_write g vpf dcs f (field_after vpf f v) = field_write g vpf dcs f v.
Proof.
  unfold field_after, field_write. destruct (f_ekind f) as [|fs| | | | | |]; try reflexivity.
  destruct v; try reflexivity. destruct (String.eqb (fs_name fs) "SubmitFlags") eqn:E; [|reflexivity].
  cbn. rewrite ?E. cbn. rewrite flag_put_idem. reflexivity.
Qed.
Lemma dcs_after_after vpf dcs f v : dcs_after dcs f (field_after vpf f v) = dcs_after dcs f v.
Proof.
  unfold field_after, dcs_after. destruct (f_ekind f) as [|fs| | | | | |]; reflexivity.
Qed.
Lemma fields_write_after g vpf : forall fs vs dcs,
  fields_write g vpf dcs fs (fields_after vpf fs vs) = fields_write g vpf dcs fs vs.
Proof.
  induction fs as [|f fr IH]; intros [|v vr] dcs; cbn [fields_after fields_write]; try reflexivity.
  rewrite field_write_after, dcs_after_after, IH. reflexivity.
Qed.
Lemma vpf_scan_after x : forall fs vs acc, vpf_scan fs (fields_after x fs vs) acc = vpf_scan fs vs acc.
Proof.
  induction fs as [|f fr IH]; intros [|v vr] acc; cbn [fields_after vpf_scan]; try reflexivity.
  rewrite IH. f_equal. unfold field_after. destruct (f_ekind f) as [|fs| | | | | |]; reflexivity.
Qed.

(* a second Marshal cannot see what the first one wrote into the packet: any environment, any packet *)
Theorem marshal_after_marshal E p : marshal E (arg_after E p) = marshal E p.
Proof.
  destruct p as [name vs]. unfold arg_after, marshal. destruct (find_layout (e_layouts E) name) as [l|] eqn:El.
  - rewrite El, vpf_scan_after. apply fields_write_after.
  - rewrite El. reflexivity.
Qed.
Corollary sms_marshal_twice p : sms_marshal (arg_after sms_env p) = sms_marshal p.
Proof. apply marshal_after_marshal. Qed.

(* a structure decoded from a well-formed TPDU is not changed at all *)
Theorem deliver_arg_unchanged t : arg_after sms_env ("Deliver", deliver_vals t) = ("Deliver", deliver_vals t).
Proof.
  unfold arg_after. change (e_layouts sms_env) with tpdu_layouts. rewrite find_deliver. reflexivity.
Qed.
Theorem submit_arg_unchanged t : arg_after sms_env ("Submit", submit_vals_list t) = ("Submit", submit_vals_list t).
Proof.
  unfold arg_after. change (e_layouts sms_env) with tpdu_layouts. rewrite find_submit.
  cbn [tl_fields]. unfold submit_vals_list. rewrite submit_vpf_scan, vpf_of_vp_val.
  unfold submit_fields. cbn [fields_after field_after f_ekind fs_name fs_SubmitFlags String.eqb Ascii.eqb Bool.eqb].
  do 2 f_equal. f_equal. fold SF.
  unfold submit_first_octet. destruct (s_rd t), (s_srr t), (s_udhi t), (s_rp t), (s_vp t); vm_compute; reflexivity.
Qed.
(* content: for other values Marshal does change the packet - a SUBMIT-REPORT whose first octet has TP-VPF bits set comes
   back from Unmarshal with ValidityPeriodFormat = 3 and leaves Marshal with 0 *)
Lemma marshal_changes_submit_report :
  exists p, sms_unmarshal (hx "019119000000000000000000") = Ok p /\ arg_after sms_env p <> p.
Proof. eexists. split; [vm_compute; reflexivity|]. vm_compute. congruence. Qed.

(* case form: the implementation decoded [bs], marshalled the structure and then read the structure back as [ovs] *)
Definition sms_arg_after_is (bs : bytes) (name : string) (ovs : list oval) : bool :=
  match sms_unmarshal bs with
  | Ok p => let '(n, vs) := arg_after sms_env p in String.eqb n name && ovals_eqb vs ovs
  | _ => false
  end.
