(* Reader independence of the primitives sms.Unmarshal decodes with (Model/TpduReader.v): on a bufio.Reader
   over a reader that hands out the octets in pieces of ANY sizes, ReadByte, readFull, Peek and Discard return
   what the list primitives of Model/Tpdu.v return on the octets still to come, and leave a reader whose
   octets still to come are the list's rest. *)
From V Require Import Model.TpduReader.
From Coq Require Import ZifyN ZifyNat ZifyBool Lia.
Open Scope N_scope.

Definition inv (b : breader) : Prop :=
  (b_err b = true -> s_data (b_src b) = []) /\ (List.length (b_buf b) <= bufsize)%nat.

Lemma src_read_spec room s :
  (0 < room)%nat ->
  let '(got, eof, s') := src_read room s in
  got ++ s_data s' = s_data s /\ (eof = true -> s_data s' = []) /\
  (s_data s <> [] -> got <> []) /\ (s_data s = [] -> eof = true /\ got = []) /\ (List.length got <= room)%nat.
Proof.
  intros Hr. unfold src_read. destruct (s_data s) as [|x l] eqn:E.
  - cbn. rewrite E. repeat split; auto; try congruence. lia.
  - set (c := match s_sched s with [] => 1%nat | c :: _ => Nat.max 1 c end).
    assert (Hc : (1 <= c)%nat) by (unfold c; destruct (s_sched s); lia).
    set (k := Nat.min room c). assert (Hk : (1 <= k)%nat) by lia.
    cbn [s_data]. split; [apply firstn_skipn|]. split.
    + destruct (skipn k (x :: l)); [reflexivity|discriminate].
    + split; [|split; [discriminate|]].
      * intros _. destruct k; [lia|]. cbn. discriminate.
      * rewrite firstn_length. lia.
Qed.

Lemma fill_spec b :
  inv b -> (List.length (b_buf b) < bufsize)%nat ->
  content (fill b) = content b /\ inv (fill b) /\
  (exists got, b_buf (fill b) = b_buf b ++ got /\ (got = [] -> b_err (fill b) = true)).
Proof.
  intros [Hi Hl] Hlt. unfold fill.
  pose proof (src_read_spec (bufsize - List.length (b_buf b)) (b_src b) ltac:(lia)) as H.
  destruct (src_read (bufsize - List.length (b_buf b)) (b_src b)) as [[got eof] s'].
  destruct H as [H1 [H2 [H3 [H4 H5]]]]. unfold content, inv. cbn [b_buf b_err b_src].
  split; [rewrite <- app_assoc, H1; reflexivity|]. split.
  - split; [exact H2|]. rewrite app_length. lia.
  - exists got. split; [reflexivity|]. intros ->.
    destruct (s_data (b_src b)) eqn:E; [apply H4; reflexivity|]. exfalso. apply H3; [congruence|reflexivity].
Qed.

(* ---- ReadByte *)
Theorem read_byte_independent b : inv b ->
  match read_byte (content b) with
  | Ok (x, rest) => exists b', br_read_byte b = Ok (x, b') /\ content b' = rest /\ inv b'
  | Err _ => br_read_byte b = Err EEOF
  | Panic => False
  end.
Proof.
  intros Hinv. unfold br_read_byte, content. destruct (b_buf b) as [|x r] eqn:Eb.
  - cbn [app]. destruct (b_err b) eqn:Ee.
    + destruct Hinv as [Hi _]. rewrite (Hi Ee). reflexivity.
    + destruct (fill_spec b Hinv) as [Hc [Hinv' [got [Hg Hge]]]]; [rewrite Eb; cbn; unfold bufsize; lia|].
      unfold content in Hc. rewrite Eb in Hc, Hg. cbn [app] in Hc, Hg. rewrite <- Hc.
      destruct (b_buf (fill b)) as [|y l] eqn:Ef.
      * destruct Hinv' as [Hi' _]. rewrite Hi'; [reflexivity|]. apply Hge. congruence.
      * cbn. exists (set_buf (fill b) l). split; [reflexivity|]. split; [reflexivity|].
        destruct Hinv' as [Hi' Hl']. split; [exact Hi'|]. cbn. rewrite Ef in Hl'. cbn in Hl'. lia.
  - cbn. exists (set_buf b r). split; [reflexivity|]. split; [reflexivity|].
    destruct Hinv as [Hi Hl]. split; [exact Hi|]. cbn. rewrite Eb in Hl. cbn in Hl. lia.
Qed.

(* ---- one Read: progress and content *)
Lemma take_spec n (l data : bytes) : l <> [] -> (0 < n)%nat ->
  firstn n l <> [] /\ firstn n l = firstn (List.length (firstn n l)) (l ++ data) /\
  skipn n l ++ data = skipn (List.length (firstn n l)) (l ++ data) /\ (List.length (firstn n l) <= n)%nat.
Proof.
  intros Hl Hn. rewrite firstn_length.
  split; [destruct l; [congruence|]; destruct n; [lia|cbn; discriminate]|].
  destruct (Nat.le_ge_cases n (List.length l)) as [H|H].
  - replace (Nat.min n (List.length l)) with n by lia.
    split; [rewrite firstn_app; replace (n - List.length l)%nat with 0%nat by lia; cbn; rewrite app_nil_r; reflexivity|].
    split; [rewrite skipn_app; replace (n - List.length l)%nat with 0%nat by lia; reflexivity|lia].
  - replace (Nat.min n (List.length l)) with (List.length l) by lia.
    rewrite (firstn_all2 l) by lia. rewrite (skipn_all2 l) by lia.
    split; [rewrite firstn_app, firstn_all, Nat.sub_diag; cbn; rewrite app_nil_r; reflexivity|].
    split; [rewrite skipn_app, skipn_all, Nat.sub_diag; reflexivity|lia].
Qed.

Lemma br_read_spec n b : inv b -> (0 < n)%nat ->
  let '(got, eof, b') := br_read n b in
  inv b' /\
  (eof = true -> got = [] /\ content b = [] /\ content b' = []) /\
  (eof = false -> got <> [] /\ got = firstn (List.length got) (content b) /\ content b' = skipn (List.length got) (content b) /\
                  (List.length got <= n)%nat).
Proof.
  intros Hinv Hn. unfold br_read. destruct (b_buf b) as [|x r] eqn:Eb.
  - destruct (b_err b) eqn:Ee.
    + destruct Hinv as [Hi Hl]. split; [split; [discriminate|cbn; rewrite Eb; cbn; lia]|].
      split; [|discriminate]. intros _. unfold content. cbn. rewrite Eb, (Hi Ee). auto.
    + destruct (fill_spec b Hinv) as [Hc [Hinv' [got [Hg Hge]]]]; [rewrite Eb; cbn; unfold bufsize; lia|].
      destruct (b_buf (fill b)) as [|y l] eqn:Ef.
      * destruct Hinv' as [Hi' Hl']. split; [split; [discriminate|cbn; rewrite Ef; cbn; lia]|].
        split; [|discriminate]. intros _. rewrite <- Hc. unfold content. cbn. rewrite Ef.
        rewrite Hi'; [auto|]. apply Hge. rewrite Eb in Hg. cbn in Hg. congruence.
      * destruct Hinv' as [Hi' Hl']. split.
        { split; [exact Hi'|]. cbn [set_buf b_buf]. rewrite skipn_length. rewrite Ef in Hl'. lia. }
        split; [discriminate|]. intros _. rewrite <- Hc. unfold content. rewrite Ef. cbn [set_buf b_buf b_src].
        apply take_spec; [discriminate|exact Hn].
  - destruct Hinv as [Hi Hl]. split.
    { split; [exact Hi|]. cbn [set_buf b_buf]. rewrite skipn_length. rewrite Eb in Hl. lia. }
    split; [discriminate|]. intros _. unfold content. rewrite Eb. cbn [set_buf b_buf b_src].
    apply take_spec; [discriminate|exact Hn].
Qed.

(* ---- readFull *)
Lemma firstn_add {A} a b (l : list A) : firstn (a + b) l = firstn a l ++ firstn b (skipn a l).
Proof.
  revert l. induction a as [|a IH]; intros l; [reflexivity|]. destruct l as [|x l]; cbn.
  - destruct b; reflexivity.
  - rewrite IH. reflexivity.
Qed.
Lemma skipn_add {A} a b (l : list A) : skipn b (skipn a l) = skipn (a + b) l.
Proof.
  revert l. induction a as [|a IH]; intros l; [reflexivity|]. destruct l as [|x l]; cbn.
  - destruct b; reflexivity.
  - apply IH.
Qed.

Lemma read_full_loop_spec fuel : forall need acc b,
  inv b -> (need < fuel)%nat -> (0 < need)%nat ->
  (content b = [] -> acc = [] -> br_read_full_loop fuel need acc b = Err EEOF) /\
  (content b <> [] \/ acc <> [] ->
   exists b', br_read_full_loop fuel need acc b =
                Ok (acc ++ firstn need (content b) ++ repeat 0 (need - List.length (content b)), b') /\
              content b' = skipn need (content b) /\ inv b').
Proof.
  induction fuel as [|f IH]; intros need acc b Hinv Hf Hn; [lia|].
  destruct need as [|m]; [lia|]. cbn [br_read_full_loop].
  pose proof (br_read_spec (S m) b Hinv ltac:(lia)) as Hr.
  destruct (br_read (S m) b) as [[got eof] b1]. destruct Hr as [Hinv1 [Ht Hfalse]].
  destruct eof.
  - destruct (Ht eq_refl) as [-> [Hc Hc1]]. split.
    + intros _ ->. reflexivity.
    + intros [Hne|Hacc]; [congruence|]. destruct acc as [|a0 acc']; [congruence|].
      exists b1. rewrite Hc. cbn [firstn List.length app]. rewrite Nat.sub_0_r. split; [reflexivity|].
      split; [rewrite Hc1; destruct m; reflexivity|exact Hinv1].
  - destruct (Hfalse eq_refl) as [Hg [Hgot [Hc1 Hle]]]. clear Ht Hfalse.
    set (k := List.length got) in *.
    assert (Hk1 : (1 <= k)%nat) by (destruct got; [congruence|cbn; lia]).
    assert (Hkc : (k <= List.length (content b))%nat).
    { assert (E : List.length got = List.length (firstn k (content b))) by congruence. rewrite firstn_length in E. lia. }
    assert (Hcne : content b <> []) by (intros E; rewrite E in Hkc; cbn in Hkc; lia).
    split; [intros E; congruence|]. intros _.
    destruct (S m - k)%nat as [|m'] eqn:Em.
    + (* p is full *)
      cbn [br_read_full_loop]. exists b1. assert (k = S m) by lia.
      replace (S m - List.length (content b))%nat with 0%nat by lia. cbn [repeat]. rewrite app_nil_r.
      assert (Hg2 : got = firstn (S m) (content b)) by (rewrite <- H; exact Hgot).
      split; [rewrite <- Hg2; destruct f; reflexivity|]. split; [rewrite Hc1; f_equal; lia|exact Hinv1].
    + destruct (IH (S m') (acc ++ got) b1 Hinv1 ltac:(lia) ltac:(lia)) as [_ H2].
      destruct H2 as [b2 [E2 [Hc2 Hinv2]]]; [right; destruct acc; [cbn; exact Hg|discriminate]|].
      exists b2. rewrite E2, Hc1. split; [|split; [|exact Hinv2]].
      * f_equal. f_equal. rewrite <- app_assoc. f_equal. replace (S m) with (k + S m')%nat by lia.
        rewrite firstn_add, <- Hgot, <- app_assoc. f_equal. f_equal. rewrite skipn_length. f_equal. lia.
      * rewrite Hc2, Hc1, skipn_add. f_equal. lia.
Qed.

Theorem read_full_independent n b : inv b ->
  match read_n n (content b) with
  | Ok (l, rest) => exists b', br_read_full n b = Ok (l, b') /\ content b' = rest /\ inv b'
  | Err _ => br_read_full n b = Err EEOF
  | Panic => False
  end.
Proof.
  intros Hinv. unfold read_n, br_read_full. destruct (N.eqb_spec n 0) as [->|Hn].
  - cbn. exists b. auto.
  - destruct (read_full_loop_spec (S (N.to_nat n)) (N.to_nat n) [] b Hinv ltac:(lia) ltac:(lia)) as [H1 H2].
    destruct (content b) as [|x c] eqn:Ec; [apply H1; reflexivity|].
    destruct H2 as [b' [E [Hc Hi]]]; [left; discriminate|]. exists b'. split; [|split; assumption].
    rewrite E. cbn [app]. do 3 f_equal. rewrite firstn_length. f_equal. lia.
Qed.

(* ---- Peek *)
Lemma fill_until_spec fuel n : forall b,
  inv b -> (n <= bufsize)%nat -> (b_err b = false -> (n - List.length (b_buf b) <= fuel)%nat) ->
  content (fill_until fuel n b) = content b /\ inv (fill_until fuel n b) /\
  ((n <= List.length (b_buf (fill_until fuel n b)))%nat \/ b_err (fill_until fuel n b) = true).
Proof.
  induction fuel as [|f IH]; intros b Hinv Hn Hf; cbn [fill_until].
  - split; [reflexivity|]. split; [exact Hinv|]. destruct (b_err b); [auto|]. left. specialize (Hf eq_refl). lia.
  - destruct ((List.length (b_buf b) <? n)%nat && negb (b_err b)) eqn:Ec.
    + apply andb_true_iff in Ec. destruct Ec as [Hlt He]. apply Nat.ltb_lt in Hlt. apply negb_true_iff in He.
      destruct (fill_spec b Hinv ltac:(lia)) as [Hc [Hinv' [got [Hg Hge]]]].
      destruct (IH (fill b) Hinv' Hn) as [Hc2 [Hi2 Hp]].
      * intros He'. rewrite Hg, app_length. destruct got as [|g0 got']; [rewrite Hge in He' by reflexivity; discriminate|].
        cbn. specialize (Hf He). lia.
      * split; [congruence|]. split; assumption.
    + split; [reflexivity|]. split; [exact Hinv|]. apply andb_false_iff in Ec. destruct Ec as [Hlt|He].
      * apply Nat.ltb_ge in Hlt. auto.
      * apply negb_false_iff in He. auto.
Qed.

Theorem peek_independent n b : inv b -> (n <= bufsize)%nat ->
  if blen (content b) <? N.of_nat n then br_peek n b = Err EEOF
  else exists b', br_peek n b = Ok (firstn n (content b), b') /\ content b' = content b /\ inv b'.
Proof.
  intros Hinv Hn. unfold br_peek.
  destruct (fill_until_spec (S n) n b Hinv Hn ltac:(intros; lia)) as [Hc [Hi Hp]].
  set (b' := fill_until (S n) n b) in *. unfold blen. rewrite <- Hc. unfold content at 1 2. rewrite app_length.
  destruct (Nat.ltb_spec (List.length (b_buf b')) n) as [Hlt|Hge].
  - destruct Hp as [Hp|He]; [lia|]. destruct Hi as [Hi _]. rewrite (Hi He). cbn [List.length].
    destruct (N.ltb_spec (N.of_nat (List.length (b_buf b') + 0)) (N.of_nat n)); [reflexivity|lia].
  - destruct (N.ltb_spec (N.of_nat (List.length (b_buf b') + List.length (s_data (b_src b')))) (N.of_nat n)); [lia|].
    exists b'. split; [|split; [reflexivity|exact Hi]]. f_equal. f_equal.
    unfold content. rewrite firstn_app. replace (n - List.length (b_buf b'))%nat with 0%nat by lia.
    cbn. rewrite app_nil_r. reflexivity.
Qed.

(* ---- Discard *)
Lemma discard_loop_spec fuel : forall remain b,
  inv b -> (remain < fuel)%nat ->
  if (List.length (content b) <? remain)%nat then br_discard_loop fuel remain b = Err EEOF
  else exists b', br_discard_loop fuel remain b = Ok b' /\ content b' = skipn remain (content b) /\ inv b'.
Proof.
  induction fuel as [|f IH]; intros remain b Hinv Hf; [lia|].
  destruct remain as [|m].
  - cbn. exists b. auto.
  - cbn [br_discard_loop].
    set (b1 := match b_buf b with [] => fill b | _ => b end).
    assert (H1 : content b1 = content b /\ inv b1 /\ (b_buf b1 = [] -> b_err b1 = true)).
    { unfold b1. destruct (b_buf b) as [|x r] eqn:Eb.
      - destruct (fill_spec b Hinv) as [Hc [Hi [got [Hg Hge]]]]; [rewrite Eb; cbn; unfold bufsize; lia|].
        split; [exact Hc|]. split; [exact Hi|]. intros E. apply Hge. rewrite Eb in Hg. cbn in Hg. congruence.
      - split; [reflexivity|]. split; [exact Hinv|]. rewrite Eb. discriminate. }
    destruct H1 as [Hc1 [[Hi1 Hl1] Hemp]]. clearbody b1.
    set (skip := Nat.min (List.length (b_buf b1)) (S m)).
    set (b2 := set_buf b1 (skipn skip (b_buf b1))).
    assert (Hc2 : content b2 = skipn skip (content b)).
    { rewrite <- Hc1. unfold content, b2. cbn [set_buf b_buf b_src]. rewrite skipn_app.
      replace (skip - List.length (b_buf b1))%nat with 0%nat by lia. reflexivity. }
    assert (Hi2 : inv b2). { split; [exact Hi1|]. unfold b2. cbn [set_buf b_buf]. rewrite skipn_length. lia. }
    assert (Hlen : List.length (content b) = (List.length (b_buf b1) + List.length (s_data (b_src b1)))%nat).
    { rewrite <- Hc1. unfold content. apply app_length. }
    destruct (Nat.eqb_spec (S m - skip) 0) as [Ez|Enz].
    + destruct (Nat.ltb_spec (List.length (content b)) (S m)); [lia|].
      exists b2. split; [reflexivity|]. split; [rewrite Hc2; f_equal; lia|exact Hi2].
    + assert (Hsk : skip = List.length (b_buf b1)) by lia.
      destruct (b_err b2) eqn:Ee.
      * unfold b2 in Ee. cbn in Ee. rewrite (Hi1 Ee) in Hlen. cbn in Hlen.
        destruct (Nat.ltb_spec (List.length (content b)) (S m)); [reflexivity|lia].
      * assert (Hpos : (1 <= skip)%nat).
        { assert (Ee1 : b_err b1 = false) by exact Ee.
          destruct (b_buf b1) eqn:Eb1; [rewrite Hemp in Ee1 by reflexivity; discriminate|]. rewrite Hsk. cbn. lia. }
        specialize (IH (S m - skip)%nat b2 Hi2 ltac:(lia)). rewrite Hc2, skipn_length in IH.
        destruct (Nat.ltb_spec (List.length (content b) - skip) (S m - skip)) as [Hlt|Hge];
          destruct (Nat.ltb_spec (List.length (content b)) (S m)); try lia; [exact IH|].
        destruct IH as [b' [E [Hc Hi]]]. exists b'. split; [exact E|]. split; [|exact Hi].
        rewrite Hc, skipn_add. f_equal. lia.
Qed.

Theorem discard_independent n b : inv b ->
  match discard n (content b) with
  | Ok rest => exists b', br_discard n b = Ok b' /\ content b' = rest /\ inv b'
  | Err _ => br_discard n b = Err EEOF
  | Panic => False
  end.
Proof.
  intros Hinv. unfold discard, br_discard, blen.
  pose proof (discard_loop_spec (S (N.to_nat n)) (N.to_nat n) b Hinv ltac:(lia)) as H.
  destruct (Nat.ltb_spec (List.length (content b)) (N.to_nat n));
    destruct (N.ltb_spec (N.of_nat (List.length (content b))) n); try lia; exact H.
Qed.

(* ---- bufio.NewReader(r) satisfies the invariant, and holds the whole input *)
Lemma new_reader_ok data sched eofd : inv (new_reader data sched eofd) /\ content (new_reader data sched eofd) = data.
Proof. unfold inv, new_reader, content, bufsize. cbn. split; [split; [discriminate|lia]|reflexivity]. Qed.

(* ---- the defect repaired by fix 0373e10: ONE Read per field.  Three octets behind a reader that hands out one
   octet per call: the field reads 01 00 00 and leaves 02 03 for the next field; through the list (= bytes.Reader,
   whose first Read fills the buffer with everything) it reads 01 02 03. *)
Lemma read_once_refuted :
  let b := new_reader [1; 2; 3] [] false in
  (exists b', br_read_once 3 b = Ok ([1; 0; 0], b') /\ content b' = [2; 3]) /\
  read_n 3 (content b) = Ok ([1; 2; 3], []) /\
  (exists b', br_read_full 3 b = Ok ([1; 2; 3], b') /\ content b' = []).
Proof. cbn. split; [eexists; split; reflexivity|]. split; [reflexivity|]. vm_compute. eexists; split; reflexivity. Qed.
