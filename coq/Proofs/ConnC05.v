(* C05 — Submit returns exactly its own response under every schedule. *)
From Coq Require Import List ZArith Lia Bool Arith.
From V Require Import Model.Base Model.Pdu Gen.PduLayouts Model.ConnLTS Proofs.ConnBase Proofs.ConnC14 Proofs.ConnC16.
Import ListNotations.
Open Scope N_scope.

(* ------------------------------------------------------------------ part 1: no assumption on the peer *)
Definition resp_of (p : cpc) : option pdu :=
  match p with PLeaving (ROk m) | PClosing (ROk m) | PReturned (ROk m) => Some m | _ => None end.

(* whatever reaches a Submit call — in its channel or as its return value — carries its own sequence number *)
Lemma own_response s : reachable fixed s ->
  forall c m, (c_mail (callers s c) = Some m \/ resp_of (c_pc (callers s c)) = Some m) -> snd m = c_seq (callers s c).
Proof.
  revert s. reach_ind.
  - cbn. intros c m [H|H]; discriminate.
  - intros s e s' R IH H c0 m. destruct (waiter_inv s R) as (W & _).
    destruct e; step_inv H; sproj; upd_cases; sproj; unfold resp_of in *;
      try (intros [P|P]; try discriminate P; try (injection P as <-); eauto; fail);
      try (intros [P|P]; apply (IH c0 m); repeat match goal with E : c_pc _ = _ |- _ => rewrite E in * end; cbn in *; auto; fail).
    1-3: (intros [P|P]; apply (IH c m); [now left | right];
          match goal with E : c_pc _ = _ |- _ => rewrite E end; exact P).
    intros [P|P]; [injection P as <- | apply (IH n m); now right].
      match goal with E : pending s _ = Some _ |- _ => destruct (W _ _ E) as (J & _) end. now rewrite J.
Qed.

(* a Submit returns an error only because its own context ended, the connection
   ended, or its Send did not reach the transport *)
Definition failed (p : cpc) : Prop :=
  match p with PLeaving RErr | PClosing RErr | PReturned RErr => True | _ => False end.

Lemma error_cause s : reachable fixed s ->
  forall c, failed (c_pc (callers s c)) ->
    c_ctx (callers s c) = true \/ done s = true \/ c_wrote (callers s c) = false.
Proof.
  revert s. reach_ind.
  - cbn. intros _ [].
  - intros s e s' R IH H c0. pose proof (wrote_pc fixed s R) as WP.
    destruct e; step_inv H; sproj; upd_cases; sproj; intros F;
      try (cbn in F; contradiction);
      try (now (right; left)); try (now left);
      try (destruct (IH c0) as [X|[X|X]];
           [repeat match goal with E : c_pc _ = _ |- _ => rewrite E end; exact F | tauto ..]; fail);
      try (destruct (IH c0 F) as [X|[X|X]]; tauto).
    all: try (right; right; destruct (c_wrote (callers s c)) eqn:E; [|reflexivity];
              apply (proj2 (WP c)) in E; exfalso; apply E;
              repeat match goal with E : c_pc _ = _ |- _ => rewrite E end; exact I).
    all: try (apply IH; repeat match goal with E : c_pc _ = _ |- _ => rewrite E end;
              destruct r; cbn in *; tauto).
    all: try (apply IH; exact F).
    all: try (destruct (IH _ F) as [X|[X|X]]; [now left | discriminate X | now (right; right)]).
Qed.

(* ------------------------------------------------------------------ part 2: the peer of the property text *)
Definition sub (s : state) (c : nat) : Prop := live s c /\ submit_like (c_kind (callers s c)) = true.
Definition used (s : state) (q : Z) : Prop := exists c, sub s c /\ c_seq (callers s c) = q.
Definition pseq (i : item) : list Z := match i with IPdu p => [snd p] | _ => [] end.
Definition peer_seqs (l : list item) : list Z := flat_map pseq l.
Definition answered (s : state) (q : Z) : Prop := In q (peer_seqs (injected s)).

(* Hypotheses of C05 as a predicate on the next event:
   - callers of Submit draw positive, pairwise distinct sequence numbers that the peer has not used;
   - the peer sends a PDU carrying the sequence number of a request at most once, and only after the
     request's octets reached the transport (WireWrite — possibly before WriteReturn). *)
Definition env_ok (s : state) (e : event) : Prop :=
  match e with
  | Start c k g q f => submit_like k = true -> (0 < q)%Z /\ ~ used s q /\ ~ answered s q
  | PeerFrame (IPdu p) =>
    used s (snd p) -> ~ answered s (snd p) /\ forall c, sub s c -> c_seq (callers s c) = snd p -> c_wrote (callers s c) = true
  | _ => True
  end.

Inductive ereach : state -> Prop :=
| er_init : ereach init
| er_step s e s' : ereach s -> env_ok s e -> step fixed s e = Some s' -> ereach s'.

Lemma ereach_reachable s : ereach s -> reachable fixed s.
Proof. induction 1; [apply reachable_init | eapply reachable_step; eauto]. Qed.

(* a caller seen after a step was there before, or the step issued it *)
Lemma step_new s e s' c :
  step fixed s e = Some s' -> live s' c ->
  live s c \/ (exists k g q f, e = Start c k g q f /\ ~ live s c /\
               callers s' c = mkCaller k g q f PStarted false false None /\
               forall d, d <> c -> callers s' d = callers s d).
Proof.
  intros H L. unfold live in *.
  destruct e as [c0 k g q f| | | | | | | | | | | | | | | | | | | | | ];
    try (left; step_inv H; sproj; upd_cases; sproj; congruence).
  destruct (Nat.eq_dec c c0) as [->|Hne].
  - right. exists k, g, q, f. step_inv H; sproj. rewrite upd_same. repeat split; auto.
    intros d Hd. now rewrite upd_other.
  - left. step_inv H; sproj. rewrite upd_other in L; auto.
Qed.

Lemma step_sub s e s' c : step fixed s e = Some s' -> sub s c -> sub s' c.
Proof.
  intros H [L K]. split; [eapply step_live; eauto|].
  destruct (step_attrs _ _ _ _ c H L) as (-> & _). exact K.
Qed.

Lemma distinct_inv s : ereach s ->
  forall c c', sub s c -> sub s c' -> c_seq (callers s c) = c_seq (callers s c') -> c = c'.
Proof.
  induction 1 as [|s e s' ER IH Env H]; intros c c' [L K] [L' K'] Eq.
  - unfold live in L. cbn in L. congruence.
  - destruct (step_new _ _ _ _ H L) as [Lo | (k & g & q & f & -> & Hn & Hc & Ho)];
    destruct (step_new _ _ _ _ H L') as [Lo' | (k' & g' & q' & f' & E' & Hn' & Hc' & Ho')].
    + destruct (step_attrs _ _ _ _ c H Lo) as (Ek & _ & Es & _).
      destruct (step_attrs _ _ _ _ c' H Lo') as (Ek' & _ & Es' & _).
      apply IH; [split; congruence | split; congruence | congruence].
    + subst e. destruct (Nat.eq_dec c c') as [|Hne]; [assumption|]. exfalso.
      rewrite Hc' in K', Eq. cbn in K', Eq. destruct (Env K') as (_ & Hu & _). apply Hu.
      exists c. rewrite <- (Ho' c Hne). split; [split|]; auto. now rewrite (Ho' c Hne) in K.
    + destruct (Nat.eq_dec c c') as [|Hne]; [assumption|]. exfalso.
      rewrite Hc in K, Eq. cbn in K, Eq. destruct (Env K) as (_ & Hu & _). apply Hu.
      exists c'. assert (Hne' : c' <> c) by congruence. rewrite <- (Ho c' Hne'). split; [split|]; auto.
      now rewrite (Ho c' Hne') in K'.
    + injection E' as -> _ _ _ _. reflexivity.
Qed.

Definition got (s : state) (c : nat) : bool :=
  match c_mail (callers s c), resp_of (c_pc (callers s c)) with None, None => false | _, _ => true end.
Definition gave_up (s : state) (c : nat) : Prop :=
  match c_pc (callers s c) with PClosing RErr | PReturned RErr => True | _ => False end.
Definition is_q (q : Z) (i : item) : bool := match i with IPdu p => (snd p =? q)%Z | _ => false end.
Definition qitems (q : Z) (l : list item) : nat := List.length (filter (is_q q) l).

Lemma inbound_injected s : reachable fixed s -> forall i, In i (inbound s) -> In i (injected s).
Proof. intros R i Hi. destruct (dispatch_inv s R) as (A & _). rewrite <- A. apply in_or_app. now right. Qed.

Lemma peer_seqs_in l p : In (IPdu p) l -> In (snd p) (peer_seqs l).
Proof. intros H. unfold peer_seqs. apply in_flat_map. exists (IPdu p). split; [exact H | now left]. Qed.

Lemma qitems_pos_in q l : (0 < qitems q l)%nat -> exists p, In (IPdu p) l /\ snd p = q.
Proof.
  unfold qitems. destruct (filter (is_q q) l) as [|i r] eqn:E; cbn; [lia|]. intros _.
  assert (Hi : In i (filter (is_q q) l)) by (rewrite E; now left).
  apply filter_In in Hi. destruct Hi as (Hi & Hq). destruct i as [p| |]; try discriminate.
  exists p. split; [exact Hi|]. cbn in Hq. now apply Z.eqb_eq.
Qed.

Lemma injected_grows s e s' i : step fixed s e = Some s' -> In i (injected s) -> In i (injected s').
Proof. intros H Hi. destruct e; step_inv H; sproj; auto. apply in_or_app. now left. Qed.

Lemma got_answered s : reachable fixed s -> forall c, got s c = true -> answered s (c_seq (callers s c)).
Proof.
  revert s. reach_ind.
  - intros c. cbn. discriminate.
  - intros s e s' R IH H c G. unfold answered in *.
    assert (Old : got s c = true -> live s c -> In (c_seq (callers s' c)) (peer_seqs (injected s'))).
    { intros G0 L. destruct (step_attrs _ _ _ _ c H L) as (_ & _ & -> & _).
      specialize (IH c G0). unfold peer_seqs in *. apply in_flat_map in IH. destruct IH as (i & Hi & Hq).
      apply in_flat_map. exists i. split; [eapply injected_grows; eauto | exact Hq]. }
    assert (L0 : got s c = true -> live s c).
    { unfold got, live. destruct (waiter_inv s R) as (_ & W2). intros G0 E. rewrite E in G0. cbn in G0.
      rewrite (W2 c (or_introl E)) in G0. discriminate. }
    destruct (got s c) eqn:G0; [auto|].
    (* the response reaches c in this very step: Watch hands it over *)
    destruct (waiter_inv s R) as (W & _). pose proof (inbound_injected s R) as II.
    unfold got in *. destruct e; step_inv H; sproj; upd_cases; sproj; unfold resp_of in *;
      repeat match goal with E : c_pc _ = _ |- _ => rewrite E in * end; cbn in *;
      try (rewrite G0 in G; discriminate G); try discriminate;
      try (destruct (c_mail (callers s c)); discriminate).
    + rewrite Heqo in G0. discriminate.
    + match goal with E : pending s _ = Some _ |- _ => destruct (W _ _ E) as (-> & _) end.
      apply peer_seqs_in. apply II. now left.
Qed.

Lemma step_injected s e s' :
  step fixed s e = Some s' ->
  (exists i, e = PeerFrame i /\ injected s' = injected s ++ [i] /\ inbound s' = inbound s ++ [i] /\
             callers s' = callers s /\ pending s' = pending s /\ app s' = app s /\ wpc s' = wpc s)
  \/ ((forall i, e <> PeerFrame i) /\ injected s' = injected s).
Proof.
  intros H. destruct e; try (right; split; [intros ?; discriminate|]; step_inv H; sproj; reflexivity).
  left. exists i. step_inv H; sproj. repeat split; reflexivity.
Qed.

Lemma step_wrote_mono s e s' c : step fixed s e = Some s' -> live s c ->
  c_wrote (callers s c) = true -> c_wrote (callers s' c) = true.
Proof.
  intros H L W. destruct (step_wire_calls _ _ _ _ H) as [(c0 & f & -> & _ & _ & _ & _ & _ & Hc & Ho) | (_ & _ & Ho)].
  - destruct (Nat.eq_dec c c0) as [->|Hne]; [exact Hc | now rewrite Ho].
  - now rewrite Ho.
Qed.

Lemma peer_seqs_app a b : peer_seqs (a ++ b) = peer_seqs a ++ peer_seqs b.
Proof. apply flat_map_app. Qed.

(* the peer answers only what has reached the transport *)
Lemma unwritten_unanswered s : ereach s ->
  forall c, sub s c -> c_wrote (callers s c) = false -> ~ answered s (c_seq (callers s c)).
Proof.
  induction 1 as [|s e s' ER IH Env H]; intros c [L K] Wf.
  - unfold live in L. cbn in L. congruence.
  - unfold answered in *.
    destruct (step_new _ _ _ _ H L) as [Lo | (k & g & q & f & -> & Hn & Hc & Ho)].
    + destruct (step_attrs _ _ _ _ c H Lo) as (Ek & _ & Es & _). rewrite Es.
      assert (So : sub s c) by (split; [exact Lo | congruence]).
      assert (Wo : c_wrote (callers s c) = false).
      { destruct (c_wrote (callers s c)) eqn:E; [|reflexivity].
        rewrite (step_wrote_mono _ _ _ _ H Lo E) in Wf. discriminate. }
      specialize (IH c So Wo).
      destruct (step_injected _ _ _ H) as [(i & -> & -> & _) | (_ & ->)]; [|exact IH].
      rewrite peer_seqs_app, in_app_iff. intros [Hin|Hin]; [now apply IH|].
      destruct i as [p| |]; cbn in Hin; try contradiction. destruct Hin as [Hp|[]].
      cbn in Env. destruct Env as (_ & Hw); [exists c; split; [exact So | now symmetry]|].
      rewrite (Hw c So (eq_sym Hp)) in Wo. discriminate.
    + rewrite Hc in K |- *. cbn in K |- *. destruct (Env K) as (_ & _ & Ha).
      destruct (step_injected _ _ _ H) as [(i & E & _) | (_ & ->)]; [discriminate | exact Ha].
Qed.

(* a waiter in the table has not received anything yet *)
Lemma waiter_fresh s : reachable fixed s -> forall q c, pending s q = Some c -> got s c = false.
Proof.
  revert s. reach_ind.
  - cbn. discriminate.
  - intros s e s' R IH H q0 c0. destruct (waiter_inv s R) as (W & W2). unfold got, resp_of in *.
    destruct e; step_inv H; sproj; upd_cases; sproj;
      try (intros P; try discriminate P; try (injection P as <-);
           try (specialize (IH _ _ P)); try (destruct (W _ _ P) as (I1 & I2 & I3 & I4));
           repeat match goal with E : c_pc _ = _ |- _ => rewrite E in * end;
           repeat match goal with E : c_mail _ = _ |- _ => rewrite E in * end; cbn in *;
           try congruence; auto; fail).
    + intros _. now rewrite (W2 c (or_intror Heqc1)).
    + intros P. destruct (W _ _ P) as (J & _).
      match goal with E : pending s (snd _) = Some _ |- _ => destruct (W _ _ E) as (J' & _) end. congruence.
Qed.

(* [got] changes only when Watch hands a response to that waiter *)
Lemma step_got s e s' c :
  step fixed s e = Some s' -> live s c ->
  got s' c = got s c \/
  (e = WatchStep /\ got s c = false /\ got s' c = true /\
   exists p rest, inbound s = IPdu p :: rest /\ inbound s' = rest /\ pending s (snd p) = Some c).
Proof.
  intros H L. unfold got, resp_of, live in *.
  destruct e; step_inv H; sproj; upd_cases; sproj;
    repeat match goal with E : c_pc _ = _ |- _ => rewrite E in * end;
    repeat match goal with E : c_mail _ = _ |- _ => rewrite E in * end; cbn in *;
    try (left; reflexivity); try congruence;
    try (left; destruct (c_mail (callers s c)); reflexivity);
    try (left; destruct (c_mail (callers s c0)); reflexivity).
  all: try (left; destruct r as [m| |]; reflexivity).
  destruct (match c_pc (callers s n) with
            | PLeaving (ROk m) | PClosing (ROk m) | PReturned (ROk m) => Some m | _ => None end);
    [left; reflexivity | right; repeat split; eauto].
Qed.

Lemma step_inbound s e s' :
  step fixed s e = Some s' ->
  inbound s' = inbound s \/ (exists i, e = PeerFrame i /\ inbound s' = inbound s ++ [i])
  \/ (exists i, e = WatchStep /\ inbound s = i :: inbound s').
Proof.
  intros H. destruct e; step_inv H; sproj; auto; try (right; left; eexists; split; reflexivity);
    right; right; eexists; split; try reflexivity; eassumption.
Qed.

Lemma qitems_app q a b : qitems q (a ++ b) = (qitems q a + qitems q b)%nat.
Proof. unfold qitems. now rewrite filter_app, app_length. Qed.

(* the response to a request exists at most once: still readable, or already with its caller *)
Lemma once_inv s : ereach s ->
  forall c, sub s c -> (qitems (c_seq (callers s c)) (inbound s) + (if got s c then 1 else 0) <= 1)%nat.
Proof.
  induction 1 as [|s e s' ER IH Env H]; intros c [L K].
  - unfold live in L. cbn in L. congruence.
  - pose proof (ereach_reachable s ER) as R.
    assert (NoItem : forall q, ~ answered s q -> qitems q (inbound s) = 0%nat).
    { intros q Hn. destruct (qitems q (inbound s)) eqn:E; [reflexivity|]. exfalso. apply Hn.
      destruct (qitems_pos_in q (inbound s)) as (p & Hp & <-); [lia|]. apply peer_seqs_in.
      now apply inbound_injected. }
    destruct (step_new _ _ _ _ H L) as [Lo | (k & g & q & f & -> & Hn & Hc & Ho)].
    + destruct (step_attrs _ _ _ _ c H Lo) as (Ek & _ & Es & _). rewrite Es.
      assert (So : sub s c) by (split; [exact Lo | congruence]). specialize (IH c So).
      destruct (step_got _ _ _ c H Lo) as [G | (-> & G0 & G1 & p & rest & Ei & Ei' & Hp)].
      * rewrite G. destruct (step_inbound _ _ _ H) as [-> | [(i & -> & ->) | (i & -> & Ei)]]; [exact IH | |].
        -- rewrite qitems_app. unfold qitems at 2. cbn [filter]. destruct (is_q (c_seq (callers s c)) i) eqn:Q; [|cbn; lia].
           destruct i as [p| |]; try discriminate. cbn in Q. apply Z.eqb_eq in Q.
           cbn in Env. destruct Env as (Ha & _); [exists c; split; [exact So | now symmetry]|]. rewrite Q in Ha.
           rewrite (NoItem _ Ha). destruct (got s c) eqn:G'; [|cbn; lia].
           exfalso. apply Ha. now apply got_answered.
        -- rewrite Ei in IH. unfold qitems in IH |- *. cbn [filter] in IH.
           destruct (is_q (c_seq (callers s c)) i); cbn [List.length] in IH; lia.
      * rewrite G1, Ei'. rewrite G0, Ei in IH. destruct (waiter_inv s R) as (W & _).
        destruct (W _ _ Hp) as (Eq & _). unfold qitems in IH |- *. cbn [filter is_q] in IH.
        rewrite Eq in IH |- *. rewrite Z.eqb_refl in IH. cbn [List.length] in IH. lia.
    + rewrite Hc in K |- *. cbn in K. cbn [c_seq]. destruct (Env K) as (_ & _ & Ha).
      assert (G : got s' c = false) by (unfold got; now rewrite Hc).
      rewrite G. destruct (step_inbound _ _ _ H) as [-> | [(i & E & _) | (i & E & _)]]; try discriminate.
      rewrite (NoItem _ Ha). lia.
Qed.


Lemma leaving_sub s : reachable fixed s ->
  forall c, (c_pc (callers s c) = PRegistered \/ c_pc (callers s c) = PWaiting \/ exists r, c_pc (callers s c) = PLeaving r) ->
            submit_like (c_kind (callers s c)) = true.
Proof.
  revert s. reach_ind.
  - cbn. intros c [H|[H|[r H]]]; discriminate.
  - intros s e s' R IH H c0.
    destruct e; step_inv H; sproj; upd_cases; sproj; intros P; auto;
      try (apply IH; destruct P as [P|[P|[r' P]]]; try discriminate P; eauto; fail);
      try (destruct P as [P|[P|[r' P]]]; discriminate P).
Qed.

Lemma step_pending s e s' :
  step fixed s e = Some s' ->
  pending s' = pending s
  \/ (exists c0, e = Register c0 /\ pending s' = updz (pending s) (c_seq (callers s c0)) (Some c0) /\
                 submit_like (c_kind (callers s c0)) = true /\ live s c0)
  \/ (exists c0 r, e = Unregister c0 /\ pending s' = updz (pending s) (c_seq (callers s c0)) None /\
                   c_pc (callers s c0) = PLeaving r)
  \/ (exists (p : pdu) n, e = WatchStep /\ pending s (snd p) = Some n /\ pending s' = updz (pending s) (snd p) None /\
                  got s' n = true).
Proof.
  intros H. unfold live. destruct e; try (left; step_inv H; sproj; reflexivity).
  - right; left. exists c. step_inv H; sproj. repeat split; auto. congruence.
  - right; right; left. step_inv H; sproj; exists c; eexists; repeat split; eauto.
  - step_inv H; sproj; auto; right; right; right; exists p, n; (repeat split; auto);
      unfold got; sproj; rewrite ?upd_same; sproj;
      try (match goal with E : c_mail _ = Some _ |- _ => rewrite E end); reflexivity.
Qed.



Lemma step_registered s e s' c :
  step fixed s e = Some s' -> sub s c -> registered_pc (c_pc (callers s' c)) ->
  registered_pc (c_pc (callers s c)) \/ e = Register c.
Proof.
  intros H [L K]. unfold live in L.
  destruct e; step_inv H; sproj; upd_cases; sproj; auto;
    repeat match goal with E : c_pc _ = _ |- _ => rewrite E in * end; cbn; auto; try tauto.
  rewrite K in *. discriminate.
Qed.

(* between its registration and the arrival of its response, a Submit call is in the table *)
Lemma registered_inv s : ereach s ->
  forall c, sub s c -> registered_pc (c_pc (callers s c)) -> got s c = false ->
            pending s (c_seq (callers s c)) = Some c.
Proof.
  induction 1 as [|s e s' ER IH Env H]; intros c [L K] Rp G.
  - unfold live in L. cbn in L. congruence.
  - pose proof (ereach_reachable s ER) as R. destruct (waiter_inv s R) as (W & _).
    destruct (step_new _ _ _ _ H L) as [Lo | (k & g & q & f & -> & Hn & Hc & Ho)].
    2:{ rewrite Hc in Rp. cbn in Rp. contradiction. }
    destruct (step_attrs _ _ _ _ c H Lo) as (Ek & _ & Es & _). rewrite Es.
    assert (So : sub s c) by (split; [exact Lo | congruence]).
    assert (Go : got s c = false).
    { destruct (step_got _ _ _ c H Lo) as [G' | (_ & G0 & _)]; congruence. }
    pose proof (distinct_inv s ER) as Dis.
    destruct (step_pending _ _ _ H) as [Ep | [(c0 & -> & -> & K0 & L0) | [(c0 & r & -> & -> & P0) | (p & n & -> & Hp & -> & Gn)]]].
    + destruct (step_registered _ _ _ c H So Rp) as [Ro | ->]; [rewrite Ep; now apply IH|].
      step_inv H; sproj. apply updz_same.
    + destruct (Nat.eq_dec c0 c) as [->|Hne]; [apply updz_same|].
      rewrite updz_other.
      * destruct (step_registered _ _ _ c H So Rp) as [Ro | [= ->]]; [now apply IH | congruence].
      * intros Eq. apply Hne. apply Dis; [split; assumption | exact So | now symmetry].
    + destruct (Nat.eq_dec c0 c) as [->|Hne].
      * exfalso. step_inv H; sproj; rewrite upd_same in Rp; sproj; destruct r; cbn in Rp; try contradiction;
          unfold after_call in *; destruct (close_like _); cbn in Rp; contradiction.
      * rewrite updz_other.
        -- destruct (step_registered _ _ _ c H So Rp) as [Ro | [=]]; now apply IH.
        -- intros Eq. apply Hne. apply Dis; [|exact So | now symmetry].
           split; [unfold live; congruence|]. apply (leaving_sub s R). right; right. now exists r.
    + destruct (Nat.eq_dec n c) as [->|Hne]; [congruence|].
      destruct (W _ _ Hp) as (Eq & _ & Rn & Kn). rewrite updz_other.
      * destruct (step_registered _ _ _ c H So Rp) as [Ro | [=]]; now apply IH.
      * intros Eq'. apply Hne. apply Dis; [|exact So | congruence].
        split; [|exact Kn]. unfold live. intros E. rewrite E in Rn. cbn in Rn. contradiction.
Qed.

(* shapes of program counters in the repaired code *)
Lemma pc_shapes s : reachable fixed s ->
  forall c, c_pc (callers s c) <> PWritten /\
    (submit_like (c_kind (callers s c)) = true ->
       c_pc (callers s c) <> PLeaving RSent /\ c_pc (callers s c) <> PClosing RSent /\ c_pc (callers s c) <> PReturned RSent).
Proof.
  revert s. reach_ind.
  - intros c. cbn. repeat split; discriminate.
  - intros s e s' _ IH H c0. specialize (IH c0) as (I1 & I2).
    destruct e; step_inv H; sproj; upd_cases; sproj; (split; [try congruence|]); auto;
      try (intros K; repeat split; try discriminate; try (destruct (I2 K) as (J1 & J2 & J3); congruence); fail).
    all: try (intros K; rewrite K in *; discriminate).
Qed.

Lemma step_gave_up s e s' c : step fixed s e = Some s' -> gave_up s c -> gave_up s' c.
Proof.
  unfold gave_up. intros H G. destruct e; step_inv H; sproj; upd_cases; sproj; auto;
    repeat match goal with E : c_pc _ = _ |- _ => rewrite E in * end; cbn in *; try contradiction; auto.
Qed.

Lemma answered_grows s e s' q : step fixed s e = Some s' -> answered s q -> answered s' q.
Proof.
  unfold answered, peer_seqs. intros H A. apply in_flat_map in A. destruct A as (i & Hi & Hq).
  apply in_flat_map. exists i. split; [eapply injected_grows; eauto | exact Hq].
Qed.

(* a PDU is offered to the application only by Watch finding no waiter for it *)
Lemma step_offer s e s' p :
  step fixed s e = Some s' -> In p (app s' ++ sending s') ->
  In p (app s ++ sending s) \/
  (e = WatchStep /\ exists rest, inbound s = IPdu p :: rest /\ pending s (snd p) = None /\ callers s' = callers s).
Proof.
  intros H. unfold sending. destruct e; step_inv H; sproj; auto;
    repeat match goal with E : wpc _ = _ |- _ => rewrite E end; rewrite ?app_nil_r; auto;
    try (rewrite <- app_assoc; cbn; auto; fail);
    try (intros Hin; apply in_app_or in Hin; destruct Hin as [Hin|[]]; left; apply in_or_app; now left).
  - intros Hin. apply in_app_or in Hin. destruct Hin as [Hin|[<-|[]]]; [now left|].
    right. split; [reflexivity|]. eexists. repeat split; eauto.
  - intros Hin. left. apply in_or_app. now left.
Qed.

Lemma qitems_head q p rest : snd p = q -> (0 < qitems q (IPdu p :: rest))%nat.
Proof. intros <-. unfold qitems. cbn [filter is_q]. rewrite Z.eqb_refl. cbn. lia. Qed.

(* No response to an outstanding request is delivered on PDU(): whatever the
   application is offered carries the sequence number of no Submit call, except of
   calls that had already given up (returned an error) when Watch looked. *)
Lemma no_leak s : ereach s ->
  forall p, In p (app s ++ sending s) ->
    answered s (snd p) /\ forall c, sub s c -> c_seq (callers s c) = snd p -> gave_up s c.
Proof.
  induction 1 as [|s e s' ER IH Env H]; intros p Hin.
  - cbn in Hin. contradiction.
  - pose proof (ereach_reachable s ER) as R.
    destruct (step_offer _ _ _ _ H Hin) as [Old | (-> & rest & Ei & Hp & Ec)].
    + destruct (IH p Old) as (A & G). split; [eapply answered_grows; eauto|].
      intros c [L K] Es.
      destruct (step_new _ _ _ _ H L) as [Lo | (k & g & q & f & -> & Hn & Hc & Ho)].
      * destruct (step_attrs _ _ _ _ c H Lo) as (Ek & _ & Es' & _).
        eapply step_gave_up; eauto. apply G; [split; congruence | congruence].
      * exfalso. rewrite Hc in K, Es. cbn in K, Es. destruct (Env K) as (_ & _ & Ha). apply Ha. now rewrite Es.
    + assert (Ap : answered s (snd p)).
      { apply peer_seqs_in. apply (inbound_injected s R). rewrite Ei. now left. }
      split; [eapply answered_grows; eauto|].
      intros c [L K] Es. unfold gave_up, live in *. rewrite Ec in *.
      assert (So : sub s c) by (split; assumption).
      destruct (c_wrote (callers s c)) eqn:Wr.
      2:{ exfalso. apply (unwritten_unanswered s ER c So Wr). now rewrite Es. }
      pose proof (proj2 (wrote_pc fixed s R c) Wr) as Nb.
      destruct (pc_shapes s R c) as (NW & NS). destruct (NS K) as (N1 & N2 & N3).
      pose proof (once_inv s ER c So) as On. rewrite Es, Ei in On.
      pose proof (qitems_head (snd p) p rest eq_refl) as Qh.
      assert (Gf : got s c = false) by (destruct (got s c); [lia | reflexivity]).
      assert (Reg : registered_pc (c_pc (callers s c)) -> False).
      { intros Rp. pose proof (registered_inv s ER c So Rp Gf) as Pe. rewrite Es in Pe. congruence. }
      unfold got, resp_of in Gf.
      destruct (c_pc (callers s c)) as [| | | | | |r|r|r]; cbn in Nb, Reg; try tauto; try congruence;
        destruct r as [m| |]; try congruence; try exact I;
        destruct (c_mail (callers s c)); discriminate.
Qed.

Lemma cons_self {A} (x : A) l : l = x :: l -> False.
Proof. intros E. assert (H : List.length l = S (List.length l)) by (rewrite E at 1; reflexivity). lia. Qed.

(* what Watch does with a well-formed PDU it consumes *)
Lemma watch_takes s s' p :
  reachable fixed s -> step fixed s WatchStep = Some s' -> inbound s = IPdu p :: inbound s' ->
  (exists n, pending s (snd p) = Some n /\ got s' n = true) \/
  (pending s (snd p) = None /\ In p (app s' ++ sending s')).
Proof.
  intros R H Ei. pose proof (queue_inv s R) as Q. unfold sending, got.
  step_inv H; sproj; try (exfalso; eapply cons_self; eassumption); try discriminate;
    try (match goal with E : IPdu ?a :: _ = IPdu ?b :: _ |- _ => assert (a = b) by congruence; subst a end).
  - left. eexists. split; [eassumption|]. match goal with E : c_mail _ = Some _ |- _ => now rewrite E end.
  - left. eexists. split; [eassumption|]. rewrite upd_same. reflexivity.
  - exfalso. specialize (Q eq_refl). congruence.
  - right. split; [assumption|]. apply in_or_app. right. now left.
Qed.

(* The response to a request is never lost: once the peer has sent it, it is still
   readable, or with its caller, or its caller had given up. *)
Lemma not_lost s : ereach s ->
  forall c, sub s c -> answered s (c_seq (callers s c)) ->
    (0 < qitems (c_seq (callers s c)) (inbound s))%nat \/ got s c = true \/ gave_up s c.
Proof.
  induction 1 as [|s e s' ER IH Env H]; intros c [L K] A.
  - unfold live in L. cbn in L. congruence.
  - pose proof (ereach_reachable s ER) as R.
    pose proof (er_step s e s' ER Env H) as ER'.
    destruct (step_new _ _ _ _ H L) as [Lo | (k & g & q & f & -> & Hn & Hc & Ho)].
    2:{ exfalso. rewrite Hc in K, A. cbn in K, A. destruct (Env K) as (_ & _ & Ha). apply Ha.
        unfold answered in *. destruct (step_injected _ _ _ H) as [(i & E & _) | (_ & <-)]; [discriminate | exact A]. }
    destruct (step_attrs _ _ _ _ c H Lo) as (Ek & _ & Es & _). rewrite Es in *.
    assert (So : sub s c) by (split; [exact Lo | congruence]).
    assert (Ao : answered s (c_seq (callers s c)) \/ exists p, e = PeerFrame (IPdu p) /\ snd p = c_seq (callers s c)).
    { unfold answered in *. destruct (step_injected _ _ _ H) as [(i & -> & Ei & _) | (_ & Ei)]; rewrite Ei in A; [|now left].
      rewrite peer_seqs_app, in_app_iff in A. destruct A as [A|A]; [now left|]. right.
      destruct i as [p| |]; cbn in A; try contradiction. destruct A as [A|[]]. now exists p. }
    destruct Ao as [Ao | (p & -> & Ep)].
    2:{ left. destruct (step_injected _ _ _ H) as [(i & [= <-] & _ & Ei & _) | (Hne & _)]; [|exfalso; now apply (Hne (IPdu p))].
        rewrite Ei, qitems_app. pose proof (qitems_head _ p [] Ep). lia. }
    destruct (IH c So Ao) as [Q | [G | G]].
    + destruct (step_inbound _ _ _ H) as [-> | [(i & -> & ->) | (i & -> & Ei)]]; [now left | left; rewrite qitems_app; lia |].
      rewrite Ei in Q. unfold qitems in Q |- *. cbn [filter] in Q.
      destruct (is_q (c_seq (callers s c)) i) eqn:Qi; [|now left].
      destruct i as [p| |]; try discriminate. cbn in Qi. apply Z.eqb_eq in Qi.
      (* Watch takes the response to c: into c's channel, or c had given up *)
      destruct (watch_takes s s' p R H Ei) as [(n & Pn & Gn) | (Pn & Hin)].
      * right; left. destruct (waiter_inv s R) as (W & _). destruct (W _ _ Pn) as (Eq & _ & Rn & Kn).
        assert (n = c); [|subst n; exact Gn].
        apply (distinct_inv s ER); [|exact So | congruence]. split; [|exact Kn].
        unfold live. intros E. rewrite E in Rn. cbn in Rn. contradiction.
      * right; right. apply (no_leak s' ER' p Hin); [split; [exact L | congruence] | congruence].
    + right; left. destruct (step_got _ _ _ c H Lo) as [G' | (_ & _ & G1 & _)]; congruence.
    + right; right. eapply step_gave_up; eauto.
Qed.

(* ------------------------------------------------------------------ the caller can always proceed *)
(* a Submit whose response is in its channel can take it and return it: two steps, both enabled *)
Lemma wake_enabled v s c m :
  c_pc (callers s c) = PWaiting -> c_mail (callers s c) = Some m -> c_kind (callers s c) = KSubmit ->
  exists s1 s2, step v s (WakeResp c) = Some s1 /\ step v s1 (Unregister c) = Some s2 /\
                c_pc (callers s2 c) = PReturned (ROk m) /\ pending s2 (c_seq (callers s c)) = None.
Proof.
  intros P M K. unfold step at 1. rewrite P, M. eexists. eexists. split; [reflexivity|].
  unfold step. sproj. rewrite upd_same. sproj. split; [reflexivity|]. sproj. rewrite upd_same. sproj.
  unfold after_call. sproj. rewrite K. cbn. split; [reflexivity | apply updz_same].
Qed.

(* what a Submit call can return *)
Lemma returns_own s : ereach s ->
  forall c r, sub s c -> c_pc (callers s c) = PReturned r ->
    (exists m, r = ROk m /\ snd m = c_seq (callers s c)) \/
    (r = RErr /\ (c_ctx (callers s c) = true \/ done s = true \/ c_wrote (callers s c) = false)).
Proof.
  intros ER c r [L K] P. pose proof (ereach_reachable s ER) as R.
  destruct r as [m| |].
  - left. exists m. split; [reflexivity|]. apply (own_response s R c m). right. rewrite P. reflexivity.
  - exfalso. destruct (pc_shapes s R c) as (_ & N). destruct (N K) as (_ & _ & N3). congruence.
  - right. split; [reflexivity|]. apply (error_cause s R c). rewrite P. exact I.
Qed.

(* with no teardown and no cancelled context, a Submit whose request reached the
   transport cannot have failed, and once Watch consumed its response it holds it *)
Lemma submit_succeeds s : ereach s ->
  forall c, sub s c -> done s = false -> c_ctx (callers s c) = false -> c_wrote (callers s c) = true ->
    ~ failed (c_pc (callers s c)) /\
    (answered s (c_seq (callers s c)) -> qitems (c_seq (callers s c)) (inbound s) = 0%nat -> got s c = true).
Proof.
  intros ER c So D X W. pose proof (ereach_reachable s ER) as R. split.
  - intros F. destruct (error_cause s R c F) as [E|[E|E]]; congruence.
  - intros A Q. destruct (not_lost s ER c So A) as [Q'|[G|G]]; [lia | exact G |].
    exfalso. unfold gave_up in G. destruct (c_pc (callers s c)) eqn:P; try contradiction;
      destruct r; try contradiction;
      (destruct (error_cause s R c) as [E|[E|E]]; [rewrite P; exact I | congruence ..]).
Qed.

(* ------------------------------------------------------------------ Resp() *)
Definition resp_pair_ok (r : N * N * bool) : bool :=
  let '(req, resp, copies) := r in (resp =? req + 2147483648) && (req <? 2147483648) && copies.

Lemma resp_pairs_ok : forallb resp_pair_ok resp_pairs = true /\ List.length resp_pairs = 15%nat.
Proof. vm_compute. split; reflexivity. Qed.

Lemma resp_pairs_all : forall req resp copies, In (req, resp, copies) resp_pairs ->
  resp = N.lor req 2147483648 /\ copies = true /\
  exists lr lq, find_layout layouts req = Some lq /\ find_layout layouts resp = Some lr.
Proof.
  assert (H : forallb (fun r => let '(req, resp, copies) := r in
              (resp =? N.lor req 2147483648) && copies &&
              match find_layout layouts req, find_layout layouts resp with Some _, Some _ => true | _, _ => false end)
              resp_pairs = true) by (vm_compute; reflexivity).
  rewrite forallb_forall in H. intros req resp copies Hin. specialize (H _ Hin). cbn beta iota in H.
  apply andb_prop in H. destruct H as (H & H3). apply andb_prop in H. destruct H as (H1 & H2).
  apply N.eqb_eq in H1. split; [exact H1|]. split; [exact H2|].
  destruct (find_layout layouts req) as [lq|]; [|discriminate].
  destruct (find_layout layouts resp) as [lr|]; [|discriminate]. now exists lr, lq.
Qed.

(* ------------------------------------------------------------------ the pre-repair order (D25) *)
Definition d25_trace : list event :=
  [WatchLoop; Start 0 KSubmit 1 7%Z (Ok [7]); WireWrite 0;
   PeerFrame (IPdu (2147483669, 7%Z)); WatchStep; AppRecv; WriteReturn 0; Register 0].

(* In the legacy order the response that arrives while the Write is still open is
   handed to the application and the caller then waits with nothing to wake it. *)
Lemma d25_refuted :
  exists s, run legacy_D25 init d25_trace = Some s /\
    app s = [(2147483669, 7%Z)] /\ c_pc (callers s 0%nat) = PWaiting /\ c_mail (callers s 0%nat) = None /\
    inbound s = [] /\ done s = false /\ c_wrote (callers s 0%nat) = true /\
    step legacy_D25 s (WakeResp 0) = None /\ step legacy_D25 s (WakeDone 0) = None /\ step legacy_D25 s (WakeCtx 0) = None.
Proof.
  destruct (run legacy_D25 init d25_trace) as [s|] eqn:E; [|vm_compute in E; discriminate].
  exists s. split; [reflexivity|]. vm_compute in E. injection E as <-. vm_compute. repeat split; reflexivity.
Qed.

(* ------------------------------------------------------------------ the executable form of the hypotheses *)
Lemma usedb_sound s q : reachable fixed s -> used s q -> usedb s q = true.
Proof.
  intros R (c & (L & K) & E). unfold usedb. apply existsb_exists. exists c. split.
  - now apply (started_live fixed s R).
  - rewrite K, E. cbn. apply Z.eqb_refl.
Qed.

Lemma answeredb_sound s q : answered s q -> answeredb s q = true.
Proof. intros A. unfold answeredb. apply existsb_exists. exists q. split; [exact A | apply Z.eqb_refl]. Qed.

Lemma env_okb_sound s e : reachable fixed s -> env_okb s e = true -> env_ok s e.
Proof.
  intros R H. destruct e; try exact I.
  - cbn in *. intros K. rewrite K in H. cbn in H. bools.
    repeat split; auto.
    + intros U. apply (usedb_sound s q R) in U. congruence.
    + intros A. apply answeredb_sound in A. congruence.
  - destruct i as [p| |]; try exact I. cbn in *. intros U. apply (usedb_sound s _ R) in U. rewrite U in H. cbn in H.
    bools. split.
    + intros A. apply answeredb_sound in A. congruence.
    + intros c [L K] E. match goal with F : forallb _ _ = true |- _ => rewrite forallb_forall in F; specialize (F c) end.
      rewrite K, E, Z.eqb_refl in *. cbn in *. match goal with F : In _ _ -> _ |- _ => apply F end.
      now apply (started_live fixed s R).
Qed.

Lemma erunb_sound t : forall s s', ereach s -> erunb fixed s t = Some s' -> ereach s'.
Proof.
  induction t as [|e t IH]; intros s s' ER H; cbn [erunb] in H.
  - now injection H as <-.
  - destruct (env_okb s e) eqn:E; [|discriminate]. destruct (step fixed s e) as [s1|] eqn:S; [|discriminate].
    apply (IH s1 s'); [|exact H]. eapply er_step; eauto. apply env_okb_sound; [now apply ereach_reachable | exact E].
Qed.

(* the same schedule on the repaired order, with the peer of the property text:
   the caller gets its response although it arrived before the Write returned, nothing leaks *)
Definition d25_trace_fixed : list event :=
  [WatchLoop; Start 0 KSubmit 1 7%Z (Ok [7]); Register 0; WireWrite 0;
   PeerFrame (IPdu (2147483669, 7%Z)); WatchStep; WriteReturn 0; WakeResp 0; Unregister 0;
   PeerFrame (IPdu (5, 99%Z)); WatchLoop; WatchStep; AppRecv].

Lemma ereach_example :
  exists s, ereach s /\ c_pc (callers s 0%nat) = PReturned (ROk (2147483669, 7%Z)) /\
            app s = [(5, 99%Z)] /\ pending s 7%Z = None /\ sub s 0%nat /\ answered s 7%Z.
Proof.
  destruct (erunb fixed init d25_trace_fixed) as [s|] eqn:E; [|vm_compute in E; discriminate].
  exists s. split; [eapply erunb_sound; [apply er_init | exact E]|].
  vm_compute in E. injection E as <-. vm_compute. repeat split; auto; discriminate.
Qed.
