(* The slot-array reference combiner (and hence, by projection, the keyed
   combiner on every interleaved history) computes exactly the set-style
   specification of Spec/CombinerSetSpec.v. *)
From V Require Import Model.Combiner Spec.CombinerSpec Spec.CombinerSetSpec Proofs.CombinerProofs.
From Coq Require Import ZifyN ZifyNat ZifyBool.
Ltac Zify.zify_post_hook ::= Z.div_mod_to_equations.
Open Scope N_scope.

Lemma list_ext {A} (l1 l2 : list A) : (forall i, nth_error l1 i = nth_error l2 i) -> l1 = l2.
Proof.
  revert l2; induction l1 as [|x l1 IH]; intros [|y l2] H; try reflexivity.
  - specialize (H O). discriminate.
  - specialize (H O). discriminate.
  - pose proof (H O) as H0. cbn in H0. inversion H0; subst. f_equal. apply IH. intros i. exact (H (S i)).
Qed.

Lemma numbers_length n : List.length (numbers n) = n.
Proof. unfold numbers. rewrite map_length, seq_length. reflexivity. Qed.
Lemma nth_error_numbers n j : (j < n)%nat -> nth_error (numbers n) j = Some (N.of_nat (S j)).
Proof.
  intros H. unfold numbers. rewrite nth_error_map.
  rewrite (nth_error_nth' (seq 0 n) O) by (rewrite seq_length; exact H).
  rewrite seq_nth by exact H. reflexivity.
Qed.
Lemma nth_error_assemble n a j : (j < n)%nat -> nth_error (assemble n a) j = Some (latest (N.of_nat (S j)) a).
Proof. intros H. unfold assemble. rewrite nth_error_map, nth_error_numbers by exact H. reflexivity. Qed.
Lemma assemble_length n a : List.length (assemble n a) = n.
Proof. unfold assemble. rewrite map_length. apply numbers_length. Qed.

Lemma assemble_nil n : assemble n [] = repeat None n.
Proof.
  apply list_ext. intros j. destruct (Nat.lt_ge_cases j n) as [H|H].
  - rewrite nth_error_assemble by exact H. cbn [latest].
    symmetry. apply nth_error_repeat. exact H.
  - rewrite (proj2 (nth_error_None _ _)) by (rewrite assemble_length; exact H).
    symmetry. apply nth_error_None. rewrite repeat_length. exact H.
Qed.

(* parts[seq-1] = p on the assembled array is: p becomes the latest of its number *)
Lemma put_assemble n a p ix : (ix < n)%nat -> seq_of p = N.of_nat (S ix) ->
  put_pure ix p (assemble n a) = assemble n (p :: a).
Proof.
  intros Hix Hs. apply list_ext. intros j.
  destruct (Nat.lt_ge_cases j n) as [Hj|Hj].
  - rewrite (nth_error_assemble n (p :: a)) by exact Hj. cbn [latest]. rewrite Hs.
    destruct (Nat.eq_dec j ix) as [->|Hne].
    + rewrite nth_error_put_same by (rewrite assemble_length; exact Hix). rewrite N.eqb_refl. reflexivity.
    + rewrite nth_error_put_other by congruence. rewrite nth_error_assemble by exact Hj.
      destruct (N.eqb_spec (N.of_nat (S ix)) (N.of_nat (S j))) as [E|E]; [lia|reflexivity].
  - rewrite (proj2 (nth_error_None _ _)) by (rewrite put_pure_length, assemble_length; exact Hj).
    symmetry. apply nth_error_None. rewrite assemble_length. exact Hj.
Qed.

Lemma full_assemble n a : full (assemble n a) = covers n a.
Proof.
  unfold full, assemble, covers. induction (numbers n) as [|i l IH]; cbn [map forallb]; [reflexivity|].
  rewrite IH. destruct (latest i a); reflexivity.
Qed.

(* the simulation relation between the set-style state and the slot array *)
Definition rel (a : list dsm) (s : option slots) : Prop :=
  match a with
  | [] => s = None
  | q :: _ => s = Some (assemble (N.to_nat (total_of q)) a)
  end.

Lemma rel_cur a s p c : rel a s -> hdr p = Some c ->
  cur_of s c = assemble (N.to_nat (total_in_progress a p)) a.
Proof.
  intros R Hh. destruct a as [|q a]; cbn [rel total_in_progress] in *; subst s; cbn [cur_of].
  - unfold fresh, total_of. rewrite Hh. symmetry. apply assemble_nil.
  - reflexivity.
Qed.

Lemma step_simulation a s p : rel a s -> hdr p <> None -> seq_octet p ->
  snd (sstep s p) = snd (espec_step a p) /\ rel (fst (espec_step a p)) (fst (sstep s p)).
Proof.
  intros R Hh Ho. destruct (hdr p) as [c|] eqn:Hc; [|contradiction]. clear Hh.
  rewrite (sstep_unfold _ _ _ Hc). rewrite (rel_cur _ _ _ _ R Hc).
  assert (Hseq : seq_of p = c_seq c) by (unfold seq_of; rewrite Hc; reflexivity).
  assert (Htot : total_of p = c_total c) by (unfold total_of; rewrite Hc; reflexivity).
  set (n0 := N.to_nat (total_in_progress a p)).
  assert (A : accept c (assemble n0 a) = well_numbered a p).
  { unfold accept, well_numbered, slen. rewrite assemble_length, Hseq, Htot. unfold n0. lia. }
  unfold espec_step. rewrite A. destruct (well_numbered a p) eqn:W; [|cbn [fst snd]; auto].
  assert (W' : c_seq c <> 0 /\ c_seq c <= c_total c /\ c_total c = total_in_progress a p).
  { unfold well_numbered in W. rewrite Hseq, Htot in W. lia. }
  destruct W' as (W1 & W2 & W3). pose proof (Ho _ Hc) as Hoct.
  assert (E0 : n0 = N.to_nat (total_of p)) by (unfold n0; rewrite Htot; lia).
  assert (Hix : (slot_ix c < n0)%nat) by (unfold slot_ix, n0; lia).
  assert (Hs : seq_of p = N.of_nat (S (slot_ix c))) by (rewrite Hseq; unfold slot_ix; lia).
  rewrite (put_assemble n0 a p (slot_ix c) Hix Hs). rewrite full_assemble. rewrite <- E0.
  destruct (covers n0 (p :: a)); cbn [fst snd rel]; [auto|]. split; [reflexivity|]. rewrite <- E0. reflexivity.
Qed.

(* the reference combiner is the set-style specification, on every history of
   segments of one key *)
Theorem reference_is_set_spec : forall h a s, rel a s ->
  Forall (fun p => hdr p <> None /\ seq_octet p) h ->
  snd (srun s h) = snd (espec_run a h) /\ rel (fst (espec_run a h)) (fst (srun s h)).
Proof.
  induction h as [|p t IH]; intros a s R F; cbn [srun espec_run]; [cbn; auto|].
  inversion F as [|? ? [H1 H2] F']; subst.
  destruct (step_simulation a s p R H1 H2) as [S1 S2].
  destruct (sstep s p) as [s1 o1]. destruct (espec_step a p) as [a1 o1']. cbn [fst snd] in *. subst o1'.
  destruct (IH a1 s1 S2 F') as [I1 I2].
  destruct (srun s1 t) as [s2 o2]. destruct (espec_run a1 t) as [a2 o2']. cbn [fst snd] in *. subst o2'. auto.
Qed.

Lemma hist_key_hdr k h : Forall seq_octet h ->
  Forall (fun p => hdr p <> None /\ seq_octet p) (hist_key k h).
Proof.
  intros F. unfold hist_key. apply Forall_forall. intros p Hin. apply filter_In in Hin as [Hin Hk].
  rewrite Forall_forall in F. split; [|apply F; exact Hin].
  unfold has_key, seg_key in Hk. destruct (hdr p); [discriminate|discriminate Hk].
Qed.

(* C10 in one statement: on every interleaved history, the callbacks made at
   the arrivals of key k are exactly those the set-style specification makes
   on the sub-history of k — a delivery exactly when the sequence numbers
   accepted since the last delivery first cover 1..N, consisting of the most
   recent segment for each number, in order. *)
Theorem combiner_is_set_spec k h r outs : Forall seq_octet h -> crun [] h = Ok (r, outs) ->
  outputs_at k h outs = snd (espec_run [] (hist_key k h)).
Proof.
  intros F E. destruct (projection k _ _ _ _ E) as [P _]. cbn [lookup] in P. rewrite P.
  apply reference_is_set_spec; [reflexivity|]. apply hist_key_hdr; exact F.
Qed.
