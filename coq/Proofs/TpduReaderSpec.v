(* C19 behind every reader.  The TPDUs C19 quantifies over - [layout_deliver t], [layout_submit t] of Spec/Gsm0340.v for
   well-formed t - begin with the RP service-centre address length (at most 11 for a well-formed SC address; 0 for
   SMS-SUBMIT), so getType's Peek fits bufio's buffer and Proofs/TpduReaderCompose.v applies: decoding them through the
   bufio model over ANY schedule of read sizes is decoding the list, and every C19 theorem about [sms_unmarshal] /
   [sms_remarshal] on these layouts holds for [sms_unmarshal_reader] / [sms_remarshal_reader]. *)
From V Require Import Model.TpduReaderRun Spec.Gsm0340 Proofs.TpduReader Proofs.TpduReaderCompose Proofs.TpduRoundtrip.
From Coq Require Import ZifyN ZifyNat ZifyBool Lia.
Ltac Zify.zify_post_hook ::= Z.div_mod_to_equations.
Open Scope N_scope.

(* only the first octet matters: first octet + 3 <= 4096 *)
Lemma sms_unmarshal_reader_eq_first data sched eofd : peekable data ->
  sms_unmarshal_reader data sched eofd = sms_unmarshal data.
Proof.
  intros Hp. unfold sms_unmarshal_reader, unmarshal_reader, unmarshal_on, sms_unmarshal, unmarshal.
  destruct (new_reader_ok data sched eofd) as [Hi Hc].
  rewrite (unmarshal_gen_on_eq false sms_env _ Hi); rewrite Hc; [reflexivity|exact Hp].
Qed.
Lemma sms_remarshal_reader_eq_first data sched eofd : peekable data ->
  sms_remarshal_reader data sched eofd = sms_remarshal data.
Proof. intros Hp. unfold sms_remarshal_reader. rewrite sms_unmarshal_reader_eq_first by exact Hp. reflexivity. Qed.

Lemma layout_deliver_peekable t : deliver_wf t -> peekable (layout_deliver t).
Proof.
  intros [[[_ [_ Hv]] Hd] _]. unfold layout_deliver, sc_addr.
  destruct (sa_val (d_sc t)) as [ds|ss]; [|contradiction]. destruct Hv as [_ [_ Hl]].
  cbn [app peekable]. unfold nlen in *. rewrite semi_octets_length. lia.
Qed.
Lemma layout_submit_peekable t : peekable (layout_submit t).
Proof. unfold layout_submit. cbn [peekable]. lia. Qed.

Theorem deliver_decode_any_reader t sched eofd : deliver_wf t ->
  sms_unmarshal_reader (layout_deliver t) sched eofd = sms_unmarshal (layout_deliver t) /\
  sms_remarshal_reader (layout_deliver t) sched eofd = sms_remarshal (layout_deliver t).
Proof.
  intros Hw. split; [apply sms_unmarshal_reader_eq_first|apply sms_remarshal_reader_eq_first]; apply layout_deliver_peekable; exact Hw.
Qed.
Theorem submit_decode_any_reader t sched eofd :
  sms_unmarshal_reader (layout_submit t) sched eofd = sms_unmarshal (layout_submit t) /\
  sms_remarshal_reader (layout_submit t) sched eofd = sms_remarshal (layout_submit t).
Proof. split; [apply sms_unmarshal_reader_eq_first|apply sms_remarshal_reader_eq_first]; apply layout_submit_peekable. Qed.

Theorem deliver_roundtrip_any_reader t sched eofd : deliver_wf t -> addr_ok (d_oa t) ->
  sms_remarshal_reader (layout_deliver t) sched eofd = Ok (layout_deliver t).
Proof. intros Hw Ha. rewrite (proj2 (deliver_decode_any_reader t sched eofd Hw)). apply deliver_roundtrip; assumption. Qed.
Theorem submit_roundtrip_any_reader t sched eofd : submit_wf t -> addr_ok (s_da t) ->
  sms_remarshal_reader (layout_submit t) sched eofd = Ok (layout_submit t).
Proof. intros Hw Ha. rewrite (proj2 (submit_decode_any_reader t sched eofd)). apply submit_roundtrip; assumption. Qed.
