(* A bound on the octets requested with make() during one ReadPDU call
   (Model/PduAlloc.v), for ALL inputs and schedules. *)
From V Require Import Model.Pdu Model.PduAlloc Proofs.PduMarshalProofs Proofs.PduStreamProofs Proofs.PduRoundtripProofs Proofs.PduStableProofs.
From Coq Require Import ZifyN ZifyNat ZifyBool.
Ltac Zify.zify_post_hook ::= Z.div_mod_to_equations.
Open Scope N_scope.

Lemma len_skipn (n : nat) (s : bytes) : len (skipn n s) = len s - N.of_nat n.
Proof. unfold len. rewrite skipn_length. lia. Qed.

(* TLVs: every value but possibly the last one is backed by octets of the frame *)
Lemma alloc_tags_loop_bound fuel : forall s, octetsb s = true -> alloc_tags_loop fuel s <= len s + 65535.
Proof.
  induction fuel as [|fuel IH]; intros s Ho; cbn [alloc_tags_loop].
  - do 4 (destruct s as [|? s]; [lia|]). lia.
  - do 4 (destruct s as [|? s]; [lia|]). rewrite !octetsb_cons in Ho.
    repeat (apply andb_true_iff in Ho; destruct Ho as [? Ho]).
    assert (Hn : de16 n1 n2 < 65536) by (unfold de16; lia).
    rewrite !len_cons.
    destruct (N.eqb_spec (de16 n1 n2) 0) as [Hz|Hz].
    + specialize (IH s Ho). lia.
    + destruct s as [|x s']; [lia|].
      destruct (N.leb_spec (de16 n1 n2) (len (x :: s'))).
      * pose proof (IH (skipn (N.to_nat (de16 n1 n2)) (x :: s')) (octetsb_skipn _ _ Ho)) as Hb.
        rewrite len_skipn in Hb. lia.
      * lia.
Qed.

Lemma alloc_udh_loop_bound fuel : forall rem s, octetsb s = true -> alloc_udh_loop fuel rem s <= len s + 255.
Proof.
  induction fuel as [|fuel IH]; intros rem s Ho; cbn [alloc_udh_loop]; destruct (rem =? 0); try lia.
  destruct s as [|i s]; [lia|]. destruct s as [|size r]; [lia|].
  rewrite !octetsb_cons in Ho. repeat (apply andb_true_iff in Ho; destruct Ho as [? Ho]). rewrite !len_cons.
  destruct (N.leb_spec size (len r)).
  - pose proof (IH (rem - (2 + size)) (skipn (N.to_nat size) r) (octetsb_skipn _ _ Ho)) as Hb. rewrite len_skipn in Hb. lia.
  - lia.
Qed.

Lemma alloc_short_bound rep act s : octetsb s = true -> alloc_short rep act s <= len s + 510.
Proof.
  intros Ho. unfold alloc_short.
  assert (Hs0 : forall s0, (if rep then Some s else match s with [] => None | _ :: r => Some r end) = Some s0 ->
                          octetsb s0 = true /\ len s0 <= len s).
  { intros s0. destruct rep; [intros [= <-]; split; [exact Ho | lia]|].
    destruct s as [|c r]; [discriminate|]. intros [= <-]. rewrite octetsb_cons in Ho. apply andb_true_iff in Ho.
    split; [apply Ho | rewrite len_cons; lia]. }
  destruct (if rep then Some s else match s with [] => None | _ :: r => Some r end) as [s0|]; [|lia].
  destruct (Hs0 s0 eq_refl) as [Ho0 Hl0].
  destruct s0 as [|d s1]; [lia|]. destruct s1 as [|l s2]; [lia|].
  rewrite !octetsb_cons in Ho0. repeat (apply andb_true_iff in Ho0; destruct Ho0 as [? Ho0]). rewrite !len_cons in Hl0.
  destruct act; [|lia].
  destruct s2 as [|udhl s3]; [lia|]. rewrite octetsb_cons in Ho0. apply andb_true_iff in Ho0. destruct Ho0 as [? Ho3].
  rewrite len_cons in Hl0. pose proof (alloc_udh_loop_bound (N.to_nat udhl) udhl s3 Ho3) as Hu.
  destruct (dec_udh (udhl :: s3)) as [[m r]| |]; lia.
Qed.

Lemma alloc_field_bound lay u k s : octetsb s = true -> alloc_field lay u k s <= len s + 65535.
Proof.
  intros Ho. destruct k; cbn [alloc_field]; try lia.
  - pose proof (alloc_short_bound (l_replace lay) (negb (l_replace lay) && l_has_esm lay && u) s Ho). lia.
  - unfold alloc_tags. apply alloc_tags_loop_bound; exact Ho.
Qed.

(* ---- decoding never lengthens the input *)
Lemma dec_cstr_len s v r : dec_cstr s = Ok (v, r) -> len r <= len s.
Proof.
  revert v. induction s as [|c s IH]; intros v; cbn [dec_cstr]; [discriminate|].
  destruct (c =? 0); [intros [= <- <-]; rewrite len_cons; lia|]. destruct (dec_cstr s) as [[v' r']| |]; try discriminate.
  intros [= <- <-]. specialize (IH _ eq_refl). rewrite len_cons. lia.
Qed.
Lemma dec_u8_len s c r : dec_u8 s = Ok (c, r) -> len r <= len s.
Proof. destruct s; [discriminate|]. intros [= <- <-]. rewrite len_cons. lia. Qed.
Lemma take_len n s d r : take n s = Ok (d, r) -> len r <= len s.
Proof. unfold take. destruct (n <=? len s); [|discriminate]. intros [= <- <-]. rewrite len_skipn. lia. Qed.
Lemma dec_be32_len s c r : dec_be32 s = Ok (c, r) -> len r <= len s.
Proof. unfold dec_be32. do 4 (destruct s as [|? s]; [discriminate|]). intros [= <- <-]. rewrite !len_cons. lia. Qed.
Lemma dec_addr_len s a r : dec_addr s = Ok (a, r) -> len r <= len s.
Proof.
  unfold dec_addr.
  destruct (dec_u8 s) as [[t s1]| |] eqn:E1; cbn [obind]; try discriminate.
  destruct (dec_u8 s1) as [[n s2]| |] eqn:E2; cbn [obind]; try discriminate.
  destruct (dec_cstr s2) as [[no s3]| |] eqn:E3; cbn [obind]; try discriminate.
  intros [= <- <-]. pose proof (dec_u8_len _ _ _ E1). pose proof (dec_u8_len _ _ _ E2). pose proof (dec_cstr_len _ _ _ E3). lia.
Qed.
Lemma dec_dests_loop_len n : forall s sme dl sme' dl' r, dec_dests_loop n s sme dl = Ok (sme', dl', r) -> len r <= len s.
Proof.
  induction n as [|n IH]; intros s sme dl sme' dl' r; cbn [dec_dests_loop]; [intros [= <- <- <-]; lia|].
  destruct s as [|c s0]; [discriminate|]. rewrite len_cons. destruct c as [|[p|[p|p|]|]]; try discriminate.
  - destruct (dec_cstr s0) as [[d r0]| |] eqn:E; cbn [obind]; try discriminate. intros H. pose proof (dec_cstr_len _ _ _ E). pose proof (IH _ _ _ _ _ _ H). lia.
  - destruct (dec_addr s0) as [[a r0]| |] eqn:E; cbn [obind]; try discriminate. intros H. pose proof (dec_addr_len _ _ _ E). pose proof (IH _ _ _ _ _ _ H). lia.
Qed.
Lemma dec_unsucc_loop_len n : forall s acc l r, dec_unsucc_loop n s acc = Ok (l, r) -> len r <= len s.
Proof.
  induction n as [|n IH]; intros s acc l r; cbn [dec_unsucc_loop]; [intros [= <- <-]; lia|].
  destruct (dec_addr s) as [[a s1]| |] eqn:E1; cbn [obind]; try discriminate.
  destruct (dec_be32 s1) as [[c s2]| |] eqn:E2; cbn [obind]; try discriminate.
  intros H. pose proof (dec_addr_len _ _ _ E1). pose proof (dec_be32_len _ _ _ E2). pose proof (IH _ _ _ _ H). lia.
Qed.
Lemma dec_udh_loop_len fuel : forall rem s m m' r, dec_udh_loop fuel rem s m = Ok (m', r) -> len r <= len s.
Proof.
  induction fuel as [|fuel IH]; intros rem s m m' r; cbn [dec_udh_loop]; destruct (rem =? 0); try discriminate;
    try (intros [= <- <-]; lia).
  destruct (dec_u8 s) as [[id s1]| |] eqn:E1; cbn [obind]; try discriminate.
  destruct (dec_u8 s1) as [[size s2]| |] eqn:E2; cbn [obind]; try discriminate.
  destruct (take size s2) as [[d s3]| |] eqn:E3; cbn [obind]; try discriminate.
  intros H. pose proof (dec_u8_len _ _ _ E1). pose proof (dec_u8_len _ _ _ E2). pose proof (take_len _ _ _ _ E3). pose proof (IH _ _ _ _ _ H). lia.
Qed.
Lemma dec_short_len rp ua s m r : dec_short rp ua s = Ok (m, r) -> len r <= len s.
Proof.
  unfold dec_short.
  assert (H0 : forall dc s0, (if rp then Ok (NoCoding, s) else match s with [] => Err EEOF | c :: r0 => Ok (c, r0) end) = Ok (dc, s0) -> len s0 <= len s).
  { intros dc s0. destruct rp; [intros [= <- <-]; lia|]. destruct s; [discriminate|]. intros [= <- <-]. rewrite len_cons. lia. }
  destruct (if rp then Ok (NoCoding, s) else match s with [] => Err EEOF | c :: r0 => Ok (c, r0) end) as [[dc s0]| |]; cbn [obind]; try discriminate.
  specialize (H0 dc s0 eq_refl).
  destruct (dec_u8 s0) as [[dflt s1]| |] eqn:E1; cbn [obind]; try discriminate.
  destruct (dec_u8 s1) as [[l s2]| |] eqn:E2; cbn [obind]; try discriminate.
  pose proof (dec_u8_len _ _ _ E1). pose proof (dec_u8_len _ _ _ E2).
  destruct ua.
  - destruct (dec_udh s2) as [[u s3]| |] eqn:E3; cbn [obind]; try discriminate.
    assert (len s3 <= len s2).
    { unfold dec_udh in E3. destruct (dec_u8 s2) as [[ul s2']| |] eqn:E4; cbn [obind] in E3; try discriminate.
      pose proof (dec_u8_len _ _ _ E4). pose proof (dec_udh_loop_len _ _ _ _ _ _ E3). lia. }
    destruct (take _ s3) as [[msg s4]| |] eqn:E5; cbn [obind]; try discriminate.
    intros [= <- <-]. pose proof (take_len _ _ _ _ E5). lia.
  - cbn [obind]. destruct (take _ s2) as [[msg s4]| |] eqn:E5; cbn [obind]; try discriminate.
    intros [= <- <-]. pose proof (take_len _ _ _ _ E5). lia.
Qed.

Lemma dec_field_shrinks lay u k s v r : octetsb s = true -> dec_field lay u k s = Ok (v, r) -> octetsb r = true /\ len r <= len s.
Proof.
  intros Ho E. destruct k; cbn [dec_field] in E; try discriminate.
  - destruct (dec_cstr s) as [[x r0]| |] eqn:Ed; cbn [obind] in E; try discriminate. injection E as <- <-.
    split; [apply (dec_cstr_wf _ _ _ Ho Ed) | apply (dec_cstr_len _ _ _ Ed)].
  - destruct (dec_u8 s) as [[x r0]| |] eqn:Ed; cbn [obind] in E; try discriminate. injection E as <- <-.
    split; [apply (dec_u8_wf _ _ _ Ho Ed) | apply (dec_u8_len _ _ _ Ed)].
  - destruct (dec_u8 s) as [[x r0]| |] eqn:Ed; cbn [obind] in E; try discriminate. injection E as <- <-.
    split; [apply (dec_u8_wf _ _ _ Ho Ed) | apply (dec_u8_len _ _ _ Ed)].
  - destruct (dec_u8 s) as [[x r0]| |] eqn:Ed; cbn [obind] in E; try discriminate. injection E as <- <-.
    split; [apply (dec_u8_wf _ _ _ Ho Ed) | apply (dec_u8_len _ _ _ Ed)].
  - destruct (dec_u8 s) as [[x r0]| |] eqn:Ed; cbn [obind] in E; try discriminate. injection E as <- <-.
    split; [apply (dec_u8_wf _ _ _ Ho Ed) | apply (dec_u8_len _ _ _ Ed)].
  - destruct (dec_addr s) as [[x r0]| |] eqn:Ed; cbn [obind] in E; try discriminate. injection E as <- <-.
    split; [apply (dec_addr_wf _ _ _ Ho Ed) | apply (dec_addr_len _ _ _ Ed)].
  - destruct (dec_dests s) as [[[sme dl] r0]| |] eqn:Ed; cbn [obind] in E; try discriminate. injection E as <- <-.
    unfold dec_dests in Ed. destruct (dec_u8 s) as [[c s1]| |] eqn:Ec; cbn [obind] in Ed; try discriminate.
    destruct (dec_u8_wf _ _ _ Ho Ec) as [_ Ho1]. pose proof (dec_u8_len _ _ _ Ec).
    destruct (dec_dests_loop_wf _ _ [] [] _ _ _ Ho1 eq_refl eq_refl Ed) as (_ & _ & H3).
    pose proof (dec_dests_loop_len _ _ _ _ _ _ _ Ed). split; [exact H3 | lia].
  - destruct (dec_unsucc s) as [[l r0]| |] eqn:Ed; cbn [obind] in E; try discriminate. injection E as <- <-.
    unfold dec_unsucc in Ed. destruct (dec_u8 s) as [[c s1]| |] eqn:Ec; cbn [obind] in Ed; try discriminate.
    destruct (dec_u8_wf _ _ _ Ho Ec) as [_ Ho1]. pose proof (dec_u8_len _ _ _ Ec).
    destruct (dec_unsucc_loop_wf _ _ [] _ _ Ho1 eq_refl Ed) as (_ & H3).
    pose proof (dec_unsucc_loop_len _ _ _ _ _ Ed). split; [exact H3 | lia].
  - destruct (dec_short _ _ s) as [[m r0]| |] eqn:Ed; cbn [obind] in E; try discriminate. injection E as <- <-.
    split; [|apply (dec_short_len _ _ _ _ _ Ed)].
    (* octets of the remainder: it is a suffix reached through u8 / take steps *)
    clear -Ho Ed. unfold dec_short in Ed.
    assert (H0 : forall dc s0, (if l_replace lay then Ok (NoCoding, s) else match s with [] => Err EEOF | c :: r0 => Ok (c, r0) end) = Ok (dc, s0) -> octetsb s0 = true).
    { intros dc s0. destruct (l_replace lay); [intros [= <- <-]; exact Ho|]. destruct s; [discriminate|]. intros [= <- <-].
      rewrite octetsb_cons in Ho. apply andb_true_iff in Ho. apply Ho. }
    destruct (if l_replace lay then Ok (NoCoding, s) else match s with [] => Err EEOF | c :: r0 => Ok (c, r0) end) as [[dc s0]| |]; cbn [obind] in Ed; try discriminate.
    specialize (H0 dc s0 eq_refl).
    destruct (dec_u8 s0) as [[dflt s1]| |] eqn:E1; cbn [obind] in Ed; try discriminate. destruct (dec_u8_wf _ _ _ H0 E1) as [_ Ho1].
    destruct (dec_u8 s1) as [[l s2]| |] eqn:E2; cbn [obind] in Ed; try discriminate. destruct (dec_u8_wf _ _ _ Ho1 E2) as [_ Ho2].
    destruct (negb (l_replace lay) && l_has_esm lay && u).
    + destruct (dec_udh s2) as [[uh s3]| |] eqn:E3; cbn [obind] in Ed; try discriminate. destruct (dec_udh_wf _ _ _ Ho2 E3) as [_ Ho3].
      destruct (take _ s3) as [[msg s4]| |] eqn:E4; cbn [obind] in Ed; try discriminate. injection Ed as _ <-.
      apply (take_wf _ _ _ _ Ho3 E4).
    + cbn [obind] in Ed. destruct (take _ s2) as [[msg s4]| |] eqn:E4; cbn [obind] in Ed; try discriminate. injection Ed as _ <-.
      apply (take_wf _ _ _ _ Ho2 E4).
  - destruct (dec_tags s) as [t| |]; cbn [obind] in E; try discriminate. injection E as <- <-. split; [reflexivity | unfold len; cbn; lia].
  - injection E as <- <-. split; [exact Ho | lia].
Qed.

(* the walk: one bound per short-message field and per TLV section reached *)
Fixpoint walk_bound (ks : list fkind) : N :=
  match ks with
  | [] => 0
  | FShortMsg :: r => (65536 + 510) + walk_bound r
  | FTags :: r => (65536 + 65535) + walk_bound r
  | _ :: r => walk_bound r
  end.

Lemma alloc_fields_bound lay ks : forall s u, octetsb s = true -> len s <= 65536 -> alloc_fields lay ks s u <= walk_bound ks.
Proof.
  induction ks as [|k ks IH]; intros s u Ho Hl; cbn [alloc_fields walk_bound]; [lia|].
  assert (Hrest : match dec_field lay u k s with
                  | Ok (v, r) => alloc_fields lay ks r (match v with VEsm e => e_udhi e | _ => u end)
                  | _ => 0 end <= walk_bound ks).
  { destruct (dec_field lay u k s) as [[v r]| |] eqn:E; try lia.
    destruct (dec_field_shrinks lay u k s v r Ho E) as [Hor Hlr]. apply IH; [exact Hor | lia]. }
  destruct k; cbn [alloc_field]; try lia.
  - pose proof (alloc_short_bound (l_replace lay) (negb (l_replace lay) && l_has_esm lay && u) s Ho). lia.
  - pose proof (alloc_tags_loop_bound (List.length s) s Ho). unfold alloc_tags. lia.
Qed.

Lemma alloc_unmarshal_bound lay f : octetsb f = true -> len f <= 65536 ->
  alloc_unmarshal lay f <= walk_bound (l_fields lay).
Proof.
  intros Ho Hl. unfold alloc_unmarshal. destruct (l_fields lay) as [|k ks]; [lia|]. destruct k; try lia.
  cbn [walk_bound]. destruct (dec_header f) as [[h r]| |] eqn:E; try lia.
  destruct (negb _); [lia|]. destruct (dec_header_wf _ _ _ Ho E) as (_ & _ & _ & Hor).
  apply dec_header_ok_inv in E. destruct E as (H16 & -> & _).
  apply alloc_fields_bound; [exact Hor | rewrite len_skipn; lia].
Qed.

Lemma find_layout_some_in ls id l : find_layout ls id = Some l -> In l ls.
Proof. intros H. apply (find_layout_in ls id l H). Qed.

(* one ReadPDU call on ARBITRARY octets under an ARBITRARY schedule, for a registry whose
   types have at most [B] worth of short-message / TLV fields *)
Theorem read_pdu_alloc_bound_gen layouts B s sched :
  (forall l, In l layouts -> walk_bound (l_fields l) <= B) -> octetsb s = true ->
  read_pdu_alloc layouts {| st_data := s; st_sched := sched |} <= 65520 + B.
Proof.
  intros HB Ho. unfold read_pdu_alloc.
  destruct (Nat.le_gt_cases 16 (List.length s)) as [H16|H16].
  2:{ destruct (read_full_eof 16 {| st_data := s; st_sched := sched |}) as [s1 E1]; [exact H16|]. rewrite E1. lia. }
  destruct (read_full_ok 16 {| st_data := s; st_sched := sched |}) as [s1 E1]; [exact H16|]. rewrite E1. cbn [st_data].
  destruct (dec_header (firstn 16 s)) as [[h r]| |] eqn:E; try lia.
  pose proof (dec_header_ok_inv _ _ _ E) as (_ & _ & E3).
  destruct (Nat.le_gt_cases (N.to_nat (h_len h - 16)) (List.length (skipn 16 s))) as [Hb|Hb].
  - destruct (read_full_ok (N.to_nat (h_len h - 16)) {| st_data := skipn 16 s; st_sched := s1 |}) as [s2 E2]; [exact Hb|].
    rewrite E2. cbn [st_data].
    destruct (find_layout layouts (h_id h)) as [lay|] eqn:El; [|lia].
    assert (Hf : octetsb (firstn 16 s ++ firstn (N.to_nat (h_len h - 16)) (skipn 16 s)) = true).
    { rewrite octetsb_app, (octetsb_firstn _ _ Ho), (octetsb_firstn _ _ (octetsb_skipn 16 _ Ho)). reflexivity. }
    assert (Hlen : len (firstn 16 s ++ firstn (N.to_nat (h_len h - 16)) (skipn 16 s)) <= 65536).
    { rewrite len_app. unfold len. rewrite !firstn_length. lia. }
    pose proof (alloc_unmarshal_bound lay _ Hf Hlen). pose proof (HB lay (find_layout_some_in _ _ _ El)). lia.
  - destruct (read_full_eof (N.to_nat (h_len h - 16)) {| st_data := skipn 16 s; st_sched := s1 |}) as [s2 E2]; [exact Hb|].
    rewrite E2. lia.
Qed.

(* nothing is requested before the header has been accepted *)
Theorem read_pdu_alloc_reject layouts s sched a b c d :
  firstn 4 s = [a; b; c; d] -> (de32 a b c d < 16 \/ 65536 < de32 a b c d) ->
  read_pdu_alloc layouts {| st_data := s; st_sched := sched |} = 0.
Proof.
  intros H4 Hbad. unfold read_pdu_alloc.
  destruct (Nat.le_gt_cases 16 (List.length s)) as [H16|H16].
  2:{ destruct (read_full_eof 16 {| st_data := s; st_sched := sched |}) as [s1 E1]; [exact H16|]. rewrite E1. reflexivity. }
  destruct (read_full_ok 16 {| st_data := s; st_sched := sched |}) as [s1 E1]; [exact H16|]. rewrite E1. cbn [st_data].
  do 16 (destruct s as [|? s]; [cbn in H16; lia|]). cbn in H4. injection H4 as -> -> -> ->.
  cbn [firstn]. unfold dec_header.
  destruct ((de32 a b c d <? 16) || (65536 <? de32 a b c d)) eqn:E; [reflexivity|].
  apply orb_false_iff in E. lia.
Qed.

From V Require Import Gen.PduLayouts.
Lemma layouts_walk_bound : forall l, In l layouts -> walk_bound (l_fields l) <= 197117.
Proof.
  assert (H : forallb (fun l => walk_bound (l_fields l) <=? 197117) layouts = true) by (vm_compute; reflexivity).
  rewrite forallb_forall in H. intros l Hl. specialize (H l Hl). lia.
Qed.

Theorem read_pdu_alloc_bound s sched : octetsb s = true ->
  read_pdu_alloc layouts {| st_data := s; st_sched := sched |} <= 5 * 65536.
Proof.
  intros Ho. pose proof (read_pdu_alloc_bound_gen layouts 197117 s sched layouts_walk_bound Ho). lia.
Qed.
