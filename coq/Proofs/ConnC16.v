(* C16 — unsolicited PDUs are delivered once and in order; bad PDUs are NACKed, not fatal. *)
From Coq Require Import List ZArith Lia Bool Arith.
From V Require Import Model.Base Model.ConnLTS Proofs.ConnBase.
Import ListNotations.
Open Scope N_scope.

(* what Watch consumed: the PDUs no waiter took, and the undecodable frames with a positive sequence number *)
Definition unmatched (tk : list (item * bool)) : list pdu :=
  flat_map (fun x => match x with (IPdu p, false) => [p] | _ => [] end) tk.
Definition nackable (tk : list (item * bool)) : list Z :=
  flat_map (fun x => match x with (IBad q, _) => if (0 <? q)%Z then [q] else [] | _ => [] end) tk.
Definition wire_nacks (l : list wrec) : list Z :=
  flat_map (fun w => match w with WNack q => [q] | WCall _ _ => [] end) l.
(* the PDU Watch is handing to the application right now *)
Definition sending (s : state) : list pdu := match wpc s with WSending p => [p] | _ => [] end.

Lemma unmatched_app a b : unmatched (a ++ b) = unmatched a ++ unmatched b.
Proof. apply flat_map_app. Qed.
Lemma nackable_app a b : nackable (a ++ b) = nackable a ++ nackable b.
Proof. apply flat_map_app. Qed.
Lemma wire_nacks_app a b : wire_nacks (a ++ b) = wire_nacks a ++ wire_nacks b.
Proof. apply flat_map_app. Qed.

(* Watch is neither stuck in a waiter's channel nor panicked (repaired code) *)
Lemma watch_sane s : reachable fixed s -> wpc s <> WStuck /\ wpc s <> WPanicked.
Proof.
  revert s. reach_ind.
  - cbn. split; discriminate.
  - intros s e s' R [I1 I2] H. pose proof (queue_inv s R) as Q. destruct (waiter_inv s R) as (W & _).
    destruct e; step_inv H; sproj; try (split; congruence).
    + (* waiter's channel full: excluded by waiter_inv *)
      match goal with E : pending s _ = Some _ |- _ => destruct (W _ _ E) as (_ & M & _) end. congruence.
    + (* queue closed while Watch is reading: excluded by queue_inv *)
      specialize (Q eq_refl). congruence.
Qed.

(* (A) conservation and order of the inbound stream;
   (B) deliveries = the unmatched PDUs consumed so far, in order, each once;
   (C) generic_nacks = the undecodable frames with positive sequence number consumed so far, in order, each once *)
Lemma dispatch_inv s : reachable fixed s ->
  map fst (taken s) ++ inbound s = injected s /\
  (exists rest, unmatched (taken s) = app s ++ rest /\ (wpc s <> WExited -> rest = sending s) /\ (List.length rest <= 1)%nat) /\
  wire_nacks (wire s) = nackable (taken s).
Proof.
  revert s. reach_ind.
  - cbn. repeat split; auto. exists []. repeat split; auto.
  - intros s e s' R (A & (rest & B1 & B2 & B3) & C) H.
    destruct (watch_sane s' (reachable_step _ _ _ _ R H)) as (NS' & NP').
    destruct e; step_inv H; sproj; unfold sending in *; sproj;
      try (exfalso; congruence);
      rewrite ?map_app, ?unmatched_app, ?nackable_app, ?wire_nacks_app; cbn [map fst unmatched nackable wire_nacks flat_map app];
      rewrite ?app_nil_r;
      try (repeat split; auto; try (exists rest; repeat split; auto; fail); fail);
      try (match goal with E : wpc _ = _ |- _ => rewrite E in B2 end;
           assert (Hr : rest = _) by (apply B2; discriminate); subst rest; rewrite ?app_nil_r in B1).
    all: (split; [first [ assumption
                        | match goal with E : inbound _ = _ |- _ => rewrite E end; assumption
                        | rewrite <- A, <- app_assoc; reflexivity
                        | rewrite <- A, app_assoc; reflexivity ] |]).
    all: (split; [| rewrite ?C; repeat match goal with E : (0 <? _)%Z = _ |- _ => rewrite E end;
                    rewrite ?app_nil_r; reflexivity]).
    all: try (eexists; split; [|split; [intros _; reflexivity|]]; [rewrite B1, ?app_nil_r, <- ?app_assoc; reflexivity | cbn; lia]).
    all: try (exists rest; repeat split; auto; intros X; exfalso; apply X; reflexivity).
    all: try (eexists; split; [exact B1|]; split; [intros X; exfalso; apply X; reflexivity | assumption]).
Qed.

(* ------------------------------------------------------------------ the nack step *)
Lemma c16_nack_step v s q rest :
  wpc s = WReading -> transport_closed s = false -> inbound s = IBad q :: rest ->
  exists s', step v s WatchStep = Some s' /\
    wire s' = wire s ++ (if (0 <? q)%Z then [WNack q] else []) /\
    app s' = app s /\ wpc s' = WTop /\ inbound s' = rest /\ done s' = done s /\
    callers s' = callers s /\ pending s' = pending s /\ in_end s' = in_end s /\
    queue_closed s' = queue_closed s /\ transport_closed s' = false /\ started s' = started s /\
    ka s' = ka s /\ ticker_stopped s' = ticker_stopped s.
Proof.
  intros Hw Ht Hi. unfold step. rewrite Hw, Ht, Hi. eexists. split; [reflexivity|].
  destruct (0 <? q)%Z; sproj; rewrite ?app_nil_r; repeat split; auto.
Qed.

(* an unmatched well-formed PDU is handed to the application, which receives exactly it *)
Lemma c16_deliver_step v s p rest :
  wpc s = WReading -> transport_closed s = false -> inbound s = IPdu p :: rest ->
  pending s (snd p) = None -> queue_closed s = false ->
  exists s1 s2, step v s WatchStep = Some s1 /\ wpc s1 = WSending p /\ app s1 = app s /\ wire s1 = wire s /\
    step v s1 AppRecv = Some s2 /\ app s2 = app s ++ [p] /\ wpc s2 = WTop /\ inbound s2 = rest.
Proof.
  intros Hw Ht Hi Hp Hq. unfold step at 1. rewrite Hw, Ht, Hi, Hp, Hq. eexists. eexists.
  split; [reflexivity|]. sproj. repeat split; auto.
Qed.

(* ------------------------------------------------------------------ continuing as if the bad frame had been absent *)
(* everything the code reads or the outside observes, except the Write log and the ghosts *)
Definition core (s : state) :=
  (callers s, started s, pending s, inbound s, in_end s, wpc s, app s, done s, queue_closed s,
   transport_closed s, ka s, ticker_stopped s).

Lemma step_core v a b e a' :
  core a = core b -> wire_calls (wire a) = wire_calls (wire b) ->
  step v a e = Some a' ->
  exists b', step v b e = Some b' /\ core a' = core b' /\ wire_calls (wire a') = wire_calls (wire b').
Proof.
  intros Hc Hw H.
  destruct a as [ca sa pa ia ea wa wpa aa da qa ta kaa tsa inja tka], b as [cb sb pb ib eb wb wpb ab db qb tb kab tsb injb tkb].
  unfold core in Hc. cbn in Hc. cbn [wire] in Hw.
  injection Hc as -> -> -> -> -> -> -> -> -> -> -> ->.
  destruct e; unfold step, at_send, can_write, after_call, gor_free, ka_allows in *; cbv zeta in *;
    cbn -[wire_calls] in *;
    break_match_hyp H; try (injection H as <-); cbn -[wire_calls];
    try (eexists; split; [reflexivity|]; unfold core; cbn -[wire_calls]; split; [reflexivity|];
         rewrite ?wire_calls_app; cbn -[wire_calls]; congruence).
Qed.

Lemma run_core v t : forall a b a',
  core a = core b -> wire_calls (wire a) = wire_calls (wire b) ->
  run v a t = Some a' ->
  exists b', run v b t = Some b' /\ core a' = core b' /\ wire_calls (wire a') = wire_calls (wire b').
Proof.
  induction t as [|e t IH]; intros a b a' Hc Hw H; cbn [run] in *.
  - injection H as <-. exists b. auto.
  - destruct (step v a e) as [a1|] eqn:E; [|discriminate].
    destruct (step_core v a b e a1 Hc Hw E) as (b1 & -> & Hc1 & Hw1). eapply IH; eauto.
Qed.

(* After the generic_nack the connection is in the state it would be in had
   the undecodable frame never been in the stream and Watch just finished an
   ordinary iteration — up to the generic_nack in the Write log — and it stays
   so under every continuation: same callers, same pending table, same
   deliveries, same frames of callers on the wire, same Watch position. *)
Lemma c16_continue v s q rest :
  wpc s = WReading -> transport_closed s = false -> inbound s = IBad q :: rest ->
  exists s', step v s WatchStep = Some s' /\
    let s0 := set_wpc (set_inbound s rest) WTop in
    core s' = core s0 /\ wire_calls (wire s') = wire_calls (wire s0) /\
    forall t s1, run v s' t = Some s1 ->
      exists s2, run v s0 t = Some s2 /\ core s1 = core s2 /\ wire_calls (wire s1) = wire_calls (wire s2).
Proof.
  intros Hw Ht Hi.
  destruct (c16_nack_step v s q rest Hw Ht Hi) as (s' & Hs & W & A & P & I & D & C & Pe & E & Q & T & St & K & Ts).
  exists s'. split; [exact Hs|]. cbv zeta.
  assert (Hc : core s' = core (set_wpc (set_inbound s rest) WTop)).
  { unfold core. sproj. now rewrite C, St, Pe, I, E, P, A, D, Q, T, Ht, K, Ts. }
  assert (Hwc : wire_calls (wire s') = wire_calls (wire (set_wpc (set_inbound s rest) WTop))).
  { sproj. rewrite W, wire_calls_app. destruct (0 <? q)%Z; cbn; now rewrite app_nil_r. }
  split; [exact Hc|]. split; [exact Hwc|]. intros t s1 Hr. eapply run_core; eauto.
Qed.

(* ------------------------------------------------------------------ non-vacuity *)
Definition c16_trace : list event :=
  [WatchLoop;
   Start 0 KSubmit 1 7%Z (Ok [7]); Register 0; WireWrite 0; WriteReturn 0;
   PeerFrame (IPdu (5, 100%Z)); PeerFrame (IBad 8%Z); PeerFrame (IPdu (2147483652, 7%Z)); PeerFrame (IBad 0%Z);
   PeerFrame (IPdu (5, 101%Z));
   WatchStep; AppRecv; WatchLoop; WatchStep; WatchLoop; WatchStep; WatchLoop; WatchStep; WatchLoop; WatchStep; AppRecv].

Lemma c16_example :
  exists s, reachable fixed s /\ app s = [(5, 100%Z); (5, 101%Z)] /\ wire_nacks (wire s) = [8%Z] /\
            c_mail (callers s 0%nat) = Some (2147483652, 7%Z) /\ wpc s = WTop /\ inbound s = [].
Proof.
  destruct (run fixed init c16_trace) as [s|] eqn:E; [|vm_compute in E; discriminate].
  exists s. split; [exists c16_trace; exact E|].
  vm_compute in E. injection E as <-. vm_compute. repeat split; auto.
Qed.
