(* Reader independence of the WHOLE decoder.  Model/TpduReader.v writes sms.Unmarshal over the bufio reader model
   ([unmarshal_gen_on]: getType's two Peeks, then the field walk with ReadByte / readFull / Discard, the reader state
   threaded through); this file shows that for every environment, every reader state satisfying [inv] whose first
   octet can be peeked behind (first octet + 3 <= 4096: any octet) it returns exactly what the list decoder of
   Model/Tpdu.v returns on the octets still to come.  Simulation: [sim o ob] relates a list step to a reader step -
   same value and the reader left holds the list's rest (and [inv]), or the same error, or both Panic; the four
   per-primitive theorems of Proofs/TpduReader.v are the base cases, [sim_bind] the composition, and the field walk
   is an induction over the field list. *)
From V Require Import Model.TpduReader Proofs.TpduReader Model.TpduReaderRun Proofs.TpduTotal.
From Coq Require Import ZifyN ZifyNat ZifyBool Lia.
Open Scope N_scope.

Definition sim {A} (o : outcome (A * bytes)) (ob : outcome (A * breader)) : Prop :=
  match o with
  | Ok (a, rest) => exists b', ob = Ok (a, b') /\ content b' = rest /\ inv b'
  | Err e => ob = Err e
  | Panic => ob = Panic
  end.

Lemma sim_ret {A} (a : A) b : inv b -> sim (Ok (a, content b)) (Ok (a, b)).
Proof. intros Hi. exists b. auto. Qed.

Lemma sim_bind {A B} (o : outcome (A * bytes)) ob (f : A * bytes -> outcome (B * bytes)) (g : A * breader -> outcome (B * breader)) :
  sim o ob -> (forall a b', inv b' -> sim (f (a, content b')) (g (a, b'))) -> sim (obind o f) (obind ob g).
Proof.
  intros Hs Hk. destruct o as [[a rest]|e|]; cbn in Hs.
  - destruct Hs as [b' [-> [<- Hi]]]. cbn. apply Hk. exact Hi.
  - rewrite Hs. reflexivity.
  - rewrite Hs. reflexivity.
Qed.

(* a step that does not touch the reader *)
Lemma sim_bind_pure {A B} (o : outcome A) (f : A -> outcome (B * bytes)) (g : A -> outcome (B * breader)) :
  (forall a, sim (f a) (g a)) -> sim (obind o f) (obind o g).
Proof. intros Hk. destruct o as [a|e|]; cbn; [apply Hk|reflexivity|reflexivity]. Qed.

(* ---- the primitives as simulation steps *)
Lemma sim_read_byte b : inv b -> sim (read_byte (content b)) (br_read_byte b).
Proof.
  intros Hi. pose proof (read_byte_independent b Hi) as H. unfold sim.
  destruct (read_byte (content b)) as [[x r]|e|] eqn:E; [exact H| |contradiction].
  unfold read_byte in E. destruct (content b); [|discriminate]. injection E as <-. exact H.
Qed.

Lemma sim_read_full n b : inv b -> sim (read_n n (content b)) (br_read_full n b).
Proof.
  intros Hi. pose proof (read_full_independent n b Hi) as H. unfold sim.
  destruct (read_n n (content b)) as [[x r]|e|] eqn:E; [exact H| |contradiction].
  unfold read_n in E. destruct (n =? 0); [discriminate|]. destruct (content b); [|discriminate]. injection E as <-. exact H.
Qed.

(* Discard returns no value: a continuation form *)
Lemma sim_bind_discard {B} n b (f : bytes -> outcome (B * bytes)) (g : breader -> outcome (B * breader)) :
  inv b -> (forall b', inv b' -> sim (f (content b')) (g b')) ->
  sim (obind (discard n (content b)) f) (obind (br_discard n b) g).
Proof.
  intros Hi Hk. pose proof (discard_independent n b Hi) as H.
  destruct (discard n (content b)) as [r|e|] eqn:E; [| |contradiction].
  - destruct H as [b' [-> [<- Hi']]]. cbn. apply Hk. exact Hi'.
  - rewrite H. unfold discard in E. destruct (blen (content b) <? n); [|discriminate]. injection E as <-. reflexivity.
Qed.

Ltac sim_step :=
  match goal with
  | |- sim (obind (read_byte (content ?b)) _) (obind (br_read_byte ?b) _) =>
      apply sim_bind; [apply sim_read_byte; assumption|]; let x := fresh "x" in let b' := fresh "b" in let Hb := fresh "Hi" in
      intros x b' Hb; cbn beta iota
  | |- sim (obind (read_n ?n (content ?b)) _) (obind (br_read_full ?n ?b) _) =>
      apply sim_bind; [apply sim_read_full; assumption|]; let x := fresh "x" in let b' := fresh "b" in let Hb := fresh "Hi" in
      intros x b' Hb; cbn beta iota
  | |- sim (obind (discard ?n (content ?b)) _) (obind (br_discard ?n ?b) _) =>
      apply sim_bind_discard; [assumption|]; let b' := fresh "b" in let Hb := fresh "Hi" in intros b' Hb; cbn beta iota
  | |- sim (obind ?o _) (obind ?o _) =>
      apply sim_bind_pure; let x := fresh "x" in intros x; cbn beta iota
  | |- sim (Ok (_, content ?b)) (Ok (_, ?b)) => apply sim_ret; assumption
  | |- sim (Err _) (Err _) => reflexivity
  | |- sim (if ?c then _ else _) (if ?c then _ else _) => destruct c
  end.

(* ---- the field decoders *)
Lemma sim_addr_read t b : inv b -> sim (addr_read t (content b)) (addr_read_on t b).
Proof. intros Hi. unfold addr_read, addr_read_on. repeat sim_step. Qed.

Lemma sim_sc_read t b : inv b -> sim (sc_read t (content b)) (sc_read_on t b).
Proof. intros Hi. unfold sc_read, sc_read_on. repeat sim_step. Qed.

Lemma sim_time_read legacy b : inv b -> sim (time_read_gen legacy (content b)) (time_read_gen_on legacy b).
Proof. intros Hi. unfold time_read_gen, time_read_gen_on. repeat sim_step. Qed.

Lemma sim_rel_read b : inv b -> sim (rel_read (content b)) (rel_read_on b).
Proof. intros Hi. unfold rel_read, rel_read_on. repeat sim_step. Qed.

Lemma sim_enh_read legacy b : inv b -> sim (enh_read_gen legacy (content b)) (enh_read_gen_on legacy b).
Proof.
  intros Hi. unfold enh_read_gen, enh_read_gen_on. sim_step. sim_step; [|sim_step; [|sim_step]].
  - apply sim_bind; [apply sim_rel_read; assumption|]. intros d b1 Hi1. cbn beta iota. repeat sim_step.
  - repeat sim_step.
  - (* hh:mm:ss: the three octets are indexed before the read error is looked at *)
    pose proof (sim_read_full 3 b0 Hi0) as Hrd. cbv zeta.
    destruct (read_n 3 (content b0)) as [[data rest]|e|] eqn:E; unfold sim in Hrd.
    + destruct Hrd as [b1 [-> [<- Hi1]]]. cbn beta iota. repeat sim_step.
      cbn [obind]. repeat sim_step.
    + rewrite Hrd. cbn beta iota. repeat sim_step. reflexivity.
    + rewrite Hrd. cbn beta iota. repeat sim_step. reflexivity.
  - repeat sim_step.
Qed.

Lemma sim_field_read legacy t st f b : inv b ->
  sim (field_read legacy t st f (content b)) (field_read_on legacy t st f b).
Proof.
  intros Hi. unfold field_read, field_read_on. destruct (f_dkind f).
  - repeat sim_step.
  - repeat sim_step.
  - repeat sim_step.
  - apply sim_bind; [apply sim_sc_read; assumption|]. intros a b1 Hi1. cbn beta iota. repeat sim_step.
  - apply sim_bind; [apply sim_addr_read; assumption|]. intros a b1 Hi1. cbn beta iota. repeat sim_step.
  - apply sim_bind; [apply sim_time_read; assumption|]. intros a b1 Hi1. cbn beta iota. repeat sim_step.
  - sim_step; [|repeat sim_step]. sim_step; [|sim_step; [|sim_step]].
    + apply sim_bind; [apply sim_enh_read; assumption|]. intros a b1 Hi1. cbn beta iota. repeat sim_step.
    + apply sim_bind; [apply sim_rel_read; assumption|]. intros a b1 Hi1. cbn beta iota. repeat sim_step.
    + apply sim_bind; [apply sim_time_read; assumption|]. intros a b1 Hi1. cbn beta iota. repeat sim_step.
    + repeat sim_step.
  - repeat sim_step.
Qed.

(* ---- the field walk: induction over the field list, any state of the walk, any reader state *)
Lemma fields_read_on_eq legacy t fs : forall st b, inv b ->
  fields_read_on legacy t st fs b = fields_read legacy t st fs (content b).
Proof.
  induction fs as [|f rest IH]; intros st b Hi; [reflexivity|]. cbn [fields_read_on fields_read].
  destruct (match u_pi st with Some (pfs, pv) => negb (pi_has pfs pv (f_tp f)) | None => false end).
  - rewrite (IH st b Hi). reflexivity.
  - pose proof (sim_field_read legacy t st f b Hi) as H.
    destruct (field_read legacy t st f (content b)) as [[v r]|e|]; cbn in H.
    + destruct H as [b' [-> [<- Hi']]]. cbn [obind]. rewrite (IH _ b' Hi'). reflexivity.
    + rewrite H. reflexivity.
    + rewrite H. reflexivity.
Qed.

(* ---- getType: Peek(1), Peek(length+3).  bufio can peek at most its buffer size: the first octet (the SC address
   length) + 3 must not exceed 4096 - true of every octet. *)
Definition peekable (bs : bytes) : Prop := match bs with [] => True | l :: _ => l + 3 <= 4096 end.

Lemma octets_peekable bs : octets bs -> peekable bs.
Proof. intros H. destruct bs as [|l r]; [exact I|]. inversion H as [|? ? Hl _]. unfold octet in Hl. cbn. lia. Qed.

Lemma get_type_on_eq b : inv b -> peekable (content b) ->
  match get_type (content b) with
  | Ok (k, f) => exists b', get_type_on b = Ok (k, f, b') /\ content b' = content b /\ inv b'
  | Err e => get_type_on b = Err e
  | Panic => get_type_on b = Panic
  end.
Proof.
  intros Hi Hp. unfold get_type, get_type_on.
  pose proof (peek_independent 1 b Hi ltac:(unfold bufsize; lia)) as H1.
  destruct (content b) as [|l r] eqn:Ec.
  - cbn in H1. rewrite H1. reflexivity.
  - assert (E1 : blen (l :: r) <? N.of_nat 1 = false) by (apply N.ltb_ge; unfold blen; cbn [List.length]; lia).
    rewrite E1 in H1. destruct H1 as [b1 [-> [Hc1 Hi1]]]. cbn [obind firstn idx nth_error N.to_nat].
    change (nth_error [l] (N.to_nat 0)) with (Some l). cbn beta iota.
    cbn in Hp.
    pose proof (peek_independent (N.to_nat (l + 3)) b1 Hi1 ltac:(unfold bufsize; lia)) as H2.
    rewrite Hc1, N2Nat.id in H2.
    destruct (blen (l :: r) <? l + 3).
    + rewrite H2. reflexivity.
    + destruct H2 as [b2 [-> [Hc2 Hi2]]]. cbn [obind].
      destruct (idx (firstn (N.to_nat (l + 3)) (l :: r)) (l + 1)) as [f|e|]; cbn [obind]; try reflexivity.
      destruct (idx (firstn (N.to_nat (l + 3)) (l :: r)) (l + 2)) as [g|e|]; cbn [obind]; try reflexivity.
      exists b2. split; [reflexivity|]. split; [congruence|exact Hi2].
Qed.

(* ---- the whole decoder *)
Theorem unmarshal_gen_on_eq legacy E b : inv b -> peekable (content b) ->
  unmarshal_gen_on legacy E b = unmarshal_gen legacy E (content b).
Proof.
  intros Hi Hp. unfold unmarshal_gen_on, unmarshal_gen.
  pose proof (get_type_on_eq b Hi Hp) as H.
  destruct (get_type (content b)) as [[k f]|e|].
  - destruct H as [b' [-> [Hc Hi']]]. cbn [obind].
    destruct (struct_of k f) as [name|]; [|reflexivity].
    destruct (find_layout (e_layouts E) name) as [l|]; [|reflexivity].
    rewrite (fields_read_on_eq legacy (e_g7 E) (tl_fields l) st0 b' Hi'), Hc. reflexivity.
  - rewrite H. reflexivity.
  - rewrite H. reflexivity.
Qed.

Theorem unmarshal_gen_new_reader_eq legacy E data sched eofd : peekable data ->
  unmarshal_gen_on legacy E (new_reader data sched eofd) = unmarshal_gen legacy E data.
Proof.
  intros Hp. destruct (new_reader_ok data sched eofd) as [Hi Hc].
  rewrite (unmarshal_gen_on_eq legacy E _ Hi); rewrite Hc; [reflexivity|exact Hp].
Qed.

(* sms.Unmarshal over bufio.NewReader(r), r handing out the octets by ANY schedule of read sizes, io.EOF with the last
   piece or after it: the list decoder on the octets *)
Theorem unmarshal_reader_eq E data sched eofd : octets data ->
  unmarshal_reader E data sched eofd = unmarshal E data.
Proof.
  intros Ho. unfold unmarshal_reader, unmarshal_on, unmarshal.
  destruct (new_reader_ok data sched eofd) as [Hi Hc].
  rewrite (unmarshal_gen_on_eq false E _ Hi); rewrite Hc; [reflexivity|apply octets_peekable; exact Ho].
Qed.

(* two readers, same octets: same outcome *)
Corollary unmarshal_reader_independent E data s1 e1 s2 e2 : octets data ->
  unmarshal_reader E data s1 e1 = unmarshal_reader E data s2 e2.
Proof. intros Ho. rewrite !unmarshal_reader_eq by exact Ho. reflexivity. Qed.

(* ---- the shipped code (generated environment) *)

Theorem sms_unmarshal_reader_eq data sched eofd : octets data ->
  sms_unmarshal_reader data sched eofd = sms_unmarshal data.
Proof. exact (unmarshal_reader_eq sms_env data sched eofd). Qed.

(* the full statement: any environment, any two schedules, equal to the list decoder; with [unmarshal_gen_on_eq]
   for a reader in ANY state satisfying the invariant (octets already buffered, schedule partly used) *)
Theorem reader_independence :
  forall (E : env) (data : bytes), octets data ->
  forall (s1 s2 : list nat) (e1 e2 : bool),
    unmarshal_reader E data s1 e1 = unmarshal_reader E data s2 e2 /\
    unmarshal_reader E data s1 e1 = unmarshal E data.
Proof.
  intros E data Ho s1 s2 e1 e2. split; [apply unmarshal_reader_independent; exact Ho|apply unmarshal_reader_eq; exact Ho].
Qed.

Theorem reader_independence_any_state :
  forall (legacy : bool) (E : env) (b : breader), inv b -> octets (content b) ->
    unmarshal_gen_on legacy E b = unmarshal_gen legacy E (content b).
Proof. intros legacy E b Hi Ho. apply unmarshal_gen_on_eq; [exact Hi|apply octets_peekable; exact Ho]. Qed.

(* transfer: whatever holds of the list decoder holds behind every reader - e.g. C18 itself *)
Theorem unmarshal_reader_never_panics E : env_ok E ->
  forall data sched eofd, octets data -> unmarshal_reader E data sched eofd <> Panic.
Proof. intros HE data sched eofd Ho. rewrite unmarshal_reader_eq by exact Ho. apply unmarshal_never_panics. exact HE. Qed.

Theorem sms_unmarshal_reader_total data sched eofd : octets data ->
  sms_unmarshal_reader data sched eofd <> Panic /\
  ((exists e, sms_unmarshal_reader data sched eofd = Err e) \/
   (exists name l vs, sms_unmarshal_reader data sched eofd = Ok (name, vs) /\ In name struct_names /\
      find_layout tpdu_layouts name = Some l /\
      Forall2 (fun f v => val_fits (f_dkind f) v) (tl_fields l) vs)).
Proof. intros Ho. rewrite sms_unmarshal_reader_eq by exact Ho. apply sms_unmarshal_total. Qed.

(* the hypothesis cannot be dropped for the MODEL's lists of arbitrary numbers: a first "octet" of 5000 asks bufio to
   peek 5003 octets, more than its buffer - the list decoder goes on, the reader fails (an octet is < 256, so this is
   not a TPDU; Go's peek[0] is a byte) *)
Lemma octets_hypothesis_needed :
  let data := 5000 :: repeat 0 (N.to_nat 5100) in
  unmarshal_reader sms_env data [] false = Err EEOF /\ is_ok (unmarshal sms_env data) = true.
Proof. vm_compute. split; reflexivity. Qed.

Lemma sample_deliver_octets : octets sample_deliver.
Proof.
  apply Forall_forall. intros x Hx.
  assert (H : forallb (fun b => b <? 256) sample_deliver = true) by (vm_compute; reflexivity).
  rewrite forallb_forall in H. apply N.ltb_lt. exact (H x Hx).
Qed.

(* non-vacuity: the captured SMS-DELIVER read one octet per call (io.EOF afterwards), in pieces 3,1,7,2,100 (io.EOF
   with the last piece), and as a list: the same 7-field Deliver; its 20-octet prefix: the same error *)
Lemma sample_deliver_two_schedules :
  exists vs, List.length vs = 7%nat /\
    sms_unmarshal_reader sample_deliver [] false = Ok ("Deliver"%string, vs) /\
    sms_unmarshal_reader sample_deliver [3; 1; 7; 2; 100]%nat true = Ok ("Deliver"%string, vs) /\
    sms_unmarshal sample_deliver = Ok ("Deliver"%string, vs) /\
    (exists e, sms_unmarshal_reader (firstn 20 sample_deliver) [] false = Err e /\
               sms_unmarshal_reader (firstn 20 sample_deliver) [19; 1]%nat true = Err e /\
               sms_unmarshal (firstn 20 sample_deliver) = Err e).
Proof.
  eexists. split; [|split; [vm_compute; reflexivity|]].
  - vm_compute. reflexivity.
  - split; [vm_compute; reflexivity|]. split; [vm_compute; reflexivity|].
    eexists. split; [vm_compute; reflexivity|]. split; vm_compute; reflexivity.
Qed.
