(* C02, the converse without any hypothesis about Marshal: for EVERY layout of the right shape (a fortiori the 33
   registered ones) and EVERY frame laid out by the specification encoder (Spec/Smpp5.v: lay_params, spec_frame) from
   specification-level values — C-octet strings, one-octet integers, destination entries in any order, unsuccess
   records, a short message with or without a user data header and ANY sm_length 0..255, TLVs in ANY order with
   duplicates and zero-length values — the decoder returns exactly [of_x]: the values laid out, booleans as (octet = 1),
   flag octets split at the SMPP bit positions, destinations split by kind in transmission order, and for TLVs the map
   holding per tag the LAST value sent. *)
From V Require Import Model.Pdu Spec.Smpp5 Proofs.PduMarshalProofs Proofs.PduStreamProofs Proofs.PduRoundtripProofs Proofs.PduStableProofs Proofs.PduSpecProofs.
From Coq Require Import ZifyN ZifyNat ZifyBool.
Ltac Zify.zify_post_hook ::= Z.div_mod_to_equations.
Open Scope N_scope.

(* ------------------------------------------------------------ specification-level values *)
Inductive xval :=
| XStr (s : bytes)
| XInt (n : N)
| XDests (l : list sdest)                  (* in transmission order, kinds interleaved *)
| XUnsucc (l : list (addr * N))
| XShort (u : option kvs) (msg : bytes)    (* user data header (when the indicator is set) and message *)
| XTlvs (l : list (N * bytes)).            (* in transmission order: any order, duplicates, empty values *)

Definition flat (x : xval) : sval :=
  match x with
  | XStr s => SStr s
  | XInt n => SInt n
  | XDests l => SDests l
  | XUnsucc l => SUnsucc (map (fun e => (to_saddr (fst e), snd e)) l)
  | XShort u msg => SShort ((match u with Some u' => spec_udh u' | None => [] end) ++ msg)
  | XTlvs l => STlvs l
  end.

(* what the decoder returns for the parameters of one Go field; [udhi]: the indicator of the esm_class decoded before *)
Definition of_x_field (lay : layout) (udhi : bool) (k : fkind) (xs : list xval) : option (fval * list xval) :=
  match k, xs with
  | FSkipped, _ => Some (VSkipped 0, xs)
  | FCStr, XStr s :: r => if nulfree s then Some (VStr s, r) else None
  | FU8, XInt n :: r => if n <? 256 then Some (VU8 n, r) else None
  | FBool, XInt n :: r => if n <? 256 then Some (VBool (n =? 1), r) else None
  | FEsm, XInt n :: r => if n <? 256 then Some (VEsm (esm_of_byte n), r) else None
  | FRegDel, XInt n :: r => if n <? 256 then Some (VRegDel (regdel_of_byte n), r) else None
  | FAddr, XInt t :: XInt n :: XStr s :: r =>
    if (t <? 256) && (n <? 256) && nulfree s then Some (VAddr {| a_ton := t; a_npi := n; a_no := s |}, r) else None
  | FDests, XDests l :: r => if forallb dest_ok l then Some (VDests (smes_of l) (dls_of l), r) else None
  | FUnsucc, XUnsucc l :: r => if forallb wf_rec l then Some (VUnsucc l, r) else None
  | FShortMsg, _ =>
    let active := negb (l_replace lay) && l_has_esm lay && udhi in
    let ok (u : option kvs) := match u with Some u' => active && wf_udh u' | None => negb active end in
    if l_replace lay then
      match xs with
      | XInt dflt :: XShort u msg :: r =>
        if (dflt <? 256) && ok u then Some (VShort {| sm_dflt := dflt; sm_dc := NoCoding; sm_udh := u; sm_msg := msg |}, r) else None
      | _ => None
      end
    else
      match xs with
      | XInt dc :: XInt dflt :: XShort u msg :: r =>
        if (dc <? 256) && (dflt <? 256) && ok u then Some (VShort {| sm_dflt := dflt; sm_dc := dc; sm_udh := u; sm_msg := msg |}, r) else None
      | _ => None
      end
  | FTags, XTlvs l :: r => if forallb tlv_ok0 l then Some (VTags (kv_sort l), r) else None
  | _, _ => None
  end.

Definition is_nil {A} (l : list A) : bool := match l with [] => true | _ => false end.

Fixpoint of_x_fields (lay : layout) (ks : list fkind) (xs : list xval) (udhi : bool) : option (list fval) :=
  match ks with
  | [] => match xs with [] => Some [] | _ => None end
  | k :: ks' =>
    if is_tags k && negb (is_nil ks') then None else      (* TLVs run to the end of the PDU *)
    match of_x_field lay udhi k xs with
    | Some (v, r) =>
      match of_x_fields lay ks' r (match v with VEsm e => e_udhi e | _ => udhi end) with
      | Some vs => Some (v :: vs)
      | None => None
      end
    | None => None
    end
  end.

(* ------------------------------------------------------------ helpers *)
Lemma lay_params_cons p ps v vs body :
  lay_params (p :: ps) (v :: vs) = Some body ->
  exists a b, lay_param p v = Some a /\ lay_params ps vs = Some b /\ body = a ++ b.
Proof.
  cbn [lay_params]. destruct (lay_param p v) as [a|]; [|discriminate].
  destruct (lay_params ps vs) as [b|]; [|discriminate]. intros [= <-]. eauto.
Qed.

Lemma lay_int n a : lay_param PInt1 (SInt n) = Some a -> a = [n] /\ n < 256.
Proof. cbn [lay_param]. destruct (N.ltb_spec n 256); [|discriminate]. intros [= <-]. split; [reflexivity | assumption]. Qed.

Lemma lay_str m s a : nulfree s = true -> lay_param (PCStr m) (SStr s) = Some a -> a = enc_cstr s.
Proof. intros H. cbn [lay_param]. rewrite (lay_cstr_enc s H). congruence. Qed.

Lemma dec_unsucc_spec l a rest :
  forallb wf_rec l = true -> lay_param PUnsucc (SUnsucc (map (fun e => (to_saddr (fst e), snd e)) l)) = Some a ->
  dec_unsucc (a ++ rest) = Ok (l, rest).
Proof.
  intros Hw. cbn [lay_param]. rewrite map_length.
  destruct (N.leb_spec (N.of_nat (List.length l)) 255); [|discriminate].
  rewrite (lay_all_recs l Hw). intros [= <-].
  unfold dec_unsucc. rewrite <- app_comm_cons. cbn [dec_u8 obind]. rewrite Nat2N.id.
  apply (dec_unsucc_loop_all l [] rest Hw).
Qed.

(* ------------------------------------------------------------ one field *)
Lemma field_converse lay udhi k xs v xr ps body :
  (match k with FTags => False | _ => True end) ->
  of_x_field lay udhi k xs = Some (v, xr) ->
  lay_params (erase_kind (l_replace lay) k ++ ps) (map flat xs) = Some body ->
  exists b, lay_params ps (map flat xr) = Some b /\ dec_field lay udhi k body = Ok (v, b).
Proof.
  intros Hk Hof Hl. destruct k; try contradiction; cbn [erase_kind app] in Hl.
  - (* FHeader *) discriminate.
  - (* FCStr *) destruct xs as [|[s|?|?|?|? ?|?] r]; try discriminate. cbn [of_x_field] in Hof.
    destruct (nulfree s) eqn:Hs; [|discriminate]. injection Hof as <- <-. cbn [map flat] in Hl.
    destruct (lay_params_cons _ _ _ _ _ Hl) as (a & b & Ha & Hb & ->). rewrite (lay_str _ _ _ Hs Ha).
    exists b. split; [exact Hb|]. cbn [dec_field]. rewrite (dec_cstr_enc s b Hs). reflexivity.
  - (* FU8 *) destruct xs as [|[?|n|?|?|? ?|?] r]; try discriminate. cbn [of_x_field] in Hof.
    destruct (n <? 256); [|discriminate]. injection Hof as <- <-. cbn [map flat] in Hl.
    destruct (lay_params_cons _ _ _ _ _ Hl) as (a & b & Ha & Hb & ->). destruct (lay_int _ _ Ha) as [-> _].
    exists b. split; [exact Hb|]. reflexivity.
  - (* FBool *) destruct xs as [|[?|n|?|?|? ?|?] r]; try discriminate. cbn [of_x_field] in Hof.
    destruct (n <? 256); [|discriminate]. injection Hof as <- <-. cbn [map flat] in Hl.
    destruct (lay_params_cons _ _ _ _ _ Hl) as (a & b & Ha & Hb & ->). destruct (lay_int _ _ Ha) as [-> _].
    exists b. split; [exact Hb|]. reflexivity.
  - (* FEsm *) destruct xs as [|[?|n|?|?|? ?|?] r]; try discriminate. cbn [of_x_field] in Hof.
    destruct (n <? 256); [|discriminate]. injection Hof as <- <-. cbn [map flat] in Hl.
    destruct (lay_params_cons _ _ _ _ _ Hl) as (a & b & Ha & Hb & ->). destruct (lay_int _ _ Ha) as [-> _].
    exists b. split; [exact Hb|]. reflexivity.
  - (* FRegDel *) destruct xs as [|[?|n|?|?|? ?|?] r]; try discriminate. cbn [of_x_field] in Hof.
    destruct (n <? 256); [|discriminate]. injection Hof as <- <-. cbn [map flat] in Hl.
    destruct (lay_params_cons _ _ _ _ _ Hl) as (a & b & Ha & Hb & ->). destruct (lay_int _ _ Ha) as [-> _].
    exists b. split; [exact Hb|]. reflexivity.
  - (* FAddr *) destruct xs as [|[?|t|?|?|? ?|?] [|[?|n|?|?|? ?|?] [|[s|?|?|?|? ?|?] r]]]; try discriminate.
    cbn [of_x_field] in Hof. destruct ((t <? 256) && (n <? 256) && nulfree s) eqn:Hc; [|discriminate].
    injection Hof as <- <-. apply andb_true_iff in Hc. destruct Hc as [_ Hs]. cbn [map flat] in Hl.
    destruct (lay_params_cons _ _ _ _ _ Hl) as (a1 & b1 & Ha1 & Hl1 & ->). destruct (lay_int _ _ Ha1) as [-> _].
    destruct (lay_params_cons _ _ _ _ _ Hl1) as (a2 & b2 & Ha2 & Hl2 & ->). destruct (lay_int _ _ Ha2) as [-> _].
    destruct (lay_params_cons _ _ _ _ _ Hl2) as (a3 & b3 & Ha3 & Hl3 & ->). rewrite (lay_str _ _ _ Hs Ha3).
    exists b3. split; [exact Hl3|]. cbn [dec_field app]. unfold dec_addr. cbn [dec_u8 obind].
    rewrite (dec_cstr_enc s b3 Hs). reflexivity.
  - (* FDests *) destruct xs as [|[?|?|l|?|? ?|?] r]; try discriminate. cbn [of_x_field] in Hof.
    destruct (forallb dest_ok l) eqn:Hw; [|discriminate]. injection Hof as <- <-. cbn [map flat] in Hl.
    destruct (lay_params_cons _ _ _ _ _ Hl) as (a & b & Ha & Hb & ->).
    exists b. split; [exact Hb|]. cbn [dec_field]. rewrite (dec_dests_any_order l a b Hw Ha). reflexivity.
  - (* FUnsucc *) destruct xs as [|[?|?|?|l|? ?|?] r]; try discriminate. cbn [of_x_field] in Hof.
    destruct (forallb wf_rec l) eqn:Hw; [|discriminate]. injection Hof as <- <-. cbn [map flat] in Hl.
    destruct (lay_params_cons _ _ _ _ _ Hl) as (a & b & Ha & Hb & ->).
    exists b. split; [exact Hb|]. cbn [dec_field]. rewrite (dec_unsucc_spec l a b Hw Ha). reflexivity.
  - (* FShortMsg *) cbn [of_x_field] in Hof. destruct (l_replace lay) eqn:Erep; cbn [app] in Hl.
    + destruct xs as [|[?|dflt|?|?|? ?|?] [|[?|?|?|?|u msg|?] r]]; try discriminate.
      cbn [negb andb] in Hof.
      destruct (dflt <? 256); [|discriminate]. cbn [andb] in Hof.
      destruct u as [u|]; [discriminate|]. injection Hof as <- <-. cbn [map flat] in Hl.
      destruct (lay_params_cons _ _ _ _ _ Hl) as (a1 & b1 & Ha1 & Hl1 & ->). destruct (lay_int _ _ Ha1) as [-> _].
      destruct (lay_params_cons _ _ _ _ _ Hl1) as (a2 & b2 & Ha2 & Hl2 & ->).
      cbn [lay_param app] in Ha2. rewrite slen_len in Ha2. destruct (N.leb_spec (len msg) 255) as [Hm|]; [|discriminate].
      injection Ha2 as <-. exists b2. split; [exact Hl2|]. cbn [dec_field]. rewrite Erep. cbn [negb andb].
      pose proof (spec_short_decodes true 0 dflt None msg b2 (fun _ => eq_refl) I Hm) as Hd.
      cbn [app] in Hd. cbn [app]. rewrite Hd. reflexivity.
    + destruct xs as [|[?|dc|?|?|? ?|?] [|[?|dflt|?|?|? ?|?] [|[?|?|?|?|u msg|?] r]]]; try discriminate.
      cbn [negb andb] in Hof.
      destruct (dc <? 256); [|discriminate]. destruct (dflt <? 256); [|discriminate]. cbn [andb] in Hof.
      cbn [map flat] in Hl.
      destruct (lay_params_cons _ _ _ _ _ Hl) as (a1 & b1 & Ha1 & Hl1 & ->). destruct (lay_int _ _ Ha1) as [-> _].
      destruct (lay_params_cons _ _ _ _ _ Hl1) as (a2 & b2 & Ha2 & Hl2 & ->). destruct (lay_int _ _ Ha2) as [-> _].
      destruct (lay_params_cons _ _ _ _ _ Hl2) as (a3 & b3 & Ha3 & Hl3 & ->).
      cbn [lay_param] in Ha3. rewrite slen_len in Ha3.
      destruct (N.leb_spec (len ((match u with Some u' => spec_udh u' | None => [] end) ++ msg)) 255) as [Hm|]; [|discriminate].
      injection Ha3 as <-.
      destruct u as [u|].
      * destruct (l_has_esm lay && udhi) eqn:Eact; [|discriminate]. cbn [andb] in Hof.
        destruct (wf_udh u) eqn:Hwu; [|discriminate]. injection Hof as <- <-.
        exists b3. split; [exact Hl3|]. cbn [dec_field]. rewrite Erep. cbn [negb andb]. rewrite Eact.
        pose proof (spec_short_decodes false dc dflt (Some u) msg b3 (fun H => ltac:(discriminate H)) Hwu Hm) as Hd.
        cbn [app] in Hd. cbn [app]. rewrite Hd. reflexivity.
      * destruct (l_has_esm lay && udhi) eqn:Eact; [discriminate|]. injection Hof as <- <-.
        exists b3. split; [exact Hl3|]. cbn [dec_field]. rewrite Erep. cbn [negb andb]. rewrite Eact.
        pose proof (spec_short_decodes false dc dflt None msg b3 (fun _ => eq_refl) I Hm) as Hd.
        cbn [app] in Hd. cbn [app]. rewrite Hd. reflexivity.
  - (* FSkipped *) cbn [of_x_field] in Hof. injection Hof as <- <-. exists body. split; [exact Hl | reflexivity].
Qed.

(* ------------------------------------------------------------ all fields *)
Lemma fields_converse lay : forall ks xs udhi vs body,
  of_x_fields lay ks xs udhi = Some vs ->
  lay_params (flat_map (erase_kind (l_replace lay)) ks) (map flat xs) = Some body ->
  dec_fields lay ks body udhi = Ok vs.
Proof.
  induction ks as [|k ks IH]; intros xs udhi vs body Hof Hl.
  - cbn [of_x_fields] in Hof. destruct xs; [|discriminate]. injection Hof as <-. reflexivity.
  - cbn [of_x_fields] in Hof. cbn [flat_map] in Hl.
    destruct (is_tags k) eqn:Et.
    + (* FTags: last field, takes everything to the end of the PDU *)
      destruct k; try discriminate.
      destruct ks as [|k' ks']; cbn [is_nil negb andb] in Hof; [|discriminate].
      cbn [of_x_field] in Hof. destruct xs as [|x r]; [discriminate|]. destruct x as [?|?|?|?|? ?|tl]; try discriminate.
      destruct (forallb tlv_ok0 tl) eqn:Hw; [|discriminate].
      cbn [of_x_fields] in Hof. destruct r; [|discriminate]. injection Hof as <-.
      cbn [erase_kind flat_map app map flat lay_params lay_param] in Hl.
      destruct (lay_all lay_tlv tl) as [tb|] eqn:El; [|discriminate]. injection Hl as <-. rewrite app_nil_r.
      cbn [dec_fields dec_field]. rewrite (dec_tags_spec tl tb Hw El). reflexivity.
    + cbn [andb] in Hof.
      destruct (of_x_field lay udhi k xs) as [[v xr]|] eqn:Ef; [|discriminate].
      destruct (of_x_fields lay ks xr (match v with VEsm e => e_udhi e | _ => udhi end)) as [vs'|] eqn:Er; [|discriminate].
      injection Hof as <-.
      assert (Hk : match k with FTags => False | _ => True end) by (destruct k; try exact I; discriminate).
      destruct (field_converse lay udhi k xs v xr _ body Hk Ef Hl) as (b & Hb & Hd).
      cbn [dec_fields]. rewrite Hd. cbn [obind]. rewrite (IH xr _ vs' b Er Hb). reflexivity.
Qed.

(* ------------------------------------------------------------ whole PDU *)
Theorem spec_converse lay ks xs vs body q :
  l_fields lay = FHeader :: ks -> l_id lay < 4294967296 ->
  of_x_fields lay ks xs false = Some vs ->
  lay_params (erase lay) (map flat xs) = Some body ->
  16 + len body <= 65536 -> q < 4294967296 ->
  unmarshal lay (spec_frame (l_id lay) 0 q body)
  = Ok (VHeader {| h_len := 16 + len body; h_id := l_id lay; h_status := 0; h_seq := i32_of_u32 q |} :: vs).
Proof.
  intros Hf Hid Hof Hl Hlen Hq. unfold erase in Hl. rewrite Hf in Hl. cbn [flat_map erase_kind app] in Hl.
  unfold unmarshal, spec_frame. rewrite Hf. rewrite !be4_be32. rewrite slen_len.
  rewrite (dec_header_enc (16 + len body) (l_id lay) 0 q body) by lia. cbn [obind h_status N.eqb negb].
  rewrite (fields_converse lay ks xs false vs body Hof Hl). reflexivity.
Qed.

Lemma spec_frame_well_framed id q body : id < 4294967296 -> q < 4294967296 -> 16 + len body <= 65536 ->
  well_framed (spec_frame id 0 q body) /\ len (spec_frame id 0 q body) = 16 + len body.
Proof.
  intros Hid Hq Hlen. unfold spec_frame. rewrite !be4_be32, slen_len.
  assert (L : len (be32 (16 + len body) ++ be32 id ++ be32 0 ++ be32 q ++ body) = 16 + len body).
  { rewrite !len_app, !len_be32. lia. }
  split; [|exact L]. unfold well_framed.
  exists {| h_len := 16 + len body; h_id := id; h_status := 0; h_seq := i32_of_u32 q |}, [].
  split; [|cbn [h_len]; symmetry; exact L].
  unfold be32. cbn [app firstn]. unfold dec_header. rewrite !de32_be32 by lia.
  destruct (N.ltb_spec (16 + len body) 16); [lia|]. destruct (N.ltb_spec 65536 (16 + len body)); [lia|]. reflexivity.
Qed.

(* ReadPDU itself, for a registry in which the id finds the layout, under every read schedule and followed by any octets *)
Theorem spec_converse_readpdu layouts lay ks xs vs body q :
  find_layout layouts (l_id lay) = Some lay ->
  l_fields lay = FHeader :: ks -> l_id lay < 4294967296 ->
  of_x_fields lay ks xs false = Some vs ->
  lay_params (erase lay) (map flat xs) = Some body ->
  16 + len body <= 65536 -> q < 4294967296 ->
  forall rest sched, exists sched',
    read_pdu layouts {| st_data := spec_frame (l_id lay) 0 q body ++ rest; st_sched := sched |}
    = (RpOk lay (VHeader {| h_len := 16 + len body; h_id := l_id lay; h_status := 0; h_seq := i32_of_u32 q |} :: vs),
       16 + len body, {| st_data := rest; st_sched := sched' |}).
Proof.
  intros Hfind Hf Hid Hof Hl Hlen Hq rest sched.
  destruct (spec_frame_well_framed (l_id lay) q body Hid Hq Hlen) as [Hw HL].
  destruct (read_pdu_well_framed layouts _ Hw rest sched) as [s' E]. exists s'. rewrite E, HL.
  f_equal. f_equal. unfold decode_frame.
  destruct Hw as (h & r & Eh & _).
  assert (Hh : dec_header (firstn 16 (spec_frame (l_id lay) 0 q body))
             = Ok ({| h_len := 16 + len body; h_id := l_id lay; h_status := 0; h_seq := i32_of_u32 q |}, [])).
  { unfold spec_frame. rewrite !be4_be32, slen_len. unfold be32. cbn [app firstn]. unfold dec_header. rewrite !de32_be32 by lia.
    destruct (N.ltb_spec (16 + len body) 16); [lia|]. destruct (N.ltb_spec 65536 (16 + len body)); [lia|]. reflexivity. }
  rewrite Hh. cbn [h_id]. rewrite Hfind.
  rewrite (spec_converse lay ks xs vs body q Hf Hid Hof Hl Hlen Hq). reflexivity.
Qed.

(* ------------------------------------------------------------ the registered layouts *)
From V Require Import Gen.PduLayouts.

Lemma lay_ok_id lay : lay_ok lay = true -> l_id lay < 4294967296.
Proof.
  unfold lay_ok. destruct (l_fields lay) as [|k ks]; [discriminate|]. destruct k; try discriminate.
  intros H. apply andb_true_iff in H. destruct H as [_ H]. destruct (N.ltb_spec (l_id lay) 4294967296); [assumption | discriminate].
Qed.

Theorem spec_converse_registered lay ks xs vs body q :
  In lay layouts -> l_fields lay = FHeader :: ks ->
  of_x_fields lay ks xs false = Some vs ->
  lay_params (erase lay) (map flat xs) = Some body ->
  16 + len body <= 65536 -> q < 4294967296 ->
  forall rest sched, exists sched',
    read_pdu layouts {| st_data := spec_frame (l_id lay) 0 q body ++ rest; st_sched := sched |}
    = (RpOk lay (VHeader {| h_len := 16 + len body; h_id := l_id lay; h_status := 0; h_seq := i32_of_u32 q |} :: vs),
       16 + len body, {| st_data := rest; st_sched := sched' |}).
Proof.
  intros Hin Hf Hof Hl Hlen Hq.
  exact (spec_converse_readpdu layouts lay ks xs vs body q (layouts_find lay Hin) Hf (lay_ok_id lay (layouts_ok lay Hin)) Hof Hl Hlen Hq).
Qed.

(* non-vacuity: a deliver_sm_resp laid out from the specification with its TLVs unsorted, one repeated (the last value
   counts) and one empty; a submit_sm with the indicator set, a two-element user data header and sm_length 200 *)
Definition conv_ex_resp : list xval := [XStr [109; 49]; XTlvs [(1060, [1; 2]); (5, [9]); (1060, [3]); (7, [])]].
Definition conv_ex_submit : list xval :=
  [XStr []; XInt 1; XInt 1; XStr [55]; XInt 1; XInt 1; XStr [56]; XInt 64; XInt 0; XInt 0; XStr []; XStr []; XInt 0; XInt 0; XInt 4; XInt 0;
   XShort (Some [(0, [7; 2; 1]); (36, [1])]) (repeat 65 191); XTlvs [(5, [])]].
Lemma converse_examples :
  of_x_fields (lay_of 2147483653) [FCStr; FTags] conv_ex_resp false
    = Some [VStr [109; 49]; VTags [(5, [9]); (7, []); (1060, [3])]] /\
  match of_x_fields (lay_of 4) (tl (l_fields (lay_of 4))) conv_ex_submit false,
        lay_params (erase (lay_of 4)) (map flat conv_ex_submit) with
  | Some vs, Some body => (len body =? 223) && (nth 18 body 0 =? 200) && (N.of_nat (List.length vs) =? 12)
  | _, _ => false
  end = true.
Proof. split; vm_compute; reflexivity. Qed.
