(* Lemmas about the Marshal model (Model/Pdu.v): totality (no Panic), the
   all-or-nothing write discipline and the command_length patch.  Used by
   Properties/C12.v (and C14: one Write per frame). *)
From V Require Import Model.Pdu.
From Coq Require Import ZifyN ZifyNat ZifyBool.
Ltac Zify.zify_post_hook ::= Z.div_mod_to_equations.
Open Scope N_scope.

(* ------------------------------------------------------------ generic *)
Lemma obind_not_panic {A B} (x : outcome A) (f : A -> outcome B) :
  x <> Panic -> (forall a, f a <> Panic) -> obind x f <> Panic.
Proof. destruct x; cbn; intros Hx Hf; [apply Hf | discriminate | congruence]. Qed.

Lemma len_app (a b : bytes) : len (a ++ b) = len a + len b.
Proof. unfold len. rewrite app_length. lia. Qed.

Lemma len_nil : len [] = 0. Proof. reflexivity. Qed.
Lemma len_cons x (l : bytes) : len (x :: l) = 1 + len l.
Proof. unfold len. cbn [List.length]. lia. Qed.

Lemma be32_length n : List.length (be32 n) = 4%nat. Proof. reflexivity. Qed.
Lemma len_be32 n : len (be32 n) = 4. Proof. reflexivity. Qed.

Lemma de32_be32 n : n < 4294967296 ->
  de32 ((n / 16777216) mod 256) ((n / 65536) mod 256) ((n / 256) mod 256) (n mod 256) = n.
Proof. intros H. unfold de32. lia. Qed.

(* ------------------------------------------------------------ no Panic *)
Lemma enc_udh_not_panic u : enc_udh u <> Panic.
Proof. unfold enc_udh. destruct (existsb _ _); discriminate. Qed.

Lemma enc_short_not_panic m : enc_short m <> Panic.
Proof.
  unfold enc_short. destruct (MaxShortMessageLength <? len (sm_msg m)); [discriminate|].
  apply obind_not_panic.
  - destruct (sm_udh m); [apply enc_udh_not_panic | discriminate].
  - intros u. destruct (255 <? _); discriminate.
Qed.

Lemma enc_dests_not_panic s d : enc_dests s d <> Panic.
Proof. unfold enc_dests. destruct (255 <? _); [discriminate|]. destruct (_ || _); discriminate. Qed.

Lemma enc_unsucc_not_panic l : enc_unsucc l <> Panic.
Proof. unfold enc_unsucc. destruct (255 <? _); [discriminate|]. destruct (existsb _ _); discriminate. Qed.

Lemma enc_tags_sorted_not_panic t : enc_tags_sorted t <> Panic.
Proof.
  induction t as [|[k v] r IH]; cbn [enc_tags_sorted]; [discriminate|].
  destruct (len v =? 0); [exact IH|].
  destruct (len v <? 65535); [|discriminate].
  apply obind_not_panic; [exact IH | discriminate].
Qed.

Lemma enc_field_not_panic lay u k v : enc_field lay u k v <> Panic.
Proof.
  destruct k, v; cbn [enc_field]; try discriminate.
  - destruct (has_nul s); discriminate.
  - destruct (esm_fits e); discriminate.
  - destruct (regdel_fits r); discriminate.
  - destruct (has_nul (a_no a)); discriminate.
  - apply enc_dests_not_panic.
  - apply enc_unsucc_not_panic.
  - apply enc_short_not_panic.
  - apply enc_tags_sorted_not_panic.
Qed.

Lemma enc_fields_not_panic lay u ks : forall vs, enc_fields lay u ks vs <> Panic.
Proof.
  induction ks as [|k ks IH]; intros [|v vs]; cbn [enc_fields]; try discriminate.
  apply obind_not_panic; [apply enc_field_not_panic|].
  intros b. apply obind_not_panic; [apply IH | discriminate].
Qed.

Lemma marshal_not_panic lay vs : marshal lay vs <> Panic.
Proof.
  unfold marshal. destruct (l_fields lay) as [|k ks]; [discriminate|].
  destruct k; try discriminate. destruct vs as [|v vs]; [discriminate|].
  destruct v; try discriminate.
  destruct (h_seq h <=? 0)%Z; [discriminate|].
  destruct (negb (h_status h =? 0)); [discriminate|].
  apply obind_not_panic; [apply enc_fields_not_panic | discriminate].
Qed.

(* ------------------------------------------------------- length patch *)
Lemma enc_header_len l i s q : len (enc_header l i s q) = 16.
Proof. reflexivity. Qed.

Lemma len_skipn4 (f : bytes) : 4 <= len f -> len (skipn 4 f) = len f - 4.
Proof. unfold len. rewrite skipn_length. lia. Qed.

Lemma patch_len_len f : 4 <= len f -> len (patch_len f) = len f.
Proof.
  intros H. unfold patch_len. rewrite len_app, len_be32, len_skipn4 by exact H. lia.
Qed.

Lemma patch_len_head f : firstn 4 (patch_len f) = be32 (len f mod 4294967296).
Proof. reflexivity. Qed.

(* a frame produced by Marshal: header-led, length stated in its first four octets *)
Definition length_prefixed (f : bytes) : Prop :=
  16 <= len f /\ firstn 4 f = be32 (len f mod 4294967296) /\
  (len f < 4294967296 -> exists a b c d r, f = a :: b :: c :: d :: r /\ de32 a b c d = len f).

Lemma patch_len_prefixed f : 16 <= len f -> length_prefixed (patch_len f).
Proof.
  intros H. unfold length_prefixed. rewrite patch_len_len by lia.
  split; [exact H|]. split; [apply patch_len_head|].
  intros Hlt. unfold patch_len, be32. cbn [app].
  do 5 eexists. split; [reflexivity|].
  rewrite (N.mod_small (len f) 4294967296) by exact Hlt. apply de32_be32; exact Hlt.
Qed.

Lemma hdr_body_len l i s q body : 16 <= len (enc_header l i s q ++ body).
Proof. rewrite len_app, enc_header_len. lia. Qed.

Lemma marshal_ok_prefixed lay vs f : marshal lay vs = Ok f -> length_prefixed f.
Proof.
  unfold marshal. destruct (l_fields lay) as [|k ks]; [discriminate|].
  destruct k; try discriminate. destruct vs as [|v vs]; [discriminate|].
  destruct v; try discriminate.
  destruct (h_seq h <=? 0)%Z; [discriminate|].
  destruct (negb (h_status h =? 0)).
  - intros [= <-]. apply patch_len_prefixed. rewrite enc_header_len. lia.
  - destruct (enc_fields lay (udhi_of vs) ks vs) as [body| |]; cbn [obind]; try discriminate.
    intros [= <-]. apply patch_len_prefixed. apply hdr_body_len.
Qed.

(* the write discipline *)
Lemma marshal_writes_ok lay vs f : marshal lay vs = Ok f -> marshal_writes lay vs = [f].
Proof. unfold marshal_writes. intros ->. reflexivity. Qed.
Lemma marshal_writes_err lay vs e : marshal lay vs = Err e -> marshal_writes lay vs = [].
Proof. unfold marshal_writes. intros ->. reflexivity. Qed.
Lemma marshal_writes_le1 lay vs : (List.length (marshal_writes lay vs) <= 1)%nat.
Proof. unfold marshal_writes. destruct (marshal lay vs); cbn; lia. Qed.

(* non-positive sequence numbers are refused, whatever the status *)
Lemma marshal_invalid_seq lay h ks vs :
  l_fields lay = FHeader :: ks -> (h_seq h <= 0)%Z -> marshal lay (VHeader h :: vs) = Err EInvalidSeq.
Proof.
  intros Hl Hs. unfold marshal. rewrite Hl.
  destruct (Z.leb_spec (h_seq h) 0); [reflexivity | lia].
Qed.

(* header-only frame for a non-zero status: 16 octets *)
Lemma marshal_status_frame lay h ks vs :
  l_fields lay = FHeader :: ks -> (0 < h_seq h)%Z -> h_status h <> 0 ->
  marshal lay (VHeader h :: vs) = Ok (patch_len (enc_header (h_len h) (l_id lay) (h_status h) (h_seq h))).
Proof.
  intros Hl Hs Hst. unfold marshal. rewrite Hl.
  destruct (Z.leb_spec (h_seq h) 0); [lia|].
  destruct (N.eqb_spec (h_status h) 0); [contradiction|]. reflexivity.
Qed.

Theorem marshal_all_or_nothing lay vs :
  marshal lay vs <> Panic /\
  (forall f, marshal lay vs = Ok f -> marshal_writes lay vs = [f] /\ length_prefixed f) /\
  (forall e, marshal lay vs = Err e -> marshal_writes lay vs = []).
Proof.
  split; [apply marshal_not_panic|]. split.
  - intros f H. split; [apply marshal_writes_ok; exact H | eapply marshal_ok_prefixed; exact H].
  - intros e H. eapply marshal_writes_err; exact H.
Qed.

(* ------------------------------------------- facts about the generated table *)
From V Require Import Gen.PduLayouts.

Definition is_header (k : fkind) : bool := match k with FHeader => true | _ => false end.
Definition header_first (l : layout) : bool :=
  match l_fields l with FHeader :: ks => negb (existsb is_header ks) | _ => false end.

Lemma layouts_header_first l : In l layouts -> exists ks, l_fields l = FHeader :: ks /\ ~ In FHeader ks.
Proof.
  intros Hin.
  assert (H : forallb header_first layouts = true) by (vm_compute; reflexivity).
  rewrite forallb_forall in H. specialize (H l Hin). unfold header_first in H.
  destruct (l_fields l) as [|k ks]; [discriminate|]. destruct k; try discriminate.
  exists ks. split; [reflexivity|]. intros Hk.
  apply negb_true_iff in H. assert (existsb is_header ks = true) as E.
  { apply existsb_exists. exists FHeader. split; [exact Hk | reflexivity]. }
  congruence.
Qed.

Definition hd_layout : layout :=
  {| l_id := 0; l_name := "?"; l_fields := []; l_replace := false; l_has_esm := false |}.
Definition ex_hdr : fval := VHeader {| h_len := 0; h_id := 0; h_status := 0; h_seq := 7 |}.
Definition ex_addr : fval := VAddr {| a_ton := 1; a_npi := 1; a_no := [49; 50] |}.
Definition ex_esm : fval := VEsm {| e_mode := 0; e_type := 0; e_udhi := false; e_reply := false |}.
Definition ex_rd : fval := VRegDel {| r_mc := 1; r_sme := 0; r_inter := false; r_rsv := 0 |}.
Definition C12_example_value : list fval :=
  [ex_hdr; VStr []; ex_addr; ex_addr; ex_esm; VU8 0; VU8 0; VStr []; VStr []; ex_rd; VBool false;
   VShort {| sm_dflt := 0; sm_dc := 0; sm_udh := None; sm_msg := [104; 105] |}; VTags [(5, [1; 2])]].
Definition C12_example_oversize : list fval :=
  [ex_hdr; VStr []; ex_addr; ex_addr; ex_esm; VU8 0; VU8 0; VStr []; VStr []; ex_rd; VBool false;
   VShort {| sm_dflt := 0; sm_dc := 0; sm_udh := None; sm_msg := repeat 65 141 |}; VTags []].
Lemma C12_example_ok : exists f, marshal (nth 3 layouts hd_layout) C12_example_value = Ok f /\ len f = 45.
Proof. eexists. split; vm_compute; reflexivity. Qed.
Lemma C12_example_err : marshal (nth 3 layouts hd_layout) C12_example_oversize = Err ESize.
Proof. vm_compute. reflexivity. Qed.
