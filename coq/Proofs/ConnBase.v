(* Shared lemmas and tactics for the proofs about Model/ConnLTS.v. *)
From Coq Require Import List ZArith Lia Bool Arith.
From V Require Import Model.Base Model.ConnLTS.
Import ListNotations.
Open Scope N_scope.

(* ------------------------------------------------------------ run / reachable *)
Lemma run_app v t1 : forall s t2,
  run v s (t1 ++ t2) = match run v s t1 with Some s' => run v s' t2 | None => None end.
Proof.
  induction t1 as [|e t1 IH]; intros s t2; simpl; [reflexivity|].
  destruct (step v s e); [apply IH | reflexivity].
Qed.

Lemma run_snoc v s t e s1 s2 : run v s t = Some s1 -> step v s1 e = Some s2 -> run v s (t ++ [e]) = Some s2.
Proof. intros H1 H2. rewrite run_app, H1. cbn [run]. now rewrite H2. Qed.

Lemma reachable_init v : reachable v init.
Proof. exists []. reflexivity. Qed.

Lemma reachable_step v s e s' : reachable v s -> step v s e = Some s' -> reachable v s'.
Proof. intros [t Ht] H. exists (t ++ [e]). eapply run_snoc; eauto. Qed.

Lemma reachable_run v s t s' : reachable v s -> run v s t = Some s' -> reachable v s'.
Proof.
  revert s. induction t as [|e t IH]; intros s R H; cbn [run] in H.
  - now injection H as <-.
  - destruct (step v s e) eqn:E; [|discriminate]. eapply IH; [|exact H]. eapply reachable_step; eauto.
Qed.

(* induction over arbitrary traces: the only proof principle the conn theorems use *)
Lemma reachable_ind' v (P : state -> Prop) :
  P init ->
  (forall s e s', reachable v s -> P s -> step v s e = Some s' -> P s') ->
  forall s, reachable v s -> P s.
Proof.
  intros H0 HS s [t Ht]. revert s Ht.
  induction t as [|e t IH] using rev_ind; intros s Ht.
  - cbn in Ht. now injection Ht as <-.
  - rewrite run_app in Ht. destruct (run v init t) as [s1|] eqn:E1; [|discriminate].
    cbn [run] in Ht. destruct (step v s1 e) as [s2|] eqn:E2; [|discriminate]. injection Ht as <-.
    eapply HS; [exists t; exact E1 | apply IH; reflexivity | exact E2].
Qed.

Ltac reach_ind :=
  match goal with
  | |- forall s, reachable ?v s -> @?P s => apply (reachable_ind' v P); cbv beta
  end.

(* ------------------------------------------------------------ function updates *)
Lemma upd_same {A} (f : nat -> A) c x : upd f c x c = x.
Proof. unfold upd. now rewrite Nat.eqb_refl. Qed.
Lemma upd_other {A} (f : nat -> A) c x d : d <> c -> upd f c x d = f d.
Proof. unfold upd. intros H. destruct (Nat.eqb_spec d c); congruence. Qed.
Lemma updz_same {A} (f : Z -> A) q x : updz f q x q = x.
Proof. unfold updz. now rewrite Z.eqb_refl. Qed.
Lemma updz_other {A} (f : Z -> A) q x p : p <> q -> updz f q x p = f p.
Proof. unfold updz. intros H. destruct (Z.eqb_spec p q); congruence. Qed.

(* case split on every comparison introduced by [upd] / [updz] *)
Ltac upd_cases :=
  unfold upd, updz in *;
  repeat match goal with
  | |- context [Nat.eqb ?a ?b] => destruct (Nat.eqb_spec a b); subst
  | H : context [Nat.eqb ?a ?b] |- _ => destruct (Nat.eqb_spec a b); subst
  | |- context [Z.eqb ?a ?b] => destruct (Z.eqb_spec a b); subst
  | H : context [Z.eqb ?a ?b] |- _ => destruct (Z.eqb_spec a b); subst
  end.

(* ------------------------------------------------------------ step inversion *)
(* destruct every scrutinee of [step v s e = Some s'] and keep the enabled branches *)
Ltac break_match_hyp H :=
  repeat (cbv beta iota in H;
          match type of H with
          | context [match ?x with _ => _ end] =>
            lazymatch x with
            | context [match _ with _ => _ end] => fail
            | _ => destruct x eqn:?; try discriminate H
            end
          end);
  cbv beta iota in H.

Ltac step_inv H :=
  unfold step, at_send, can_write, after_call in H; cbv zeta in H;
  cbn [v_reg_first v_oneshot v_watch_closes v_ka_ctx fixed] in H;
  break_match_hyp H;
  try (injection H as <-).

(* split boolean facts produced by the guards *)
Ltac bools :=
  repeat match goal with
  | H : _ && _ = true |- _ => apply andb_prop in H; destruct H
  | H : negb _ = true |- _ => apply negb_true_iff in H
  | H : negb _ = false |- _ => apply negb_false_iff in H
  | H : (_ <? _)%Z = true |- _ => apply Z.ltb_lt in H
  | H : (_ <? _)%Z = false |- _ => apply Z.ltb_ge in H
  end.

Lemma NoDup_snoc {A} (l : list A) x : NoDup l -> ~ In x l -> NoDup (l ++ [x]).
Proof.
  induction l as [|a l IH]; intros ND Hx; cbn.
  - constructor; [intros []|constructor].
  - inversion ND; subst. constructor.
    + rewrite in_app_iff. intros [?|[->|[]]]; [contradiction | apply Hx; now left].
    + apply IH; [assumption | intros ?; apply Hx; now right].
Qed.

Ltac sproj :=
  cbn [callers started pending inbound in_end wire wpc app done queue_closed transport_closed ka
       ticker_stopped injected taken
       set_callers set_started set_pending set_inbound set_in_end set_wire set_wpc set_app set_done
       set_queue_closed set_transport_closed set_ka set_ticker_stopped set_injected set_taken
       with_caller watch_exit
       c_kind c_gor c_seq c_frame c_pc c_ctx c_wrote c_mail set_pc set_ctx set_wrote set_mail
       v_reg_first v_oneshot v_watch_closes v_ka_ctx fixed orb] in *.

(* the Write calls of callers (generic_nacks of Watch left out) *)
Definition wire_calls (l : list wrec) : list (nat * bytes) :=
  flat_map (fun w => match w with WCall c f => [(c, f)] | WNack _ => [] end) l.
Lemma wire_calls_app a b : wire_calls (a ++ b) = wire_calls a ++ wire_calls b.
Proof. apply flat_map_app. Qed.

(* ------------------------------------------------------------ shared invariants of the repaired code *)
(* D27: only Watch closes the queue, on its way out *)
Lemma queue_inv s : reachable fixed s -> queue_closed s = true -> wpc s = WExited.
Proof.
  revert s. reach_ind.
  - cbn. discriminate.
  - intros s e s' _ IH H. destruct e; step_inv H; sproj; auto;
      try (intros Q; try (specialize (IH Q)); congruence);
      try (intros _; specialize (IH eq_refl); discriminate IH).
Qed.


(* D32: a waiter is in the table under its own sequence number, with an empty
   channel, between its registration and its deferred unregister *)
Definition registered_pc (p : cpc) : Prop :=
  match p with PRegistered | PWriting | PWaiting | PLeaving _ => True | _ => False end.

Lemma waiter_inv s : reachable fixed s ->
  (forall q c, pending s q = Some c ->
     c_seq (callers s c) = q /\ c_mail (callers s c) = None /\ registered_pc (c_pc (callers s c)) /\
     submit_like (c_kind (callers s c)) = true) /\
  (forall c, c_pc (callers s c) = PNone \/ c_pc (callers s c) = PStarted -> c_mail (callers s c) = None).
Proof.
  revert s. reach_ind.
  - cbn. split; [discriminate | reflexivity].
  - intros s e s' _ [IH1 IH2] H.
    destruct e; step_inv H; sproj; (split; [intros q0 c0 | intros c0]); upd_cases; sproj;
      try (intros P; try discriminate P; try (injection P as <-);
           try (destruct (IH1 _ _ P) as (I1 & I2 & I3 & I4));
           repeat match goal with E : c_pc _ = _ |- _ => rewrite E in * end; cbn in *;
           repeat split; try tauto; try congruence; auto; fail);
      try (intros [P|P]; try discriminate P; apply IH2; auto; fail).
    + (* Watch hands a response to waiter n: another key cannot point to n *)
      intros P. destruct (IH1 _ _ P) as (I1 & _). 
      match goal with E : pending s (snd ?p) = Some _ |- _ => destruct (IH1 _ _ E) as (J1 & _) end. congruence.
    + match goal with E : pending s (snd ?p) = Some _ |- _ => destruct (IH1 _ _ E) as (_ & _ & J3 & _) end.
      intros [P|P]; rewrite P in J3; cbn in J3; contradiction.
Qed.
