(* C06 — documented concurrent use of Conn is free of data races: the lock-protocol part,
   for ANY table (Model/LockTable.v); the table of the code is Gen/ConnLocks.v. *)
From Coq Require Import List Lia Bool Arith NArith String.
From V Require Import Model.Base Model.LockTable.
Import ListNotations.
Open Scope N_scope.

(* ------------------------------------------------------------------ lists and held sets *)
Lemma assocN_In {A} k (l : list (N * A)) v : assocN k l = Some v -> In (k, v) l.
Proof.
  induction l as [|[k' v'] l IH]; cbn; [discriminate|].
  destruct (N.eqb_spec k k') as [->|Hne]; [intros [= ->]; now left | intros H; right; auto].
Qed.

Lemma held_eqb_eq a b : held_eqb a b = true <-> a = b.
Proof.
  destruct a as [m e], b as [m' e']. unfold held_eqb. cbn. rewrite andb_true_iff, N.eqb_eq, eqb_true_iff.
  split; [intros [-> ->]; reflexivity | intros [= -> ->]; auto].
Qed.

Lemma ls_has_In x ls : ls_has x ls = true <-> In x ls.
Proof.
  unfold ls_has. rewrite existsb_exists. split.
  - intros (y & Hy & E). apply held_eqb_eq in E. now subst.
  - intros H. exists x. split; [exact H | now apply held_eqb_eq].
Qed.

Lemma ls_equiv_In a b : ls_equiv a b = true -> forall x, In x a -> In x b.
Proof.
  unfold ls_equiv, ls_incl. intros H x Hx. apply andb_prop in H. destruct H as (H & _).
  rewrite forallb_forall in H. apply ls_has_In. auto.
Qed.

Lemma ls_holds_false m ls : ls_holds m ls = false -> forall e, ~ In (m, e) ls.
Proof.
  unfold ls_holds. intros H e Hin. assert (existsb (fun y => fst y =? m) ls = true) as C; [|congruence].
  apply existsb_exists. exists (m, e). split; [exact Hin | apply N.eqb_refl].
Qed.

Lemma ls_remove_In m ls x : In x (ls_remove m ls) -> In x ls /\ fst x <> m.
Proof.
  unfold ls_remove. rewrite filter_In. intros (Hin & Hne). split; [exact Hin|].
  apply negb_true_iff in Hne. now apply N.eqb_neq.
Qed.

Lemma remove_first_In t e l l' x : remove_first t e l = Some l' -> In x l' -> In x l.
Proof.
  revert l'. induction l as [|y r IH]; intros l' H Hin; cbn in H; [discriminate|].
  destruct (Nat.eqb (fst y) t && Bool.eqb (snd y) e).
  - injection H as <-. now right.
  - destruct (remove_first t e r) as [r'|]; [|discriminate]. injection H as <-. destruct Hin as [->|Hin]; [now left | right; eauto].
Qed.

Lemma remove_first_other t e l l' u e' : remove_first t e l = Some l' -> u <> t -> In (u, e') l -> In (u, e') l'.
Proof.
  revert l'. induction l as [|y r IH]; intros l' H Hne Hin; cbn in H; [destruct Hin|].
  destruct (Nat.eqb (fst y) t && Bool.eqb (snd y) e) eqn:E.
  - injection H as <-. destruct Hin as [->|Hin]; [|exact Hin]. cbn in E. apply andb_prop in E. destruct E as (E & _).
    apply Nat.eqb_eq in E. congruence.
  - destruct (remove_first t e r) as [r'|]; [|discriminate]. injection H as <-.
    destruct Hin as [->|Hin]; [now left | right; eauto].
Qed.

(* ------------------------------------------------------------------ the invariant *)
(* a mutex is held by one writer, or by readers only *)
Definition lock_wf (l : list (nat * bool)) : Prop := (exists u, l = [(u, true)]) \/ (forall x, In x l -> snd x = false).

Record tinv (T : table) (roles : nat -> N -> bool) (s : tstate) : Prop := mkInv {
  (* a thread at a node really holds what the node's certificate claims, and runs an entry of its role *)
  inv_pc : forall tid n, pc s tid = Some n ->
           exists nd, find_node T n = Some nd /\ roles tid (n_entry nd) = true /\
                      forall m e, In (m, e) (n_ls nd) -> In (tid, e) (locks s m);
  inv_wf : forall m, lock_wf (locks s m)
}.

Lemma tinit_inv T roles : tinv T roles tinit.
Proof. split; [intros tid n H; discriminate | intros m; right; intros x []]. Qed.

Lemma remove_first_wf t e l l' : lock_wf l -> remove_first t e l = Some l' -> lock_wf l'.
Proof.
  intros [(u & ->)|Hs] H.
  - cbn in H. destruct (Nat.eqb u t), e; cbn in H; try discriminate; injection H as <-; right; intros x [].
  - right. intros x Hx. apply Hs. eapply remove_first_In; eauto.
Qed.

Lemma node_ok_of T n nd : table_wf T = true -> find_node T n = Some nd -> node_ok T (n, nd) = true.
Proof.
  intros W F. unfold table_wf in W. apply andb_prop in W. destruct W as (W & _). rewrite forallb_forall in W.
  apply W. now apply assocN_In.
Qed.

Lemma succ_of T nd ls' x :
  forallb (fun s => match find_node T s with
                    | Some ns => ls_equiv (n_ls ns) ls' && N.eqb (n_entry ns) (n_entry nd)
                    | None => false end) (n_succ nd) = true ->
  In x (n_succ nd) ->
  exists ns, find_node T x = Some ns /\ n_entry ns = n_entry nd /\ forall y, In y (n_ls ns) -> In y ls'.
Proof.
  intros H Hx. rewrite forallb_forall in H. specialize (H x Hx). destruct (find_node T x) as [ns|]; [|discriminate].
  apply andb_prop in H. destruct H as (He & Hn). exists ns. split; [reflexivity|]. split; [now apply N.eqb_eq|].
  now apply ls_equiv_In.
Qed.

Lemma next_in (ss : list N) choice pc' :
  match ss with [] => Some None | a :: r => match nth_error (a :: r) (N.to_nat choice) with Some x => Some (Some x) | None => None end end = Some pc' ->
  pc' = None \/ exists x, pc' = Some x /\ In x ss.
Proof.
  destruct ss as [|a r]; [intros [= <-]; now left|].
  destruct (nth_error (a :: r) (N.to_nat choice)) as [x|] eqn:E; [|discriminate].
  intros [= <-]. right. exists x. split; [reflexivity | eapply nth_error_In; eauto].
Qed.

(* the step lemma: the invariant is preserved *)
Lemma tstep_inv T roles s tid c s' ev :
  table_wf T = true -> tinv T roles s -> tstep T roles s tid c = Some (s', ev) -> tinv T roles s'.
Proof.
  intros W I H. unfold tstep in H. destruct (pc s tid) as [n|] eqn:P.
  - (* at a node *)
    destruct (find_node T n) as [nd|] eqn:F; [|discriminate].
    destruct (inv_pc _ _ _ I tid n P) as (nd0 & F0 & R0 & Cl). rewrite F in F0. injection F0 as <-.
    pose proof (node_ok_of _ _ _ W F) as Ok. unfold node_ok in Ok. cbn [snd] in Ok.
    destruct (ls_after (n_act nd) (n_ls nd)) as [ls'|] eqn:LA; [|discriminate].
    match type of H with match ?nx with _ => _ end = _ => destruct nx as [pc'|] eqn:NX; [|discriminate] end.
    apply next_in in NX.
    (* what the new pc of tid needs *)
    assert (forall lk', (forall m e, In (m, e) ls' -> In (tid, e) (lk' m)) ->
            forall n', pc' = Some n' -> exists nd', find_node T n' = Some nd' /\ roles tid (n_entry nd') = true /\
                                       forall m e, In (m, e) (n_ls nd') -> In (tid, e) (lk' m)) as New.
    { intros lk' Hl n' ->. destruct NX as [NX|(x & [= <-] & Hx)]; [discriminate|].
      destruct (succ_of _ _ _ _ Ok Hx) as (ns & Fs & Es & Ls). exists ns. split; [exact Fs|]. split; [now rewrite Es|].
      intros m e Hin. apply Hl. now apply Ls. }
    destruct (n_act nd) as [|m e|m e|l md] eqn:A.
    + (* nop *) injection H as <- <-. cbn in LA. injection LA as <-. split; cbn.
      * intros t' n'. unfold upd. destruct (Nat.eqb_spec t' tid) as [->|Hne]; [apply (New (locks s)); exact Cl | apply (inv_pc _ _ _ I)].
      * apply (inv_wf _ _ _ I).
    + (* lock *) destruct (lock_enabled (locks s m) e) eqn:En; [|discriminate]. injection H as <- <-.
      cbn in LA. destruct (ls_holds m (n_ls nd)) eqn:Hh; [discriminate|]. injection LA as <-. split; cbn.
      * intros t' n'. unfold upd. destruct (Nat.eqb_spec t' tid) as [->|Hne].
        -- apply New. intros m' e' [[= <- <-]|Hin]; unfold updN.
           ++ rewrite N.eqb_refl. now left.
           ++ destruct (N.eqb_spec m' m) as [->|]; [right|]; now apply Cl.
        -- intros Hp. destruct (inv_pc _ _ _ I t' n' Hp) as (nd' & F' & R' & Cl'). exists nd'. split; [exact F'|]. split; [exact R'|].
           intros m' e' Hin. unfold updN. destruct (N.eqb_spec m' m) as [->|]; [right|]; now apply Cl'.
      * intros m'. unfold updN. destruct (N.eqb_spec m' m) as [->|]; [|apply (inv_wf _ _ _ I)].
        unfold lock_enabled in En. destruct e.
        -- destruct (locks s m); [|discriminate]. left. now exists tid.
        -- right. rewrite forallb_forall in En. intros x [<-|Hx]; [reflexivity|]. apply negb_true_iff. now apply En.
    + (* unlock *) destruct (remove_first tid e (locks s m)) as [l'|] eqn:RF; [|discriminate]. injection H as <- <-.
      cbn in LA. destruct (ls_has (m, e) (n_ls nd)); [|discriminate]. injection LA as <-. split; cbn.
      * intros t' n'. unfold upd. destruct (Nat.eqb_spec t' tid) as [->|Hne].
        -- apply New. intros m' e' Hin. apply ls_remove_In in Hin. destruct Hin as (Hin & Hm). cbn in Hm.
           unfold updN. destruct (N.eqb_spec m' m); [congruence|]. now apply Cl.
        -- intros Hp. destruct (inv_pc _ _ _ I t' n' Hp) as (nd' & F' & R' & Cl'). exists nd'. split; [exact F'|]. split; [exact R'|].
           intros m' e' Hin. unfold updN. destruct (N.eqb_spec m' m) as [->|]; [|now apply Cl'].
           eapply remove_first_other; eauto.
      * intros m'. unfold updN. destruct (N.eqb_spec m' m) as [->|]; [|apply (inv_wf _ _ _ I)].
        eapply remove_first_wf; [apply (inv_wf _ _ _ I) | exact RF].
    + (* access: no guard, nothing changes but the pc *) injection H as <- <-. cbn in LA. injection LA as <-. split; cbn.
      * intros t' n'. unfold upd. destruct (Nat.eqb_spec t' tid) as [->|Hne]; [apply (New (locks s)); exact Cl | apply (inv_pc _ _ _ I)].
      * apply (inv_wf _ _ _ I).
  - (* idle: a call *)
    destruct (find_entry T c) as [en|] eqn:FE; [|discriminate]. destruct (roles tid (e_id en)) eqn:R; [|discriminate].
    injection H as <- <-. split; cbn; [|apply (inv_wf _ _ _ I)].
    intros t' n'. unfold upd. destruct (Nat.eqb_spec t' tid) as [->|Hne]; [|apply (inv_pc _ _ _ I)].
    intros [= <-]. unfold table_wf in W. apply andb_prop in W. destruct W as (_ & W). rewrite forallb_forall in W.
    unfold find_entry in FE. apply find_some in FE. destruct FE as (Hin & _). specialize (W en Hin). unfold entry_ok in W.
    destruct (find_node T (e_start en)) as [nd|]; [|discriminate]. destruct (n_ls nd) eqn:L; [|discriminate].
    apply N.eqb_eq in W. exists nd. split; [reflexivity|]. split; [now rewrite W|]. rewrite L. intros m e [].
Qed.

Lemma trun_inv T roles sched : forall s s' tr,
  table_wf T = true -> tinv T roles s -> trun T roles s sched = Some (s', tr) -> tinv T roles s'.
Proof.
  induction sched as [|[t c] sched IH]; intros s s' tr W I H; cbn in H.
  - now injection H as <- <-.
  - destruct (tstep T roles s t c) as [[s1 ev]|] eqn:S; [|discriminate].
    destruct (trun T roles s1 sched) as [[s2 tr2]|] eqn:Rn; [|discriminate]. injection H as <- <-.
    exact (IH s1 _ _ W (tstep_inv _ _ _ _ _ _ _ W I S) Rn).
Qed.

(* ------------------------------------------------------------------ no race state *)
Lemma accesses_of_In T n nd l md : find_node T n = Some nd -> n_act nd = AAcc l md -> In nd (accesses_of T l).
Proof.
  intros F A. unfold accesses_of. apply filter_In. split.
  - apply in_map_iff. exists (n, nd). split; [reflexivity | now apply assocN_In].
  - rewrite A. apply N.eqb_refl.
Qed.

(* In a state satisfying the invariant no two threads are about to perform conflicting accesses to a
   location whose pairs all share a mutex. *)
Lemma no_race_state T roles s l :
  roles_ok T roles -> tinv T roles s -> loc_ok T l = true -> ~ race_state T s l.
Proof.
  intros RO I LO (t1 & t2 & m1 & m2 & Hne & (n1 & nd1 & P1 & F1 & A1) & (n2 & nd2 & P2 & F2 & A2) & C).
  destruct (inv_pc _ _ _ I t1 n1 P1) as (x1 & F1' & R1 & Cl1). rewrite F1 in F1'. injection F1' as <-.
  destruct (inv_pc _ _ _ I t2 n2 P2) as (x2 & F2' & R2 & Cl2). rewrite F2 in F2'. injection F2' as <-.
  unfold loc_ok in LO. rewrite forallb_forall in LO.
  specialize (LO nd1 (accesses_of_In _ _ _ _ _ F1 A1)). rewrite forallb_forall in LO.
  specialize (LO nd2 (accesses_of_In _ _ _ _ _ F2 A2)). unfold pair_ok in LO. rewrite A1, A2, !N.eqb_refl, C in LO. cbn [andb] in LO.
  assert (conc T (n_entry nd1) (n_entry nd2) = true) as Cc.
  { unfold conc. destruct (N.eqb_spec (n_entry nd1) (n_entry nd2)) as [E|]; [|reflexivity]. cbn.
    destruct (entry_multi T (n_entry nd1)) eqn:M; [reflexivity|]. exfalso. apply Hne.
    apply (RO t1 t2 (n_entry nd1)); [exact R1 | now rewrite E | exact M]. }
  rewrite Cc in LO. unfold share_lock in LO. apply existsb_exists in LO. destruct LO as ([m e1] & H1 & LO).
  apply existsb_exists in LO. destruct LO as ([m' e2] & H2 & LO). cbn in LO. apply andb_prop in LO. destruct LO as (Em & Ex).
  apply N.eqb_eq in Em. subst m'. pose proof (Cl1 _ _ H1) as L1. pose proof (Cl2 _ _ H2) as L2.
  destruct (inv_wf _ _ _ I m) as [(u & E)|Sh].
  - rewrite E in L1, L2. destruct L1 as [[= -> _]|[]]. destruct L2 as [[= -> _]|[]]. now apply Hne.
  - apply Sh in L1. apply Sh in L2. cbn in L1, L2. subst. discriminate.
Qed.

(* mutual exclusion: a mutex one thread holds exclusively (by its node's certificate) is not held by another thread *)
Lemma mutual_exclusion T roles s t1 t2 n1 n2 nd1 nd2 m e :
  tinv T roles s -> t1 <> t2 ->
  pc s t1 = Some n1 -> find_node T n1 = Some nd1 -> In (m, true) (n_ls nd1) ->
  pc s t2 = Some n2 -> find_node T n2 = Some nd2 -> In (m, e) (n_ls nd2) -> False.
Proof.
  intros I Hne P1 F1 H1 P2 F2 H2.
  destruct (inv_pc _ _ _ I t1 n1 P1) as (x1 & F1' & _ & Cl1). rewrite F1 in F1'. injection F1' as <-.
  destruct (inv_pc _ _ _ I t2 n2 P2) as (x2 & F2' & _ & Cl2). rewrite F2 in F2'. injection F2' as <-.
  pose proof (Cl1 _ _ H1) as L1. pose proof (Cl2 _ _ H2) as L2.
  destruct (inv_wf _ _ _ I m) as [(u & E)|Sh].
  - rewrite E in L1, L2. destruct L1 as [[= -> ]|[]]. destruct L2 as [[= -> _]|[]]. now apply Hne.
  - apply Sh in L1. discriminate.
Qed.

(* ------------------------------------------------------------------ every execution *)
Theorem race_free T roles sched s tr :
  table_wf T = true -> roles_ok T roles -> trun T roles tinit sched = Some (s, tr) ->
  forall l, loc_ok T l = true -> ~ race_state T s l.
Proof.
  intros W RO Rn l LO. eapply no_race_state; eauto. eapply trun_inv; eauto. apply tinit_inv.
Qed.

(* trace form: two conflicting accesses by different threads are never adjacent in an executed trace *)
Lemma trun_app T roles a : forall s b s' tr,
  trun T roles s (a ++ b) = Some (s', tr) ->
  exists s1 tr1 tr2, trun T roles s a = Some (s1, tr1) /\ trun T roles s1 b = Some (s', tr2) /\ tr = tr1 ++ tr2 /\ List.length tr1 = List.length a.
Proof.
  induction a as [|[t c] a IH]; intros s b s' tr H; cbn in H |- *.
  - exists s, [], tr. repeat split; auto.
  - destruct (tstep T roles s t c) as [[s1 ev]|]; [|discriminate].
    destruct (trun T roles s1 (a ++ b)) as [[s2 tr2]|] eqn:Rn; [|discriminate]. injection H as <- <-.
    destruct (IH _ _ _ _ Rn) as (sa & ta & tb & Ra & Rb & -> & Len). rewrite Ra. exists sa, (ev :: ta), tb.
    repeat split; auto. cbn. now rewrite Len.
Qed.

Lemma trun_length T roles sched : forall s s' tr, trun T roles s sched = Some (s', tr) -> List.length tr = List.length sched.
Proof.
  induction sched as [|[t c] r IH]; intros s s' tr H; cbn in H; [now injection H as <- <-|].
  destruct (tstep T roles s t c) as [[s1 ev]|]; [|discriminate].
  destruct (trun T roles s1 r) as [[s2 tr2]|] eqn:Rn; [|discriminate]. injection H as <- <-. cbn. f_equal. eauto.
Qed.

Lemma tstep_act T roles s t c s' t' n a :
  tstep T roles s t c = Some (s', EAct t' n a) ->
  t' = t /\ pc s t = Some n /\ (exists nd, find_node T n = Some nd /\ n_act nd = a) /\ forall u, u <> t -> pc s' u = pc s u.
Proof.
  unfold tstep. intros H. destruct (pc s t) as [n0|] eqn:P.
  - destruct (find_node T n0) as [nd|] eqn:F; [|discriminate].
    match type of H with match ?nx with _ => _ end = _ => destruct nx as [pc'|]; [|discriminate] end.
    assert (forall lk, Some (mkT (upd (pc s) t pc') lk, EAct t n0 (n_act nd)) = Some (s', EAct t' n a) ->
            t' = t /\ Some n0 = Some n /\ (exists nd0, find_node T n = Some nd0 /\ n_act nd0 = a) /\ forall u, u <> t -> pc s' u = pc s u) as G.
    { intros lk [= <- <- <- <-]. split; [reflexivity|]. split; [reflexivity|]. split; [now exists nd|].
      intros u Hu. cbn. unfold upd. destruct (Nat.eqb_spec u t); [congruence | reflexivity]. }
    destruct (n_act nd) as [|m e|m e|l md].
    + eapply G; eauto.
    + destruct (lock_enabled (locks s m) e); [eapply G; eauto | discriminate].
    + destruct (remove_first t e (locks s m)); [eapply G; eauto | discriminate].
    + eapply G; eauto.
  - destruct (find_entry T c) as [en|]; [|discriminate]. destruct (roles t (e_id en)); discriminate.
Qed.

Lemma app_inv_length {A} (a : list A) : forall c b d, a ++ b = c ++ d -> List.length a = List.length c -> a = c /\ b = d.
Proof.
  induction a as [|x a IH]; intros [|y c] b d E L; cbn in *; try discriminate; [auto|].
  injection E as -> E. injection L as L. destruct (IH _ _ _ E L) as (-> & ->). auto.
Qed.

Theorem no_adjacent_race T roles sched s tr :
  table_wf T = true -> roles_ok T roles -> trun T roles tinit sched = Some (s, tr) ->
  forall pre t1 n1 l m1 t2 n2 m2 post,
    tr = pre ++ EAct t1 n1 (AAcc l m1) :: EAct t2 n2 (AAcc l m2) :: post ->
    t1 <> t2 -> conflict m1 m2 = true -> loc_ok T l = false.
Proof.
  intros W RO Rn pre t1 n1 l m1 t2 n2 m2 post E Hne C. destruct (loc_ok T l) eqn:LO; [exfalso | reflexivity].
  pose proof (trun_length _ _ _ _ _ _ Rn) as Len.
  (* split the schedule where the trace is split *)
  assert (exists sa sb, sched = sa ++ sb /\ List.length sa = List.length pre) as (sa & sb & -> & La).
  { exists (firstn (List.length pre) sched), (skipn (List.length pre) sched). split; [now rewrite firstn_skipn|].
    apply firstn_length_le. rewrite <- Len, E, app_length. lia. }
  destruct (trun_app _ _ _ _ _ _ _ Rn) as (s1 & tr1 & tr2 & Ra & Rb & Et & L1).
  assert (tr1 = pre /\ tr2 = EAct t1 n1 (AAcc l m1) :: EAct t2 n2 (AAcc l m2) :: post) as (-> & ->).
  { rewrite E in Et. symmetry in Et. apply app_inv_length in Et; [destruct Et; now subst | congruence]. }
  destruct sb as [|[ta ca] sb]; [discriminate|]. cbn in Rb.
  destruct (tstep T roles s1 ta ca) as [[s2 e1]|] eqn:S1; [|discriminate].
  destruct sb as [|[tb cb] sb]; [cbn in Rb; discriminate|]. cbn in Rb.
  destruct (tstep T roles s2 tb cb) as [[s3 e2]|] eqn:S2; [|discriminate].
  destruct (trun T roles s3 sb) as [[s4 tr4]|]; [|discriminate]. injection Rb as <- -> -> <-.
  apply tstep_act in S1. destruct S1 as (-> & P1 & (nd1 & F1 & A1) & Oth).
  apply tstep_act in S2. destruct S2 as (-> & P2 & (nd2 & F2 & A2) & _).
  assert (tinv T roles s1) as I by (eapply trun_inv; eauto; apply tinit_inv).
  apply (no_race_state T roles s1 l RO I LO). exists ta, tb, m1, m2. split; [exact Hne|]. split; [|split; [|exact C]].
  - exists n1, nd1. auto.
  - exists n2, nd2. rewrite <- (Oth tb) by congruence. auto.
Qed.


(* ------------------------------------------------------------------ the miniatures *)
Lemma sample_ok : table_wf sample_table = true /\ loc_ok sample_table 0 = true.
Proof. split; vm_compute; reflexivity. Qed.

(* three threads: two run the any-number entry, thread 0 the single one; interleaved; all of them reach their accesses *)
Lemma sample_runs :
  roles_ok sample_table (default_roles sample_table) /\
  exists s tr, trun sample_table (default_roles sample_table) tinit
                 (map (fun p => (fst p, N.of_nat (snd p))) [(1, 0); (0, 1); (1, 0); (1, 0); (1, 0); (0, 0); (0, 0); (2, 0); (0, 0); (0, 0); (2, 0); (2, 0); (2, 0); (1, 0); (0, 0)]%nat) = Some (s, tr) /\
               List.length (filter (fun e => match e with EAct _ _ (AAcc _ _) => true | _ => false end) tr) = 4%nat.
Proof.
  split.
  - intros t1 t2 e R1 R2 M. unfold default_roles in *. destruct t1, t2; try reflexivity; rewrite M in *; discriminate.
  - eexists. eexists. split; [vm_compute; reflexivity | reflexivity].
Qed.

(* a flag tested and set without a lock by an entry two goroutines run: the checker refuses it, and a race state is reachable *)
Lemma unguarded_refuted :
  table_wf unguarded_table = true /\ loc_ok unguarded_table 1 = false /\ loc_ok unguarded_table 0 = true /\
  exists s tr, trun unguarded_table (default_roles unguarded_table) tinit (map (fun p => (fst p, N.of_nat (snd p))) [(0, 2); (1, 2); (0, 0)]%nat) = Some (s, tr) /\
               race_state unguarded_table s 1.
Proof.
  split; [vm_compute; reflexivity|]. split; [vm_compute; reflexivity|]. split; [vm_compute; reflexivity|].
  eexists. eexists. split; [vm_compute; reflexivity|].
  exists 0%nat, 1%nat, MWrite, MRead. split; [discriminate|]. split; [|split; [|reflexivity]].
  - exists 21, (mkNode 2 (AAcc 1 MWrite) [] [22]). repeat split; reflexivity.
  - exists 20, (mkNode 2 (AAcc 1 MRead) [] [21; 22]). repeat split; reflexivity.
Qed.
