(* C06 — documented concurrent use of Conn is free of data races: the lock-protocol part. *)
From Coq Require Import List Lia Bool Arith.
From V Require Import Model.Base Model.LockProto.
Import ListNotations.
Open Scope N_scope.

(* ------------------------------------------------------------------ programs *)
Lemma ok_app h a b :
  routine_ok_from h a = true -> routine_ok_from false b = true -> routine_ok_from h (a ++ b) = true.
Proof.
  revert h. induction a as [|x a IH]; intros h Ha Hb; cbn in *.
  - destruct h; [discriminate | exact Hb].
  - destruct x; cbn in *; apply andb_prop in Ha; destruct Ha as (H1 & H2); rewrite H1; cbn; auto.
    subst h. auto.
Qed.

(* a thread that runs any sequence of well-locked routines is a well-locked program *)
Lemma ok_concat rs : Forall (fun r => routine_ok r = true) rs -> routine_ok_from false (List.concat rs) = true.
Proof.
  induction 1 as [|r rs Hr _ IH]; cbn; [reflexivity|]. apply ok_app; assumption.
Qed.

(* ------------------------------------------------------------------ the invariant *)
Definition is_holder (s : lstate) (t : nat) : bool :=
  match holder s with Some u => Nat.eqb u t | None => false end.
Definition linv (s : lstate) : Prop := forall t, routine_ok_from (is_holder s t) (progs s t) = true.

Lemma lstep_inv s t s' a : linv s -> lstep s t = Some (s', a) -> linv s'.
Proof.
  intros I H. unfold linv, is_holder in *. unfold lstep in H. destruct (progs s t) as [|x rest] eqn:P; [discriminate|].
  pose proof (I t) as It. rewrite P in It.
  destruct x; cbn in It.
  - destruct (holder s) as [u|] eqn:Hh; [discriminate|]. injection H as <- <-. intros t'. cbn.
    destruct (Nat.eqb_spec t' t) as [->|Hne].
    + rewrite Nat.eqb_refl. exact It.
    + destruct (Nat.eqb_spec t t'); [congruence | apply I].
  - injection H as <- <-. apply andb_prop in It. destruct It as (Hu & It).
    destruct (holder s) as [u|] eqn:Hh; [|discriminate]. apply Nat.eqb_eq in Hu. subst u.
    intros t'. cbn. destruct (Nat.eqb_spec t' t) as [->|Hne]; [exact It|].
    specialize (I t'). cbn in I. destruct (Nat.eqb_spec t t'); [congruence | exact I].
  - injection H as <- <-. apply andb_prop in It. destruct It as (Hu & It).
    intros t'. cbn. destruct (Nat.eqb_spec t' t) as [->|Hne]; [exact It | apply I].
Qed.

(* every map access happens while its thread holds the mutex *)
Lemma guarded s t s' w : linv s -> lstep s t = Some (s', AMap w) -> holder s = Some t.
Proof.
  intros I H. unfold lstep in H. destruct (progs s t) as [|x rest] eqn:P; [discriminate|].
  pose proof (I t) as It. rewrite P in It. unfold is_holder in It.
  destruct x; try (destruct (holder s); discriminate); try discriminate.
  cbn in It. apply andb_prop in It. destruct It as (Hu & _).
  destruct (holder s) as [u|]; [|discriminate]. apply Nat.eqb_eq in Hu. now subst.
Qed.

(* the executed trace obeys the lock discipline *)
Lemma lrun_trace_ok sched : forall s s' tr, linv s -> lrun s sched = Some (s', tr) -> trace_ok_from (holder s) tr = true.
Proof.
  induction sched as [|t sched IH]; intros s s' tr I H; cbn [lrun] in H.
  - injection H as <- <-. reflexivity.
  - destruct (lstep s t) as [[s1 a]|] eqn:S; [|discriminate].
    destruct (lrun s1 sched) as [[s2 tr2]|] eqn:Rn; [|discriminate]. injection H as <- <-.
    pose proof (IH _ _ _ (lstep_inv _ _ _ _ I S) Rn) as Ok.
    pose proof (I t) as It. unfold lstep in S. destruct (progs s t) as [|x rest] eqn:P; [discriminate|].
    unfold is_holder in It. destruct x; cbn in It |- *.
    + destruct (holder s); [discriminate|]. injection S as <- <-. exact Ok.
    + injection S as <- <-. apply andb_prop in It. destruct It as (Hu & _).
      destruct (holder s) as [u|]; [|discriminate]. rewrite Hu. exact Ok.
    + injection S as <- <-. apply andb_prop in It. destruct It as (Hu & _).
      destruct (holder s) as [u|]; [|discriminate]. rewrite Hu. exact Ok.
Qed.

(* ------------------------------------------------------------------ what the discipline excludes *)
Lemma no_adjacent_race tr : forall h, trace_ok_from h tr = true -> has_adjacent_race tr = false.
Proof.
  induction tr as [|[t1 a1] tr IH]; intros h H; [reflexivity|].
  destruct a1; cbn [has_adjacent_race].
  - cbn in H. destruct h; [discriminate|]. destruct tr as [|[t2 a2] tr']; [reflexivity | eapply IH; eauto].
  - cbn in H. destruct h as [u|]; [|discriminate]. apply andb_prop in H. destruct H as (_ & H).
    destruct tr as [|[t2 a2] tr']; [reflexivity | eapply IH; eauto].
  - cbn in H. destruct h as [u|]; [|discriminate]. apply andb_prop in H. destruct H as (Hu & H).
    apply Nat.eqb_eq in Hu. subst u.
    destruct tr as [|[t2 a2] tr']; [reflexivity|].
    destruct a2; try (eapply IH; eauto; fail).
    pose proof H as H2. cbn in H2. apply andb_prop in H2. destruct H2 as (Hu2 & _). rewrite Hu2. cbn.
    eapply IH; eauto.
Qed.

Fixpoint holder_after (h : option nat) (tr : list (nat * act)) : option nat :=
  match tr with
  | [] => h
  | (t, ALock) :: r => holder_after (Some t) r
  | (_, AUnlock) :: r => holder_after None r
  | (_, AMap _) :: r => holder_after h r
  end.

Lemma trace_ok_app a : forall h b,
  trace_ok_from h (a ++ b) = true -> trace_ok_from h a = true /\ trace_ok_from (holder_after h a) b = true.
Proof.
  induction a as [|[t x] a IH]; intros h b H; cbn in *; [auto|].
  destruct x.
  - destruct h; [discriminate|]. now apply IH.
  - destruct h; [|discriminate]. apply andb_prop in H. destruct H as (Hu & H). rewrite Hu. cbn. now apply IH.
  - destruct h; [|discriminate]. apply andb_prop in H. destruct H as (Hu & H). rewrite Hu. cbn. now apply IH.
Qed.

Lemma lock_exists l : forall h t2,
  trace_ok_from h l = true -> holder_after h l = Some t2 -> h <> Some t2 ->
  exists m2 m3, l = m2 ++ (t2, ALock) :: m3.
Proof.
  induction l as [|[t x] l IH]; intros h t2 Ok Ha Hn; cbn in *; [congruence|].
  destruct x.
  - destruct h; [discriminate|]. destruct (Nat.eq_dec t t2) as [->|Hne].
    + exists [], l. reflexivity.
    + destruct (IH (Some t) t2 Ok Ha) as (m2 & m3 & ->); [congruence|]. exists ((t, ALock) :: m2), m3. reflexivity.
  - destruct h; [|discriminate]. apply andb_prop in Ok. destruct Ok as (_ & Ok).
    destruct (IH None t2 Ok Ha) as (m2 & m3 & ->); [discriminate|]. exists ((t, AUnlock) :: m2), m3. reflexivity.
  - destruct h; [|discriminate]. apply andb_prop in Ok. destruct Ok as (_ & Ok).
    destruct (IH (Some n) t2 Ok Ha Hn) as (m2 & m3 & ->). exists ((t, AMap write) :: m2), m3. reflexivity.
Qed.

Lemma unlock_then_lock mid : forall t1 t2,
  trace_ok_from (Some t1) mid = true -> holder_after (Some t1) mid = Some t2 -> t1 <> t2 ->
  exists m1 m2 m3, mid = m1 ++ (t1, AUnlock) :: m2 ++ (t2, ALock) :: m3.
Proof.
  induction mid as [|[t x] mid IH]; intros t1 t2 Ok Ha Hn; cbn in *; [congruence|].
  destruct x; [discriminate| |].
  - apply andb_prop in Ok. destruct Ok as (Hu & Ok). apply Nat.eqb_eq in Hu. subst t.
    destruct (lock_exists mid None t2 Ok Ha) as (m2 & m3 & ->); [discriminate|].
    exists [], m2, m3. reflexivity.
  - apply andb_prop in Ok. destruct Ok as (Hu & Ok).
    destruct (IH t1 t2 Ok Ha Hn) as (m1 & m2 & m3 & ->). exists ((t, AMap write) :: m1), m2, m3. reflexivity.
Qed.

(* Two map accesses by different threads are always separated by the first
   thread's Unlock followed by the second thread's Lock: the release/acquire
   pair through which Go's memory model orders them (sync.Mutex). *)
Lemma separated h pre t1 w1 mid t2 w2 post :
  trace_ok_from h (pre ++ (t1, AMap w1) :: mid ++ (t2, AMap w2) :: post) = true -> t1 <> t2 ->
  exists m1 m2 m3, mid = m1 ++ (t1, AUnlock) :: m2 ++ (t2, ALock) :: m3.
Proof.
  intros H Hn. apply trace_ok_app in H. destruct H as (_ & H). cbn in H.
  destruct (holder_after h pre) as [u|]; [|discriminate]. apply andb_prop in H. destruct H as (Hu & H).
  apply Nat.eqb_eq in Hu. subst u. apply trace_ok_app in H. destruct H as (Hm & H). cbn in H.
  destruct (holder_after (Some t1) mid) as [u|] eqn:Ha; [|discriminate]. apply andb_prop in H. destruct H as (Hu & _).
  apply Nat.eqb_eq in Hu. subst u. eapply unlock_then_lock; eauto.
Qed.

(* ------------------------------------------------------------------ the whole statement *)
Definition well_locked (s : lstate) : Prop :=
  holder s = None /\ forall t, exists rs, Forall (fun r => routine_ok r = true) rs /\ progs s t = List.concat rs.

Lemma well_locked_inv s : well_locked s -> linv s.
Proof.
  intros (Hh & Hp) t. unfold is_holder. rewrite Hh. destruct (Hp t) as (rs & F & ->). now apply ok_concat.
Qed.

Lemma race_free s sched s' tr :
  well_locked s -> lrun s sched = Some (s', tr) ->
  trace_ok tr = true /\ has_adjacent_race tr = false /\
  forall pre t1 w1 mid t2 w2 post, tr = pre ++ (t1, AMap w1) :: mid ++ (t2, AMap w2) :: post -> t1 <> t2 ->
    exists m1 m2 m3, mid = m1 ++ (t1, AUnlock) :: m2 ++ (t2, ALock) :: m3.
Proof.
  intros W H. pose proof (lrun_trace_ok sched s s' tr (well_locked_inv s W) H) as Ok.
  destruct W as (Hh & _). rewrite Hh in Ok. split; [exact Ok|]. split; [eapply no_adjacent_race; eauto|].
  intros pre t1 w1 mid t2 w2 post -> Hn. eapply separated; eauto.
Qed.

(* ------------------------------------------------------------------ the code's routines *)
From V Require Import Gen.ConnLocks.

Lemma conn_routines_ok : forallb (fun x => routine_ok (snd x)) conn_routines = true /\ conn_routines <> [].
Proof. split; [vm_compute; reflexivity | discriminate]. Qed.

(* a thread program made of routines of conn.go, in any order and number *)
Definition uses_conn_routines (p : list act) : Prop :=
  exists rs, Forall (fun r => In r (map snd conn_routines)) rs /\ p = List.concat rs.

Lemma conn_programs_well_locked s :
  holder s = None -> (forall t, uses_conn_routines (progs s t)) -> well_locked s.
Proof.
  intros Hh Hp. split; [exact Hh|]. intros t. destruct (Hp t) as (rs & F & E). exists rs. split; [|exact E].
  eapply Forall_impl; [|exact F]. intros r Hr. cbn beta in Hr. apply in_map_iff in Hr. destruct Hr as ([n r'] & <- & Hin).
  destruct conn_routines_ok as (Ok & _). rewrite forallb_forall in Ok. exact (Ok _ Hin).
Qed.

(* ------------------------------------------------------------------ the pre-repair routines race *)
Lemma legacy_races :
  let s := mkL None (fun t => match t with 0%nat => legacy_register | 1%nat => legacy_lookup | _ => [] end) in
  exists s' tr, lrun s [0%nat; 1%nat] = Some (s', tr) /\ has_adjacent_race tr = true /\ trace_ok tr = false /\
                routine_ok legacy_register = false.
Proof. cbv zeta. eexists. eexists. split; [reflexivity|]. repeat split; reflexivity. Qed.

(* non-vacuity: three threads running routines of conn.go, interleaved *)
Lemma c06_example :
  exists reg unreg take, In reg (map snd conn_routines) /\ In unreg (map snd conn_routines) /\ In take (map snd conn_routines) /\
  let s := mkL None (fun t => match t with 0%nat => reg ++ unreg | 1%nat => take ++ take | 2%nat => reg | _ => [] end) in
  well_locked s /\
  exists s' tr, lrun s [0; 0; 0; 1; 1; 1; 1; 2; 2; 2; 0; 0; 0; 1; 1; 1; 1]%nat = Some (s', tr) /\
                List.length (filter (fun x => match snd x with AMap _ => true | _ => false end) tr) = 7%nat.
Proof.
  exists [ALock; AMap true; AUnlock], [ALock; AMap true; AUnlock], [ALock; AMap false; AMap true; AUnlock].
  split; [vm_compute; tauto|]. split; [vm_compute; tauto|]. split; [vm_compute; tauto|]. cbv zeta. split.
  - split; [reflexivity|]. intros [|[|[|t]]]; cbn.
    + exists [[ALock; AMap true; AUnlock]; [ALock; AMap true; AUnlock]]. split; [repeat constructor | reflexivity].
    + exists [[ALock; AMap false; AMap true; AUnlock]; [ALock; AMap false; AMap true; AUnlock]]. split; [repeat constructor | reflexivity].
    + exists [[ALock; AMap true; AUnlock]]. split; [repeat constructor | reflexivity].
    + exists []. split; [constructor | reflexivity].
  - eexists. eexists. split; [vm_compute; reflexivity | reflexivity].
Qed.
