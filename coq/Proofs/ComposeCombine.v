(* End to end, compose -> combine: the parts pdu.ComposeMultipartShortMessage
   produces (Model/Compose.v, theorems of builder gsm7 in Proofs/ComposeProofs.v),
   sent as deliver_sm PDUs in any order and interleaved with arbitrary other
   traffic, are reassembled by the combiner (Model/Combiner.v) into exactly one
   delivery, at the arrival of the last part, in sequence order. *)
From V Require Import Model.Base Model.Combiner Model.Compose Model.Splitter Model.ComposeBridge
  Spec.CombinerSpec Spec.CombinerSetSpec
  Proofs.CombinerProofs Proofs.CombinerSetProofs Proofs.CombinerOnce Proofs.ComposeProofs.
From Coq Require Import ZifyN ZifyNat ZifyBool FinFun Permutation.
Ltac Zify.zify_post_hook ::= Z.div_mod_to_equations.
Open Scope N_scope.

(* ------------------------------------------------------------------------ *)
(* Part A (combiner only): n segments numbered 1..n of one total n, arriving
   in ANY order, are delivered once, at the last arrival, in order.          *)

(* ms are the segments 1..n of an n-part message *)
Definition numbered (n : nat) (ms : list dsm) : Prop :=
  List.length ms = n /\
  forall i m, nth_error ms i = Some m -> seq_of m = N.of_nat (S i) /\ total_of m = N.of_nat n.

Lemma latest_some i a q : latest i a = Some q -> In q a /\ seq_of q = i.
Proof.
  induction a as [|x a IH]; cbn [latest]; [discriminate|].
  destruct (N.eqb_spec (seq_of x) i) as [E|E].
  - intros H; inversion H; subst. split; [left; reflexivity|reflexivity].
  - intros H. destruct (IH H). split; [right; assumption|assumption].
Qed.
Lemma latest_none i a : latest i a = None -> forall q, In q a -> seq_of q <> i.
Proof.
  induction a as [|x a IH]; cbn [latest]; intros H q Hq; [destruct Hq|].
  destruct (N.eqb_spec (seq_of x) i) as [E|E]; [discriminate|].
  destruct Hq as [<-|Hq]; [exact E|apply IH; assumption].
Qed.
Lemma latest_unique a q : NoDup (map seq_of a) -> In q a -> latest (seq_of q) a = Some q.
Proof.
  induction a as [|x a IH]; cbn [map latest]; intros ND Hq; [destruct Hq|].
  inversion ND as [|? ? Hx ND']; subst.
  destruct Hq as [->|Hq]; [rewrite N.eqb_refl; reflexivity|].
  destruct (N.eqb_spec (seq_of x) (seq_of q)) as [E|E]; [|apply IH; assumption].
  exfalso. apply Hx. rewrite E. apply in_map. exact Hq.
Qed.

Lemma numbers_nodup n : NoDup (numbers n).
Proof. unfold numbers. apply Injective_map_NoDup; [intros a b H; lia|apply seq_NoDup]. Qed.
Lemma in_numbers n i : In i (numbers n) <-> exists j, (j < n)%nat /\ i = N.of_nat (S j).
Proof.
  unfold numbers. rewrite in_map_iff. split.
  - intros (j & <- & Hj). apply in_seq in Hj. exists j. split; [lia|reflexivity].
  - intros (j & Hj & ->). exists j. split; [reflexivity|apply in_seq; lia].
Qed.

(* covering 1..n takes at least n accepted segments *)
Lemma covers_length n a : covers n a = true -> (n <= List.length a)%nat.
Proof.
  intros H. unfold covers in H. rewrite forallb_forall in H.
  assert (I : incl (numbers n) (map seq_of a)).
  { intros i Hi. specialize (H i Hi). destruct (latest i a) as [q|] eqn:E; [|discriminate].
    apply latest_some in E as [E1 E2]. rewrite <- E2. apply in_map. exact E1. }
  pose proof (NoDup_incl_length (numbers_nodup n) I) as L.
  rewrite numbers_length, map_length in L. exact L.
Qed.

Lemma espec_run_app a l1 l2 :
  espec_run a (l1 ++ l2) =
  (fst (espec_run (fst (espec_run a l1)) l2), snd (espec_run a l1) ++ snd (espec_run (fst (espec_run a l1)) l2)).
Proof.
  revert a; induction l1 as [|p l1 IH]; intros a; cbn [app espec_run fst snd].
  - destruct (espec_run a l2); reflexivity.
  - destruct (espec_step a p) as [a1 o1]. rewrite IH.
    destruct (espec_run a1 l1) as [a2 o2]. cbn [fst snd]. destruct (espec_run a2 l2); reflexivity.
Qed.

Section Perm.
  Variable n : nat.
  (* every segment in sight announces total n and a sequence number in 1..n *)
  Definition seg_ok (x : dsm) : Prop := total_of x = N.of_nat n /\ seq_of x <> 0 /\ seq_of x <= N.of_nat n.

  Lemma well_numbered_ok a p : (forall x, In x (p :: a) -> seg_ok x) -> well_numbered a p = true.
  Proof.
    intros H. destruct (H p (or_introl eq_refl)) as (T & S0 & S1).
    assert (TP : total_in_progress a p = N.of_nat n).
    { destruct a as [|q a]; cbn [total_in_progress]; [exact T|]. apply (H q). right; left; reflexivity. }
    unfold well_numbered. rewrite TP, T. lia.
  Qed.

  (* as long as fewer than n segments have been accepted nothing is delivered *)
  Lemma espec_incomplete : forall l a, (forall x, In x (l ++ a) -> seg_ok x) ->
    (List.length l + List.length a < n)%nat ->
    espec_run a l = (rev l ++ a, repeat [] (List.length l)).
  Proof.
    induction l as [|p l IH]; intros a Hok Hlen; cbn [espec_run rev app List.length repeat]; [reflexivity|].
    cbn [List.length] in Hlen.
    assert (W : well_numbered a p = true).
    { apply well_numbered_ok. intros x [<-|Hx]; apply Hok; [left; reflexivity|cbn [app]; right; apply in_or_app; auto]. }
    unfold espec_step. rewrite W.
    assert (T : N.to_nat (total_of p) = n).
    { destruct (Hok p (or_introl eq_refl)) as (T & _). rewrite T. lia. }
    rewrite T.
    destruct (covers n (p :: a)) eqn:C.
    - apply covers_length in C. cbn [List.length] in C. lia.
    - rewrite (IH (p :: a)).
      + rewrite <- app_assoc. reflexivity.
      + intros x Hx. apply Hok. cbn [app]. apply in_app_or in Hx as [Hx|[<-|Hx]]; [right; apply in_or_app; auto|left; reflexivity|right; apply in_or_app; auto].
      + cbn [List.length]. lia.
  Qed.

  Variable ms : list dsm.
  Hypothesis Hn : (1 <= n)%nat.
  Hypothesis Hnum : numbered n ms.

  Lemma ms_seq_of : map seq_of ms = numbers n.
  Proof.
    destruct Hnum as [L H]. apply list_ext. intros i.
    rewrite nth_error_map. destruct (nth_error ms i) as [m|] eqn:E; cbn [option_map].
    - assert (Hi : (i < n)%nat) by (rewrite <- L; apply nth_error_Some; congruence).
      rewrite nth_error_numbers by exact Hi. f_equal. apply (H i m E).
    - symmetry. apply nth_error_None. rewrite numbers_length. apply nth_error_None in E. lia.
  Qed.
  Lemma ms_seg_ok x : In x ms -> seg_ok x.
  Proof.
    intros Hx. apply In_nth_error in Hx as [i Hi]. destruct Hnum as [L H]. destruct (H i x Hi) as [S T].
    assert (i < n)%nat by (rewrite <- L; apply nth_error_Some; congruence).
    unfold seg_ok. rewrite S, T. lia.
  Qed.

  (* the n segments in any order: silent until the last one, then one delivery, in sequence order *)
  Theorem espec_on_permutation pi : Permutation pi ms ->
    espec_run [] pi = ([], repeat [] (n - 1) ++ [[map Some ms]]).
  Proof.
    intros HP. destruct Hnum as [L Hnth].
    assert (Lpi : List.length pi = n) by (rewrite (Permutation_length HP); exact L).
    destruct (exists_last (l := pi)) as (l & p & ->); [intros ->; cbn in Lpi; lia|].
    rewrite app_length in Lpi. cbn [List.length] in Lpi.
    assert (Hok : forall x, In x (l ++ [p]) -> seg_ok x).
    { intros x Hx. apply ms_seg_ok. eapply Permutation_in; eauto. }
    rewrite espec_run_app.
    assert (Inc : espec_run [] l = (rev l ++ [], repeat [] (List.length l))).
    { apply espec_incomplete; [|cbn [List.length]; lia]. intros x Hx. rewrite app_nil_r in Hx. apply Hok. apply in_or_app; auto. }
    rewrite Inc.
    cbn [fst snd espec_run]. rewrite app_nil_r.
    assert (W : well_numbered (rev l) p = true).
    { apply well_numbered_ok. intros x [<-|Hx]; apply Hok; apply in_or_app; [right; left; reflexivity|left; apply in_rev; exact Hx]. }
    unfold espec_step. rewrite W.
    assert (T : N.to_nat (total_of p) = n).
    { destruct (Hok p) as (T & _); [apply in_or_app; right; left; reflexivity|]. rewrite T. lia. }
    rewrite T.
    assert (HP' : Permutation (p :: rev l) ms).
    { eapply perm_trans; [|exact HP]. eapply perm_trans; [|apply Permutation_cons_append].
      apply perm_skip. apply Permutation_sym, Permutation_rev. }
    assert (ND : NoDup (map seq_of (p :: rev l))).
    { eapply Permutation_NoDup; [apply Permutation_sym, Permutation_map; exact HP'|]. rewrite ms_seq_of. apply numbers_nodup. }
    assert (AS : assemble n (p :: rev l) = map Some ms).
    { apply list_ext. intros j. destruct (Nat.lt_ge_cases j n) as [Hj|Hj].
      - rewrite nth_error_assemble by exact Hj. rewrite nth_error_map.
        destruct (nth_error ms j) as [m|] eqn:Em; [|apply nth_error_None in Em; lia]. cbn [option_map].
        destruct (Hnth j m Em) as [S _]. rewrite <- S. f_equal. apply latest_unique; [exact ND|].
        eapply Permutation_in; [apply Permutation_sym; exact HP'|]. eapply nth_error_In; eauto.
      - rewrite (proj2 (nth_error_None _ _)) by (rewrite assemble_length; exact Hj).
        symmetry. apply nth_error_None. rewrite map_length. lia. }
    assert (C : covers n (p :: rev l) = true).
    { rewrite <- full_assemble, AS. unfold full. rewrite forallb_forall. intros o Ho.
      apply in_map_iff in Ho as (m & <- & _). reflexivity. }
    rewrite C, AS. replace (List.length l) with (n - 1)%nat by lia. reflexivity.
  Qed.
End Perm.

(* the keyed combiner, any interleaving with any other traffic: if the
   arrivals of key k are the n numbered segments in some order, the callbacks
   at those arrivals are: nothing n-1 times, then the n segments in order *)
Theorem combine_numbered k n ms h r outs : (1 <= n)%nat -> numbered n ms ->
  Forall seq_octet h -> Permutation (hist_key k h) ms -> crun [] h = Ok (r, outs) ->
  outputs_at k h outs = repeat [] (n - 1) ++ [[map Some ms]].
Proof.
  intros Hn Hnum Ho HP E. rewrite (combiner_is_set_spec k h r outs Ho E).
  rewrite (espec_on_permutation n ms Hn Hnum _ HP). reflexivity.
Qed.

(* from the per-key view back to positions of the history *)
Lemma outputs_at_position k : forall h outs o, List.length outs = List.length h -> In o (outputs_at k h outs) ->
  exists j, (j < List.length h)%nat /\ nth j outs [] = o.
Proof.
  unfold outputs_at. induction h as [|p t IH]; intros [|o1 outs] o L H; cbn [combine filter map] in H; try destruct H; try discriminate.
  cbn [List.length] in L. cbn [fst] in H.
  assert (Rec : In o (map snd (filter (fun po : dsm * list callback => has_key k (fst po)) (combine t outs))) ->
                exists j, (j < List.length (p :: t))%nat /\ nth j (o1 :: outs) [] = o).
  { intros H'. destruct (IH outs o) as (j & Hj & Hn); [lia|exact H'|]. exists (S j). cbn [List.length nth]. split; [lia|exact Hn]. }
  destruct (has_key k p); [|apply Rec; exact H].
  cbn [map snd] in H. destruct H as [<-|H]; [|apply Rec; exact H].
  exists O. cbn [List.length nth]. split; [lia|reflexivity].
Qed.

(* ... and it is the only callback of the whole run that holds any of the n segments *)
Theorem combine_numbered_unique k n ms h r outs : (1 <= n)%nat -> numbered n ms -> NoDup h ->
  Forall seq_octet h -> Permutation (hist_key k h) ms -> crun [] h = Ok (r, outs) ->
  forall j cb m, In cb (nth j outs []) -> In m ms -> In (Some m) cb -> cb = map Some ms.
Proof.
  intros Hn Hnum ND Ho HP E j cb m Hcb Hm Hin.
  pose proof (combine_numbered k n ms h r outs Hn Hnum Ho HP E) as OA.
  destruct (crun_ok [] h) as (r' & outs' & E' & L). rewrite E in E'. inversion E'; subst r' outs'.
  destruct (outputs_at_position k h outs [map Some ms] L) as (j0 & _ & Hj0).
  { rewrite OA. apply in_or_app. right. left. reflexivity. }
  destruct (at_most_once h r outs ND Ho E j j0 cb (map Some ms) m) as [_ ->]; auto.
  - rewrite Hj0. left. reflexivity.
  - apply in_map. exact Hm.
Qed.

(* ------------------------------------------------------------------------ *)
(* Part B: the parts of a composed message are such numbered segments.      *)

Lemma hdr_of_concat_ie {P} id src dst ref total seq (p : P) : ref < 65536 -> total < 256 -> seq < 256 ->
  hdr (dsm_of_part id src dst (mkpart [concat_ie ref total seq] p)) =
  Some {| c_ref := ref; c_total := total; c_seq := seq |}.
Proof.
  intros Hr Ht Hs. unfold hdr, dsm_of_part. cbn [pt_udh d_udh].
  unfold concat_ie. destruct (N.eqb_spec ((ref / 256) mod 256) 0) as [E|E].
  - cbn. rewrite (N.mod_small total), (N.mod_small seq) by lia.
    replace (ref mod 256) with ref by lia. reflexivity.
  - cbn. rewrite (N.mod_small total), (N.mod_small seq) by lia.
    unfold de16. replace ((ref / 256) mod 256 * 256 + ref mod 256) with ref by lia. reflexivity.
Qed.

Lemma nth_error_bridge {P} src dst : forall (parts : list (Compose.part P)) base i,
  nth_error (bridge base src dst parts) i = option_map (dsm_of_part (base + N.of_nat i) src dst) (nth_error parts i).
Proof.
  induction parts as [|pt parts IH]; intros base [|i]; cbn [bridge nth_error option_map]; try reflexivity.
  - f_equal. f_equal. lia.
  - rewrite IH. replace (base + 1 + N.of_nat i) with (base + N.of_nat (S i)) by lia. reflexivity.
Qed.
Lemma bridge_length {P} src dst (parts : list (Compose.part P)) base : List.length (bridge base src dst parts) = List.length parts.
Proof. revert base; induction parts as [|pt parts IH]; intros base; cbn [bridge List.length]; [reflexivity|]. rewrite IH. reflexivity. Qed.

Section EndToEnd.
  Variable P : Type.
  Variable plen : P -> nat.
  Variable w : N -> nat.
  Variable enc : list N -> outcome P.
  Hypothesis w_pos : forall r, (0 < w r)%nat.

  Notation cmp := (compose P plen w enc).

  (* a multi-part composition, bridged: N numbered segments, all under the key (src, dst, ref) *)
  Lemma bridge_numbered ref t parts base src dst : ref < 65536 -> cmp ref t = Ok parts ->
    (2 <= List.length parts)%nat ->
    numbered (List.length parts) (bridge base src dst parts) /\
    Forall seq_octet (bridge base src dst parts) /\
    Forall (fun m => has_key (message_key src dst ref) m = true) (bridge base src dst parts).
  Proof.
    intros Hr E L2.
    assert (Multi : (max_sm_len < text_len w t)%nat).
    { destruct (Nat.le_gt_cases (text_len w t) max_sm_len) as [Le|Gt]; [|exact Gt].
      destruct (compose_single P plen w enc w_pos ref t parts E Le) as (p & _ & -> & _). cbn in L2. lia. }
    destruct (compose_multi P plen w enc w_pos ref t parts E Multi) as (segs & _ & Hc & Hl & Hn).
    assert (Each : forall i m, nth_error (bridge base src dst parts) i = Some m ->
              hdr m = Some {| c_ref := ref; c_total := N.of_nat (List.length parts); c_seq := N.of_nat (S i) |} /\
              d_src m = src /\ d_dst m = dst).
    { intros i m Hm. rewrite nth_error_bridge in Hm.
      destruct (nth_error parts i) as [pt|] eqn:Ept; cbn [option_map] in Hm; [|discriminate]. inversion Hm; subst m.
      assert (Hi : (i < List.length segs)%nat) by (rewrite <- Hl; apply nth_error_Some; congruence).
      destruct (nth_error segs i) as [s|] eqn:Es; [|apply nth_error_None in Es; lia].
      destruct (Hn i s Es) as (p & _ & N1 & _). rewrite Ept in N1. inversion N1; subst pt.
      rewrite Hl. replace (S i) with (i + 1)%nat by lia.
      split; [apply hdr_of_concat_ie; lia|split; reflexivity]. }
    split; [|split].
    - split; [apply bridge_length|]. intros i m Hm. destruct (Each i m Hm) as (Hh & _).
      unfold seq_of, total_of. rewrite Hh. cbn [c_seq c_total]. auto.
    - apply Forall_forall. intros m Hm. apply In_nth_error in Hm as [i Hi]. destruct (Each i m Hi) as (Hh & _).
      intros c Hc'. rewrite Hh in Hc'. inversion Hc'; subst c. cbn [c_seq].
      assert (i < List.length parts)%nat by (rewrite <- (bridge_length src dst parts base); apply nth_error_Some; congruence). lia.
    - apply Forall_forall. intros m Hm. apply In_nth_error in Hm as [i Hi]. destruct (Each i m Hi) as (Hh & Hs & Hd).
      unfold has_key, seg_key. rewrite Hh. unfold key_of, message_key. cbn [c_ref]. rewrite Hs, Hd.
      apply beq_key_eq. reflexivity.
  Qed.

  (* END TO END.  A text composed into N > 1 parts; the parts sent from src to
     dst, in ANY order, interleaved with ARBITRARY other traffic (anything that
     is not filed under the key (src, dst, ref): other messages complete or
     not, plain PDUs, malformed segments).  Then the callbacks at the arrivals
     of the parts are: none for the first N-1, and at the last one exactly one,
     holding the N parts in composition (= sequence) order. *)
  Theorem compose_then_combine ref t parts base src dst h r outs :
    ref < 65536 -> cmp ref t = Ok parts -> (2 <= List.length parts)%nat ->
    Forall seq_octet h ->
    Permutation (hist_key (message_key src dst ref) h) (bridge base src dst parts) ->
    crun [] h = Ok (r, outs) ->
    outputs_at (message_key src dst ref) h outs =
      repeat [] (List.length parts - 1) ++ [[map Some (bridge base src dst parts)]].
  Proof.
    intros Hr E L2 Ho HP Er.
    destruct (bridge_numbered ref t parts base src dst Hr E L2) as (Hnum & _ & _).
    apply (combine_numbered _ _ _ h r outs); auto. lia.
  Qed.

  (* ... and in the whole run no other callback holds any of the parts *)
  Theorem compose_then_combine_unique ref t parts base src dst h r outs :
    ref < 65536 -> cmp ref t = Ok parts -> (2 <= List.length parts)%nat ->
    NoDup h -> Forall seq_octet h ->
    Permutation (hist_key (message_key src dst ref) h) (bridge base src dst parts) ->
    crun [] h = Ok (r, outs) ->
    forall j cb m, In cb (nth j outs []) -> In m (bridge base src dst parts) -> In (Some m) cb ->
      cb = map Some (bridge base src dst parts).
  Proof.
    intros Hr E L2 ND Ho HP Er.
    destruct (bridge_numbered ref t parts base src dst Hr E L2) as (Hnum & _ & _).
    apply (combine_numbered_unique (message_key src dst ref) (List.length parts) _ h r outs); auto. lia.
  Qed.

  (* hence the delivered payloads, joined in delivery order, are the encodings
     of consecutive pieces of the text (gsm7's compose_segments): the text is
     reassembled *)
  Theorem delivered_payloads_are_the_text ref t parts base src dst :
    cmp ref t = Ok parts ->
    exists segs, List.concat segs = t /\
      Forall2 (fun (o : option dsm * P) s => enc s = Ok (snd o))
              (combine (map Some (bridge base src dst parts)) (map pt_payload parts)) segs.
  Proof.
    intros E. destruct (compose_segments P plen w enc w_pos ref t parts E) as (segs & Hc & HF & _).
    exists segs. split; [exact Hc|]. clear E Hc. revert base. induction HF as [|pt s parts segs H HF IH]; intros base.
    - constructor.
    - cbn [bridge map combine]. constructor; [exact H|apply IH].
  Qed.

  (* N = 1: no header; the single PDU is delivered at once, alone, whatever the registry holds *)
  Theorem compose_single_then_combine ref t parts id src dst : cmp ref t = Ok parts ->
    (text_len w t <= max_sm_len)%nat ->
    exists p, parts = [mkpart [] p] /\
      forall r, cstep r (dsm_of_part id src dst (mkpart [] p)) = Ok (r, [[Some (dsm_of_part id src dst (mkpart [] p))]]).
  Proof.
    intros E Le. destruct (compose_single P plen w enc w_pos ref t parts E Le) as (p & _ & -> & _).
    exists p. split; [reflexivity|]. intros r. apply cstep_plain. reflexivity.
  Qed.
End EndToEnd.
