(* C10, "once": no arrival is delivered twice, and a duplicate of a segment of
   an already delivered message starts a fresh, incomplete entry. *)
From V Require Import Model.Combiner Spec.CombinerSpec Proofs.CombinerProofs.
From Coq Require Import ZifyN ZifyNat ZifyBool FinFun.
Ltac Zify.zify_post_hook ::= Z.div_mod_to_equations.
Open Scope N_scope.

Notation lk := (lookup beq_key).

(* q occurs in some callback of the run so far *)
Definition delivered (outs : list (list callback)) (q : dsm) : Prop :=
  exists cb, In cb (List.concat outs) /\ In (Some q) cb.
(* q sits in some slot array of the registry *)
Definition stored (r : registry) (q : dsm) : Prop :=
  exists k l, lk k r = Some l /\ In (Some q) l.

Lemma in_put_pure i p cur q : In (Some q) (put_pure i p cur) -> q = p \/ In (Some q) cur.
Proof.
  intros H. apply In_nth_error in H as [j Hj].
  destruct (Nat.eq_dec i j) as [->|Hne].
  - destruct (Nat.lt_ge_cases j (List.length cur)) as [L|L].
    + rewrite nth_error_put_same in Hj by exact L. inversion Hj. auto.
    + assert (E : nth_error (put_pure j p cur) j = None) by (apply nth_error_None; rewrite put_pure_length; exact L).
      congruence.
  - rewrite nth_error_put_other in Hj by exact Hne. right. eapply nth_error_In; eauto.
Qed.

Lemma in_cur_of_stored r k c q : In (Some q) (cur_of (lk k r) c) -> exists l, lk k r = Some l /\ In (Some q) l.
Proof.
  destruct (lk k r) as [l|] eqn:E; cbn [cur_of]; [eauto|].
  intros H. apply In_nth_error in H as [j Hj]. apply nth_error_fresh in Hj. discriminate.
Qed.

(* the shape of what one call emits: nothing, the plain PDU alone, or the one completed array *)
Lemma cstep_out_shape r p r1 out : cstep r p = Ok (r1, out) ->
  out = [] \/
  (hdr p = None /\ out = [[Some p]]) \/
  (exists c, hdr p = Some c /\ accept c (cur_of (lk (key_of p c) r) c) = true /\
             out = [put_pure (slot_ix c) p (cur_of (lk (key_of p c) r) c)]).
Proof.
  intros E. destruct (cstep_spec r p) as (r1' & o' & E' & S). rewrite E in E'. inversion E'; subst r1' o'.
  unfold seg_key in S. destruct (hdr p) as [c|] eqn:Hh.
  - destruct S as (-> & _ & _). rewrite (sstep_unfold _ _ _ Hh).
    destruct (accept c (cur_of (lk (key_of p c) r) c)) eqn:A; [|left; reflexivity].
    destruct (full _); [|left; reflexivity]. right; right. exists c. auto.
  - destruct S as [_ ->]. right; left. auto.
Qed.

Lemma delivered_app o1 o2 q : delivered (o1 ++ o2) q <-> delivered o1 q \/ delivered o2 q.
Proof.
  unfold delivered. rewrite concat_app. split.
  - intros (cb & H & Hq). apply in_app_or in H as [H|H]; [left|right]; eauto.
  - intros [(cb & H & Hq)|(cb & H & Hq)]; exists cb; (split; [apply in_or_app; auto|exact Hq]).
Qed.
Lemma delivered_single o q : delivered [o] q <-> exists cb, In cb o /\ In (Some q) cb.
Proof. unfold delivered. cbn [List.concat]. rewrite app_nil_r. reflexivity. Qed.

Lemma nodup_app_l {A} (l l' : list A) : NoDup (l ++ l') -> NoDup l.
Proof.
  induction l as [|x l IH]; cbn [app]; intros H; [constructor|].
  inversion H; subst. constructor; [|apply IH; assumption].
  intros X. apply H2. apply in_or_app; auto.
Qed.

Lemma stored_key seen r k l q : registry_inv seen r -> lk k r = Some l -> In (Some q) l ->
  In q seen /\ seg_key q = Some k.
Proof.
  intros RI L Hin. specialize (RI k). rewrite L in RI. cbn [st_inv] in RI. destruct RI as [SO _].
  apply In_nth_error in Hin as [i Hi]. specialize (SO i _ Hi). cbn [slot_ok] in SO.
  destruct SO as (Hs & c & Hh & Hk & _). split; [exact Hs|]. unfold seg_key. rewrite Hh, Hk. reflexivity.
Qed.

(* The invariant behind "once": whatever is still stored has arrived and has
   not been delivered; whatever has been delivered has arrived. *)
Theorem once_invariant : forall h r outs, NoDup h -> Forall seq_octet h -> crun [] h = Ok (r, outs) ->
  (forall q, stored r q -> In q h /\ ~ delivered outs q) /\
  (forall q, delivered outs q -> In q h).
Proof.
  intros h. induction h as [|p t IH] using rev_ind; intros r outs ND Ho E.
  - cbn [crun] in E. inversion E; subst. split.
    + intros q (k & l & L & _). cbn in L. discriminate.
    + intros q (cb & H & _). destruct H.
  - apply crun_app in E as (r1 & o1 & o2 & E1 & E2 & ->).
    apply crun_cons in E2 as (r2 & o3 & o4 & E3 & E4 & ->). cbn [crun] in E4. inversion E4; subst r2 o4. clear E4.
    apply Forall_app in Ho as [Ho1 Ho2]. inversion Ho2 as [|? ? Hp _]; subst.
    assert (ND1 : NoDup t) by (apply nodup_app_l in ND; exact ND).
    assert (Pnew : ~ In p t).
    { apply NoDup_remove_2 in ND. rewrite app_nil_r in ND. exact ND. }
    destruct (IH _ _ ND1 Ho1 E1) as [IHs IHd].
    pose proof (registry_invariant _ _ _ Ho1 E1) as RI.
    assert (SK : forall k l q, lk k r1 = Some l -> In (Some q) l -> In q t /\ seg_key q = Some k).
    { intros k l q L Hin. destruct (stored_key _ _ _ _ _ RI L Hin) as [H1 H2]. split; [apply in_rev; exact H1|exact H2]. }
    assert (InL : forall q, In q t -> In q (t ++ [p])) by (intros; apply in_or_app; auto).
    destruct (cstep_spec r1 p) as (r' & o' & E' & S). rewrite E3 in E'. inversion E'; subst r' o'. clear E'.
    destruct (seg_key p) as [k0|] eqn:Hk.
    + destruct S as (So & Ss & Sother).
      apply seg_key_hdr in Hk as (c & Hh & ->). rewrite (sstep_unfold _ _ _ Hh) in So, Ss.
      set (k0 := key_of p c) in *. set (cur := cur_of (lk k0 r1) c) in *.
      assert (CurSt : forall q, In (Some q) cur -> stored r1 q).
      { intros q Hq. apply in_cur_of_stored in Hq as (l & L & Hl). exists k0, l. auto. }
      destruct (accept c cur) eqn:A; [destruct (full (put_pure (slot_ix c) p cur)) eqn:F|]; cbn [fst snd] in So, Ss; subst o3.
      * (* delivered *)
        split.
        -- intros q (k & l & L & Hin).
           assert (Hne : k <> k0) by (intros ->; rewrite Ss in L; discriminate).
           rewrite Sother in L by exact Hne.
           destruct (IHs q) as [Hq Hnd]; [exists k, l; auto|]. split; [auto|].
           intros D. apply delivered_app in D as [D|D]; [auto|]. apply delivered_single in D as (cb & [<-|[]] & Hcb).
           apply in_put_pure in Hcb as [->|Hcb]; [auto|].
           apply in_cur_of_stored in Hcb as (l' & L' & Hl').
           destruct (SK _ _ _ L Hin) as [_ K1]. destruct (SK _ _ _ L' Hl') as [_ K2]. congruence.
        -- intros q D. apply delivered_app in D as [D|D]; [auto|]. apply delivered_single in D as (cb & [<-|[]] & Hcb).
           apply in_put_pure in Hcb as [->|Hcb]; [apply in_or_app; right; left; reflexivity|].
           apply InL. apply IHs. auto.
      * (* stored *)
        assert (Dsame : forall q, delivered (o1 ++ [[]]) q -> delivered o1 q).
        { intros q D. apply delivered_app in D as [D|D]; [exact D|]. apply delivered_single in D as (cb & [] & _). }
        split; [|intros q D; auto].
        intros q (k & l & L & Hin). destruct (beq_key_spec k k0) as [->|Hne].
        -- rewrite Ss in L. inversion L; subst l. apply in_put_pure in Hin as [->|Hin].
           ++ split; [apply in_or_app; right; left; reflexivity|]. intros D. apply Dsame, IHd in D. auto.
           ++ destruct (IHs q (CurSt _ Hin)) as [H1 H2]. split; [auto|]. intros D; auto.
        -- rewrite Sother in L by exact Hne. destruct (IHs q) as [H1 H2]; [exists k, l; auto|]. split; [auto|]. intros D; auto.
      * (* ignored *)
        assert (Dsame : forall q, delivered (o1 ++ [[]]) q -> delivered o1 q).
        { intros q D. apply delivered_app in D as [D|D]; [exact D|]. apply delivered_single in D as (cb & [] & _). }
        assert (Lsame : forall k, lk k r = lk k r1).
        { intros k. destruct (beq_key_spec k k0) as [->|Hne]; [exact Ss|apply Sother; exact Hne]. }
        split; [|intros q D; auto].
        intros q (k & l & L & Hin). rewrite Lsame in L. destruct (IHs q) as [H1 H2]; [exists k, l; auto|].
        split; [auto|]. intros D; auto.
    + destruct S as [-> ->]. split.
      * intros q St. destruct (IHs q St) as [H1 H2]. split; [auto|].
        intros D. apply delivered_app in D as [D|D]; [auto|]. apply delivered_single in D as (cb & [<-|[]] & Hcb).
        destruct Hcb as [Hcb|[]]. inversion Hcb; subst. auto.
      * intros q D. apply delivered_app in D as [D|D]; [auto|]. apply delivered_single in D as (cb & [<-|[]] & Hcb).
        destruct Hcb as [Hcb|[]]. inversion Hcb; subst. apply in_or_app; right; left; reflexivity.
Qed.

(* the step that produced the callbacks at position j *)
Lemma step_at h r outs j cb : crun [] h = Ok (r, outs) -> In cb (nth j outs []) ->
  exists h1 p h2 r1 o1 r2 o4, h = h1 ++ p :: h2 /\ List.length o1 = j /\
    crun [] h1 = Ok (r1, o1) /\ cstep r1 p = Ok (r2, nth j outs []) /\ outs = o1 ++ nth j outs [] :: o4.
Proof.
  intros E Hin.
  destruct (crun_ok [] h) as (r' & outs' & E' & L). rewrite E in E'. inversion E'; subst r' outs'.
  assert (Hj : (j < List.length outs)%nat).
  { destruct (Nat.lt_ge_cases j (List.length outs)) as [H|H]; [exact H|]. rewrite nth_overflow in Hin by exact H. destruct Hin. }
  destruct (nth_error h j) as [p|] eqn:Hp; [|apply nth_error_None in Hp; lia].
  apply nth_error_split in Hp as (h1 & h2 & -> & L1).
  apply crun_app in E as (r1 & o1 & o2 & E1 & E2 & ->).
  apply crun_cons in E2 as (r2 & o3 & o4 & E3 & E4 & ->).
  destruct (crun_ok [] h1) as (r1' & o1' & E1' & L2). rewrite E1 in E1'. inversion E1'; subst r1' o1'.
  assert (N3 : nth j (o1 ++ o3 :: o4) [] = o3).
  { rewrite app_nth2 by lia. replace (j - List.length o1)%nat with O by lia. reflexivity. }
  rewrite N3. exists h1, p, h2, r1, o1, r2, o4. repeat split; auto. lia.
Qed.

Lemma nth_in_concat {A} (l : list (list A)) j x : In x (nth j l []) -> In x (List.concat l).
Proof.
  intros H. destruct (Nat.lt_ge_cases j (List.length l)) as [L|L].
  - apply in_concat. exists (nth j l []). split; [apply nth_In; exact L|exact H].
  - rewrite nth_overflow in H by exact L. destruct H.
Qed.

Lemma not_twice_lt h r outs : NoDup h -> Forall seq_octet h -> crun [] h = Ok (r, outs) ->
  forall j1 j2 cb1 cb2 q, (j1 < j2)%nat -> In cb1 (nth j1 outs []) -> In cb2 (nth j2 outs []) ->
  In (Some q) cb1 -> In (Some q) cb2 -> False.
Proof.
  intros ND Ho E j1 j2 cb1 cb2 q Hlt H1 H2 Q1 Q2.
  destruct (step_at _ _ _ _ _ E H2) as (h1 & p & h2 & r1 & o1 & r2 & o4 & -> & L & E1 & Es & Eo).
  assert (ND1 : NoDup h1) by (apply nodup_app_l in ND; exact ND).
  assert (Pnew : ~ In p h1) by (apply NoDup_remove_2 in ND; intros X; apply ND; apply in_or_app; auto).
  apply Forall_app in Ho as [Ho1 _].
  destruct (once_invariant _ _ _ ND1 Ho1 E1) as [IHs IHd].
  assert (D1 : delivered o1 q).
  { exists cb1. split; [|exact Q1]. apply (nth_in_concat o1 j1). rewrite Eo in H1. rewrite app_nth1 in H1 by lia. exact H1. }
  destruct (cstep_out_shape _ _ _ _ Es) as [X|[[_ X]|(c & Hh & A & X)]]; rewrite X in H2.
  - destruct H2.
  - destruct H2 as [<-|[]]. destruct Q2 as [Q2|[]]. inversion Q2; subst. apply Pnew, IHd, D1.
  - destruct H2 as [<-|[]]. apply in_put_pure in Q2 as [->|Q2]; [apply Pnew, IHd, D1|].
    apply in_cur_of_stored in Q2 as (l & Ll & Hl). destruct (IHs q) as [_ ND2]; [exists (key_of p c), l; auto|]. auto.
Qed.

(* No arrival is delivered twice: on any history of pairwise different PDUs
   (arrival positions are identities), a PDU occurs in at most one callback —
   two occurrences are the same callback of the same call. *)
Theorem at_most_once h r outs : NoDup h -> Forall seq_octet h -> crun [] h = Ok (r, outs) ->
  forall j1 j2 cb1 cb2 q, In cb1 (nth j1 outs []) -> In cb2 (nth j2 outs []) ->
  In (Some q) cb1 -> In (Some q) cb2 -> j1 = j2 /\ cb1 = cb2.
Proof.
  intros ND Ho E j1 j2 cb1 cb2 q H1 H2 Q1 Q2.
  destruct (Nat.lt_trichotomy j1 j2) as [L|[->|L]].
  - exfalso. eapply (not_twice_lt h r outs ND Ho E j1 j2); eauto.
  - split; [reflexivity|].
    destruct (step_at _ _ _ _ _ E H2) as (h1 & p & h2 & r1 & o1 & r2 & o4 & _ & _ & _ & Es & _).
    destruct (cstep_out_shape _ _ _ _ Es) as [X|[[_ X]|(c & _ & _ & X)]]; rewrite X in H1, H2.
    + destruct H1.
    + destruct H1 as [<-|[]]. destruct H2 as [<-|[]]. reflexivity.
    + destruct H1 as [<-|[]]. destruct H2 as [<-|[]]. reflexivity.
  - exfalso. eapply (not_twice_lt h r outs ND Ho E j2 j1); eauto.
Qed.

(* a call makes at most one callback *)
Lemma at_most_one_callback r p r1 out : cstep r p = Ok (r1, out) -> (List.length out <= 1)%nat.
Proof. intros E. destruct (cstep_out_shape _ _ _ _ E) as [->|[[_ ->]|(c & _ & _ & ->)]]; cbn; lia. Qed.

(* numbering the arrivals makes them pairwise different *)
Lemma number_from_ids n h : map d_id (number_from n h) = map (fun i => n + N.of_nat i) (seq 0 (List.length h)).
Proof.
  revert n; induction h as [|p t IH]; intros n; cbn [number_from map List.length seq]; [reflexivity|].
  cbn [d_id]. f_equal; [lia|]. rewrite IH. rewrite <- seq_shift, map_map. apply map_ext. intros i. lia.
Qed.
Lemma number_from_nodup n h : NoDup (number_from n h).
Proof.
  apply (NoDup_map_inv d_id). rewrite number_from_ids. apply FinFun.Injective_map_NoDup; [|apply seq_NoDup].
  intros a b H. lia.
Qed.

(* ---- once per completion ---------------------------------------------- *)
(* a delivery drops the entry of its key ... *)
Theorem delivery_drops_entry r p r1 out c : cstep r p = Ok (r1, out) -> hdr p = Some c -> out <> [] ->
  lk (key_of p c) r1 = None.
Proof.
  intros E Hh Hne. destruct (cstep_spec r p) as (r' & o' & E' & S). rewrite E in E'. inversion E'; subst r' o'.
  unfold seg_key in S. rewrite Hh in S. destruct S as (So & Ss & _). rewrite (sstep_unfold _ _ _ Hh) in So, Ss.
  destruct (accept c _); [|cbn in So; congruence]. destruct (full _); [exact Ss|cbn in So; congruence].
Qed.
(* ... traffic of other keys leaves it absent ... *)
Theorem other_traffic_keeps_absent k h r r' outs : crun r h = Ok (r', outs) -> hist_key k h = [] ->
  lk k r = None -> lk k r' = None.
Proof. intros E Hk L. destruct (projection k _ _ _ _ E) as [_ P]. rewrite P, Hk, L. reflexivity. Qed.
(* ... so a later duplicate of a segment of the delivered message (N >= 2)
   does not fire: it starts a fresh entry holding only itself (if it is well
   numbered; otherwise nothing is stored at all) *)
Theorem duplicate_starts_fresh r p r1 out c : lk (key_of p c) r = None -> hdr p = Some c -> 2 <= c_total c ->
  cstep r p = Ok (r1, out) ->
  out = [] /\
  (accept c (fresh c) = true ->
     lk (key_of p c) r1 = Some (put_pure (slot_ix c) p (fresh c)) /\ full (put_pure (slot_ix c) p (fresh c)) = false) /\
  (accept c (fresh c) = false -> lk (key_of p c) r1 = None).
Proof.
  intros L Hh Ht E. destruct (cstep_spec r p) as (r' & o' & E' & S). rewrite E in E'. inversion E'; subst r' o'.
  unfold seg_key in S. rewrite Hh in S. destruct S as (So & Ss & _). rewrite (sstep_unfold _ _ _ Hh), L in So, Ss.
  cbn [cur_of] in So, Ss.
  destruct (accept c (fresh c)) eqn:A.
  - assert (F : full (put_pure (slot_ix c) p (fresh c)) = false).
    { destruct (full (put_pure (slot_ix c) p (fresh c))) eqn:F; [|reflexivity]. exfalso.
      pose proof (accept_ix _ _ A) as Hi. rewrite (full_put_iff _ _ _ Hi) in F.
      assert (Hl : List.length (fresh c) = N.to_nat (c_total c)) by (unfold fresh; apply repeat_length).
      set (j := if Nat.eq_dec (slot_ix c) 0 then 1%nat else 0%nat).
      assert (Hj : (j < List.length (fresh c))%nat /\ j <> slot_ix c) by (unfold j; destruct (Nat.eq_dec (slot_ix c) 0); lia).
      destruct Hj as [Hj1 Hj2].
      destruct (nth_error (fresh c) j) as [o|] eqn:En; [|apply nth_error_None in En; lia].
      pose proof (nth_error_fresh _ _ _ En) as ->. specialize (F j None En Hj2). discriminate. }
    rewrite F in So, Ss. cbn [fst snd] in So, Ss.
    split; [exact So|]. split; [intros _; split; [exact Ss|exact F]|discriminate].
  - cbn [fst snd] in So, Ss. split; [exact So|]. split; [discriminate|intros _; exact Ss].
Qed.
