(* Round 5 lemmas about Model/Combiner.v: what the new generated cases exercise
   (runs of ignored segments, the two reference forms under one key, delivered
   arrays against stored ones). *)
From V Require Import Model.Combiner Model.CombinerRun Spec.CombinerSpec Proofs.CombinerProofs.
From Coq Require Import ZifyN ZifyNat ZifyBool.
Ltac Zify.zify_post_hook ::= Z.div_mod_to_equations.
Open Scope N_scope.

(* ---------------------------------------------------------- ignored segments *)
(* a segment numbered 0 or above the total it announces *)
Definition ill_numbered (p : dsm) : Prop :=
  exists c, hdr p = Some c /\ (c_seq c = 0 \/ c_total c < c_seq c).

Lemma accept_ill c cur : c_seq c = 0 \/ c_total c < c_seq c -> accept c cur = false.
Proof. unfold accept. intros [H|H]; destruct (c_seq c =? 0) eqn:E1; destruct (c_total c <? c_seq c) eqn:E2; cbn; try reflexivity; lia. Qed.

(* such a segment leaves the registry exactly as it was and makes no callback, whatever the registry holds *)
Lemma cstep_ill_numbered r p : ill_numbered p -> cstep r p = Ok (r, []).
Proof.
  intros (c & Hc & Hill). unfold cstep. rewrite concatenated_header_hdr, Hc. cbn [obind].
  rewrite (accept_ill c _ Hill). reflexivity.
Qed.
(* a run of any length of such segments — any totals, any keys, one key or many — changes nothing *)
Lemma crun_ill_numbered r h : Forall ill_numbered h -> crun r h = Ok (r, map (fun _ => []) h).
Proof.
  induction 1 as [|p h Hp _ IH]; cbn [crun map]; [reflexivity|].
  rewrite (cstep_ill_numbered r p Hp). cbn [obind]. rewrite IH. reflexivity.
Qed.
(* hence whatever follows the run is handled as if the run had not happened *)
Lemma crun_after_ill_numbered r h1 h2 : Forall ill_numbered h1 ->
  crun r (h1 ++ h2) = match crun r h2 with
                      | Ok (r', outs) => Ok (r', map (fun _ => []) h1 ++ outs)
                      | Err e => Err e | Panic => Panic end.
Proof.
  induction 1 as [|p h Hp _ IH]; cbn [app crun map].
  - destruct (crun r h2) as [[r' outs]| |]; reflexivity.
  - rewrite (cstep_ill_numbered r p Hp). cbn [obind]. rewrite IH.
    destruct (crun r h2) as [[r' outs]| |]; reflexivity.
Qed.
(* the generated runs are of that kind: every element of [ignored_segs] is ill numbered *)
Lemma segf_hdr form src dst ref total seq : ref < 65536 ->
  hdr (segf form src dst ref total seq) =
  Some {| c_ref := if form =? 0 then ref mod 256 else ref; c_total := total; c_seq := seq |}.
Proof.
  intros Hr. unfold segf, hdr, seg16. destruct (form =? 0); cbn; [reflexivity|].
  unfold de16. f_equal. f_equal. lia.
Qed.
Lemma ign_numbers_ill tm km i :
  ign_seq km (ign_total tm i) i = 0 \/ ign_total tm i < ign_seq km (ign_total tm i) i.
Proof.
  assert (Ht : ign_total tm i < 256).
  { unfold ign_total. destruct (tm =? 0); [lia|]. destruct (tm =? 1); lia. }
  set (t := ign_total tm i) in *. unfold ign_seq.
  assert (Hs : (t + 1) mod 256 = 0 \/ t < (t + 1) mod 256).
  { destruct (N.eq_dec t 255) as [->|Hne]; [left; reflexivity|right]. rewrite N.mod_small; lia. }
  destruct (km =? 0); [left; reflexivity|]. destruct (km =? 1); [exact Hs|].
  destruct (i mod 2 =? 0); [left; reflexivity|exact Hs].
Qed.
Lemma ignored_segs_ill form src dst rm tm km lo n : lo < 65536 ->
  Forall ill_numbered (ignored_segs form src dst rm tm km lo n).
Proof.
  intros Hlo. unfold ignored_segs. apply Forall_forall. intros p Hin. apply in_map_iff in Hin as (i & <- & _).
  eexists. split.
  - apply segf_hdr. unfold ign_ref. destruct (rm =? 0); [|exact Hlo]. apply N.mod_lt. discriminate.
  - cbn [c_seq c_total]. apply ign_numbers_ill.
Qed.

(* --------------------------------------------------- the two reference forms *)
(* ConcatenatedHeader yields a uint16 reference for both elements, the key holds
   that number: an 8-bit reference r and the 16-bit reference 0x00rr are ONE
   reference number — segments carrying them are filed under one key *)
Lemma forms_same_header r t s : r < 256 ->
  concatenated_header (Some [(0, [r; t; s])]) = concatenated_header (Some [(8, [0; r; t; s])]).
Proof. intros Hr. cbn. unfold de16. replace (256 * 0 + r) with r by lia. reflexivity. Qed.
Lemma forms_same_key src dst ref total s1 s2 : ref < 256 ->
  seg_key (segf 0 src dst ref total s1) = seg_key (segf 1 src dst ref total s2).
Proof.
  intros Hr. unfold seg_key. rewrite !segf_hdr by lia. cbn [N.eqb]. unfold key_of. cbn.
  rewrite N.mod_small by lia. reflexivity.
Qed.
(* ... so a message whose parts arrive in different forms is delivered as one *)
Lemma mixed_forms_delivered :
  run_ids [segf 0 (a_ 1 1 [49]) (a_ 1 1 [50]) 5 2 1; segf 1 (a_ 1 1 [49]) (a_ 1 1 [50]) 5 2 2] = Ok [[]; [[1; 2]]].
Proof. vm_compute. reflexivity. Qed.

(* ------------------------------------------- delivered arrays vs stored ones *)
Definition all_some (cb : callback) : Prop := forall o, In o cb -> exists q, o = Some q.
Lemma full_all_some l : full l = true <-> all_some l.
Proof.
  unfold full, all_some. rewrite forallb_forall. split; intros H o Hin; specialize (H o Hin).
  - destruct o as [q|]; [eexists; reflexivity|discriminate].
  - destruct H as [q ->]. reflexivity.
Qed.
(* whatever a step hands to the callback has no empty slot ... *)
Lemma cstep_out_full r p r1 out cb : cstep r p = Ok (r1, out) -> In cb out -> full cb = true.
Proof.
  unfold cstep. rewrite concatenated_header_hdr. cbn [obind]. destruct (hdr p) as [c|].
  - set (parts := match lookup beq_key (key_of p c) r with Some l => l | None => fresh c end).
    destruct (accept c parts) eqn:A; [|intros H; inversion H; subst; contradiction].
    rewrite (put_ok _ _ _ (accept_ix _ _ A)). cbn [obind].
    destruct (full (put_pure (slot_ix c) p parts)) eqn:F; intros H; inversion H; subst; cbn [In]; [|contradiction].
    intros [<-|[]]. exact F.
  - intros H; inversion H; subst. cbn [In]. intros [<-|[]]. reflexivity.
Qed.
(* ... and after any history nothing the registry still holds is such an array: the combiner keeps no
   array it has handed out (value level: every stored array has an empty slot, no delivered one has) *)
Lemma delivered_not_stored h r outs : Forall seq_octet h -> crun [] h = Ok (r, outs) ->
  forall k l, lookup beq_key k r = Some l -> full l = false.
Proof.
  intros Ho Hr k l Hl. pose proof (registry_invariant h r outs Ho Hr k) as Hinv.
  unfold st_inv in Hinv. rewrite Hl in Hinv. apply Hinv.
Qed.
